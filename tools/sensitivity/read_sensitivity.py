#!/usr/bin/env python3
"""Sensitivity run for B_Read.v: one semantic edit of storage.go at a time."""
import os, shutil, subprocess, sys, time
ROOT = os.path.dirname(os.path.dirname(os.path.dirname(os.path.abspath(__file__))))   # the verif tree
WORK = os.environ.get('SENS_WORK', '/root/scratch/read_sens')    # scratch: repo export, mutant, a copy of coq/
BASE = os.path.join(WORK, 'base')
COQ = os.path.join(ROOT, 'coq')          # must be built (make) and contain bridge/B_Read.v
GEN = os.path.join(ROOT, 'build', 'gen')
ENV = dict(os.environ, GOFLAGS='-mod=mod', GOPROXY='off')

def rep(old, new, count=1):
    def f(s):
        assert s.count(old) >= 1, 'pattern not found: ' + old[:50]
        return s.replace(old, new, count)
    return f

def chain(*fs):
    def f(s):
        for g in fs:
            s = g(s)
        return s
    return f

LOOP_CALL = '''			if err := processLine(pendingNo, pending); err != nil {
				return nil, err
			}
'''
MUTS = [
 ('M00 unmodified', lambda s: s),
 ('M01 bad final line tolerated although file ends with newline', rep('if !endsWithNewline {', 'if !endsWithNewline || true {')),
 ('M02 bad lines tolerated anywhere (loop ignores processLine error)',
    rep('			if err := processLine(pendingNo, pending); err != nil {\n				return nil, err', '			if err := processLine(pendingNo, pending); err != nil && false {\n				return nil, err')),
 ('M03 pending buffering dropped (last line processed inside the loop)',
    rep('''		if pending != nil {
''' + LOOP_CALL + '''		}
		pending = line
		pendingNo = currentNo
''', '''		if err := processLine(currentNo, line); err != nil {
			return nil, err
		}
''')),
 ('M04 blank lines become errors', rep('''		if len(trimmed) == 0 {
			return nil
		}
''', '')),
 ('M05 line numbers off by one (currentNo starts at 1)', rep('currentNo := 0', 'currentNo := 1')),
 ('M06 ErrTooLong ignored', rep('if err := scanner.Err(); err != nil {', 'if err := scanner.Err(); err != nil && !errors.Is(err, bufio.ErrTooLong) {')),
 ('M07 getEventsPath prefers events.jsonl', chain(
    rep('os.Stat(plansPath); err == nil {\n		return plansPath', 'os.Stat(XXX); err == nil {\n		return XXX'),
    rep('os.Stat(oldPath); err == nil {\n		return oldPath', 'os.Stat(plansPath); err == nil {\n		return plansPath'),
    rep('os.Stat(XXX); err == nil {\n		return XXX', 'os.Stat(oldPath); err == nil {\n		return oldPath'))),
 ('M08 encodeEventLine compares with >=', rep('if len(line) > maxEventLineBytes {', 'if len(line) >= maxEventLineBytes {')),
 ('M09 encodeEventLine uses a different constant', rep('if len(line) > maxEventLineBytes {', 'if len(line) > maxEventLineBytes+1 {')),
 ('M10 encodeEventLine does not count the newline', rep('if len(line) > maxEventLineBytes {', 'if len(data) > maxEventLineBytes {')),
 ('M11 endsWithNewline computed from the first byte', rep('file.ReadAt(last, info.Size()-1); err == nil', 'file.ReadAt(last, 0); err == nil')),
 ('M12 scanner limit differs from the writer limit', rep('scanner.Buffer(make([]byte, 0, 64*1024), maxEventLineBytes)', 'scanner.Buffer(make([]byte, 0, 64*1024), 2*maxEventLineBytes)')),
 ('M13 scanner token not copied', rep('line := append([]byte(nil), scanner.Bytes()...)', 'line := scanner.Bytes()')),
 ('M14 missing file is an error', rep('''		if errors.Is(err, os.ErrNotExist) {
			return nil, nil
		}
		return nil, err
	}
	defer file.Close()

	endsWithNewline''', '''		return nil, err
	}
	defer file.Close()

	endsWithNewline''')),
 ('M15 hasUnterminatedTail inverted', rep("return last[0] != '\\n', nil", "return last[0] == '\\n', nil")),
 ('M16 endsWithNewline negated in the tolerance test', rep('if !endsWithNewline {', 'if endsWithNewline {')),
 ('M17 getEventsPath defaults to events.jsonl for new stores', rep('''	// Default to plans.jsonl for new files
	return plansPath''', '''	// Default to plans.jsonl for new files
	return oldPath''')),
 ('M18 maxEventLineBytes changed to 5 MiB (reader and writer alike)', rep('const maxEventLineBytes = 10 * 1024 * 1024', 'const maxEventLineBytes = 5 * 1024 * 1024')),
 ('M19 parse error reports currentNo instead of pendingNo', rep(LOOP_CALL, LOOP_CALL.replace('processLine(pendingNo, pending)', 'processLine(currentNo, pending)'))),
 ('M20 final line not processed at all', rep('''	if pending != nil {
		// Tolerate''', '''	if pending != nil && false {
		// Tolerate''')),
 ('H01 harmless renames (pending->held, processLine->handle, endsWithNewline->nlAtEnd, plansPath->pp, line->ln)', chain(
    lambda s: s.replace('pending', 'held').replace('processLine', 'handle').replace('endsWithNewline', 'nlAtEnd'),
    lambda s: s.replace('plansPath', 'pp'))),
 ('H02 harmless: two independent declarations swapped', rep('''	pendingNo := 0
	currentNo := 0
''', '''	currentNo := 0
	pendingNo := 0
''')),
]

def main():
    only = sys.argv[1:]
    os.makedirs(WORK, exist_ok=True)
    if not os.path.exists(BASE):
        os.makedirs(BASE)
        subprocess.run('git -C /repo archive HEAD | tar -x -C ' + BASE, shell=True, check=True)
    coq = os.path.join(WORK, 'coq')
    if not os.path.exists(coq):
        shutil.copytree(COQ, coq)
    src = open(os.path.join(BASE, 'internal/ergo/storage.go')).read()
    results = []
    for name, f in MUTS:
        if only and not any(name.startswith(o) for o in only):
            continue
        repo = os.path.join(WORK, 'repo')
        shutil.rmtree(repo, ignore_errors=True)
        shutil.copytree(BASE, repo)
        mutated = f(src)
        if not name.startswith('M00'):
            assert mutated != src, name
        open(os.path.join(repo, 'internal/ergo/storage.go'), 'w').write(mutated)
        b = subprocess.run(['go', 'build', './...'], cwd=repo, env=ENV, capture_output=True, text=True)
        if b.returncode != 0:
            results.append((name, 'GO BUILD FAILED', b.stderr.strip().splitlines()[:3]))
            print(results[-1], flush=True)
            continue
        g = subprocess.run([GEN, repo, os.path.join(coq, 'gen')], capture_output=True, text=True)
        assert g.returncode == 0, g.stderr
        t0 = time.time()
        c1 = subprocess.run(['timeout', '600', 'coqc', '-Q', 'theories', 'Ergo', '-Q', 'gen', 'ErgoGen', '-Q', 'bridge', 'ErgoBridge',
                             '-w', '-all', 'gen/ReadGen.v'], cwd=coq, capture_output=True, text=True)
        assert c1.returncode == 0, c1.stderr
        c2 = subprocess.run(['timeout', '900', 'coqc', '-Q', 'theories', 'Ergo', '-Q', 'gen', 'ErgoGen', '-Q', 'bridge', 'ErgoBridge',
                             '-w', '-all', 'bridge/B_Read.v'], cwd=coq, capture_output=True, text=True)
        gen = open(os.path.join(coq, 'gen/ReadGen.v')).read()
        unknown = gen.count('LSUnknown') + gen.count('LEUnknown')
        where = ''
        if c2.returncode != 0:
            err = (c2.stderr + c2.stdout)
            for line in err.splitlines():
                if line.startswith('File'):
                    ln = int(line.split('line ')[1].split(',')[0])
                    # which theorem: last "Theorem/Example/Corollary" before ln
                    last = ''
                    for i, l in enumerate(open(os.path.join(coq, 'bridge/B_Read.v')).read().splitlines(), 1):
                        if i > ln: break
                        for kw in ('Theorem ', 'Example ', 'Corollary ', 'Lemma '):
                            if l.startswith(kw):
                                last = l.split()[1]
                    where = last
                    break
        status = 'PASS' if c2.returncode == 0 else 'FAIL at ' + where
        results.append((name, status, 'unknown nodes: %d' % unknown, '%.0fs' % (time.time() - t0)))
        print(results[-1], flush=True)
    shutil.rmtree(WORK, ignore_errors=True)

main()
