#!/usr/bin/env python3
"""Sensitivity run for the readiness / compaction bridge: one semantic edit of the Go sources at a time
(in a scratch copy of /repo) -> tools/gen -> coqc gen/ReadyGen.v, gen/CompactGen.v, bridge/B_Ready.v, bridge/B_Compact.v.
Every semantic edit must make the corresponding B_*.v fail; the unmodified source and the HARMLESS edits must pass.

    tools/ready_compact_sensitivity.py [substring-of-mutation-name ...]

Needs build/gen (tools/gen built) and a compiled coq/ tree.  Works in <root>/build/sens and <scratch>/pB_repo (removed at the end)."""
import os, shutil, subprocess, sys
SRC = '/repo'
REPO = os.environ.get('SENS_REPO_COPY', '/root/scratch/pB_repo')
ROOT = os.path.dirname(os.path.dirname(os.path.abspath(__file__)))
COQ = ROOT + '/coq'
GEN = ROOT + '/build/gen'
G = 'internal/ergo/graph.go'

MUTS = [
 ('baseline (unmodified)', []),
 ('isReady ignores ClaimedBy', [(G, '''	if task.ClaimedBy != "" {
		return false
	}
	for dep := range graph.Deps[task.ID] {''', '''	for dep := range graph.Deps[task.ID] {''')]),
 ('isReady treats canceled deps as incomplete', [(G, '''		if other.State != stateDone && other.State != stateCanceled {
			return false
		}''', '''		if other.State != stateDone {
			return false
		}''')]),
 ('isBlocked: blocked state no longer blocks', [(G, '''	if task.State == stateBlocked {
		return true
	}''', '''	if task.State == stateBlocked {
		return false
	}''')]),
 ('isEpicComplete ignores canceled', [(G, '''			if task.State != stateDone && task.State != stateCanceled {
				return false
			}''', '''			if task.State != stateDone {
				return false
			}''')]),
 ('areEpicDepsComplete drops the isEpic check', [(G, '''		if !isEpic(depEpic) {
			continue
		}
''', '')]),
 ('comparison ties broken by reverse id (readyTasks)', [(G, '''		if tasks[i].CreatedAt.Equal(tasks[j].CreatedAt) {
			return tasks[i].ID < tasks[j].ID
		}
		return tasks[i].CreatedAt.Before(tasks[j].CreatedAt)
	})
	return tasks''', '''		if tasks[i].CreatedAt.Equal(tasks[j].CreatedAt) {
			return tasks[j].ID < tasks[i].ID
		}
		return tasks[i].CreatedAt.Before(tasks[j].CreatedAt)
	})
	return tasks''')]),
 ('stateDone constant value changed', [('internal/ergo/model.go', 'stateDone     = "done"', 'stateDone     = "finished"')]),
 ('listTasks: epic filter dropped', [(G, '''		if epicID != "" && task.EpicID != epicID {
			continue
		}
''', '')]),
 ('isReady: extra unrecognised statement', [(G, '''	if task.State != stateTodo {
		return false
	}
	if task.ClaimedBy != "" {
		return false
	}
	for dep''', '''	if task.State != stateTodo {
		return false
	}
	if strings.HasPrefix(task.ClaimedBy, "x") {
		return false
	}
	for dep''')]),
 ('HARMLESS: rename local variable other -> o2 in isReady', [(G, '''		other, ok := graph.Tasks[dep]
		if !ok {
			continue
		}
		if other.State != stateDone && other.State != stateCanceled {
			return false
		}''', '''		o2, ok := graph.Tasks[dep]
		if !ok {
			continue
		}
		if o2.State != stateDone && o2.State != stateCanceled {
			return false
		}''')]),
 ('compactEvents emits claim before state', 'SWAP_CLAIM_STATE'),
 ('compactEvents drops !task.IsEpic &&', [(G, '''if !task.IsEpic && (task.EpicID != createdEpicID || (!lastEpicAt.IsZero() && lastEpicAt.After(createdAt))) {''',
    '''if (task.EpicID != createdEpicID || (!lastEpicAt.IsZero() && lastEpicAt.After(createdAt))) {''')]),
 ('compactEvents: title stamp uses lastBodyAt', [(G, 'ts := pickTime(lastTitleAt, task.UpdatedAt)', 'ts := pickTime(lastBodyAt, task.UpdatedAt)')]),
 ('compactEvents: results newest first', [(G, 'for i := len(task.Results) - 1; i >= 0; i-- {', 'for i := 0; i < len(task.Results); i++ {')]),
 ('compactEvents: created state override dropped', [(G, '''			if meta.CreatedState != "" {
				createdState = meta.CreatedState
			}
''', '')]),
 ('compactEvents: new_task carries current title', [(G, '			Title:     createdTitle,', '			Title:     task.Title,')]),
 ('HARMLESS: rename local variable ts -> stamp in the claim emission', [(G, '''			ts := pickTime(lastClaimAt, task.UpdatedAt)
			claimEvent, err := newEvent("claim", ts, ClaimEvent{
				ID:      task.ID,
				AgentID: task.ClaimedBy,
				TS:      formatTime(ts),''', '''			stamp := pickTime(lastClaimAt, task.UpdatedAt)
			claimEvent, err := newEvent("claim", stamp, ClaimEvent{
				ID:      task.ID,
				AgentID: task.ClaimedBy,
				TS:      formatTime(stamp),''')]),
('isReady ranges over RDeps', [(G, '''	if task.ClaimedBy != "" {
		return false
	}
	for dep := range graph.Deps[task.ID] {''', '''	if task.ClaimedBy != "" {
		return false
	}
	for dep := range graph.RDeps[task.ID] {''')]),
 ('isBlocked: || becomes &&', [(G, 'if task.State != stateTodo || task.ClaimedBy != "" {', 'if task.State != stateTodo && task.ClaimedBy != "" {')]),
 ('kindForTask: epics reported as tasks', [('internal/ergo/model.go', '''	if task.IsEpic {
		return kindEpic
	}
	return kindTask''', '''	if task.IsEpic {
		return kindTask
	}
	return kindTask''')]),
 ('sortedTasks comparator reversed', [(G, 'sort.Slice(values, func(i, j int) bool { return values[i].ID < values[j].ID })', 'sort.Slice(values, func(i, j int) bool { return values[j].ID < values[i].ID })')]),
 ('pickTime prefers the fallback', [('internal/ergo/util.go', '''	if !candidate.IsZero() {
		return candidate
	}
	return fallback''', '''	if !fallback.IsZero() {
		return fallback
	}
	return candidate''')]),
 ('dependsLinkType constant changed', 'CONST_DEPENDS'),
 ('sortedKeys no longer sorts', [('internal/ergo/util.go', '''		keys = append(keys, key)
	}
	sort.Strings(keys)
	return keys
}

func sortedMapKeys''', '''		keys = append(keys, key)
	}
	return keys
}

func sortedMapKeys''')]),
 ('compactEvents: links emitted before tasks', 'LINKS_FIRST'),
('readyTasks lists with readyOnly=false', [(G, 'tasks := listTasks(graph, epicID, true)', 'tasks := listTasks(graph, epicID, false)')]),
 ('readyTasks skips the kind filter', [(G, '''	tasks = filterTasksByKind(tasks, kind)
	if len(tasks) == 0 {
		return nil
	}
	sort.Slice''', '''	sort.Slice''')]),
 ('HARMLESS: rename parameter epicID -> scope in readyTasks', [(G, '''func readyTasks(graph *Graph, epicID string, kind Kind) []*Task {
	tasks := listTasks(graph, epicID, true)''', '''func readyTasks(graph *Graph, scope string, kind Kind) []*Task {
	tasks := listTasks(graph, scope, true)''')]),
]

def sh(cmd, **kw):
    return subprocess.run(cmd, shell=True, stdout=subprocess.PIPE, stderr=subprocess.STDOUT, text=True, **kw)

def swap_claim_state(src):
    a = src.index('\t\tif task.State != createdState ||')
    b = src.index('\t\tif task.ClaimedBy != "" {')
    c = src.index('\t\t// Emit result events')
    return src[:a] + src[b:c] + src[a:b] + src[c:]

def main():
    only = sys.argv[1:]
    for idx, (name, edits) in enumerate(MUTS):
        if only and not any(o in name for o in only):
            continue
        if os.path.exists(REPO):
            shutil.rmtree(REPO)
        # the committed tree, not the working tree: bin/mutate may hold a seeded patch on /repo at any time
        os.makedirs(REPO)
        r0 = sh('git -C %s archive HEAD | tar -x -C %s' % (SRC, REPO))
        assert r0.returncode == 0, r0.stdout
        if edits == 'CONST_DEPENDS':
            import re, glob
            hit = 0
            for f in glob.glob(REPO + '/internal/ergo/*.go'):
                t = open(f).read()
                t2 = re.sub(r'dependsLinkType(\s*)=(\s*)"depends"', r'dependsLinkType\1=\2"dep"', t)
                if t2 != t:
                    open(f, 'w').write(t2); hit += 1
            assert hit == 1, hit
        elif edits == 'LINKS_FIRST':
            p = os.path.join(REPO, G)
            src0 = open(p).read()
            a = src0.index('\tfor _, task := range tasks {\n\t\tmeta := graph.Meta[task.ID]')
            b = src0.index('\tfromIDs := sortedMapKeys(graph.Deps)')
            c = src0.index('\treturn events, nil\n}\n\nfunc readyTasks')
            open(p, 'w').write(src0[:a] + src0[b:c] + src0[a:b] + src0[c:])
        elif edits == 'SWAP_CLAIM_STATE':
            p = os.path.join(REPO, G)
            src0 = open(p).read()
            open(p, 'w').write(swap_claim_state(src0))
        else:
            for (f, old, new) in edits:
                p = os.path.join(REPO, f)
                s = open(p).read()
                assert s.count(old) == 1, (name, s.count(old))
                open(p, 'w').write(s.replace(old, new))
        r = sh('cd %s && gofmt -l internal/ergo/ 2>&1; GOFLAGS=-mod=mod GOPROXY=off go vet ./internal/ergo/ 2>&1 | head -5' % REPO) if '--vet' in sys.argv else None
        out = '%s/build/sens/m%02d' % (ROOT, idx)
        shutil.rmtree(out, ignore_errors=True)
        os.makedirs(out + '/gen'); os.makedirs(out + '/bridge')
        g = sh('%s %s %s/gen' % (GEN, REPO, out))
        res = {'gen': 'ok' if g.returncode == 0 else 'FAILED: ' + g.stdout.strip()[:200]}
        q = '-Q theories Ergo -Q %s/gen ErgoGen -Q bridge ErgoBridge -Q %s/bridge ErgoBridgeT -w -all' % (out, out)
        for genf, bf in (('ReadyGen', 'B_Ready'), ('CompactGen', 'B_Compact')):
            if not os.path.exists('%s/gen/%s.v' % (out, genf)) or not os.path.exists('%s/bridge/%s.v' % (COQ, bf)):
                res[bf] = 'n/a'; continue
            c = sh('cd %s && timeout 600 coqc %s %s/gen/%s.v' % (COQ, q, out, genf))
            if c.returncode != 0:
                res[bf] = 'GEN FILE DOES NOT COMPILE: ' + c.stdout.strip()[:300]; continue
            shutil.copy('%s/bridge/%s.v' % (COQ, bf), '%s/bridge/%s.v' % (out, bf))
            c = sh('cd %s && timeout 900 coqc %s %s/bridge/%s.v' % (COQ, q, out, bf))
            if c.returncode == 0:
                res[bf] = 'PASS'
            else:
                lines = [l for l in c.stdout.splitlines() if l.startswith('File ')]
                loc = lines[0] if lines else '?'
                # which lemma: find the enclosing Lemma/Theorem name
                lem = '?'
                try:
                    ln = int(loc.split('line ')[1].split(',')[0])
                    src = open('%s/bridge/%s.v' % (out, bf)).read().splitlines()
                    for k in range(ln - 1, -1, -1):
                        w = src[k].split()
                        if w and w[0] in ('Lemma', 'Theorem', 'Example', 'Corollary'):
                            lem = w[1]; break
                except Exception:
                    pass
                res[bf] = 'FAIL at line %s in %s' % (loc.split('line ')[1].split(',')[0] if 'line ' in loc else '?', lem)
        print('%-62s gen=%s | B_Ready: %s | B_Compact: %s' % (name, res['gen'], res.get('B_Ready'), res.get('B_Compact')), flush=True)
    shutil.rmtree(REPO, ignore_errors=True)

main()
