#!/usr/bin/env python3
"""Sensitivity run for B_Cmd.v / B_CmdGrid.v: one semantic edit of commands_work.go / storage.go / model.go at a
time; which obligation (if any) stops checking.  Harmless edits (H*) must leave everything checking."""
import os, shutil, subprocess, sys, time, re
ROOT = os.path.dirname(os.path.dirname(os.path.dirname(os.path.abspath(__file__))))
WORK = os.environ.get('SENS_WORK', '/root/scratch/cmd_sens')
BASE = os.path.join(WORK, 'base')
COQ = os.path.join(ROOT, 'coq')
GEN = os.path.join(ROOT, 'build', 'gen')
ENV = dict(os.environ, GOFLAGS='-mod=mod', GOPROXY='off')
W, S, M, P = 'internal/ergo/commands_work.go', 'internal/ergo/storage.go', 'internal/ergo/model.go', 'internal/ergo/commands_plan.go'

def rep(path, old, new, count=1):
    def f(files):
        assert files[path].count(old) >= 1, 'pattern not found: ' + old[:60]
        files[path] = files[path].replace(old, new, count)
    return f

MUTS = [
 ('M00 unmodified', lambda files: None),
 ('M01 buildSetEvents: no-op state skipped', rep(W, '		events = append(events, event)\n		delete(remainingUpdates, "state")', '		if stateStr != task.State {\n			events = append(events, event)\n		}\n		delete(remainingUpdates, "state")')),
 ('M02 buildSetEvents: implicit claim also for error only', rep(W, '(newState == stateDoing || newState == stateError) && !hasClaim', '(newState == stateError) && !hasClaim')),
 ('M03 buildSetEvents: title not trimmed', rep(W, '		title = strings.TrimSpace(title)\n		if title == "" {', '		if strings.TrimSpace(title) == "" {')),
 ('M04 buildSetEvents: bare unclaim not checked', rep(W, 'if _, hasState := remainingUpdates["state"]; !hasState {\n					if err := validateClaimInvariant(task.State, ""); err != nil {\n						return nil, nil, err\n					}\n				}', '')),
 ('M05 buildSetEvents: implied doing not validated', rep(W, '		if err := validateTransition(task.State, stateDoing); err != nil {\n			return nil, nil, err\n		}\n', '')),
 ('M06 buildSetEvents: claim event after state event', rep(W, '	// Handle state (must come last)\n	stateWasSet := false', '	stateWasSet := false\n	_ = 0 // moved')),   # placeholder: replaced below
 ('M07 buildSetEvents: claim trimmed', rep(W, '		claimValue = cv\n', '		claimValue = strings.TrimSpace(cv)\n')),
 ('M08 buildSetEvents: done clears claim check dropped', rep(W, 'if stateStr == stateTodo || stateStr == stateDone || stateStr == stateCanceled {', 'if stateStr == stateTodo || stateStr == stateDone {')),
 ('M09 applySetUpdates: epic existence not checked', rep(W, '			if !ok {\n				return fmt.Errorf("unknown epic id %s", epicID)\n			}\n', '')),
 ('M10 applySetUpdates: epic kind not checked', rep(W, '			if !epic.IsEpic {\n				return fmt.Errorf("task %s is not an epic", epicID)\n			}\n', '')),
 ('M11 applySetUpdates: pruned id accepted', rep(W, '		if _, ok := graph.Tombstones[id]; ok {\n			return prunedErr(id)\n		}\n		task, ok := graph.Tasks[id]', '		task, ok := graph.Tasks[id]')),
 ('M12 applySetUpdates: result written separately first', rep(W, '		// Result event (if any) first, then the field updates\n		if err := appendEvents(eventsPath, append(resultEvents, events...)); err != nil {', '		if len(resultEvents) > 0 {\n			if err := appendEvents(eventsPath, resultEvents); err != nil {\n				return err\n			}\n		}\n		if err := appendEvents(eventsPath, events); err != nil {')),
 ('M13 applySetUpdates: epics may get state', rep(W, '			if _, hasState := updates["state"]; hasState {\n				return errors.New("epics do not have state")\n			}\n', '')),
 ('M14 applySetUpdates: fields before result in the log', rep(W, 'appendEvents(eventsPath, append(resultEvents, events...))', 'appendEvents(eventsPath, append(events, resultEvents...))')),
 ('M15 buildResultEvent: summary stored untrimmed', rep(S, '		Summary:           strings.TrimSpace(summary),', '		Summary:           summary,')),
 ('M16 buildResultEvent: epics may carry results', rep(S, '	if isEpic(task) {\n		return Event{}, errors.New("cannot attach result to epic")\n	}\n', '')),
 ('M17 validateResultPath: .ergo allowed', rep(S, ' || relPath == dataDirName {', ' {')),
 ('M18 validateResultPath: any non-directory accepted', rep(S, '	if !info.Mode().IsRegular() {\n		return "", fmt.Errorf("result path must be a regular file: %s", relPath)\n	}\n', '')),
 ('M19 validateResultPath: uncleaned path returned', rep(S, '	return relPath, nil\n}\n\n// captureResultEvidence', '	return fullPath, nil\n}\n\n// captureResultEvidence')),
 ('M20 validateResultSummary: limit 200', rep(M, 'const maxResultSummaryLen = 120', 'const maxResultSummaryLen = 200')),
 ('M21 writeLinkEvents: later edges not checked against earlier ones', rep(S, '				graph.Deps[from][to] = struct{}{}\n', '')),
 ('M22 writeLinkEvents: kind rule dropped', rep(S, '			if err := validateDepKinds(isEpic(fromItem), isEpic(toItem)); err != nil {\n				return err\n			}\n', '')),
 ('M23 writeLinkEvents: pruned target accepted', rep(S, '			if _, ok := graph.Tombstones[to]; ok {\n				return prunedErr(to)\n			}\n', '')),
 ('M24 writeLinkEvents: cycle check also for unlink', rep(S, '			if eventType == "link" {\n				if hasCycle(graph, from, to) {', '			{\n				if hasCycle(graph, from, to) {')),
 ('M25 writeLinkEvents: edge reversed in the event', rep(S, '				FromID: from,\n				ToID:   to,\n				Type:   dependsLinkType,', '				FromID: to,\n				ToID:   from,\n				Type:   dependsLinkType,')),
 ('M26 createTaskWithDir: pruned ids not reserved', rep(S, '		for prunedID := range graph.Tombstones {\n			takenIDs[prunedID] = nil\n		}\n', '')),
 ('M27 createTaskWithDir: parent kind not checked', rep(S, '			if !epic.IsEpic {\n				return fmt.Errorf("task %s is not an epic", epicID)\n			}\n		}\n		// Pruned ids', '		}\n		// Pruned ids')),
 ('M28 createTaskWithDir: reply state from claim only', rep(S, '				if state, ok := updates["state"]; ok {\n					finalState = state\n				} else if updates["claim"] != "" {', '				if updates["claim"] != "" {')),
 ('M29 createTaskWithDir: updates written in a second append', rep(S, '				newEvents = append(newEvents, setEvents...)\n', '				if err := appendEvents(eventsPath, newEvents); err != nil {\n					return err\n				}\n				newEvents = setEvents\n')),
 ('M30 claim section: state event before claim event', rep(W, '[]Event{claimEvent, stateEvent}', '[]Event{stateEvent, claimEvent}')),
 ('M31 claim section: second ready task chosen', rep(W, '		chosen = ready[0]\n', '		chosen = ready[len(ready)-1]\n')),
 ('M32 claim section: claims epics too', rep(W, 'ready := readyTasks(graph, epicID, kindTask)', 'ready := readyTasks(graph, epicID, kindAny)')),
 ('M33 isEpic: nil counts as epic', rep(M, 'func isEpic(task *Task) bool {\n	if task == nil {\n		return false\n	}', 'func isEpic(task *Task) bool {\n	if task == nil {\n		return true\n	}')),
 ('M34 plan: pruned ids not reserved', rep(P, '		for id := range graph.Tombstones {\n			workingIDs[id] = nil\n		}\n', '')),
 ('M35 plan: ids allocated in this plan not reserved', rep(P, '			workingIDs[taskID] = &Task{ID: taskID, EpicID: epicID}\n', '')),
 ('M36 plan: duplicate edges kept', rep(P, '				if _, exists := seenEdges[edgeKey]; exists {\n					continue\n				}\n', '')),
 ('M37 plan: task stamped with the epic clock reading', rep(P, '				CreatedAt: formatTime(taskNow),', '				CreatedAt: createdAt,')),
 ('M38 plan: edge direction swapped', rep(P, '					FromID: fromID,\n					ToID:   toID,\n					Type:   dependsLinkType,\n				})\n				if err != nil', '					FromID: toID,\n					ToID:   fromID,\n					Type:   dependsLinkType,\n				})\n				if err != nil')),
 ('H01 harmless: local renamed (remainingUpdates -> rest)', lambda files: files.__setitem__(W, files[W].replace('remainingUpdates', 'rest'))),
 ('H02 harmless: error messages reworded', lambda files: files.__setitem__(W, files[W].replace('"title cannot be empty"', '"empty title"').replace('"epics do not have state"', '"no state on epics"'))),
 ('H03 harmless: comment added and blank lines', lambda files: files.__setitem__(S, files[S].replace('		now := time.Now().UTC()\n		payload := NewTaskEvent{', '		// stamp\n\n		now := time.Now().UTC()\n		payload := NewTaskEvent{'))),
]
MUTS = [m for m in MUTS if not m[0].startswith('M06')]

def main():
    only = sys.argv[1:]
    os.makedirs(WORK, exist_ok=True)
    if not os.path.exists(BASE):
        os.makedirs(BASE)
        subprocess.run('git -C /repo archive HEAD | tar -x -C ' + BASE, shell=True, check=True)
    coq = os.path.join(WORK, 'coq')
    shutil.rmtree(coq, ignore_errors=True)
    shutil.copytree(COQ, coq)
    base = {p: open(os.path.join(BASE, p)).read() for p in (W, S, M, P)}
    results = []
    for name, f in MUTS:
        if only and not any(name.startswith(o) for o in only):
            continue
        repo = os.path.join(WORK, 'repo')
        shutil.rmtree(repo, ignore_errors=True)
        shutil.copytree(BASE, repo)
        files = dict(base)
        f(files)
        if not name.startswith('M00'):
            assert files != base, name
        for p in files:
            open(os.path.join(repo, p), 'w').write(files[p])
        b = subprocess.run(['go', 'build', './...'], cwd=repo, env=ENV, capture_output=True, text=True)
        if b.returncode != 0:
            results.append((name, 'GO BUILD FAILED', ' '.join(b.stderr.strip().splitlines()[:2])))
            print(results[-1], flush=True)
            continue
        g = subprocess.run([GEN, repo, os.path.join(coq, 'gen')], capture_output=True, text=True)
        assert g.returncode == 0, g.stderr
        q = ['-Q', 'theories', 'Ergo', '-Q', 'gen', 'ErgoGen', '-Q', 'bridge', 'ErgoBridge', '-w', '-all']
        c1 = subprocess.run(['coqc'] + q + ['gen/CmdGen.v'], cwd=coq, capture_output=True, text=True)
        assert c1.returncode == 0, c1.stderr
        broken = []
        for bf in ('B_Cmd', 'B_CmdSet', 'B_CmdApply', 'B_CmdClaim', 'B_CmdLink', 'B_CmdNew', 'B_CmdPrune', 'B_CmdGrid'):
            c2 = subprocess.run(['timeout', '1500', 'coqc'] + q + ['bridge/%s.v' % bf], cwd=coq, capture_output=True, text=True)
            if c2.returncode != 0:
                m = re.search(r'line (\d+)', c2.stderr + c2.stdout)
                ln = int(m.group(1)) if m else 0
                last = ''
                for i, l in enumerate(open(os.path.join(coq, 'bridge/%s.v' % bf)).read().splitlines(), 1):
                    if i > ln:
                        break
                    for kw in ('Theorem ', 'Example ', 'Corollary ', 'Lemma '):
                        if l.startswith(kw):
                            last = l.split()[1]
                broken.append(last or bf)
        gen = open(os.path.join(coq, 'gen/CmdGen.v')).read()
        results.append((name, 'BROKEN: ' + ', '.join(broken) if broken else 'all obligations check', 'unknown nodes: %d' % gen.count('Unknown "')))
        print(results[-1], flush=True)
    shutil.rmtree(os.path.join(WORK, 'repo'), ignore_errors=True)
    shutil.rmtree(coq, ignore_errors=True)
    sem = [r for r in results if r[0].startswith('M') and not r[0].startswith('M00')]
    print('semantic edits breaking an obligation: %d/%d; harmless edits left alone: %d/%d' % (
        len([r for r in sem if r[1].startswith('BROKEN')]), len([r for r in sem if r[1] != 'GO BUILD FAILED']),
        len([r for r in results if r[0].startswith('H') and not r[1].startswith('BROKEN')]), len([r for r in results if r[0].startswith('H')])))

if __name__ == '__main__':
    main()
