#!/usr/bin/env python3
import os, shutil, subprocess, sys, re
BASE='/root/scratch/pF_repo'; PF='/root/scratch/pF'; W='/root/scratch/pF_sens'
def sub(path, old, new, count=1):
    def f(root):
        p=os.path.join(root,path); s=open(p).read()
        assert s.count(old)>=1, (path, old)
        s=s.replace(old,new,count) if count else s.replace(old,new)
        open(p,'w').write(s)
    return f
def multi(*fs):
    def f(root):
        for g in fs: g(root)
    return f
CW='internal/ergo/commands_work.go'; CC='internal/ergo/commands_create.go'
muts=[
 ('M00 unmodified', lambda r: None, True),
 ('M01 set --json prints a text hint before the JSON', sub(CW,'''		return writeJSON(os.Stdout, setOutput{
			Kind:          "set",
			ID:            id,
			UpdatedFields: buildUpdatedFields(input),''','''		fmt.Println("hint: updated")
		return writeJSON(os.Stdout, setOutput{
			Kind:          "set",
			ID:            id,
			UpdatedFields: buildUpdatedFields(input),'''), False),
 ('M02 claim prints the reminder text in JSON mode', sub(CW,'''	if opts.JSON {
		claimedAt := claimedAtForTask(task, graph.Meta[id])''','''	fmt.Println(reminder)
	if opts.JSON {
		claimedAt := claimedAtForTask(task, graph.Meta[id])'''), False),
 ('M03 prune --json prints two values (plan then result)', sub(CW,'''	if opts.JSON {
		return writeJSON(os.Stdout, pruneOutput{''','''	if opts.JSON {
		if err := writeJSON(os.Stdout, plan); err != nil {
			return err
		}
		return writeJSON(os.Stdout, pruneOutput{'''), False),
 ('M04 compact --json writes its value and then fails', sub(CW,'''		return writeJSON(os.Stdout, compactOutput{
			Kind:   "compact",
			Status: "ok",
		})''','''		_ = writeJSON(os.Stdout, compactOutput{
			Kind:   "compact",
			Status: "ok",
		})
		return errors.New("late failure")'''), False),
 ('M05 text-mode list calls writeJSON', sub(CW,'''	// If --epics only, show simple epic list instead of tree''','''	_ = writeJSON(os.Stdout, tasksOnly)
	// If --epics only, show simple epic list instead of tree'''), False),
 ('M06 debug fmt.Println inside a loop in JSON mode (sequence)', sub(CW,'''		for _, edge := range edges {
			outEdges = append(''','''		for _, edge := range edges {
			fmt.Println("edge", edge.FromID)
			outEdges = append('''), False),
 ('M07 write through a package-level io.Writer variable', multi(sub(CW,'''	debugf(opts, "where start=%s ergo_dir=%s repo_dir=%s", start, ergoDir, repoDir)''','''	fmt.Fprintln(outW, "resolved")'''), sub(CW,'''type ListOptions struct {''','''var outW = pickWriter()

func pickWriter() *os.File { return os.NewFile(1, "out") }

type ListOptions struct {''')), False),
 ('M08 deferred print in where', sub(CW,'''	start, err := os.Getwd()
	if err != nil {
		return err
	}
	if opts.StartDir != "" {''','''	defer fmt.Println("done")
	start, err := os.Getwd()
	if err != nil {
		return err
	}
	if opts.StartDir != "" {'''), False),
 ('M09 applySetUpdates prints the id when quiet (inverted test, first site)', sub(CW,'''				if !quiet {
					fmt.Println(id)
				}''','''				if quiet {
					fmt.Println(id)
				}'''), False),
 ('M10 new task writes the validation error object twice', sub(CC,'''	if verr := input.ValidateForNewTask(); verr != nil {
		if opts.JSON {
			_ = verr.WriteJSON(os.Stdout)''','''	if verr := input.ValidateForNewTask(); verr != nil {
		if opts.JSON {
			_ = verr.WriteJSON(os.Stdout)
			_ = verr.WriteJSON(os.Stdout)'''), False),
 ('M11 cmd layer prints after RunList', multi(sub('cmd/ergo/cmd_actions.go','''		return ergo.RunList(ergo.ListOptions{
			EpicID:    epicID,
			ReadyOnly: readyOnly,
			ShowEpics: showEpics,
			ShowAll:   showAll,
		}, globalOpts)''','''		err := ergo.RunList(ergo.ListOptions{
			EpicID:    epicID,
			ReadyOnly: readyOnly,
			ShowEpics: showEpics,
			ShowAll:   showAll,
		}, globalOpts)
		os.Stdout.WriteString("listed\\n")
		return err'''), sub('cmd/ergo/cmd_actions.go','import (','import (\n\t"os"\n')), False),
 ('M12 exitErr echoes the error on stdout', sub('cmd/ergo/cmd_helpers.go','''	fmt.Fprintln(os.Stderr, "error:", err)''','''	fmt.Fprintln(os.Stderr, "error:", err)
	fmt.Println("error:", err)'''), False),
 ('M13 sequence --json omits its value when there is a single edge', sub(CW,'''	if opts.JSON {
		outEdges := make([]sequenceEdgeOutput, 0, len(edges))''','''	if opts.JSON && len(edges) > 1 {
		outEdges := make([]sequenceEdgeOutput, 0, len(edges))'''), False),
 ('M14 new epic returns success after writing the error object', sub(CC,'''	if verr != nil {
		if opts.JSON {
			_ = verr.WriteJSON(os.Stdout)
		}
		return verr.GoError()
	}
	if verr := input.ValidateForNewEpic(); verr != nil {''','''	if verr != nil {
		if opts.JSON {
			_ = verr.WriteJSON(os.Stdout)
		}
		return nil
	}
	if verr := input.ValidateForNewEpic(); verr != nil {'''), False),
 ('M15 show --json writes the error as a hand-made JSON map before failing', sub(CW,'''	task, ok := graph.Tasks[id]
	if !ok {
		return fmt.Errorf("unknown task id %s", id)
	}

	// Collect child tasks if this is an epic''','''	task, ok := graph.Tasks[id]
	if !ok {
		if opts.JSON {
			_ = writeJSON(os.Stdout, map[string]string{"error": "unknown"})
		}
		return fmt.Errorf("unknown task id %s", id)
	}

	// Collect child tasks if this is an epic'''), False),
 ('M16 execute swallows the error (no stderr, exit 0 path only)', sub('cmd/ergo/cmd_root.go','''		exitErr(err, &globalOpts)''','''		os.Exit(1)'''), False),
 ('M17 a new exported Run* command that prints text', sub('internal/ergo/quickstart.go','''func RunQuickstart(''','''func RunBanner(opts GlobalOptions) error {
	fmt.Println("ergo")
	return nil
}

func RunQuickstart('''), False),
 ('M18 the JSON flag is overwritten inside a command', sub(CW,'''	if short && opts.JSON {''','''	if short {
		opts.JSON = false
	}
	if short && opts.JSON {'''), False),
 ('M19 tree renderer writes a JSON line (text-mode list)', sub('internal/ergo/tree_view.go','''	termWidth := getTerminalWidth()
	for i, root := range roots {''','''	termWidth := getTerminalWidth()
	_ = writeJSON(w, len(roots))
	for i, root := range roots {'''), False),
 ('M20 an init function of internal/ergo prints a banner', sub('internal/ergo/quickstart.go','''func RunQuickstart(''','''func init() {
	fmt.Println("ergo loaded")
}

func RunQuickstart('''), False),
 ('M21 a package-level initialiser of internal/ergo prints', sub('internal/ergo/quickstart.go','''func RunQuickstart(''','''var loadedAt = announce()

func announce() int {
	fmt.Println("ergo loaded")
	return 1
}

func RunQuickstart('''), False),
 ('H01 harmless: rename reminder variable, rename printPruneSummary, extra stderr line', multi(
    lambda r: sub(CW,'reminder','noteText',0)(r), lambda r: sub(CW,'printPruneSummary','showPruneSummary',0)(r),
    sub(CW,'''	fmt.Println(ergoDir)
	return nil''','''	fmt.Fprintln(os.Stderr, "resolved")
	fmt.Println(ergoDir)
	return nil''')), True),
 ('H02 harmless: quickstart guide via Fprintln(os.Stdout), where text via a local alias of os.Stdout', multi(
    sub('internal/ergo/quickstart.go','fmt.Println(QuickstartText(stdoutIsTTY()))','fmt.Fprintln(os.Stdout, QuickstartText(stdoutIsTTY()))'),
    sub('internal/ergo/quickstart.go','"fmt"\n','"fmt"\n\t"os"\n'),
    sub(CW,'''	fmt.Println(ergoDir)
	return nil''','''	out := os.Stdout
	fmt.Fprintln(out, ergoDir)
	return nil''')), True),
]
only=sys.argv[1:] 
res=[]
for name,fn,expect in muts:
    if only and not any(name.startswith(o) for o in only): continue
    T=os.path.join(W,'t'); shutil.rmtree(T,ignore_errors=True)
    shutil.copytree(BASE,os.path.join(T,'repo'))
    fn(os.path.join(T,'repo'))
    # the mutated tree must still compile
    env=dict(os.environ,GOFLAGS='-mod=mod',GOPROXY='off')
    b=subprocess.run(['go','build','./...'],cwd=os.path.join(T,'repo'),env=env,capture_output=True,text=True)
    builds = b.returncode==0
    os.makedirs(os.path.join(T,'coq/gen')); os.makedirs(os.path.join(T,'coq/bridge'))
    g=subprocess.run([PF+'/build/gen',os.path.join(T,'repo'),os.path.join(T,'coq/gen')],capture_output=True,text=True)
    for f in ['OutLib.v','B_C16.v']: shutil.copy(os.path.join(PF,'coq/bridge',f),os.path.join(T,'coq/bridge',f))
    ok=True; msg=''
    for f in ['bridge/OutLib.v','gen/OutGen.v','bridge/B_C16.v']:
        c=subprocess.run(['timeout','600','coqc','-Q','gen','ErgoGen','-Q','bridge','ErgoBridge','-w','-all',f],cwd=os.path.join(T,'coq'),capture_output=True,text=True)
        if c.returncode!=0:
            ok=False; m=re.search(r'File "\./([^"]+)", line (\d+)',c.stderr); 
            line=int(m.group(2)) if m else 0
            src=open(os.path.join(T,'coq',f)).read().split('\n')
            ex=''
            for i in range(line-1,-1,-1):
                if src[i].startswith('Example'): ex=src[i].split()[1]; break
            msg=f'{f}:{line} {ex}'; break
    if not ok:
        open(os.path.join(T,'coq/bridge/Why.v'),'w').write('From Coq Require Import String List Bool.\nFrom ErgoBridge Require Import OutLib.\nFrom ErgoGen Require Import OutGen.\nRequire Import ErgoBridge.OutLib.\nImport ListNotations.\nDefinition cmds := filter (fun e => negb (existsb (String.eqb (fst e)) ["RunQuickstart"; "RunPruneApply"; "RunPrunePlan"]%string)) gen_out.\nEval vm_compute in (concat (map json_entry_ok cmds), concat (map text_entry_ok gen_out), map fst (filter writes_stdout gen_out_cmd)).\n')
        c=subprocess.run(['timeout','600','coqc','-Q','gen','ErgoGen','-Q','bridge','ErgoBridge','-w','-all','bridge/Why.v'],cwd=os.path.join(T,'coq'),capture_output=True,text=True)
        why=' '.join(c.stdout.split())[:700]
    else: why=''
    stub = 'STUB' in open(os.path.join(T,'coq/gen/OutGen.v')).read()
    verdict = 'PASS' if ok else 'FAIL'
    good = (ok==expect)
    print(f'{"ok " if good else "BAD"} {name}: go build={"ok" if builds else "BROKEN"} gen rc={g.returncode}{" (stub: "+g.stderr.strip()+")" if stub else ""} B_C16={verdict} {msg}')
    if why: print('      why:',why)
    if not builds: print(b.stderr[:500])
    sys.stdout.flush()
