module pathops

go 1.23
