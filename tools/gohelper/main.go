// pathops: JSON lines {"a":[b64...],"b":[b64...]} -> {"dir":[...],"base":[...],"join":[...]} using path/filepath.
package main

import (
	"bufio"
	"encoding/base64"
	"encoding/json"
	"os"
	"path/filepath"
)

type req struct {
	A []string `json:"a"`
	B []string `json:"b"`
}

func dec(s string) string { b, _ := base64.StdEncoding.DecodeString(s); return string(b) }
func enc(s string) string { return base64.StdEncoding.EncodeToString([]byte(s)) }

func main() {
	r := bufio.NewReaderSize(os.Stdin, 1<<24)
	w := bufio.NewWriter(os.Stdout)
	defer w.Flush()
	for {
		line, err := r.ReadBytes('\n')
		if len(line) > 1 {
			var q req
			if json.Unmarshal(line, &q) == nil {
				out := map[string][]string{"dir": {}, "base": {}, "join": {}}
				for i, a := range q.A {
					s := dec(a)
					out["dir"] = append(out["dir"], enc(filepath.Dir(s)))
					out["base"] = append(out["base"], enc(filepath.Base(s)))
					out["join"] = append(out["join"], enc(filepath.Join(s, dec(q.B[i]))))
				}
				data, _ := json.Marshal(out)
				w.Write(data)
				w.WriteByte('\n')
				w.Flush()
			}
		}
		if err != nil {
			return
		}
	}
}
