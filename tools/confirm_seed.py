#!/usr/bin/env python3
"""tools/confirm_seed.py OUTDIR NAME — independent confirmation of a sub-agent's seeded change, in a scratch
worktree of /repo HEAD (removed afterwards): the patch applies, the tree builds with and without the verif tag,
the pinned test suite passes with the change (the root-only failure excepted), the demonstration exits 0 on
the unchanged tree and 1 on the changed tree.  On success copies patch.diff, the demo and meta.json (with a
confirmed_by_me block) to /verif/seeded/NAME/."""
import json, os, subprocess, sys, shutil, glob, tempfile
out, name = os.path.abspath(sys.argv[1]), sys.argv[2]
os.makedirs('/root/scratch/confirm', exist_ok=True)
wt = tempfile.mkdtemp(prefix=name + '-', dir='/root/scratch/confirm')
env = dict(os.environ, GOFLAGS='-mod=mod', GOPROXY='off')
env.pop('GOSUMDB', None)
def sh(cmd, **kw):
    return subprocess.run(cmd, capture_output=True, text=True, env=env, **kw)
meta = json.load(open(os.path.join(out, 'meta.json')))
demo = None
for cand in ['demo.sh', 'demo.py']:
    if os.path.exists(os.path.join(out, cand)):
        demo = cand
if demo is None:
    sys.exit('no demo.sh / demo.py in ' + out)
def run_demo(tree):
    cmd = (['bash'] if demo.endswith('.sh') else ['python3']) + [os.path.join(out, demo), tree]
    try:
        p = subprocess.run(cmd, capture_output=True, text=True, env=env, timeout=1500)
        return p.returncode, (p.stdout + p.stderr)[-1500:]
    except subprocess.TimeoutExpired:
        return 124, 'timeout'
c = {}
try:
    os.rmdir(wt)
    r = sh(['git', '-C', '/repo', 'worktree', 'add', '--detach', '-f', wt, 'HEAD'])
    assert r.returncode == 0, r.stderr
    c['demo_rc_unchanged_tree'], tail0 = run_demo(wt)
    sh(['git', '-C', wt, 'checkout', '--', '.']); sh(['git', '-C', wt, 'clean', '-fdxq'])
    r = sh(['git', '-C', wt, 'apply', os.path.join(out, 'patch.diff')])
    c['applies'] = r.returncode == 0
    b1 = sh(['go', 'build', './...'], cwd=wt); b2 = sh(['go', 'build', '-tags', 'verif', './...'], cwd=wt)
    c['builds_with_and_without_verif_tag'] = b1.returncode == 0 and b2.returncode == 0
    t = sh(['go', 'test', '-mod=mod', '-json', '-vet=off', '-count=1', '-timeout', '25m', './...'], cwd=wt)
    passed, failed = 0, []
    for l in t.stdout.splitlines():
        try:
            e = json.loads(l)
        except Exception:
            continue
        if e.get('Test') and e.get('Action') == 'pass':
            passed += 1
        if e.get('Test') and e.get('Action') == 'fail':
            failed.append(e['Test'])
    c['tests_passed'] = passed
    c['tests_failed'] = failed
    c['baseline_389_pass_with_change'] = set(failed) <= {'TestAppendEventsAtomically_FailureLeavesOriginalFile'} and passed >= 388
    c['demo_rc_changed_tree'], tail1 = run_demo(wt)
    c['confirmed'] = bool(c['applies'] and c['builds_with_and_without_verif_tag'] and c['baseline_389_pass_with_change']
                          and c['demo_rc_unchanged_tree'] == 0 and c['demo_rc_changed_tree'] == 1)
    c['how'] = 'tools/confirm_seed.py: scratch worktree of /repo HEAD under /root/scratch, removed afterwards'
    if not c['confirmed']:
        c['demo_tail_unchanged'] = tail0[-600:]
        c['demo_tail_changed'] = tail1[-600:]
finally:
    sh(['git', '-C', '/repo', 'worktree', 'remove', '--force', wt])
    shutil.rmtree(wt, ignore_errors=True)
    sh(['git', '-C', '/repo', 'worktree', 'prune'])
meta['confirmed_by_me'] = c
print(name, json.dumps(c)[:600])
if c.get('confirmed'):
    dst = os.path.join('/verif/seeded', name)
    os.makedirs(dst, exist_ok=True)
    shutil.copy(os.path.join(out, 'patch.diff'), dst)
    shutil.copy(os.path.join(out, demo), dst)
    json.dump(meta, open(os.path.join(dst, 'meta.json'), 'w'), indent=1)
else:
    json.dump(meta, open(os.path.join(out, 'meta.confirm.json'), 'w'), indent=1)
