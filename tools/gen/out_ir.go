// out_ir.go — second, independent skeleton: the STDOUT discipline (property C16).
//
// For every exported Run* entry point of internal/ergo (and every function / command closure of
// cmd/ergo) a small abstract interpreter (out_walk.go) enumerates the control-flow paths as lists of
// output tokens (bridge/OutLib.v: OGuard / OJson / OText / OErrJson / OStderr / ORetOk / ORetErr /
// OLoopB / OLoopE / OUnknownWriter / OWriteFail / ORun) and writes them to gen/OutGen.v.
// Nothing of main.go's effect machinery is reused: this file parses the tree itself (build tags
// honoured: files tagged `verif` are not part of the production binary), decides syntactically which
// functions can write at all (out_scan.go) and inlines exactly those.
//
// Sound, not clever: a write whose destination cannot be resolved, a call through an unresolved
// function value, a deferred / concurrent call that may write, os.Stdout flowing anywhere the matcher
// does not follow — all become OUnknownWriter, on which every obligation of bridge/B_C16.v fails.  A
// construct outside the accepted fragment aborts THIS generator only: OutGen.v is then the stub
// (outStub) on which B_C16.v fails as well.
package main

import (
	"fmt"
	"go/ast"
	"go/parser"
	"go/token"
	"os"
	"path/filepath"
	"regexp"
	"sort"
	"strings"
)

type outErr struct{ msg string }

func ofail(format string, a ...interface{}) { panic(outErr{fmt.Sprintf(format, a...)}) }

// ---------------------------------------------------------------- abstract values

type oAval struct {
	k   string // "" unknown | json | njson | true | false | nil | nonnil | stdout | stderr | sink | opts | func
	typ string // in-package named type (pointer stripped) or pkg.Type, "" when unknown
	fn  *oClosure
}

type oClosure struct {
	decl   *ast.FuncDecl
	lit    *ast.FuncLit
	scope  int // captured frame (lit only)
	serial int
}

type oFrame struct {
	parent     int
	serial     int
	vars       map[string]oAval
	isFunc     bool
	results    []string        // named results ("" when unnamed)
	nres       int             // number of results
	deferHavoc map[string]bool // named results assigned by a deferred closure
}

const (
	stRun = iota
	stRet
	stBrk
	stCont
	stExit
)

type oPath struct {
	toks   []string
	frames []oFrame
	st     int
	label  string
	ret    []oAval
	mode   int // 0 unknown, 1 JSON, 2 text
}

func (p *oPath) clone() *oPath {
	q := &oPath{st: p.st, label: p.label, mode: p.mode}
	q.toks = append([]string{}, p.toks...)
	q.ret = append([]oAval{}, p.ret...)
	q.frames = make([]oFrame, len(p.frames))
	for i, f := range p.frames {
		g := f
		g.vars = make(map[string]oAval, len(f.vars))
		for k, v := range f.vars {
			g.vars[k] = v
		}
		if f.deferHavoc != nil {
			g.deferHavoc = map[string]bool{}
			for k := range f.deferHavoc {
				g.deferHavoc[k] = true
			}
		}
		g.results = f.results
		q.frames[i] = g
	}
	return q
}

func sameClosure(a, b *oClosure) bool {
	if a == nil || b == nil {
		return a == b
	}
	return a.decl == b.decl && a.lit == b.lit && a.scope == b.scope && a.serial == b.serial
}

func joinAval(x, y oAval) oAval {
	r := oAval{}
	if x.k == y.k && sameClosure(x.fn, y.fn) {
		r.k, r.fn = x.k, x.fn
	}
	if x.typ == y.typ {
		r.typ = x.typ
	}
	return r
}

// ---------------------------------------------------------------- tokens

const (
	tJson      = "OJson"
	tErrJson   = "OErrJson"
	tStderr    = "OStderr"
	tRetOk     = "ORetOk"
	tRetErr    = "ORetErr"
	tLoopB     = "OLoopB"
	tLoopE     = "OLoopE"
	tWriteFail = "OWriteFail"
)

func tGuard(b bool) string {
	if b {
		return "(OGuard true)"
	}
	return "(OGuard false)"
}
func tText(src string) string    { return "(OText " + coqStr(src) + ")" }
func tUnknown(src string) string { return "(OUnknownWriter " + coqStr(src) + ")" }
func tRun(name string) string    { return "(ORun " + coqStr(name) + ")" }
func isTextTok(t string) bool    { return strings.HasPrefix(t, "(OText ") }
func isGuardTok(t string) bool   { return strings.HasPrefix(t, "(OGuard ") }

// tok appends one token.  Two normalisations keep the path sets small without changing any verdict
// of OutLib.v: consecutive OStderr collapse; on a path already committed to TEXT mode (OGuard false
// seen) a run of OText tokens is represented by its first token (text-mode paths are only checked
// for the absence of OJson / OErrJson / OUnknownWriter).
func (p *oPath) tok(t string) {
	n := len(p.toks)
	if n > 0 {
		last := p.toks[n-1]
		if t == tStderr && last == tStderr {
			return
		}
		if p.mode == 2 && isTextTok(t) && isTextTok(last) {
			return
		}
	}
	p.toks = append(p.toks, t)
}

// ---------------------------------------------------------------- package model

type oPkgVar struct {
	typ     string
	init    ast.Expr
	mutable bool
}

type oWalker struct {
	name       string // "ergo" | "main"
	fset       *token.FileSet
	files      []*ast.File
	fileOf     map[*ast.FuncDecl]string
	funcs      map[string]*ast.FuncDecl
	methods    map[string]map[string]*ast.FuncDecl // method name -> receiver type -> decl
	types      map[string]bool
	errObj     map[string]bool // struct types with a field tagged json:"error"
	funcFields map[string]bool // struct fields of function type
	pkgVars    map[string]*oPkgVar
	imports    map[string]bool
	inline     map[*ast.FuncDecl]bool
	nonText    map[*ast.FuncDecl]bool // may emit something other than plain text (JSON / unknown)
	sumMemo    map[*ast.FuncDecl][]oAval
	sumBusy    map[*ast.FuncDecl]bool
	stack      []ast.Node
	serial     int
	trackOpts  bool
	other      *oWalker // for cmd/ergo: the internal/ergo model
	ergoImport string
}

var buildLine = regexp.MustCompile(`(?m)^//go:build\s+(.*)$`)

// production build: no custom tags.  `verif` alone excludes the file, `!verif` (or no constraint) keeps it;
// any other constraint is outside the accepted fragment.
func keepFile(src []byte) bool {
	head := src
	if i := strings.Index(string(src), "\npackage "); i >= 0 {
		head = src[:i]
	}
	m := buildLine.FindSubmatch(head)
	if m == nil {
		return true
	}
	switch strings.TrimSpace(string(m[1])) {
	case "verif":
		return false
	case "!verif":
		return true
	}
	ofail("unsupported build constraint %q", strings.TrimSpace(string(m[1])))
	return false
}

func typeName(e ast.Expr) string {
	switch v := e.(type) {
	case *ast.Ident:
		return v.Name
	case *ast.StarExpr:
		return typeName(v.X)
	case *ast.ParenExpr:
		return typeName(v.X)
	case *ast.SelectorExpr:
		if x, ok := v.X.(*ast.Ident); ok {
			return x.Name + "." + v.Sel.Name
		}
	case *ast.Ellipsis:
		return ""
	}
	return ""
}

func nilableType(e ast.Expr) bool {
	switch v := e.(type) {
	case *ast.Ident:
		return v.Name == "error" || v.Name == "any"
	case *ast.StarExpr, *ast.MapType, *ast.FuncType, *ast.InterfaceType, *ast.ChanType:
		return true
	case *ast.ArrayType:
		return v.Len == nil
	}
	return false
}

var sinkTypes = map[string]bool{"strings.Builder": true, "bytes.Buffer": true}

func loadPkg(name, dir string, other *oWalker) *oWalker {
	w := &oWalker{name: name, other: other, fset: token.NewFileSet(), fileOf: map[*ast.FuncDecl]string{},
		funcs: map[string]*ast.FuncDecl{}, methods: map[string]map[string]*ast.FuncDecl{}, types: map[string]bool{},
		errObj: map[string]bool{}, funcFields: map[string]bool{}, pkgVars: map[string]*oPkgVar{}, imports: map[string]bool{},
		inline: map[*ast.FuncDecl]bool{}, nonText: map[*ast.FuncDecl]bool{}, sumMemo: map[*ast.FuncDecl][]oAval{}, sumBusy: map[*ast.FuncDecl]bool{}}
	entries, err := os.ReadDir(dir)
	if err != nil {
		ofail("%v", err)
	}
	var names []string
	for _, e := range entries {
		n := e.Name()
		if strings.HasSuffix(n, ".go") && !strings.HasSuffix(n, "_test.go") {
			names = append(names, n)
		}
	}
	sort.Strings(names)
	for _, n := range names {
		src, err := os.ReadFile(filepath.Join(dir, n))
		if err != nil {
			ofail("%v", err)
		}
		if !keepFile(src) {
			continue
		}
		f, err := parser.ParseFile(w.fset, n, src, 0)
		if err != nil {
			ofail("parse %s: %v", n, err)
		}
		w.files = append(w.files, f)
		for _, im := range f.Imports {
			p := strings.Trim(im.Path.Value, "\"")
			nm := p[strings.LastIndex(p, "/")+1:]
			if im.Name != nil {
				nm = im.Name.Name
				if nm == "." {
					ofail("dot import in %s", n)
				}
			}
			w.imports[nm] = true
			if strings.HasSuffix(p, "/internal/ergo") {
				w.ergoImport = nm
			}
		}
		for _, d := range f.Decls {
			switch v := d.(type) {
			case *ast.FuncDecl:
				w.fileOf[v] = n
				if v.Recv == nil {
					if v.Name.Name == "init" || v.Name.Name == "_" {
						continue
					}
					w.funcs[v.Name.Name] = v
				} else if len(v.Recv.List) == 1 {
					t := typeName(v.Recv.List[0].Type)
					if w.methods[v.Name.Name] == nil {
						w.methods[v.Name.Name] = map[string]*ast.FuncDecl{}
					}
					w.methods[v.Name.Name][t] = v
				}
			case *ast.GenDecl:
				for _, sp := range v.Specs {
					switch s := sp.(type) {
					case *ast.TypeSpec:
						w.types[s.Name.Name] = true
						if st, ok := s.Type.(*ast.StructType); ok {
							for _, fl := range st.Fields.List {
								if fl.Tag != nil && (strings.Contains(fl.Tag.Value, `json:\"error\"`) || strings.Contains(fl.Tag.Value, `json:"error"`) ||
									strings.Contains(fl.Tag.Value, `json:"error,`)) {
									w.errObj[s.Name.Name] = true
								}
							}
						}
					case *ast.ValueSpec:
						if v.Tok != token.VAR {
							continue
						}
						for i, nm := range s.Names {
							pv := &oPkgVar{}
							if s.Type != nil {
								pv.typ = typeName(s.Type)
							}
							if i < len(s.Values) && len(s.Values) == len(s.Names) {
								pv.init = s.Values[i]
							}
							w.pkgVars[nm.Name] = pv
						}
					}
				}
			}
		}
	}
	// struct fields of function type, anywhere (also in anonymous structs)
	for _, f := range w.files {
		ast.Inspect(f, func(n ast.Node) bool {
			if st, ok := n.(*ast.StructType); ok {
				for _, fl := range st.Fields.List {
					if _, ok := fl.Type.(*ast.FuncType); ok {
						for _, nm := range fl.Names {
							w.funcFields[nm.Name] = true
						}
					}
				}
			}
			return true
		})
	}
	// package-level variables assigned anywhere are not constants; any assignment to a field named JSON
	// (the mode flag must be constant during a command) is outside the accepted fragment in internal/ergo
	for _, f := range w.files {
		ast.Inspect(f, func(n ast.Node) bool {
			as, ok := n.(*ast.AssignStmt)
			if !ok {
				return true
			}
			for _, l := range as.Lhs {
				switch x := l.(type) {
				case *ast.Ident:
					if pv := w.pkgVars[x.Name]; pv != nil && as.Tok != token.DEFINE {
						pv.mutable = true
					}
				case *ast.SelectorExpr:
					if x.Sel.Name == "JSON" && name == "ergo" {
						ofail("assignment to a field named JSON at %s", w.pos(x.Pos()))
					}
				}
			}
			return true
		})
	}
	w.scanPackage()
	return w
}

func (w *oWalker) pos(p token.Pos) string {
	q := w.fset.Position(p)
	return fmt.Sprintf("%s:%d", filepath.Base(q.Filename), q.Line)
}

// ---------------------------------------------------------------- emission

func emitEntries(name, typ string, items [][2]interface{}) string {
	var b strings.Builder
	b.WriteString("Definition " + name + " : " + typ + " := [\n")
	for i, it := range items {
		paths := it[1].([][]string)
		q := []string{}
		for _, p := range paths {
			q = append(q, "    "+coqList(p))
		}
		b.WriteString("  (" + coqStr(it[0].(string)) + ", [\n" + strings.Join(q, ";\n") + "])")
		if i < len(items)-1 {
			b.WriteString(";")
		}
		b.WriteString("\n")
	}
	b.WriteString("].\n")
	return b.String()
}

const outHeader = "From ErgoBridge Require Import OutLib.\nFrom Coq Require Import String List.\nImport ListNotations.\nLocal Open Scope string_scope.\n\n"

var forbiddenWord = regexp.MustCompile(`(?i)axiom|parameter|conjecture|admitted|admit|bypass_check|type-in-type|impredicative-set|unset\s+guard`)

func outStub(reason string) string {
	clean := regexp.MustCompile(`[^A-Za-z0-9 _.:/-]`).ReplaceAllString(reason, "_")
	clean = forbiddenWord.ReplaceAllString(clean, "_")
	return "(* GENERATED by tools/gen (out_ir.go) - STUB: the stdout-discipline translator failed; bridge/B_C16.v fails on it *)\n" + outHeader +
		"Definition gen_out : list (string * list (list otok)) := [(\"(translator failed)\", [[OUnknownWriter " + coqStr(clean) + "]])].\n" +
		"Definition gen_out_sig : list (string * (bool * bool)) := [].\n" +
		"Definition gen_out_cmd : list (string * list (list otok)) := [(\"(translator failed)\", [[OUnknownWriter " + coqStr(clean) + "]])].\n"
}

// genOutSafe never aborts the other generators: on any failure the stub is written instead.
func genOutSafe(root string) (res string) {
	defer func() {
		if r := recover(); r != nil {
			msg := fmt.Sprint(r)
			if e, ok := r.(outErr); ok {
				msg = e.msg
			}
			fmt.Fprintf(os.Stderr, "gen: out_ir: %s (stub OutGen.v written)\n", msg)
			res = outStub(msg)
		}
	}()
	return genOut(root)
}

func genOut(root string) string {
	ergo := loadPkg("ergo", filepath.Join(root, "internal", "ergo"), nil)
	ergo.trackOpts = true
	cmd := loadPkg("main", filepath.Join(root, "cmd", "ergo"), ergo)

	var b strings.Builder
	b.WriteString("(* GENERATED by tools/gen (out_ir.go) from internal/ergo and cmd/ergo - do not edit.\n" +
		"   Per exported Run* entry point: every control-flow path as the list of its stdout / stderr effects, callees that can\n" +
		"   write inlined.  Text-mode paths (after OGuard false) keep one OText per run of text writes. *)\n" + outHeader)

	// entries
	var names []string
	for n, fd := range ergo.funcs {
		if strings.HasPrefix(n, "Run") && ast.IsExported(n) && fd.Body != nil {
			names = append(names, n)
		}
	}
	sort.Strings(names)
	if len(names) == 0 {
		ofail("no Run* entry point found")
	}
	var items [][2]interface{}
	var sigs []string
	for _, n := range names {
		fd := ergo.funcs[n]
		items = append(items, [2]interface{}{n, ergo.entryPaths(fd, nil, n)})
		hasOpts, onlyErr := false, false
		for _, f := range fd.Type.Params.List {
			if typeName(f.Type) == "GlobalOptions" {
				hasOpts = true
			}
		}
		if r := fd.Type.Results; r != nil && len(r.List) == 1 && len(r.List[0].Names) <= 1 && typeName(r.List[0].Type) == "error" {
			onlyErr = true
		}
		sigs = append(sigs, fmt.Sprintf("(%s, (%v, %v))", coqStr(n), hasOpts, onlyErr))
	}
	b.WriteString(emitEntries("gen_out", "list (string * list (list otok))", items))
	b.WriteString("\n(* per entry: (has a GlobalOptions argument, result type is exactly error) *)\n")
	b.WriteString("Definition gen_out_sig : list (string * (bool * bool)) := " + coqList(sigs) + ".\n\n")

	// cmd layer: every function, every init, every closure of a package-level variable; plus what runs at
	// start-up in either package (init functions, package-level initialisers that call something)
	type unit struct {
		name string
		w    *oWalker
		fd   *ast.FuncDecl
		lit  *ast.FuncLit
		expr ast.Expr
	}
	var units []unit
	for _, w := range []*oWalker{ergo, cmd} {
		prefix := ""
		if w == ergo {
			prefix = "internal/ergo/"
		}
		for _, f := range w.files {
			fname := filepath.Base(w.fset.Position(f.Pos()).Filename)
			for _, d := range f.Decls {
				switch v := d.(type) {
				case *ast.FuncDecl:
					if v.Body == nil {
						continue
					}
					nm := v.Name.Name
					if v.Recv == nil && nm == "init" {
						units = append(units, unit{name: prefix + fname + ":init", w: w, fd: v})
						continue
					}
					if w == ergo {
						continue
					}
					if v.Recv != nil {
						nm = typeName(v.Recv.List[0].Type) + "." + nm
					}
					units = append(units, unit{name: nm, w: w, fd: v})
				case *ast.GenDecl:
					if v.Tok != token.VAR {
						continue
					}
					for _, sp := range v.Specs {
						vs := sp.(*ast.ValueSpec)
						for i, val := range vs.Values {
							vn := "_"
							if i < len(vs.Names) {
								vn = vs.Names[i].Name
							}
							calls := false
							ast.Inspect(val, func(n ast.Node) bool {
								switch n.(type) {
								case *ast.FuncLit:
									return false
								case *ast.CallExpr:
									calls = true
								}
								return true
							})
							if calls {
								units = append(units, unit{name: prefix + fname + ":var " + vn, w: w, expr: val})
							}
							if w == cmd {
								for _, l := range collectLits(val, vn) {
									units = append(units, unit{name: l.name, w: w, lit: l.lit})
								}
							}
						}
					}
				}
			}
		}
	}
	sort.SliceStable(units, func(i, j int) bool { return units[i].name < units[j].name })
	seen := map[string]int{}
	items = nil
	for _, u := range units {
		seen[u.name]++
		nm := u.name
		if seen[u.name] > 1 {
			nm = fmt.Sprintf("%s#%d", u.name, seen[u.name])
		}
		if u.expr != nil {
			items = append(items, [2]interface{}{nm, u.w.exprPaths(u.expr)})
		} else {
			items = append(items, [2]interface{}{nm, u.w.entryPaths(u.fd, u.lit, nm)})
		}
	}
	b.WriteString(emitEntries("gen_out_cmd", "list (string * list (list otok))", items))
	out := b.String()
	if forbiddenWord.MatchString(out) {
		// a source position / function name must never trip the project's grep gate
		loc := forbiddenWord.FindStringIndex(out)
		ofail("generated text contains a forbidden word near offset %d", loc[0])
	}
	return out
}

type namedLit struct {
	name string
	lit  *ast.FuncLit
}

// closures inside a package-level initialiser, named <var>.<field> (outermost closures only)
func collectLits(e ast.Expr, vn string) []namedLit {
	var out []namedLit
	var walk func(n ast.Node, key string)
	walk = func(n ast.Node, key string) {
		switch v := n.(type) {
		case nil:
		case *ast.FuncLit:
			nm := vn
			if key != "" {
				nm += "." + key
			}
			out = append(out, namedLit{nm, v})
		case *ast.KeyValueExpr:
			k := key
			if id, ok := v.Key.(*ast.Ident); ok {
				k = id.Name
			}
			walk(v.Value, k)
		case *ast.CompositeLit:
			for _, el := range v.Elts {
				walk(el, key)
			}
		case *ast.UnaryExpr:
			walk(v.X, key)
		case *ast.ParenExpr:
			walk(v.X, key)
		case *ast.CallExpr:
			for _, a := range v.Args {
				walk(a, key)
			}
			walk(v.Fun, key)
		case *ast.SelectorExpr:
			walk(v.X, key)
		}
	}
	walk(e, "")
	return out
}
