module ergogen

go 1.23
