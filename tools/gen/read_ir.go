// read_ir.go — translation of the log reader of storage.go (readEvents with its closure processLine,
// getEventsPath, encodeEventLine, hasUnterminatedTail; formatEventsParseError and loadGraph as shapes)
// into the IR of coq/bridge/ReadIR.v (output: coq/gen/ReadGen.v).
//
// Statement by statement, no reordering and no simplification.  Named constants are replaced by their
// values.  Everything that is not recognised becomes LEUnknown / LSUnknown with the Go text, on which the
// Coq interpreter is stuck.  The translator keeps track of Go's block scopes only to tell local names from
// package-level ones (a builtin or package name that is shadowed makes the construct unknown); the
// scoping itself is implemented by the interpreter.
package main

import (
	"go/ast"
	"go/token"
	"strconv"
	"strings"
)

type lTr struct {
	sc         []map[string]bool // block scopes, innermost last
	pkg        map[string]bool   // package-level names (funcs, vars, types, consts)
	closures   []string          // Coq text of the closure table
	closureSet map[string]bool
	inClosure  bool
}

func (t *lTr) push() { t.sc = append(t.sc, map[string]bool{}) }
func (t *lTr) pop()  { t.sc = t.sc[:len(t.sc)-1] }
func (t *lTr) declared(n string) bool {
	for _, f := range t.sc {
		if f[n] {
			return true
		}
	}
	return false
}
func (t *lTr) inTop(n string) bool { return t.sc[len(t.sc)-1][n] }
func (t *lTr) declare(n string) {
	if n != "_" {
		t.sc[len(t.sc)-1][n] = true
	}
}

// free: none of the names is declared locally or at package level (so it denotes the builtin / the import).
func (t *lTr) free(names ...string) bool {
	for _, n := range names {
		if t.declared(n) || t.pkg[n] {
			return false
		}
	}
	return true
}

func lUnknownE(n ast.Node) string { return "(LEUnknown " + coqStr(goText(n)) + ")" }
func lUnknownS(n ast.Node) string { return "(LSUnknown " + coqStr(goText(n)) + ")" }

func coqN(n int64) string { return "(" + strconv.FormatInt(n, 10) + "%N)" }

func indent(d int) string { return strings.Repeat("  ", d) }

func coqLBlk(items []string, d int) string {
	if len(items) == 0 {
		return "(lblk [])"
	}
	return "(lblk [\n" + indent(d+1) + strings.Join(items, ";\n"+indent(d+1)) + "])"
}

func (t *lTr) local(e ast.Expr) (string, bool) {
	id, ok := e.(*ast.Ident)
	if !ok || id.Name == "_" || !t.declared(id.Name) {
		return "", false
	}
	return id.Name, true
}

// pkgCall matches pkg.name(args...) with pkg an import that is not shadowed.
func (t *lTr) pkgCall(e ast.Expr, pkg, name string, nargs int) (*ast.CallExpr, bool) {
	c, ok := e.(*ast.CallExpr)
	if !ok || c.Ellipsis != token.NoPos || (nargs >= 0 && len(c.Args) != nargs) {
		return nil, false
	}
	sel, ok := c.Fun.(*ast.SelectorExpr)
	if !ok || sel.Sel.Name != name {
		return nil, false
	}
	x, ok := sel.X.(*ast.Ident)
	if !ok || x.Name != pkg || !t.free(pkg) {
		return nil, false
	}
	return c, true
}

// method matches X.name(args...) with X a local variable.
func (t *lTr) method(e ast.Expr, name string, nargs int) (string, *ast.CallExpr, bool) {
	c, ok := e.(*ast.CallExpr)
	if !ok || c.Ellipsis != token.NoPos || len(c.Args) != nargs {
		return "", nil, false
	}
	sel, ok := c.Fun.(*ast.SelectorExpr)
	if !ok || sel.Sel.Name != name {
		return "", nil, false
	}
	x, ok := t.local(sel.X)
	if !ok {
		return "", nil, false
	}
	return x, c, true
}

// builtin matches name(args...) with name a builtin that is not shadowed.
func (t *lTr) builtin(e ast.Expr, name string) (*ast.CallExpr, bool) {
	c, ok := e.(*ast.CallExpr)
	if !ok {
		return nil, false
	}
	id, ok := c.Fun.(*ast.Ident)
	if !ok || id.Name != name || !t.free(name) {
		return nil, false
	}
	return c, true
}

func (t *lTr) mentionsLocal(e ast.Expr) bool {
	found := false
	ast.Inspect(e, func(x ast.Node) bool {
		if id, ok := x.(*ast.Ident); ok && t.declared(id.Name) {
			found = true
		}
		return true
	})
	return found
}

func isByteSliceType(e ast.Expr) bool {
	at, ok := e.(*ast.ArrayType)
	if !ok || at.Len != nil {
		return false
	}
	id, ok := at.Elt.(*ast.Ident)
	return ok && id.Name == "byte"
}

func (t *lTr) exprs(es []ast.Expr) string {
	items := []string{}
	for _, e := range es {
		items = append(items, t.expr(e))
	}
	return "(lxs " + coqList(items) + ")"
}

func (t *lTr) expr(e ast.Expr) string {
	switch v := e.(type) {
	case *ast.ParenExpr:
		return t.expr(v.X)
	case *ast.BasicLit:
		switch v.Kind {
		case token.INT:
			if n, ok := evalInt(v); ok && n >= 0 {
				return "(LEInt " + coqN(n) + ")"
			}
		case token.CHAR:
			if r, _, _, err := strconv.UnquoteChar(strings.Trim(v.Value, "'"), '\''); err == nil && r >= 0 && r < 128 {
				return "(LEByte " + coqN(int64(r)) + ")"
			}
		case token.STRING:
			if s, err := strconv.Unquote(v.Value); err == nil {
				return "(LEStr " + coqStr(s) + ")"
			}
		}
	case *ast.Ident:
		if v.Name == "_" {
			break
		}
		if t.declared(v.Name) {
			return "(LEVar " + coqStr(v.Name) + ")"
		}
		switch v.Name {
		case "nil":
			if t.free("nil") {
				return "LENil"
			}
		case "true", "false":
			if t.free(v.Name) {
				return "(LEBool " + v.Name + ")"
			}
		}
		if n, ok := intConsts[v.Name]; ok && n >= 0 {
			return "(LEInt " + coqN(n) + ")"
		}
		if s, ok := strConsts[v.Name]; ok {
			return "(LEStr " + coqStr(s) + ")"
		}
	case *ast.UnaryExpr:
		if v.Op == token.NOT {
			return "(LENot " + t.expr(v.X) + ")"
		}
	case *ast.BinaryExpr:
		if !t.mentionsLocal(v) {
			if n, ok := evalInt(v); ok && n >= 0 {
				return "(LEInt " + coqN(n) + ")"
			}
		}
		op := map[token.Token]string{token.EQL: "LEEq", token.NEQ: "LENe", token.LAND: "LEAnd", token.LOR: "LEOr",
			token.GTR: "LEGt", token.SUB: "LESub"}[v.Op]
		if op != "" {
			return "(" + op + " " + t.expr(v.X) + " " + t.expr(v.Y) + ")"
		}
	case *ast.IndexExpr:
		return "(LEIndex " + t.expr(v.X) + " " + t.expr(v.Index) + ")"
	case *ast.CallExpr:
		if c, ok := t.builtin(v, "len"); ok && len(c.Args) == 1 && c.Ellipsis == token.NoPos {
			return "(LELen " + t.expr(c.Args[0]) + ")"
		}
		if c, ok := t.builtin(v, "append"); ok && len(c.Args) == 2 {
			if c.Ellipsis == token.NoPos {
				return "(LEAppend " + t.expr(c.Args[0]) + " " + t.expr(c.Args[1]) + ")"
			}
			// append([]byte(nil), x...)
			if conv, ok := c.Args[0].(*ast.CallExpr); ok && len(conv.Args) == 1 && isByteSliceType(conv.Fun) && t.free("byte", "nil") {
				if id, ok := conv.Args[0].(*ast.Ident); ok && id.Name == "nil" {
					return "(LECopy " + t.expr(c.Args[1]) + ")"
				}
			}
			break
		}
		if c, ok := t.pkgCall(v, "bytes", "TrimSpace", 1); ok {
			return "(LETrim " + t.expr(c.Args[0]) + ")"
		}
		if c, ok := t.pkgCall(v, "filepath", "Join", 2); ok {
			return "(LEJoin " + t.expr(c.Args[0]) + " " + t.expr(c.Args[1]) + ")"
		}
		if c, ok := t.pkgCall(v, "errors", "Is", 2); ok {
			if sel, ok := c.Args[1].(*ast.SelectorExpr); ok {
				if p, ok := sel.X.(*ast.Ident); ok && t.free(p.Name) {
					return "(LEErrIs " + t.expr(c.Args[0]) + " " + coqStr(p.Name+"."+sel.Sel.Name) + ")"
				}
			}
			break
		}
		if c, ok := t.pkgCall(v, "fmt", "Errorf", -1); ok && len(c.Args) >= 1 {
			if lit, ok := c.Args[0].(*ast.BasicLit); ok && lit.Kind == token.STRING {
				if s, err := strconv.Unquote(lit.Value); err == nil {
					return "(LEErrorf " + coqStr(s) + " " + t.exprs(c.Args[1:]) + ")"
				}
			}
			break
		}
		if id, ok := v.Fun.(*ast.Ident); ok && id.Name == "formatEventsParseError" && !t.declared(id.Name) &&
			funcDecls[id.Name] != nil && v.Ellipsis == token.NoPos {
			return "(LEParseErr " + t.exprs(v.Args) + ")"
		}
		if x, _, ok := t.method(v, "Size", 0); ok {
			return "(LESize " + coqStr(x) + ")"
		}
		if x, _, ok := t.method(v, "Bytes", 0); ok {
			return "(LEScanBytes " + coqStr(x) + ")"
		}
		if x, _, ok := t.method(v, "Err", 0); ok {
			return "(LEScanErr " + coqStr(x) + ")"
		}
	}
	return lUnknownE(e)
}

func (t *lTr) block(stmts []ast.Stmt, d int) string {
	t.push()
	items := []string{}
	for _, s := range stmts {
		items = append(items, t.stmt(s, d+1))
	}
	t.pop()
	return coqLBlk(items, d)
}

func lhsNames(lhs []ast.Expr) ([]string, bool) {
	var out []string
	for _, l := range lhs {
		id, ok := l.(*ast.Ident)
		if !ok {
			return nil, false
		}
		out = append(out, id.Name)
	}
	return out, true
}

func (t *lTr) closure(name string, fl *ast.FuncLit, d int) (string, bool) {
	if t.inClosure || t.closureSet[name] || name == "_" {
		return "", false
	}
	if fl.Type.Results == nil || len(fl.Type.Results.List) != 1 || len(fl.Type.Results.List[0].Names) != 0 ||
		goText(fl.Type.Results.List[0].Type) != "error" || !t.free("error") {
		return "", false
	}
	var ps []string
	t.push()
	if fl.Type.Params != nil {
		for _, f := range fl.Type.Params.List {
			if len(f.Names) == 0 {
				t.pop()
				return "", false
			}
			if _, variadic := f.Type.(*ast.Ellipsis); variadic {
				t.pop()
				return "", false
			}
			for _, n := range f.Names {
				ps = append(ps, coqStr(n.Name))
				t.declare(n.Name)
			}
		}
	}
	t.inClosure = true
	body := t.block(fl.Body.List, 2)
	t.inClosure = false
	t.pop()
	t.closureSet[name] = true
	t.closures = append(t.closures, "("+coqStr(name)+", ("+coqList(ps)+",\n    "+body+"))")
	return "(LSDefClosure " + coqStr(name) + ")", true
}

func (t *lTr) stmt(s ast.Stmt, d int) string {
	switch v := s.(type) {
	case *ast.ExprStmt:
		if c, ok := v.X.(*ast.CallExpr); ok {
			if id, ok := c.Fun.(*ast.Ident); ok && id.Name == "verifPoint" && !t.declared("verifPoint") &&
				len(c.Args) == 1 && c.Ellipsis == token.NoPos {
				if lit, ok := c.Args[0].(*ast.BasicLit); ok && lit.Kind == token.STRING {
					if name, err := strconv.Unquote(lit.Value); err == nil {
						return "(LSHook " + coqStr(name) + ")"
					}
				}
			}
			// X.Buffer(make([]byte, 0, a), b)
			if x, c2, ok := t.method(c, "Buffer", 2); ok {
				if mk, ok := t.builtin(c2.Args[0], "make"); ok && len(mk.Args) == 3 && mk.Ellipsis == token.NoPos &&
					isByteSliceType(mk.Args[0]) && t.free("byte") && goText(mk.Args[1]) == "0" {
					return "(LSScanBuffer " + coqStr(x) + " " + t.expr(mk.Args[2]) + " " + t.expr(c2.Args[1]) + ")"
				}
			}
		}
	case *ast.DeferStmt:
		if x, _, ok := t.method(v.Call, "Close", 0); ok {
			return "(LSDeferClose " + coqStr(x) + ")"
		}
	case *ast.IncDecStmt:
		if x, ok := t.local(v.X); ok && v.Tok == token.INC {
			return "(LSInc " + coqStr(x) + ")"
		}
	case *ast.DeclStmt:
		gd, ok := v.Decl.(*ast.GenDecl)
		if !ok || gd.Tok != token.VAR || len(gd.Specs) != 1 {
			break
		}
		vs, ok := gd.Specs[0].(*ast.ValueSpec)
		if !ok || len(vs.Names) != 1 || len(vs.Values) != 0 || vs.Type == nil || vs.Names[0].Name == "_" || t.inTop(vs.Names[0].Name) {
			break
		}
		ty := goText(vs.Type)
		for _, n := range []string{"Event", "byte"} {
			if strings.Contains(ty, n) && t.declared(n) {
				return lUnknownS(s)
			}
		}
		t.declare(vs.Names[0].Name)
		return "(LSDeclZero " + coqStr(vs.Names[0].Name) + " " + coqStr(ty) + ")"
	case *ast.AssignStmt:
		names, ok := lhsNames(v.Lhs)
		if !ok || len(v.Rhs) != 1 {
			break
		}
		rhs := v.Rhs[0]
		if v.Tok == token.ASSIGN && len(names) == 1 {
			if x, ok := t.local(v.Lhs[0]); ok {
				return "(LSSet " + coqStr(x) + " " + t.expr(rhs) + ")"
			}
			break
		}
		if v.Tok != token.DEFINE {
			break
		}
		// a := that re-uses a name of the same scope assigns to it instead of declaring it (LSReuse);
		// only the two-value forms may do so
		var reused []string
		for _, n := range names {
			if n != "_" && t.inTop(n) {
				reused = append(reused, n)
			}
		}
		if len(reused) > 0 && (len(names) != 2 || len(reused) != 1) {
			return lUnknownS(s)
		}
		if len(names) == 1 && names[0] != "_" {
			x := names[0]
			var out string
			if fl, ok := rhs.(*ast.FuncLit); ok {
				r, ok := t.closure(x, fl, d)
				if !ok {
					break
				}
				out = r
			} else if mk, ok := t.builtin(rhs, "make"); ok {
				if len(mk.Args) != 2 || mk.Ellipsis != token.NoPos || !isByteSliceType(mk.Args[0]) || !t.free("byte") {
					break
				}
				out = "(LSMakeBytes " + coqStr(x) + " " + t.expr(mk.Args[1]) + ")"
			} else if c, ok := t.pkgCall(rhs, "bufio", "NewScanner", 1); ok {
				f, ok := t.local(c.Args[0])
				if !ok {
					break
				}
				out = "(LSNewScanner " + coqStr(x) + " " + coqStr(f) + ")"
			} else if c, ok := t.pkgCall(rhs, "json", "Unmarshal", 2); ok {
				u, ok := c.Args[1].(*ast.UnaryExpr)
				if !ok || u.Op != token.AND {
					break
				}
				dst, ok := t.local(u.X)
				if !ok {
					break
				}
				out = "(LSUnmarshal " + coqStr(x) + " " + t.expr(c.Args[0]) + " " + coqStr(dst) + ")"
			} else if c, ok := rhs.(*ast.CallExpr); ok && c.Ellipsis == token.NoPos {
				if f, ok := t.local(c.Fun); ok && t.closureSet[f] && !t.inClosure {
					out = "(LSCallDecl " + coqStr(x) + " " + coqStr(f) + " " + t.exprs(c.Args) + ")"
				}
			}
			if out == "" {
				out = "(LSDecl " + coqStr(x) + " " + t.expr(rhs) + ")"
			}
			t.declare(x)
			return out
		}
		if len(names) == 2 && (names[0] == "_" || names[0] != names[1]) {
			a, b := names[0], names[1]
			var out string
			if c, ok := t.pkgCall(rhs, "os", "Open", 1); ok {
				out = "(LSOpen " + coqStr(a) + " " + coqStr(b) + " " + t.expr(c.Args[0]) + ")"
			} else if c, ok := t.pkgCall(rhs, "os", "Stat", 1); ok {
				out = "(LSOsStat " + coqStr(a) + " " + coqStr(b) + " " + t.expr(c.Args[0]) + ")"
			} else if c, ok := t.pkgCall(rhs, "json", "Marshal", 1); ok {
				out = "(LSMarshal " + coqStr(a) + " " + coqStr(b) + " " + t.expr(c.Args[0]) + ")"
			} else if f, _, ok := t.method(rhs, "Stat", 0); ok {
				out = "(LSStat " + coqStr(a) + " " + coqStr(b) + " " + coqStr(f) + ")"
			} else if f, c, ok := t.method(rhs, "ReadAt", 2); ok {
				buf, ok := t.local(c.Args[0])
				if !ok {
					break
				}
				out = "(LSReadAt " + coqStr(a) + " " + coqStr(b) + " " + coqStr(f) + " " + coqStr(buf) + " " + t.expr(c.Args[1]) + ")"
			}
			if out == "" {
				break
			}
			t.declare(a)
			t.declare(b)
			for _, r := range reused {
				out = "(LSReuse " + coqStr(r) + " " + out + ")"
			}
			return out
		}
	case *ast.IfStmt:
		t.push()
		init := "LSSkip"
		if v.Init != nil {
			init = t.stmt(v.Init, d)
		}
		cond := t.expr(v.Cond)
		th := t.block(v.Body.List, d+1)
		var el string
		switch e := v.Else.(type) {
		case nil:
			el = coqLBlk(nil, d+1)
		case *ast.BlockStmt:
			el = t.block(e.List, d+1)
		case *ast.IfStmt:
			t.push()
			el = coqLBlk([]string{t.stmt(e, d+2)}, d+1)
			t.pop()
		default:
			t.pop()
			return lUnknownS(s)
		}
		t.pop()
		return "(LSIf " + init + " " + cond + "\n" + indent(d+1) + th + "\n" + indent(d+1) + el + ")"
	case *ast.ForStmt:
		if v.Init != nil || v.Post != nil || v.Cond == nil {
			break
		}
		x, _, ok := t.method(v.Cond, "Scan", 0)
		if !ok {
			break
		}
		return "(LSForScan " + coqStr(x) + "\n" + indent(d+1) + t.block(v.Body.List, d+1) + ")"
	case *ast.ReturnStmt:
		return "(LSReturn " + t.exprs(v.Results) + ")"
	}
	return lUnknownS(s)
}

func (t *lTr) fnIR(name string) string {
	fd := funcDecls[name]
	if fd == nil || fd.Body == nil {
		return "FnIR [] (lblk [LSUnknown " + coqStr("missing function "+name) + "]) []"
	}
	t.sc = nil
	t.closures = nil
	t.closureSet = map[string]bool{}
	t.inClosure = false
	t.push()
	var ps []string
	poison := []string{}
	if fd.Type.Params != nil {
		for _, f := range fd.Type.Params.List {
			if _, variadic := f.Type.(*ast.Ellipsis); variadic || len(f.Names) == 0 {
				poison = append(poison, "LSUnknown "+coqStr("parameters of "+name+" not recognised"))
			}
			for _, n := range f.Names {
				ps = append(ps, coqStr(n.Name))
				t.declare(n.Name)
			}
		}
	}
	if fd.Type.Results != nil {
		for _, f := range fd.Type.Results.List {
			if len(f.Names) != 0 {
				poison = append(poison, "LSUnknown "+coqStr("named results of "+name+" not in the fragment"))
			}
		}
	}
	items := poison
	// the body shares the parameters' scope
	for _, s := range fd.Body.List {
		items = append(items, t.stmt(s, 2))
	}
	t.pop()
	return "FnIR " + coqList(ps) + "\n    " + coqLBlk(items, 1) + "\n    [" + strings.Join(t.closures, ";\n     ") + "]"
}

// errorfCall matches `return fmt.Errorf("lit", args...)`.
func (t *lTr) errorfReturn(s ast.Stmt) (string, []string, bool) {
	r, ok := s.(*ast.ReturnStmt)
	if !ok || len(r.Results) != 1 {
		return "", nil, false
	}
	c, ok := t.pkgCall(r.Results[0], "fmt", "Errorf", -1)
	if !ok || len(c.Args) < 1 {
		return "", nil, false
	}
	lit, ok := c.Args[0].(*ast.BasicLit)
	if !ok || lit.Kind != token.STRING {
		return "", nil, false
	}
	f, err := strconv.Unquote(lit.Value)
	if err != nil {
		return "", nil, false
	}
	var args []string
	for _, a := range c.Args[1:] {
		args = append(args, goText(a))
	}
	return f, args, true
}

func coqStrList(l []string) string {
	q := []string{}
	for _, s := range l {
		q = append(q, coqStr(s))
	}
	return coqList(q)
}

// fmtShape: formatEventsParseError as  prelude; if HasPrefix(S, p1) || .. { return Errorf(..) }; return Errorf(..)
func (t *lTr) fmtShape() string {
	bad := func(why string) string {
		return "FmtIR [] false " + coqStr(why) + " [] (\"\", []) (\"\", [])"
	}
	fd := funcDecls["formatEventsParseError"]
	if fd == nil || fd.Body == nil {
		return bad("missing function formatEventsParseError")
	}
	t.sc = nil
	t.push()
	defer t.pop()
	params := paramNames(fd)
	isParam := map[string]bool{}
	for _, p := range params {
		isParam[p] = true
	}
	stmts := fd.Body.List
	if len(stmts) < 2 {
		return bad("body not recognised")
	}
	dfmt, dargs, ok := t.errorfReturn(stmts[len(stmts)-1])
	if !ok {
		return bad("last statement not recognised: " + goText(stmts[len(stmts)-1]))
	}
	is, ok := stmts[len(stmts)-2].(*ast.IfStmt)
	if !ok || is.Init != nil || is.Else != nil || len(is.Body.List) != 1 {
		return bad("conflict test not recognised")
	}
	cfmt, cargs, ok := t.errorfReturn(is.Body.List[0])
	if !ok {
		return bad("conflict branch not recognised")
	}
	var disj []ast.Expr
	var flat func(e ast.Expr)
	flat = func(e ast.Expr) {
		if p, ok := e.(*ast.ParenExpr); ok {
			flat(p.X)
			return
		}
		if b, ok := e.(*ast.BinaryExpr); ok && b.Op == token.LOR {
			flat(b.X)
			flat(b.Y)
			return
		}
		disj = append(disj, e)
	}
	flat(is.Cond)
	subjectVar := ""
	var prefixes []string
	for _, dj := range disj {
		c, ok := t.pkgCall(dj, "bytes", "HasPrefix", 2)
		if !ok {
			return bad("conflict test not recognised: " + goText(dj))
		}
		id, ok := c.Args[0].(*ast.Ident)
		if !ok || (subjectVar != "" && id.Name != subjectVar) {
			return bad("conflict test not recognised: " + goText(dj))
		}
		subjectVar = id.Name
		conv, ok := c.Args[1].(*ast.CallExpr)
		if !ok || len(conv.Args) != 1 || !isByteSliceType(conv.Fun) || !t.free("byte") {
			return bad("conflict test not recognised: " + goText(dj))
		}
		p, ok := strOf(conv.Args[0])
		if !ok {
			return bad("conflict test not recognised: " + goText(dj))
		}
		if _, isLit := conv.Args[0].(*ast.BasicLit); !isLit {
			return bad("conflict test not recognised: " + goText(dj))
		}
		prefixes = append(prefixes, p)
	}
	prelude := stmts[:len(stmts)-2]
	preludeOK := true
	assigned := map[string]int{}
	subject := subjectVar
	subjectIdents := map[string]bool{}
	for _, s := range prelude {
		ast.Inspect(s, func(n ast.Node) bool {
			switch x := n.(type) {
			case *ast.ReturnStmt, *ast.GoStmt, *ast.DeferStmt, *ast.BranchStmt, *ast.FuncLit:
				preludeOK = false
			case *ast.CallExpr:
				if id, ok := x.Fun.(*ast.Ident); ok && (id.Name == "panic" || funcDecls[id.Name] != nil) {
					preludeOK = false
				}
				if sel, ok := x.Fun.(*ast.SelectorExpr); ok {
					if p, ok := sel.X.(*ast.Ident); ok && (p.Name == "os" || p.Name == "log" || p.Name == "runtime" || p.Name == "syscall") {
						preludeOK = false
					}
				}
			case *ast.AssignStmt:
				for _, l := range x.Lhs {
					if id, ok := l.(*ast.Ident); ok {
						assigned[id.Name]++
					} else {
						preludeOK = false
					}
				}
			case *ast.IncDecStmt:
				preludeOK = false
			case *ast.UnaryExpr:
				if x.Op == token.AND {
					preludeOK = false
				}
			}
			return true
		})
		if as, ok := s.(*ast.AssignStmt); ok && as.Tok == token.DEFINE && len(as.Lhs) == 1 && len(as.Rhs) == 1 && goText(as.Lhs[0]) == subjectVar {
			subject = goText(as.Rhs[0])
			ast.Inspect(as.Rhs[0], func(n ast.Node) bool {
				if id, ok := n.(*ast.Ident); ok {
					subjectIdents[id.Name] = true
				}
				return true
			})
		}
	}
	if isParam[subjectVar] {
		if assigned[subjectVar] != 0 {
			preludeOK = false
		}
	} else if assigned[subjectVar] != 1 || subject == subjectVar {
		preludeOK = false
	}
	for id := range subjectIdents {
		if assigned[id] != 0 {
			preludeOK = false
		}
	}
	for _, args := range [][]string{cargs, dargs} {
		for i, a := range args {
			if i < 2 && assigned[a] != 0 {
				preludeOK = false
			}
		}
	}
	okS := "false"
	if preludeOK {
		okS = "true"
	}
	return "FmtIR " + coqStrList(params) + " " + okS + " " + coqStr(subject) + " " + coqStrList(prefixes) +
		"\n    (" + coqStr(cfmt) + ", " + coqStrList(cargs) + ")\n    (" + coqStr(dfmt) + ", " + coqStrList(dargs) + ")"
}

// loadShape: loadGraph as  p := F(dir); evs, err := G(p); if err != nil { return nil, err }; return H(evs)
func loadShape() string {
	bad := "LoadIR \"\" \"\" \"\" false"
	fd := funcDecls["loadGraph"]
	if fd == nil || fd.Body == nil {
		return bad
	}
	// instrumentation sync points (verifPoint("...") with a literal name: a no-op without the verif tag) are not part of the shape
	var body []ast.Stmt
	for _, st := range fd.Body.List {
		if es, ok := st.(*ast.ExprStmt); ok {
			if c, ok := es.X.(*ast.CallExpr); ok {
				if id, ok := c.Fun.(*ast.Ident); ok && id.Name == "verifPoint" && len(c.Args) == 1 {
					if _, ok := c.Args[0].(*ast.BasicLit); ok {
						continue
					}
				}
			}
		}
		body = append(body, st)
	}
	if len(body) != 4 {
		return bad
	}
	ps := paramNames(fd)
	if len(ps) != 1 {
		return bad
	}
	call1 := func(e ast.Expr, arg string) (string, bool) {
		c, ok := e.(*ast.CallExpr)
		if !ok || len(c.Args) != 1 || c.Ellipsis != token.NoPos || goText(c.Args[0]) != arg {
			return "", false
		}
		f, ok := c.Fun.(*ast.Ident)
		if !ok || funcDecls[f.Name] == nil {
			return "", false
		}
		return f.Name, true
	}
	s := body
	a1, ok := s[0].(*ast.AssignStmt)
	if !ok || a1.Tok != token.DEFINE || len(a1.Lhs) != 1 || len(a1.Rhs) != 1 {
		return bad
	}
	p := goText(a1.Lhs[0])
	f, ok := call1(a1.Rhs[0], ps[0])
	if !ok || p == "_" || p == ps[0] || funcDecls[p] != nil {
		return bad
	}
	a2, ok := s[1].(*ast.AssignStmt)
	if !ok || a2.Tok != token.DEFINE || len(a2.Lhs) != 2 || len(a2.Rhs) != 1 {
		return bad
	}
	evs, er := goText(a2.Lhs[0]), goText(a2.Lhs[1])
	g, ok := call1(a2.Rhs[0], p)
	if !ok || evs == "_" || er == "_" || evs == er || evs == p || er == p || funcDecls[evs] != nil || funcDecls[er] != nil ||
		evs == "nil" || er == "nil" || p == "nil" || ps[0] == "nil" {
		return bad
	}
	if goText(s[2]) != "if "+er+" != nil { return nil, "+er+" }" {
		return bad
	}
	r, ok := s[3].(*ast.ReturnStmt)
	if !ok || len(r.Results) != 1 {
		return bad
	}
	h, ok := call1(r.Results[0], evs)
	if !ok {
		return bad
	}
	for _, n := range []string{f, g, h} {
		if n == p || n == evs || n == er || n == ps[0] {
			return bad
		}
	}
	return "LoadIR " + coqStr(f) + " " + coqStr(g) + " " + coqStr(h) + " true"
}

// The stub written when the translation itself crashes: the build goes on, B_Read.v fails.
const readStub = "(* GENERATED by tools/gen: STUB (the translator failed) *)\nFrom ErgoBridge Require Import ReadIR.\n" +
	"From Coq Require Import String List.\nImport ListNotations.\nLocal Open Scope string_scope.\n" +
	"Definition gen_readEvents : fn_ir := FnIR [] (lblk [LSUnknown \"stub\"]) [].\n" +
	"Definition gen_getEventsPath : fn_ir := FnIR [] (lblk [LSUnknown \"stub\"]) [].\n" +
	"Definition gen_encodeEventLine : fn_ir := FnIR [] (lblk [LSUnknown \"stub\"]) [].\n" +
	"Definition gen_hasUnterminatedTail : fn_ir := FnIR [] (lblk [LSUnknown \"stub\"]) [].\n" +
	"Definition gen_formatEventsParseError : fmt_ir := FmtIR [] false \"stub\" [] (\"\", []) (\"\", []).\n" +
	"Definition gen_loadGraph : load_ir := LoadIR \"\" \"\" \"\" false.\n"

func genReadIR(fset *token.FileSet, files []*ast.File) (out string) {
	defer func() {
		if r := recover(); r != nil {
			out = readStub
		}
	}()
	irFset = fset
	t := &lTr{pkg: map[string]bool{}}
	for _, f := range files {
		for _, d := range f.Decls {
			switch v := d.(type) {
			case *ast.FuncDecl:
				if v.Recv == nil {
					t.pkg[v.Name.Name] = true
				}
			case *ast.GenDecl:
				for _, sp := range v.Specs {
					switch s := sp.(type) {
					case *ast.ValueSpec:
						for _, n := range s.Names {
							t.pkg[n.Name] = true
						}
					case *ast.TypeSpec:
						t.pkg[s.Name.Name] = true
					}
				}
			}
		}
	}
	// names this translation gives a fixed meaning although they are package-level
	delete(t.pkg, "Event")
	var b strings.Builder
	b.WriteString("(* GENERATED by tools/gen (read_ir.go) from internal/ergo/storage.go — do not edit *)\n")
	b.WriteString("From ErgoBridge Require Import ReadIR.\nFrom Coq Require Import String NArith List.\nImport ListNotations.\nLocal Open Scope string_scope.\n\n")
	for _, fn := range []string{"readEvents", "getEventsPath", "encodeEventLine", "hasUnterminatedTail"} {
		b.WriteString("Definition gen_" + fn + " : fn_ir :=\n  " + t.fnIR(fn) + ".\n\n")
	}
	b.WriteString("Definition gen_formatEventsParseError : fmt_ir :=\n  " + t.fmtShape() + ".\n\n")
	b.WriteString("Definition gen_loadGraph : load_ir := " + loadShape() + ".\n")
	return b.String()
}
