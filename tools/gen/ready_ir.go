// ready_ir.go — translation of the readiness functions of graph.go into the boolean-decision IR of
// coq/bridge/ReadyIR.v (output: coq/gen/ReadyGen.v).
//
// Sound, not clever: the Go AST is pattern-matched statement by statement; whatever is not one of the
// accepted shapes becomes an EUnknown / SUnknown node carrying the Go text, on which the Coq interpreter
// yields no value, so the equivalence theorems of bridge/B_Ready.v cannot be proved for it.
// Named constants are resolved to their values through the package's const declarations (strConsts).
package main

import (
	"bytes"
	"go/ast"
	"go/printer"
	"go/token"
	"sort"
	"strconv"
	"strings"
)

var irFset *token.FileSet

// goText renders a node as one line of Go source.
func goText(n ast.Node) string {
	if n == nil {
		return ""
	}
	var buf bytes.Buffer
	if err := printer.Fprint(&buf, irFset, n); err != nil {
		return "<unprintable>"
	}
	return strings.Join(strings.Fields(buf.String()), " ")
}

// named types whose underlying type is string (type Kind string)
var stringTypes = map[string]bool{}

func collectStringTypes(files []*ast.File) {
	for _, f := range files {
		for _, d := range f.Decls {
			gd, ok := d.(*ast.GenDecl)
			if !ok || gd.Tok != token.TYPE {
				continue
			}
			for _, sp := range gd.Specs {
				ts := sp.(*ast.TypeSpec)
				if id, ok := ts.Type.(*ast.Ident); ok && id.Name == "string" && ts.Assign == token.NoPos {
					stringTypes[ts.Name.Name] = true
				}
			}
		}
	}
}

func irType(e ast.Expr) string {
	switch t := goText(e); {
	case t == "string" || stringTypes[t]:
		return "TString"
	case t == "bool":
		return "TBool"
	case t == "*Task":
		return "TTask"
	case t == "*Graph":
		return "TGraph"
	case t == "[]*Task":
		return "TTaskSlice"
	case t == "map[string]*Task":
		return "TTaskMap"
	case mapKind(e) != "":
		return "(TMap " + mapKind(e) + ")"
	default:
		return "(TOther " + coqStr(t) + ")"
	}
}

// mapKind: map[string]bool / map[string]int / map[string]struct{} -> KBool / KInt / KUnit, else "".
func mapKind(e ast.Expr) string {
	mt, ok := e.(*ast.MapType)
	if !ok || goText(mt.Key) != "string" {
		return ""
	}
	switch goText(mt.Value) {
	case "bool":
		return "KBool"
	case "int":
		return "KInt"
	case "struct{}":
		return "KUnit"
	}
	return ""
}

// builtin: name is the predeclared / imported identifier (not shadowed by a local or a package function).
func builtin(name string, sc irScope) bool { return !sc[name] && funcDecls[name] == nil }

// pureCap: a capacity expression without effects: integer literals, len(x) of a local, sums of those.
func pureCap(e ast.Expr, sc irScope) bool {
	switch v := e.(type) {
	case *ast.ParenExpr:
		return pureCap(v.X, sc)
	case *ast.BasicLit:
		return v.Kind == token.INT
	case *ast.BinaryExpr:
		return v.Op == token.ADD && pureCap(v.X, sc) && pureCap(v.Y, sc)
	case *ast.CallExpr:
		if f, ok := v.Fun.(*ast.Ident); ok && f.Name == "len" && builtin("len", sc) && len(v.Args) == 1 && v.Ellipsis == token.NoPos {
			id, ok := v.Args[0].(*ast.Ident)
			return ok && sc[id.Name]
		}
	}
	return false
}

// scopedIdent: e is a local variable / parameter.
func scopedIdent(e ast.Expr, sc irScope) (string, bool) {
	id, ok := e.(*ast.Ident)
	if ok && sc[id.Name] {
		return id.Name, true
	}
	return "", false
}

var taskFields = map[string]string{
	"ID": "FID", "UUID": "FUUID", "EpicID": "FEpicID", "IsEpic": "FIsEpic", "State": "FState",
	"Title": "FTitle", "Body": "FBody", "ClaimedBy": "FClaimedBy", "CreatedAt": "FCreatedAt", "UpdatedAt": "FUpdatedAt",
}

type irScope map[string]bool

func (s irScope) with(names ...string) irScope {
	out := irScope{}
	for k := range s {
		out[k] = true
	}
	for _, n := range names {
		out[n] = true
	}
	return out
}

// irTr is the state of one translation run: the set of package functions called so far.
type irTr struct {
	called map[string]bool
}

func unknownE(n ast.Node) string { return "(EUnknown " + coqStr(goText(n)) + ")" }
func unknownS(n ast.Node) string { return "(SUnknown " + coqStr(goText(n)) + ")" }

func isNilIdent(e ast.Expr, sc irScope) bool {
	id, ok := e.(*ast.Ident)
	return ok && id.Name == "nil" && !sc["nil"]
}

// varName: an identifier in scope, or (in a sort.Slice closure) the element expression xs[i] registered in scope.
func varName(e ast.Expr, sc irScope) (string, bool) {
	switch v := e.(type) {
	case *ast.Ident:
		if sc[v.Name] {
			return v.Name, true
		}
	case *ast.IndexExpr:
		t := goText(v)
		if sc[t] {
			return t, true
		}
	case *ast.ParenExpr:
		return varName(v.X, sc)
	}
	return "", false
}

func (tr *irTr) expr(e ast.Expr, sc irScope) string {
	switch v := e.(type) {
	case *ast.ParenExpr:
		return tr.expr(v.X, sc)
	case *ast.BasicLit:
		if s, ok := strOf(v); ok {
			return "(EStr " + coqStr(s) + ")"
		}
		if v.Kind == token.INT {
			if n, err := strconv.ParseInt(v.Value, 0, 64); err == nil && n >= 0 {
				return "(EInt " + strconv.FormatInt(n, 10) + "%Z)"
			}
		}
	case *ast.CompositeLit:
		if goText(v.Type) == "struct{}" && len(v.Elts) == 0 {
			return "EUnit"
		}
	case *ast.IndexExpr:
		// m[k], m a local map
		if m, ok := scopedIdent(v.X, sc); ok {
			return "(EMapGet " + coqStr(m) + " " + tr.expr(v.Index, sc) + ")"
		}
	case *ast.Ident:
		if sc[v.Name] {
			return "(EVar " + coqStr(v.Name) + ")"
		}
		if v.Name == "true" {
			return "(EBool true)"
		}
		if v.Name == "false" {
			return "(EBool false)"
		}
		if s, ok := strConsts[v.Name]; ok {
			return "(EStr " + coqStr(s) + ")"
		}
	case *ast.SelectorExpr:
		if base, ok := varName(v.X, sc); ok {
			if f, ok := taskFields[v.Sel.Name]; ok {
				return "(EField " + coqStr(base) + " " + f + ")"
			}
		}
	case *ast.UnaryExpr:
		if v.Op == token.NOT {
			return "(ENot " + tr.expr(v.X, sc) + ")"
		}
	case *ast.BinaryExpr:
		if v.Op == token.EQL || v.Op == token.NEQ {
			var other ast.Expr
			if isNilIdent(v.Y, sc) {
				other = v.X
			} else if isNilIdent(v.X, sc) {
				other = v.Y
			}
			if other != nil {
				if id, ok := other.(*ast.Ident); ok && sc[id.Name] {
					if v.Op == token.EQL {
						return "(EIsNil " + coqStr(id.Name) + ")"
					}
					return "(ENot (EIsNil " + coqStr(id.Name) + "))"
				}
				return unknownE(e)
			}
		}
		op := ""
		switch v.Op {
		case token.EQL:
			op = "EEq"
		case token.NEQ:
			op = "ENe"
		case token.LSS:
			op = "ELt"
		case token.LAND:
			op = "EAnd"
		case token.LOR:
			op = "EOr"
		}
		if op != "" {
			return "(" + op + " " + tr.expr(v.X, sc) + " " + tr.expr(v.Y, sc) + ")"
		}
	case *ast.CallExpr:
		if v.Ellipsis != token.NoPos {
			break
		}
		switch f := v.Fun.(type) {
		case *ast.Ident:
			if !sc[f.Name] && funcDecls[f.Name] != nil {
				args := []string{}
				for _, a := range v.Args {
					args = append(args, tr.expr(a, sc))
				}
				tr.called[f.Name] = true
				return "(ECall " + coqStr(f.Name) + " (xs " + coqList(args) + "))"
			}
		case *ast.SelectorExpr:
			if len(v.Args) == 1 {
				op := map[string]string{"Equal": "ETimeEqual", "Before": "ETimeBefore", "After": "ETimeAfter"}[f.Sel.Name]
				if op != "" {
					return "(" + op + " " + tr.expr(f.X, sc) + " " + tr.expr(v.Args[0], sc) + ")"
				}
			}
		}
	}
	return unknownE(e)
}

// filterCtx: set while translating the body of a filtering loop.
type filterCtx struct {
	acc, elem string
}

func coqBlk(items []string) string { return "(blk " + coqList(items) + ")" }

// graphSel matches G.<field> with G a variable in scope.
func graphSel(e ast.Expr, field string, sc irScope) (string, bool) {
	sel, ok := e.(*ast.SelectorExpr)
	if !ok || sel.Sel.Name != field {
		return "", false
	}
	id, ok := sel.X.(*ast.Ident)
	if !ok || !sc[id.Name] {
		return "", false
	}
	return id.Name, true
}

// block translates a statement list. tail: the list is in tail position of a filtering loop body.
func (tr *irTr) block(stmts []ast.Stmt, sc irScope, fc *filterCtx, tail bool) []string {
	out := []string{}
	for i, st := range stmts {
		last := tail && i == len(stmts)-1
		var s string
		s, sc = tr.stmt(st, sc, fc, last)
		out = append(out, s)
	}
	return out
}

func (tr *irTr) stmt(st ast.Stmt, sc irScope, fc *filterCtx, tail bool) (string, irScope) {
	switch v := st.(type) {
	case *ast.IfStmt:
		if v.Init != nil {
			// if init; c {..} else {..}  ==  { init; if c {..} else {..} }  (the variables of init are scoped to the if)
			s0, sc2 := tr.stmt(v.Init, sc, nil, false)
			plain := *v
			plain.Init = nil
			s1, _ := tr.stmt(&plain, sc2, fc, tail)
			return "(SIf (EBool true) " + coqBlk([]string{s0, s1}) + " " + coqBlk(nil) + ")", sc
		}
		th := coqBlk(tr.block(v.Body.List, sc, fc, tail))
		el := coqBlk(nil)
		switch e := v.Else.(type) {
		case nil:
		case *ast.BlockStmt:
			el = coqBlk(tr.block(e.List, sc, fc, tail))
		case *ast.IfStmt:
			s, _ := tr.stmt(e, sc, fc, tail)
			el = coqBlk([]string{s})
		default:
			return unknownS(st), sc
		}
		return "(SIf " + tr.expr(v.Cond, sc) + " " + th + " " + el + ")", sc
	case *ast.ReturnStmt:
		if len(v.Results) == 1 {
			return "(SReturn " + tr.expr(v.Results[0], sc) + ")", sc
		}
	case *ast.BranchStmt:
		if v.Tok == token.CONTINUE && v.Label == nil {
			return "SContinue", sc
		}
	case *ast.AssignStmt:
		if s, sc2, ok := tr.heapAssign(v, sc); ok {
			return s, sc2
		}
		if v.Tok == token.DEFINE && len(v.Lhs) == 1 && len(v.Rhs) == 1 {
			if id, ok := v.Lhs[0].(*ast.Ident); ok && id.Name != "_" {
				return "(SLet " + coqStr(id.Name) + " " + tr.expr(v.Rhs[0], sc) + ")", sc.with(id.Name)
			}
		}
		if v.Tok == token.DEFINE && len(v.Lhs) == 2 && len(v.Rhs) == 1 {
			a, ok1 := v.Lhs[0].(*ast.Ident)
			b, ok2 := v.Lhs[1].(*ast.Ident)
			ix, ok3 := v.Rhs[0].(*ast.IndexExpr)
			if ok1 && ok2 && ok3 && a.Name != b.Name {
				if g, ok := graphSel(ix.X, "Tasks", sc); ok {
					return "(SLookup " + coqStr(a.Name) + " " + coqStr(b.Name) + " " + coqStr(g) + " " + tr.expr(ix.Index, sc) + ")",
						sc.with(a.Name, b.Name)
				}
			}
		}
		if fc != nil && tail && v.Tok == token.ASSIGN && len(v.Lhs) == 1 && len(v.Rhs) == 1 {
			// acc = append(acc, elem)
			l, ok1 := v.Lhs[0].(*ast.Ident)
			c, ok2 := v.Rhs[0].(*ast.CallExpr)
			if ok1 && ok2 && l.Name == fc.acc && !sc[fc.acc] && c.Ellipsis == token.NoPos && len(c.Args) == 2 {
				f, ok3 := c.Fun.(*ast.Ident)
				a0, ok4 := c.Args[0].(*ast.Ident)
				a1, ok5 := c.Args[1].(*ast.Ident)
				if ok3 && ok4 && ok5 && f.Name == "append" && !sc["append"] && funcDecls["append"] == nil &&
					a0.Name == fc.acc && a1.Name == fc.elem {
					return "SKeep", sc
				}
			}
		}
	case *ast.IncDecStmt:
		// m[k]++
		if ix, ok := v.X.(*ast.IndexExpr); ok && v.Tok == token.INC {
			if m, ok := scopedIdent(ix.X, sc); ok {
				return "(SMapIncr " + coqStr(m) + " " + tr.expr(ix.Index, sc) + ")", sc
			}
		}
	case *ast.ExprStmt:
		// sort.Strings(v)
		if c, ok := v.X.(*ast.CallExpr); ok && goText(c.Fun) == "sort.Strings" && builtin("sort", sc) && len(c.Args) == 1 && c.Ellipsis == token.NoPos {
			if x, ok := scopedIdent(c.Args[0], sc); ok {
				return "(SSortStrs " + coqStr(x) + ")", sc
			}
		}
	case *ast.RangeStmt:
		if v.Tok != token.DEFINE {
			break
		}
		k, kok := v.Key.(*ast.Ident)
		if !kok {
			break
		}
		if v.Value == nil && k.Name != "_" {
			// for k := range m, m a local map
			if m, ok := scopedIdent(v.X, sc); ok {
				body := tr.block(v.Body.List, sc.with(k.Name), nil, false)
				return "(SRangeKeys " + coqStr(k.Name) + " " + coqStr(m) + " " + coqBlk(body) + ")", sc
			}
		}
		if v.Value == nil {
			// for k := range G.Deps[key]
			if ix, ok := v.X.(*ast.IndexExpr); ok {
				if g, ok := graphSel(ix.X, "Deps", sc); ok {
					body := tr.block(v.Body.List, sc.with(k.Name), nil, false)
					return "(SRangeDeps " + coqStr(k.Name) + " " + coqStr(g) + " " + tr.expr(ix.Index, sc) + " " + coqBlk(body) + ")", sc
				}
			}
			break
		}
		val, vok := v.Value.(*ast.Ident)
		if vok && k.Name == "_" && val.Name != "_" {
			// for _, t := range G.Tasks
			if g, ok := graphSel(v.X, "Tasks", sc); ok {
				body := tr.block(v.Body.List, sc.with(val.Name), nil, false)
				return "(SRangeTasks " + coqStr(val.Name) + " " + coqStr(g) + " " + coqBlk(body) + ")", sc
			}
		}
	case *ast.BlockStmt:
		// a bare block: scoped like an if-true
		return "(SIf (EBool true) " + coqBlk(tr.block(v.List, sc, fc, tail)) + " " + coqBlk(nil) + ")", sc
	}
	return unknownS(st), sc
}

// heapAssign: the assignment shapes of the stateful fragment (bridge/HeapIR.v).
//
//	v := make(map[string]T) | v := map[string]T{}      SMakeMap
//	v := make([]string, 0, cap)                        SMakeStrs
//	_, ok := m[k]                                      SMapHas
//	m[k] = e                                           SMapSet
//	v = append(v, e)                                   SAppendStr
func (tr *irTr) heapAssign(v *ast.AssignStmt, sc irScope) (string, irScope, bool) {
	if v.Tok == token.DEFINE && len(v.Lhs) == 1 && len(v.Rhs) == 1 {
		id, ok := v.Lhs[0].(*ast.Ident)
		if !ok || id.Name == "_" {
			return "", sc, false
		}
		switch r := v.Rhs[0].(type) {
		case *ast.CompositeLit:
			if k := mapKind(r.Type); k != "" && len(r.Elts) == 0 {
				return "(SMakeMap " + coqStr(id.Name) + " " + k + ")", sc.with(id.Name), true
			}
		case *ast.CallExpr:
			if f, ok := r.Fun.(*ast.Ident); !ok || f.Name != "make" || !builtin("make", sc) || r.Ellipsis != token.NoPos || len(r.Args) == 0 {
				break
			}
			if k := mapKind(r.Args[0]); k != "" && (len(r.Args) == 1 || (len(r.Args) == 2 && pureCap(r.Args[1], sc))) {
				return "(SMakeMap " + coqStr(id.Name) + " " + k + ")", sc.with(id.Name), true
			}
			if goText(r.Args[0]) == "[]string" && len(r.Args) == 3 && goText(r.Args[1]) == "0" && pureCap(r.Args[2], sc) {
				return "(SMakeStrs " + coqStr(id.Name) + ")", sc.with(id.Name), true
			}
			if goText(r.Args[0]) == "[]string" && len(r.Args) == 2 && goText(r.Args[1]) == "0" {
				return "(SMakeStrs " + coqStr(id.Name) + ")", sc.with(id.Name), true
			}
		}
		return "", sc, false
	}
	if v.Tok == token.DEFINE && len(v.Lhs) == 2 && len(v.Rhs) == 1 {
		a, ok1 := v.Lhs[0].(*ast.Ident)
		b, ok2 := v.Lhs[1].(*ast.Ident)
		ix, ok3 := v.Rhs[0].(*ast.IndexExpr)
		if ok1 && ok2 && ok3 && a.Name == "_" && b.Name != "_" {
			if m, ok := scopedIdent(ix.X, sc); ok {
				return "(SMapHas " + coqStr(b.Name) + " " + coqStr(m) + " " + tr.expr(ix.Index, sc) + ")", sc.with(b.Name), true
			}
		}
		return "", sc, false
	}
	if v.Tok == token.ASSIGN && len(v.Lhs) == 1 && len(v.Rhs) == 1 {
		if ix, ok := v.Lhs[0].(*ast.IndexExpr); ok {
			if m, ok := scopedIdent(ix.X, sc); ok {
				return "(SMapSet " + coqStr(m) + " " + tr.expr(ix.Index, sc) + " " + tr.expr(v.Rhs[0], sc) + ")", sc, true
			}
			return "", sc, false
		}
		l, ok1 := scopedIdent(v.Lhs[0], sc)
		c, ok2 := v.Rhs[0].(*ast.CallExpr)
		if ok1 && ok2 && c.Ellipsis == token.NoPos && len(c.Args) == 2 && goText(c.Fun) == "append" && builtin("append", sc) {
			if a0, ok := scopedIdent(c.Args[0], sc); ok && a0 == l {
				return "(SAppendStr " + coqStr(l) + " " + tr.expr(c.Args[1], sc) + ")", sc, true
			}
		}
	}
	return "", sc, false
}

// closure translates every package function reachable by calls from the functions already in fns / tr.called.
func (tr *irTr) closure(fns map[string]irFn) {
	for {
		var todo []string
		for n := range tr.called {
			if _, ok := fns[n]; !ok {
				todo = append(todo, n)
			}
		}
		if len(todo) == 0 {
			return
		}
		sort.Strings(todo)
		for _, n := range todo {
			fns[n] = tr.plainFn(n)
		}
	}
}

// progText renders fns as Coq definitions gen_fn_<name> plus the program list `prog`.
func progText(fns map[string]irFn, prog string) string {
	var names []string
	for n := range fns {
		names = append(names, n)
	}
	sort.Strings(names)
	var b strings.Builder
	var entries []string
	for _, n := range names {
		id := "gen_fn_" + coqIdent(n)
		b.WriteString("Definition " + id + " : fndef :=\n  " + fns[n].coq() + ".\n\n")
		entries = append(entries, "("+coqStr(n)+", "+id+")")
	}
	b.WriteString("Definition " + prog + " : prog := [\n  " + strings.Join(entries, ";\n  ") + "].\n")
	return b.String()
}

type irFn struct {
	name   string
	params []string // "(name, type)"
	filter bool
	body   []string
	source string // filters: what the loop ranges over
}

func (f irFn) coq() string {
	fl := "false"
	if f.filter {
		fl = "true"
	}
	return "FnDef " + coqList(f.params) + " " + fl + " (blk [\n    " + strings.Join(f.body, ";\n    ") + "])"
}

func paramList(ft *ast.FuncType) (params []string, names []string) {
	if ft.Params == nil {
		return
	}
	for _, fld := range ft.Params.List {
		ty := irType(fld.Type)
		if len(fld.Names) == 0 {
			params = append(params, "("+coqStr("_")+", "+ty+")")
			continue
		}
		for _, n := range fld.Names {
			params = append(params, "("+coqStr(n.Name)+", "+ty+")")
			names = append(names, n.Name)
		}
	}
	return
}

func missingFn(name, why string) irFn {
	return irFn{name: name, body: []string{"(SUnknown " + coqStr(why) + ")"}}
}

func (tr *irTr) plainFn(name string) irFn {
	fd := funcDecls[name]
	if fd == nil || fd.Body == nil {
		return missingFn(name, "missing function "+name)
	}
	params, names := paramList(fd.Type)
	sc := irScope{}.with(names...)
	return irFn{name: name, params: params, body: tr.block(fd.Body.List, sc, nil, false)}
}

// filterFn translates
//
//	[var acc []*Task | acc := src[:0] | if c { return src }]*
//	for _, elem := range (G.Tasks | src) { body }          body: `acc = append(acc, elem)` in tail position = keep
//	[sort.Slice(acc, ...)]  return acc
//
// into the predicate "is elem kept": prelude ++ body with the function's parameters plus elem as parameters.
func (tr *irTr) filterFn(fname string) irFn {
	name := fname + ".keep"
	fd := funcDecls[fname]
	if fd == nil || fd.Body == nil {
		return missingFn(name, "missing function "+fname)
	}
	params, names := paramList(fd.Type)
	sc := irScope{}.with(names...)
	isParam := map[string]bool{}
	for _, n := range names {
		isParam[n] = true
	}
	acc, accSrc := "", ""
	var retSrc []string
	var body []string
	stmts := fd.Body.List
	i := 0
	var loop *ast.RangeStmt
	for ; i < len(stmts) && loop == nil; i++ {
		switch v := stmts[i].(type) {
		case *ast.RangeStmt:
			loop = v
			continue
		case *ast.DeclStmt:
			if gd, ok := v.Decl.(*ast.GenDecl); ok && gd.Tok == token.VAR && len(gd.Specs) == 1 && acc == "" {
				vs := gd.Specs[0].(*ast.ValueSpec)
				if len(vs.Names) == 1 && len(vs.Values) == 0 && goText(vs.Type) == "[]*Task" {
					acc = vs.Names[0].Name
					continue
				}
			}
		case *ast.AssignStmt:
			if v.Tok == token.DEFINE && len(v.Lhs) == 1 && len(v.Rhs) == 1 && acc == "" {
				l, ok1 := v.Lhs[0].(*ast.Ident)
				sl, ok2 := v.Rhs[0].(*ast.SliceExpr)
				if ok1 && ok2 && sl.Low == nil && sl.Max == nil && goText(sl.High) == "0" {
					if x, ok := sl.X.(*ast.Ident); ok && isParam[x.Name] {
						acc, accSrc = l.Name, x.Name
						continue
					}
				}
				// acc := make([]*Task, 0, ...)
				if c, ok := v.Rhs[0].(*ast.CallExpr); ok1 && ok && goText(c.Fun) == "make" && !sc["make"] && funcDecls["make"] == nil &&
					len(c.Args) >= 2 && goText(c.Args[0]) == "[]*Task" && goText(c.Args[1]) == "0" {
					acc = l.Name
					continue
				}
			}
		case *ast.IfStmt:
			if v.Init == nil && v.Else == nil && len(v.Body.List) == 1 {
				if r, ok := v.Body.List[0].(*ast.ReturnStmt); ok && len(r.Results) == 1 {
					if x, ok := r.Results[0].(*ast.Ident); ok && isParam[x.Name] {
						retSrc = append(retSrc, x.Name)
						body = append(body, "(SIf "+tr.expr(v.Cond, sc)+" "+coqBlk([]string{"SKeep"})+" "+coqBlk(nil)+")")
						continue
					}
				}
			}
		}
		body = append(body, unknownS(stmts[i]))
	}
	if loop == nil || acc == "" {
		return missingFn(name, "no filtering loop recognised in "+fname)
	}
	source := ""
	k, kok := loop.Key.(*ast.Ident)
	val, vok := loop.Value.(*ast.Ident)
	if loop.Tok == token.DEFINE && kok && vok && k.Name == "_" && val.Name != "_" && val.Name != acc {
		if g, ok := graphSel(loop.X, "Tasks", sc); ok {
			source = g + ".Tasks"
		} else if x, ok := loop.X.(*ast.Ident); ok && isParam[x.Name] {
			source = "param " + x.Name
		}
	}
	if source == "" {
		return missingFn(name, "loop header not recognised: "+goText(loop.Key)+", "+goText(loop.Value)+" := range "+goText(loop.X))
	}
	for _, s := range append(retSrc, accSrc) {
		if s != "" && "param "+s != source {
			body = append(body, "(SUnknown "+coqStr("slice "+s+" is not the filtered one")+")")
		}
	}
	params = append(params, "("+coqStr(val.Name)+", TTask)")
	fc := &filterCtx{acc: acc, elem: val.Name}
	body = append(body, tr.block(loop.Body.List, sc.with(val.Name), fc, true)...)
	// after the loop: an optional sort of acc, then `return acc`
	rest := stmts[i:]
	if len(rest) > 0 {
		if es, ok := rest[0].(*ast.ExprStmt); ok {
			if c, ok := es.X.(*ast.CallExpr); ok && goText(c.Fun) == "sort.Slice" && len(c.Args) == 2 && goText(c.Args[0]) == acc {
				rest = rest[1:]
			}
		}
	}
	okTail := false
	if len(rest) == 1 {
		if r, ok := rest[0].(*ast.ReturnStmt); ok && len(r.Results) == 1 && goText(r.Results[0]) == acc {
			okTail = true
		}
	}
	if !okTail {
		body = append([]string{"(SUnknown " + coqStr("statements after the filtering loop of "+fname+" not recognised") + ")"}, body...)
	}
	return irFn{name: name, params: params, filter: true, body: body, source: source}
}

// sliceElemIsTask: the slice variable xs of function fd is a []*Task (parameter, var declaration,
// make([]*Task, ...) or the result of a package function returning []*Task).
func sliceElemIsTask(fd *ast.FuncDecl, xs string) bool {
	if fd.Type.Params != nil {
		for _, fld := range fd.Type.Params.List {
			for _, n := range fld.Names {
				if n.Name == xs {
					return goText(fld.Type) == "[]*Task"
				}
			}
		}
	}
	found, good := 0, 0
	ast.Inspect(fd.Body, func(n ast.Node) bool {
		switch v := n.(type) {
		case *ast.FuncLit:
			return false
		case *ast.ValueSpec:
			for _, nm := range v.Names {
				if nm.Name == xs {
					found++
					if len(v.Values) == 0 && goText(v.Type) == "[]*Task" {
						good++
					}
				}
			}
		case *ast.AssignStmt:
			if v.Tok != token.DEFINE {
				return true
			}
			for i, l := range v.Lhs {
				id, ok := l.(*ast.Ident)
				if !ok || id.Name != xs {
					continue
				}
				found++
				if len(v.Lhs) != len(v.Rhs) {
					continue
				}
				if c, ok := v.Rhs[i].(*ast.CallExpr); ok {
					if f, ok := c.Fun.(*ast.Ident); ok {
						if f.Name == "make" && len(c.Args) >= 1 && goText(c.Args[0]) == "[]*Task" {
							good++
						} else if d := funcDecls[f.Name]; d != nil && d.Type.Results != nil && len(d.Type.Results.List) == 1 &&
							len(d.Type.Results.List[0].Names) <= 1 && goText(d.Type.Results.List[0].Type) == "[]*Task" {
							good++
						}
					}
				}
			}
		}
		return true
	})
	return found == 1 && good == 1
}

// lessFn translates the comparison closure of the single `sort.Slice(xs, func(i, j int) bool {...})` of fname;
// its parameters are the elements xs[i] and xs[j].
func (tr *irTr) lessFn(fname string) irFn {
	name := fname + ".less"
	fd := funcDecls[fname]
	if fd == nil || fd.Body == nil {
		return missingFn(name, "missing function "+fname)
	}
	var calls []*ast.CallExpr
	ast.Inspect(fd.Body, func(n ast.Node) bool {
		if c, ok := n.(*ast.CallExpr); ok && goText(c.Fun) == "sort.Slice" {
			calls = append(calls, c)
		}
		return true
	})
	if len(calls) != 1 || len(calls[0].Args) != 2 {
		return missingFn(name, "expected exactly one sort.Slice call in "+fname)
	}
	xs, ok1 := calls[0].Args[0].(*ast.Ident)
	lit, ok2 := calls[0].Args[1].(*ast.FuncLit)
	if !ok1 || !ok2 || lit.Type.Params == nil {
		return missingFn(name, "sort.Slice arguments not recognised: "+goText(calls[0]))
	}
	var ps []string
	for _, fld := range lit.Type.Params.List {
		if goText(fld.Type) != "int" {
			return missingFn(name, "sort.Slice closure parameters not recognised: "+goText(lit.Type))
		}
		for _, n := range fld.Names {
			ps = append(ps, n.Name)
		}
	}
	if len(ps) != 2 || ps[0] == ps[1] || ps[0] == "_" || ps[1] == "_" || ps[0] == xs.Name || ps[1] == xs.Name {
		return missingFn(name, "sort.Slice closure parameters not recognised: "+goText(lit.Type))
	}
	ety := "TTask"
	if !sliceElemIsTask(fd, xs.Name) {
		ety = "(TOther " + coqStr("element of "+xs.Name) + ")"
	}
	a, b := xs.Name+"["+ps[0]+"]", xs.Name+"["+ps[1]+"]"
	sc := irScope{}.with(a, b)
	return irFn{name: name, params: []string{"(" + coqStr(a) + ", " + ety + ")", "(" + coqStr(b) + ", " + ety + ")"},
		body: tr.block(lit.Body.List, sc, nil, false)}
}

// pipeline translates a function of the shape
//
//	v := f(args); [if len(v) == 0 { return nil }]; v = h(v, args); ...; sort.Slice(v, less); return v
//
// with f a filtering loop over G.Tasks and h a filtering loop over its first parameter.
func (tr *irTr) pipeline(fname string, fns map[string]irFn) string {
	fd := funcDecls[fname]
	if fd == nil || fd.Body == nil {
		return "Pipeline [] [PUnknown " + coqStr("missing function "+fname) + "]"
	}
	params, names := paramList(fd.Type)
	sc := irScope{}.with(names...)
	firstParam := func(f string) string {
		d := funcDecls[f]
		if d == nil || d.Type.Params == nil || len(d.Type.Params.List) == 0 || len(d.Type.Params.List[0].Names) == 0 {
			return ""
		}
		return d.Type.Params.List[0].Names[0].Name
	}
	exprs := func(args []ast.Expr) string {
		var out []string
		for _, a := range args {
			out = append(out, tr.expr(a, sc))
		}
		return "(xs " + coqList(out) + ")"
	}
	var stages []string
	for _, st := range fd.Body.List {
		s := ""
		switch v := st.(type) {
		case *ast.AssignStmt:
			if len(v.Lhs) != 1 || len(v.Rhs) != 1 {
				break
			}
			l, ok1 := v.Lhs[0].(*ast.Ident)
			c, ok2 := v.Rhs[0].(*ast.CallExpr)
			if !ok1 || !ok2 || c.Ellipsis != token.NoPos || sc[l.Name] {
				break
			}
			f, ok := c.Fun.(*ast.Ident)
			if !ok || sc[f.Name] || funcDecls[f.Name] == nil {
				break
			}
			keep, ok := fns[f.Name+".keep"]
			if !ok || !keep.filter {
				break
			}
			if v.Tok == token.DEFINE && strings.HasSuffix(keep.source, ".Tasks") {
				s = "PFrom " + coqStr(l.Name) + " " + coqStr(keep.name) + " " + exprs(c.Args)
			} else if v.Tok == token.ASSIGN && len(c.Args) >= 1 && goText(c.Args[0]) == l.Name && keep.source == "param "+firstParam(f.Name) {
				s = "PFilter " + coqStr(l.Name) + " " + coqStr(keep.name) + " " + exprs(c.Args[1:])
			}
		case *ast.IfStmt:
			if v.Init == nil && v.Else == nil && len(v.Body.List) == 1 && goText(v.Body.List[0]) == "return nil" && !sc["len"] && funcDecls["len"] == nil {
				if be, ok := v.Cond.(*ast.BinaryExpr); ok && be.Op == token.EQL && goText(be.Y) == "0" {
					if c, ok := be.X.(*ast.CallExpr); ok && goText(c.Fun) == "len" && len(c.Args) == 1 {
						if id, ok := c.Args[0].(*ast.Ident); ok && !sc[id.Name] {
							s = "PNilIfEmpty " + coqStr(id.Name)
						}
					}
				}
			}
		case *ast.ExprStmt:
			if c, ok := v.X.(*ast.CallExpr); ok && goText(c.Fun) == "sort.Slice" && len(c.Args) == 2 {
				if id, ok := c.Args[0].(*ast.Ident); ok && !sc[id.Name] {
					if _, ok := fns[fname+".less"]; ok {
						s = "PSort " + coqStr(id.Name) + " " + coqStr(fname+".less")
					}
				}
			}
		case *ast.ReturnStmt:
			if len(v.Results) == 1 {
				if id, ok := v.Results[0].(*ast.Ident); ok && !sc[id.Name] {
					s = "PReturn " + coqStr(id.Name)
				}
			}
		}
		if s == "" {
			s = "PUnknown " + coqStr(goText(st))
		}
		stages = append(stages, s)
	}
	return "Pipeline " + coqList(params) + " [\n    " + strings.Join(stages, ";\n    ") + "]"
}

var readyRoots = []string{"isReady", "isBlocked", "isEpicComplete", "areEpicDepsComplete", "isEpic", "kindForTask"}
var readyFilters = []string{"listTasks", "filterTasksByKind", "sortedTasks"}
var readyLess = []string{"readyTasks", "sortByCreatedAt", "listTasks", "sortedTasks"}

func coqIdent(s string) string {
	var b strings.Builder
	for _, r := range s {
		if (r >= 'a' && r <= 'z') || (r >= 'A' && r <= 'Z') || (r >= '0' && r <= '9') || r == '_' {
			b.WriteRune(r)
		} else {
			b.WriteRune('_')
		}
	}
	return b.String()
}

// The stub written when the translation itself crashes: the build goes on, B_Ready.v fails.
const readyStub = "(* GENERATED by tools/gen: STUB (the translator failed) *)\nFrom ErgoBridge Require Import ReadyIR.\n" +
	"From Coq Require Import String.\n" +
	"Definition gen_ready_prog : prog := nil.\nDefinition gen_filter_sources : list (string * string) := nil.\n" +
	"Definition gen_readyTasks_pipeline : pipeline := Pipeline nil nil.\n"

func genReadyIR(fset *token.FileSet, files []*ast.File) (out string) {
	defer func() {
		if r := recover(); r != nil {
			out = readyStub
		}
	}()
	irFset = fset
	collectStringTypes(files)
	tr := &irTr{called: map[string]bool{}}
	fns := map[string]irFn{}
	for _, n := range readyFilters {
		f := tr.filterFn(n)
		fns[f.name] = f
	}
	for _, n := range readyLess {
		f := tr.lessFn(n)
		fns[f.name] = f
	}
	for _, n := range readyRoots {
		tr.called[n] = true
	}
	// transitive closure over called package functions (deterministic order)
	for {
		var todo []string
		for n := range tr.called {
			if _, ok := fns[n]; !ok {
				todo = append(todo, n)
			}
		}
		if len(todo) == 0 {
			break
		}
		sort.Strings(todo)
		for _, n := range todo {
			fns[n] = tr.plainFn(n)
		}
	}
	var names []string
	for n := range fns {
		names = append(names, n)
	}
	sort.Strings(names)
	var b strings.Builder
	b.WriteString("(* GENERATED by tools/gen (ready_ir.go) from internal/ergo/*.go — do not edit *)\n")
	b.WriteString("From ErgoBridge Require Import ReadyIR.\nFrom Coq Require Import String List.\nImport ListNotations.\nLocal Open Scope string_scope.\n\n")
	var entries, sources []string
	for _, n := range names {
		id := "gen_fn_" + coqIdent(n)
		b.WriteString("Definition " + id + " : fndef :=\n  " + fns[n].coq() + ".\n\n")
		entries = append(entries, "("+coqStr(n)+", "+id+")")
		if fns[n].filter {
			sources = append(sources, "("+coqStr(n)+", "+coqStr(fns[n].source)+")")
		}
	}
	b.WriteString("Definition gen_ready_prog : prog := [\n  " + strings.Join(entries, ";\n  ") + "].\n\n")
	b.WriteString("Definition gen_readyTasks_pipeline : pipeline :=\n  " + tr.pipeline("readyTasks", fns) + ".\n\n")
	b.WriteString("(* what each filtering loop ranges over *)\nDefinition gen_filter_sources : list (string * string) := " + coqList(sources) + ".\n")
	return b.String()
}
