// compact_ir.go — translation of compactEvents (graph.go) into the IR of coq/bridge/CompactIR.v
// (output: coq/gen/CompactGen.v).
//
// Statement by statement, no reordering and no simplification: declarations, assignments, ifs, the
// emission triple (x, err := newEvent(..); if err != nil { return nil, err }; events = append(events, x)),
// the reverse loop over task.Results.  Everything else becomes CUnknown / CUnknownS with the Go text,
// on which the Coq interpreter yields None.  Constants are resolved to their values.
package main

import (
	"go/ast"
	"go/token"
	"sort"
	"strings"
)

var metaFields = map[string]string{
	"CreatedTitle": "MCreatedTitle", "CreatedBody": "MCreatedBody", "CreatedState": "MCreatedState",
	"CreatedEpicID": "MCreatedEpicID", "CreatedEpicIDSet": "MCreatedEpicIDSet", "CreatedAt": "MCreatedAt",
	"LastStateAt": "MLastStateAt", "LastClaimAt": "MLastClaimAt", "LastTitleAt": "MLastTitleAt",
	"LastBodyAt": "MLastBodyAt", "LastEpicAt": "MLastEpicAt",
}
var resultFields = map[string]string{
	"Summary": "RSummary", "Path": "RPath", "Sha256AtAttach": "RSha256AtAttach", "MtimeAtAttach": "RMtimeAtAttach",
	"GitCommitAtAttach": "RGitCommitAtAttach", "CreatedAt": "RCreatedAt",
}

// kinds of local names: "task", "meta", "result", "graph", "val"
type cScope map[string]string

func (s cScope) with(name, kind string) cScope {
	out := cScope{}
	for k, v := range s {
		out[k] = v
	}
	out[name] = kind
	return out
}

type cTr struct {
	acc     string          // the []Event accumulator
	helpers map[string]bool // helper functions called
}

func cUnknownE(n ast.Node) string { return "(CUnknown " + coqStr(goText(n)) + ")" }
func cUnknownS(n ast.Node) string { return "(CUnknownS " + coqStr(goText(n)) + ")" }
func coqCBlk(items []string) string {
	if len(items) == 0 {
		return "(cblk [])"
	}
	return "(cblk [\n      " + strings.Join(items, ";\n      ") + "])"
}

func (tr *cTr) expr(e ast.Expr, sc cScope) string {
	switch v := e.(type) {
	case *ast.ParenExpr:
		return tr.expr(v.X, sc)
	case *ast.BasicLit:
		if s, ok := strOf(v); ok {
			return "(CStr " + coqStr(s) + ")"
		}
	case *ast.Ident:
		if k, ok := sc[v.Name]; ok {
			if k == "val" {
				return "(CVar " + coqStr(v.Name) + ")"
			}
			break
		}
		if v.Name == "true" {
			return "(CBool true)"
		}
		if v.Name == "false" {
			return "(CBool false)"
		}
		if s, ok := strConsts[v.Name]; ok {
			return "(CStr " + coqStr(s) + ")"
		}
	case *ast.SelectorExpr:
		if id, ok := v.X.(*ast.Ident); ok {
			switch sc[id.Name] {
			case "task":
				if f, ok := taskFields[v.Sel.Name]; ok {
					return "(CTaskF " + coqStr(id.Name) + " " + f + ")"
				}
			case "meta":
				if f, ok := metaFields[v.Sel.Name]; ok {
					return "(CMetaF " + coqStr(id.Name) + " " + f + ")"
				}
			case "result":
				if f, ok := resultFields[v.Sel.Name]; ok {
					return "(CResF " + coqStr(id.Name) + " " + f + ")"
				}
			}
		}
	case *ast.UnaryExpr:
		if v.Op == token.NOT {
			return "(CNot " + tr.expr(v.X, sc) + ")"
		}
	case *ast.BinaryExpr:
		if v.Op == token.EQL || v.Op == token.NEQ {
			var other ast.Expr
			if id, ok := v.Y.(*ast.Ident); ok && id.Name == "nil" && sc["nil"] == "" {
				other = v.X
			} else if id, ok := v.X.(*ast.Ident); ok && id.Name == "nil" && sc["nil"] == "" {
				other = v.Y
			}
			if other != nil {
				if id, ok := other.(*ast.Ident); ok && (sc[id.Name] == "meta" || sc[id.Name] == "task") {
					if v.Op == token.EQL {
						return "(CIsNil " + coqStr(id.Name) + ")"
					}
					return "(CNot (CIsNil " + coqStr(id.Name) + "))"
				}
				return cUnknownE(e)
			}
		}
		op := map[token.Token]string{token.EQL: "CEq", token.NEQ: "CNe", token.LAND: "CAnd", token.LOR: "COr"}[v.Op]
		if op != "" {
			return "(" + op + " " + tr.expr(v.X, sc) + " " + tr.expr(v.Y, sc) + ")"
		}
	case *ast.CallExpr:
		if v.Ellipsis != token.NoPos {
			break
		}
		if goText(v) == "time.Now().UTC()" && sc["time"] == "" {
			return "CNow"
		}
		switch f := v.Fun.(type) {
		case *ast.Ident:
			if sc[f.Name] != "" || funcDecls[f.Name] == nil {
				break
			}
			if f.Name == "formatTime" && len(v.Args) == 1 {
				return "(CFormat " + tr.expr(v.Args[0], sc) + ")"
			}
			args := []string{}
			for _, a := range v.Args {
				args = append(args, tr.expr(a, sc))
			}
			tr.helpers[f.Name] = true
			return "(CCall " + coqStr(f.Name) + " (cxs " + coqList(args) + "))"
		case *ast.SelectorExpr:
			if f.Sel.Name == "IsZero" && len(v.Args) == 0 {
				return "(CIsZero " + tr.expr(f.X, sc) + ")"
			}
			if f.Sel.Name == "After" && len(v.Args) == 1 {
				return "(CAfter " + tr.expr(f.X, sc) + " " + tr.expr(v.Args[0], sc) + ")"
			}
		}
	case *ast.CompositeLit:
		ty, ok := v.Type.(*ast.Ident)
		if !ok {
			break
		}
		var names, vals []string
		for _, el := range v.Elts {
			kv, ok := el.(*ast.KeyValueExpr)
			if !ok {
				return cUnknownE(e)
			}
			k, ok := kv.Key.(*ast.Ident)
			if !ok {
				return cUnknownE(e)
			}
			names = append(names, coqStr(k.Name))
			vals = append(vals, tr.expr(kv.Value, sc))
		}
		return "(CStruct " + coqStr(ty.Name) + " " + coqList(names) + " (cxs " + coqList(vals) + "))"
	}
	return cUnknownE(e)
}

// emission matches stmts[i..i+2] = x, err := newEvent(a, b, c); if err != nil { return nil, err }; acc = append(acc, x)
func (tr *cTr) emission(stmts []ast.Stmt, i int, sc cScope) (string, bool) {
	if i+2 >= len(stmts) {
		return "", false
	}
	as, ok := stmts[i].(*ast.AssignStmt)
	if !ok || as.Tok != token.DEFINE || len(as.Lhs) != 2 || len(as.Rhs) != 1 {
		return "", false
	}
	x, ok1 := as.Lhs[0].(*ast.Ident)
	er, ok2 := as.Lhs[1].(*ast.Ident)
	call, ok3 := as.Rhs[0].(*ast.CallExpr)
	if !ok1 || !ok2 || !ok3 || x.Name == "_" || er.Name == "_" || x.Name == er.Name || len(call.Args) != 3 || call.Ellipsis != token.NoPos {
		return "", false
	}
	if f, ok := call.Fun.(*ast.Ident); !ok || f.Name != "newEvent" || sc["newEvent"] != "" || funcDecls["newEvent"] == nil {
		return "", false
	}
	if sc[x.Name] != "" || (sc[er.Name] != "" && sc[er.Name] != "err") {
		return "", false
	}
	is, ok := stmts[i+1].(*ast.IfStmt)
	if !ok || is.Init != nil || is.Else != nil || goText(is.Cond) != er.Name+" != nil" || len(is.Body.List) != 1 ||
		goText(is.Body.List[0]) != "return nil, "+er.Name {
		return "", false
	}
	if goText(stmts[i+2]) != tr.acc+" = append("+tr.acc+", "+x.Name+")" || sc["append"] != "" || funcDecls["append"] != nil || sc[tr.acc] != "" {
		return "", false
	}
	return "(CEmit " + tr.expr(call.Args[0], sc) + " " + tr.expr(call.Args[1], sc) + " " + tr.expr(call.Args[2], sc) + ")", true
}

func mentions(n ast.Node, name string) bool {
	found := false
	ast.Inspect(n, func(x ast.Node) bool {
		if id, ok := x.(*ast.Ident); ok && id.Name == name {
			found = true
		}
		return true
	})
	return found
}

func (tr *cTr) block(stmts []ast.Stmt, sc cScope) []string {
	out := []string{}
	for i := 0; i < len(stmts); i++ {
		if s, ok := tr.emission(stmts, i, sc); ok {
			out = append(out, s)
			i += 2
			continue
		}
		var s string
		s, sc = tr.stmt(stmts[i], sc)
		out = append(out, s)
	}
	return out
}

func (tr *cTr) stmt(st ast.Stmt, sc cScope) (string, cScope) {
	switch v := st.(type) {
	case *ast.DeclStmt:
		gd, ok := v.Decl.(*ast.GenDecl)
		if !ok || gd.Tok != token.VAR || len(gd.Specs) != 1 {
			break
		}
		vs := gd.Specs[0].(*ast.ValueSpec)
		if len(vs.Names) == 1 && len(vs.Values) == 0 && vs.Names[0].Name != "_" {
			switch goText(vs.Type) {
			case "time.Time":
				return "(CDecl " + coqStr(vs.Names[0].Name) + " CZeroTime)", sc.with(vs.Names[0].Name, "val")
			case "string":
				return "(CDecl " + coqStr(vs.Names[0].Name) + " (CStr \"\"))", sc.with(vs.Names[0].Name, "val")
			}
		}
	case *ast.AssignStmt:
		if len(v.Lhs) != 1 || len(v.Rhs) != 1 {
			break
		}
		l, ok := v.Lhs[0].(*ast.Ident)
		if !ok || l.Name == "_" {
			break
		}
		if v.Tok == token.DEFINE {
			// meta := G.Meta[T.ID]
			if ix, ok := v.Rhs[0].(*ast.IndexExpr); ok {
				if sel, ok := ix.X.(*ast.SelectorExpr); ok && sel.Sel.Name == "Meta" {
					if g, ok := sel.X.(*ast.Ident); ok && sc[g.Name] == "graph" {
						if k, ok := ix.Index.(*ast.SelectorExpr); ok && k.Sel.Name == "ID" {
							if t, ok := k.X.(*ast.Ident); ok && sc[t.Name] == "task" {
								return "(CMetaOf " + coqStr(l.Name) + " " + coqStr(g.Name) + " " + coqStr(t.Name) + ")", sc.with(l.Name, "meta")
							}
						}
					}
				}
				break
			}
			return "(CDecl " + coqStr(l.Name) + " " + tr.expr(v.Rhs[0], sc) + ")", sc.with(l.Name, "val")
		}
		if v.Tok == token.ASSIGN && sc[l.Name] == "val" {
			return "(CSet " + coqStr(l.Name) + " " + tr.expr(v.Rhs[0], sc) + ")", sc
		}
	case *ast.IfStmt:
		if v.Init != nil {
			break
		}
		th := coqCBlk(tr.block(v.Body.List, sc))
		el := coqCBlk(nil)
		switch e := v.Else.(type) {
		case nil:
		case *ast.BlockStmt:
			el = coqCBlk(tr.block(e.List, sc))
		default:
			return cUnknownS(st), sc
		}
		return "(CIf " + tr.expr(v.Cond, sc) + " " + th + " " + el + ")", sc
	case *ast.ForStmt:
		// for i := len(T.Results) - 1; i >= 0; i-- { r := T.Results[i]; body }
		init, ok := v.Init.(*ast.AssignStmt)
		if !ok || init.Tok != token.DEFINE || len(init.Lhs) != 1 || len(init.Rhs) != 1 || len(v.Body.List) == 0 {
			break
		}
		i, ok := init.Lhs[0].(*ast.Ident)
		if !ok || sc[i.Name] != "" {
			break
		}
		first, ok := v.Body.List[0].(*ast.AssignStmt)
		if !ok || first.Tok != token.DEFINE || len(first.Lhs) != 1 || len(first.Rhs) != 1 {
			break
		}
		r, ok := first.Lhs[0].(*ast.Ident)
		if !ok || r.Name == "_" || r.Name == i.Name {
			break
		}
		ix, ok := first.Rhs[0].(*ast.IndexExpr)
		if !ok {
			break
		}
		sel, ok := ix.X.(*ast.SelectorExpr)
		if !ok || sel.Sel.Name != "Results" || goText(ix.Index) != i.Name {
			break
		}
		t, ok := sel.X.(*ast.Ident)
		if !ok || sc[t.Name] != "task" || sc["len"] != "" || funcDecls["len"] != nil {
			break
		}
		seq := goText(sel)
		if goText(init.Rhs[0]) != "len("+seq+") - 1" || goText(v.Cond) != i.Name+" >= 0" || goText(v.Post) != i.Name+"--" {
			break
		}
		rest := v.Body.List[1:]
		for _, s := range rest {
			if mentions(s, i.Name) {
				return cUnknownS(st), sc
			}
		}
		body := tr.block(rest, sc.with(r.Name, "result").with(i.Name, "index"))
		return "(CForResultsRev " + coqStr(r.Name) + " " + coqStr(t.Name) + " " + coqCBlk(body) + ")", sc
	}
	return cUnknownS(st), sc
}

// helper translates a package function whose body is  [if c { return a }]* return b  over its parameters.
func (tr *cTr) helper(name string) string {
	fd := funcDecls[name]
	bad := func(why string) string { return "([], CUnknown " + coqStr(why) + ")" }
	if fd == nil || fd.Body == nil {
		return bad("missing function " + name)
	}
	sc := cScope{}
	var ps []string
	if fd.Type.Params != nil {
		for _, fld := range fd.Type.Params.List {
			for _, n := range fld.Names {
				ps = append(ps, coqStr(n.Name))
				sc[n.Name] = "val"
			}
		}
	}
	sub := &cTr{helpers: map[string]bool{}}
	stmts := fd.Body.List
	if len(stmts) == 0 {
		return bad("empty body of " + name)
	}
	last, ok := stmts[len(stmts)-1].(*ast.ReturnStmt)
	if !ok || len(last.Results) != 1 {
		return bad("body of " + name + " does not end in a single-value return")
	}
	e := sub.expr(last.Results[0], sc)
	for i := len(stmts) - 2; i >= 0; i-- {
		is, ok := stmts[i].(*ast.IfStmt)
		if !ok || is.Init != nil || is.Else != nil || len(is.Body.List) != 1 {
			return bad("statement of " + name + " not recognised: " + goText(stmts[i]))
		}
		r, ok := is.Body.List[0].(*ast.ReturnStmt)
		if !ok || len(r.Results) != 1 {
			return bad("statement of " + name + " not recognised: " + goText(stmts[i]))
		}
		e = "(CIte " + sub.expr(is.Cond, sc) + " " + sub.expr(r.Results[0], sc) + " " + e + ")"
	}
	if len(sub.helpers) != 0 {
		return bad("helper " + name + " calls other functions")
	}
	return "(" + coqList(ps) + ", " + e + ")"
}

// sortedKeysShape recognises
//
//	func f(items map[string]T) []string { [if len(items) == 0 { return nil }] keys := make([]string, 0, len(items));
//	    for key := range items { keys = append(keys, key) }; sort.Strings(keys); return keys }
//
// i.e. "the keys of the map, ascending".
func sortedKeysShape(name string) string {
	fd := funcDecls[name]
	if fd == nil || fd.Body == nil {
		return "missing function " + name
	}
	if fd.Type.Params == nil || len(fd.Type.Params.List) != 1 || len(fd.Type.Params.List[0].Names) != 1 ||
		!strings.HasPrefix(goText(fd.Type.Params.List[0].Type), "map[string]") ||
		fd.Type.Results == nil || len(fd.Type.Results.List) != 1 || goText(fd.Type.Results.List[0].Type) != "[]string" {
		return "signature of " + name + " not recognised"
	}
	p := fd.Type.Params.List[0].Names[0].Name
	stmts := fd.Body.List
	if len(stmts) > 0 && goText(stmts[0]) == "if len("+p+") == 0 { return nil }" {
		stmts = stmts[1:]
	}
	if len(stmts) != 4 {
		return "body of " + name + " not recognised"
	}
	as, ok := stmts[0].(*ast.AssignStmt)
	if !ok || as.Tok != token.DEFINE || len(as.Lhs) != 1 || len(as.Rhs) != 1 {
		return "body of " + name + " not recognised: " + goText(stmts[0])
	}
	k := goText(as.Lhs[0])
	if k == p || k == "_" || goText(as.Rhs[0]) != "make([]string, 0, len("+p+"))" {
		return "body of " + name + " not recognised: " + goText(stmts[0])
	}
	r, ok := stmts[1].(*ast.RangeStmt)
	if !ok || r.Tok != token.DEFINE || r.Value != nil || goText(r.X) != p || len(r.Body.List) != 1 {
		return "body of " + name + " not recognised: " + goText(stmts[1])
	}
	kv := goText(r.Key)
	if kv == "_" || kv == k || kv == p || goText(r.Body.List[0]) != k+" = append("+k+", "+kv+")" {
		return "body of " + name + " not recognised: " + goText(stmts[1])
	}
	if goText(stmts[2]) != "sort.Strings("+k+")" || goText(stmts[3]) != "return "+k {
		return "body of " + name + " not recognised: " + goText(stmts[2]) + "; " + goText(stmts[3])
	}
	for _, shadow := range []string{"len", "make", "append", "sort"} {
		if shadow == p || shadow == k || shadow == kv || funcDecls[shadow] != nil {
			return "builtin " + shadow + " shadowed in " + name
		}
	}
	return "sorted keys"
}

// The stub written when the translation itself crashes: the build goes on, B_Compact.v fails.
const compactStub = "(* GENERATED by tools/gen: STUB (the translator failed) *)\nFrom ErgoBridge Require Import ReadyIR CompactIR.\n" +
	"From Coq Require Import String.\nLocal Open Scope string_scope.\n" +
	"Definition gen_compact : compact_ir := CompactIR \"\" \"\" \"\" CBNil \"\" \"\" \"\" CBNil nil.\n" +
	"Definition gen_compact_helpers : list (string * string) := nil.\n"

func genCompactIR(fset *token.FileSet, files []*ast.File) (out string) {
	defer func() {
		if r := recover(); r != nil {
			out = compactStub
		}
	}()
	irFset = fset
	tr := &cTr{helpers: map[string]bool{}}
	var poison []string
	graphVar, tasksFrom, taskVar, linksFrom, fromVar, toVar := "?", "?", "?", "?", "?", "?"
	var taskBody, linkBody []string
	fd := funcDecls["compactEvents"]
	if fd == nil || fd.Body == nil {
		poison = append(poison, "(CUnknownS "+coqStr("missing function compactEvents")+")")
	} else {
		sc := cScope{}
		if fd.Type.Params != nil && len(fd.Type.Params.List) == 1 && len(fd.Type.Params.List[0].Names) == 1 &&
			goText(fd.Type.Params.List[0].Type) == "*Graph" {
			graphVar = fd.Type.Params.List[0].Names[0].Name
			sc[graphVar] = "graph"
		} else {
			poison = append(poison, "(CUnknownS "+coqStr("parameters of compactEvents not recognised")+")")
		}
		slices := map[string]string{} // slice variable -> Go text of its initialiser
		stage := 0                    // 0: before the task loop, 1: between the loops, 2: after the link loop, 3: returned
		for _, st := range fd.Body.List {
			ok := false
			switch v := st.(type) {
			case *ast.DeclStmt:
				if stage == 0 && tr.acc == "" && strings.HasPrefix(goText(v), "var ") && strings.HasSuffix(goText(v), " []Event") {
					if gd, okk := v.Decl.(*ast.GenDecl); okk && len(gd.Specs) == 1 {
						vs := gd.Specs[0].(*ast.ValueSpec)
						if len(vs.Names) == 1 && len(vs.Values) == 0 {
							tr.acc = vs.Names[0].Name
							ok = true
						}
					}
				}
			case *ast.AssignStmt:
				if stage < 2 && v.Tok == token.DEFINE && len(v.Lhs) == 1 && len(v.Rhs) == 1 {
					if l, okk := v.Lhs[0].(*ast.Ident); okk && sc[l.Name] == "" && slices[l.Name] == "" && l.Name != tr.acc {
						if c, okk := v.Rhs[0].(*ast.CallExpr); okk {
							if f, okk := c.Fun.(*ast.Ident); okk && funcDecls[f.Name] != nil && sc[f.Name] == "" {
								slices[l.Name] = goText(c)
								ok = true
							}
						}
					}
				}
			case *ast.RangeStmt:
				k, kok := v.Key.(*ast.Ident)
				val, vok := v.Value.(*ast.Ident)
				x, xok := v.X.(*ast.Ident)
				if !kok || !vok || !xok || v.Tok != token.DEFINE || k.Name != "_" || val.Name == "_" || slices[x.Name] == "" ||
					sc[val.Name] != "" || val.Name == tr.acc || tr.acc == "" {
					break
				}
				if stage == 0 {
					tasksFrom, taskVar = slices[x.Name], val.Name
					taskBody = tr.block(v.Body.List, sc.with(val.Name, "task"))
					stage, ok = 1, true
				} else if stage == 1 && len(v.Body.List) == 2 {
					// toIDs := sortedKeys(G.Deps[from]); for _, to := range toIDs { body }
					a, aok := v.Body.List[0].(*ast.AssignStmt)
					in, iok := v.Body.List[1].(*ast.RangeStmt)
					if !aok || !iok || a.Tok != token.DEFINE || len(a.Lhs) != 1 || len(a.Rhs) != 1 {
						break
					}
					k2, k2ok := in.Key.(*ast.Ident)
					v2, v2ok := in.Value.(*ast.Ident)
					if !k2ok || !v2ok || in.Tok != token.DEFINE || k2.Name != "_" || v2.Name == "_" || v2.Name == val.Name ||
						sc[v2.Name] != "" || v2.Name == tr.acc || goText(in.X) != goText(a.Lhs[0]) {
						break
					}
					if _, isCall := a.Rhs[0].(*ast.CallExpr); !isCall {
						break
					}
					linksFrom, fromVar, toVar = slices[x.Name]+" / "+goText(a.Rhs[0]), val.Name, v2.Name
					linkBody = tr.block(in.Body.List, sc.with(val.Name, "val").with(v2.Name, "val"))
					stage, ok = 2, true
				}
			case *ast.ReturnStmt:
				if stage == 2 && goText(v) == "return "+tr.acc+", nil" {
					stage, ok = 3, true
				}
			}
			if !ok {
				poison = append(poison, cUnknownS(st))
			}
		}
		if stage != 3 {
			poison = append(poison, "(CUnknownS "+coqStr("shape of compactEvents not recognised")+")")
		}
	}
	taskBody = append(poison, taskBody...)
	var hs []string
	for h := range tr.helpers {
		hs = append(hs, h)
	}
	sort.Strings(hs)
	var fns []string
	for _, h := range hs {
		fns = append(fns, "("+coqStr(h)+", "+tr.helper(h)+")")
	}
	var b strings.Builder
	b.WriteString("(* GENERATED by tools/gen (compact_ir.go) from internal/ergo/*.go — do not edit *)\n")
	b.WriteString("From ErgoBridge Require Import ReadyIR CompactIR.\nFrom Coq Require Import String List.\nImport ListNotations.\nLocal Open Scope string_scope.\n\n")
	b.WriteString("Definition gen_compact_task_body : cblock :=\n    " + coqCBlk(taskBody) + ".\n\n")
	b.WriteString("Definition gen_compact_link_body : cblock :=\n    " + coqCBlk(linkBody) + ".\n\n")
	b.WriteString("Definition gen_compact_fns : list (string * cfn) := [\n  " + strings.Join(fns, ";\n  ") + "].\n\n")
	b.WriteString("Definition gen_compact : compact_ir :=\n  CompactIR " + coqStr(graphVar) + " " + coqStr(tasksFrom) + " " + coqStr(taskVar) +
		" gen_compact_task_body\n    " + coqStr(linksFrom) + " " + coqStr(fromVar) + " " + coqStr(toVar) + " gen_compact_link_body gen_compact_fns.\n\n")
	b.WriteString("(* shape of the helpers the two loops get their slices from *)\n")
	b.WriteString("Definition gen_compact_helpers : list (string * string) := [(\"sortedKeys\", " + coqStr(sortedKeysShape("sortedKeys")) +
		"); (\"sortedMapKeys\", " + coqStr(sortedKeysShape("sortedMapKeys")) + ")].\n")
	return b.String()
}
