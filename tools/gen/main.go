// gen — translator from the ergo sources to Coq data (regenerated on every check).
//
//	gen <repo-root> <out-dir>
//
// Emits StateMachine.v (validStates, validTransitions, validateClaimInvariant as tables), Consts.v
// (string / integer constants the model transcribes) and Skeleton.v (per function: the lock / load /
// write / raw-file-system / call effects in source order, closures passed to withLock nested) and
// ReplayGen.v (replay_ir.go: replayEvents / applyTombstone as the statement IR of bridge/ReplayIR.v),
// ReadyGen.v (ready_ir.go: isReady / isBlocked / epic completeness / list filters and comparisons) and
// CompactGen.v (compact_ir.go: compactEvents as the emission IR of bridge/CompactIR.v) and ReadGen.v
// (read_ir.go: readEvents / getEventsPath / encodeEventLine / hasUnterminatedTail as the imperative IR of bridge/ReadIR.v).
// Only go/parser + go/ast are used; anything outside the accepted fragment is a fatal error.
package main

import (
	"fmt"
	"go/ast"
	"go/parser"
	"go/token"
	"os"
	"path/filepath"
	"sort"
	"strconv"
	"strings"
)

func die(format string, a ...interface{}) {
	fmt.Fprintf(os.Stderr, "gen: "+format+"\n", a...)
	os.Exit(2)
}

var strConsts = map[string]string{}
var intConsts = map[string]int64{}

func coqStr(s string) string { return "\"" + strings.ReplaceAll(s, "\"", "\"\"") + "\"" }

func coqList(items []string) string { return "[" + strings.Join(items, "; ") + "]" }

func evalInt(e ast.Expr) (int64, bool) {
	switch v := e.(type) {
	case *ast.BasicLit:
		if v.Kind == token.INT {
			n, err := strconv.ParseInt(v.Value, 0, 64)
			return n, err == nil
		}
	case *ast.ParenExpr:
		return evalInt(v.X)
	case *ast.Ident:
		n, ok := intConsts[v.Name]
		return n, ok
	case *ast.BinaryExpr:
		a, ok1 := evalInt(v.X)
		b, ok2 := evalInt(v.Y)
		if ok1 && ok2 {
			switch v.Op {
			case token.MUL:
				return a * b, true
			case token.ADD:
				return a + b, true
			case token.SUB:
				return a - b, true
			}
		}
	}
	return 0, false
}

func strOf(e ast.Expr) (string, bool) {
	switch v := e.(type) {
	case *ast.BasicLit:
		if v.Kind == token.STRING {
			s, err := strconv.Unquote(v.Value)
			return s, err == nil
		}
	case *ast.Ident:
		s, ok := strConsts[v.Name]
		return s, ok
	}
	return "", false
}

type eff struct {
	kind  string // load write raw lock loop
	name  string
	paths [][]eff
}

func (e eff) coq() string {
	ps := func() string {
		items := []string{}
		for _, p := range e.paths {
			items = append(items, coqPath(p))
		}
		return coqList(items)
	}
	switch e.kind {
	case "load":
		return "(ELoad " + coqStr(e.name) + ")"
	case "write":
		return "(EWrite " + coqStr(e.name) + ")"
	case "raw":
		return "(ERaw " + coqStr(e.name) + ")"
	case "lock":
		return "(ELock " + coqStr(e.name) + " " + ps() + ")"
	case "loop":
		return "(ELoop " + ps() + ")"
	}
	return "(ERaw \"?\")"
}

func coqPath(p []eff) string {
	items := []string{}
	for _, e := range p {
		items = append(items, e.coq())
	}
	return coqList(items)
}

var loads = map[string]bool{"loadGraph": true, "readEvents": true}
var writes = map[string]bool{"appendEvents": true, "appendEventsAtomically": true, "replaceEventsAtomically": true, "writeEventsFile": true}
var leaves = map[string]bool{"ensureFileExists": true, "withLock": true, "syncDir": true, "writeAll": true, "encodeEventLine": true, "hasUnterminatedTail": true}
var rawOS = map[string]bool{"WriteFile": true, "Rename": true, "Remove": true, "RemoveAll": true, "Truncate": true, "OpenFile": true,
	"Create": true, "MkdirAll": true, "Mkdir": true, "Symlink": true, "Link": true, "Chmod": true}

var funcDecls = map[string]*ast.FuncDecl{}
var memo = map[string][][]eff{}
var onStack = map[string]bool{}
var primitiveMode = false

const maxPaths = 3000

type pstate struct {
	effs []eff
	done bool
}

func key(p []eff) string { return coqPath(p) }

func dedupe(ps []pstate) []pstate {
	seen := map[string]bool{}
	var out []pstate
	for _, p := range ps {
		k := key(p.effs)
		if p.done {
			k += "!"
		}
		if !seen[k] {
			seen[k] = true
			out = append(out, p)
		}
	}
	if len(out) > maxPaths {
		die("more than %d effect paths (fragment too large)", maxPaths)
	}
	return out
}

func cat(a, b []eff) []eff {
	out := make([]eff, 0, len(a)+len(b))
	out = append(out, a...)
	return append(out, b...)
}

// alternatives of an expression: the effect sequences its calls can produce (cross product over calls in source order)
func exprPaths(n ast.Node) [][]eff {
	res := [][]eff{{}}
	if n == nil {
		return res
	}
	ast.Inspect(n, func(x ast.Node) bool {
		switch v := x.(type) {
		case *ast.FuncLit:
			// a closure that is not passed to withLock: its effects happen where it is called; approximate by inlining here
			alts := blockPaths(v.Body.List)
			res = cross(res, alts)
			return false
		case *ast.CallExpr:
			switch f := v.Fun.(type) {
			case *ast.Ident:
				switch {
				case f.Name == "withLock":
					if len(v.Args) != 3 {
						die("withLock with %d arguments", len(v.Args))
					}
					mode := "?"
					if sel, ok := v.Args[1].(*ast.SelectorExpr); ok {
						mode = sel.Sel.Name
					} else if id, ok := v.Args[1].(*ast.Ident); ok {
						mode = id.Name
					}
					lit, ok := v.Args[2].(*ast.FuncLit)
					if !ok {
						die("withLock whose third argument is not a function literal (fragment not supported)")
					}
					res = cross(res, exprPaths(v.Args[0]))
					body := blockPaths(lit.Body.List)
					res = cross(res, [][]eff{{eff{kind: "lock", name: mode, paths: body}}})
					return false
				case loads[f.Name]:
					res = cross(res, exprPathsArgs(v))
					res = cross(res, [][]eff{{eff{kind: "load", name: f.Name}}})
					return false
				case writes[f.Name]:
					res = cross(res, exprPathsArgs(v))
					res = cross(res, [][]eff{{eff{kind: "write", name: f.Name}}})
					return false
				case primitiveMode && f.Name == "writeAll":
					res = cross(res, exprPathsArgs(v))
					res = cross(res, [][]eff{{eff{kind: "raw", name: "syswrite"}}})
					return false
				case leaves[f.Name]:
					return true
				case funcDecls[f.Name] != nil:
					res = cross(res, exprPathsArgs(v))
					res = cross(res, summary(f.Name))
					return false
				}
			case *ast.SelectorExpr:
				if primitiveMode && (f.Sel.Name == "Write" || f.Sel.Name == "WriteString" || f.Sel.Name == "Flush") {
					res = cross(res, exprPathsArgs(v))
					res = cross(res, [][]eff{{eff{kind: "raw", name: "syswrite"}}})
					return false
				}
				if pkg, ok := f.X.(*ast.Ident); ok && pkg.Name == "time" && f.Sel.Name == "Now" {
					// a clock reading: event stamps must be taken under the lock (SkelLib.clock_ok)
					res = cross(res, [][]eff{{eff{kind: "raw", name: "time.Now"}}})
					return false
				}
				if pkg, ok := f.X.(*ast.Ident); ok && pkg.Name == "os" && rawOS[f.Sel.Name] {
					res = cross(res, exprPathsArgs(v))
					res = cross(res, [][]eff{{eff{kind: "raw", name: "os." + f.Sel.Name}}})
					return false
				} else if f.Sel.Name == "Truncate" {
					res = cross(res, [][]eff{{eff{kind: "raw", name: "file.Truncate"}}})
				}
			}
		}
		return true
	})
	return res
}

func exprPathsArgs(c *ast.CallExpr) [][]eff {
	res := [][]eff{{}}
	for _, a := range c.Args {
		res = cross(res, exprPaths(a))
	}
	return res
}

func cross(a, b [][]eff) [][]eff {
	if len(b) == 1 && len(b[0]) == 0 {
		return a
	}
	var out [][]eff
	seen := map[string]bool{}
	for _, x := range a {
		for _, y := range b {
			p := cat(x, y)
			k := key(p)
			if !seen[k] {
				seen[k] = true
				out = append(out, p)
			}
		}
	}
	if len(out) > maxPaths {
		die("more than %d effect paths (fragment too large)", maxPaths)
	}
	return out
}

func extend(ps []pstate, alts [][]eff, terminate bool) []pstate {
	var out []pstate
	for _, p := range ps {
		if p.done {
			out = append(out, p)
			continue
		}
		for _, a := range alts {
			out = append(out, pstate{cat(p.effs, a), terminate})
		}
	}
	return dedupe(out)
}

func stmtsPaths(ps []pstate, stmts []ast.Stmt) []pstate {
	for _, st := range stmts {
		ps = stmtPaths(ps, st)
	}
	return ps
}

func merge(ps []pstate, branches ...[]pstate) []pstate {
	var out []pstate
	for _, p := range ps {
		if p.done {
			out = append(out, p)
		}
	}
	for _, b := range branches {
		out = append(out, b...)
	}
	return dedupe(out)
}

func live(ps []pstate) []pstate {
	var out []pstate
	for _, p := range ps {
		if !p.done {
			out = append(out, p)
		}
	}
	return out
}

func effectFreeReturn(b *ast.BlockStmt) bool {
	// `{ return ... }` (possibly preceded by effect-free statements) whose expressions perform no effect:
	// such a path is a prefix of the fall-through path and is dropped (all checks are prefix-closed)
	if b == nil || len(b.List) == 0 {
		return false
	}
	if _, ok := b.List[len(b.List)-1].(*ast.ReturnStmt); !ok {
		return false
	}
	for _, st := range b.List {
		alts := stmtPaths([]pstate{{}}, st)
		for _, a := range alts {
			if len(a.effs) != 0 {
				return false
			}
		}
	}
	return true
}

func stmtPaths(ps []pstate, st ast.Stmt) []pstate {
	switch v := st.(type) {
	case nil:
		return ps
	case *ast.BlockStmt:
		return stmtsPaths(ps, v.List)
	case *ast.ReturnStmt:
		alts := [][]eff{{}}
		for _, r := range v.Results {
			alts = cross(alts, exprPaths(r))
		}
		return extend(ps, alts, true)
	case *ast.IfStmt:
		ps = stmtPaths(ps, v.Init)
		ps = extend(ps, exprPaths(v.Cond), false)
		if v.Else == nil && effectFreeReturn(v.Body) {
			return ps
		}
		thenB := stmtsPaths(live(ps), v.Body.List)
		var elseB []pstate
		if v.Else != nil {
			elseB = stmtPaths(live(ps), v.Else)
		} else {
			elseB = live(ps)
		}
		return merge(ps, thenB, elseB)
	case *ast.ForStmt, *ast.RangeStmt:
		var body *ast.BlockStmt
		var head []ast.Node
		if f, ok := v.(*ast.ForStmt); ok {
			body = f.Body
			ps = stmtPaths(ps, f.Init)
			head = []ast.Node{f.Cond}
		} else {
			r := v.(*ast.RangeStmt)
			body = r.Body
			head = []ast.Node{r.X}
		}
		for _, h := range head {
			if h != nil {
				ps = extend(ps, exprPaths(h), false)
			}
		}
		bp := blockPaths(body.List)
		nonEmpty := false
		for _, p := range bp {
			if len(p) > 0 {
				nonEmpty = true
			}
		}
		if !nonEmpty {
			return ps
		}
		return merge(ps, live(ps), extend(live(ps), [][]eff{{eff{kind: "loop", paths: bp}}}, false))
	case *ast.SwitchStmt, *ast.TypeSwitchStmt, *ast.SelectStmt:
		var clauses []ast.Stmt
		hasDefault := false
		switch w := v.(type) {
		case *ast.SwitchStmt:
			ps = stmtPaths(ps, w.Init)
			if w.Tag != nil {
				ps = extend(ps, exprPaths(w.Tag), false)
			}
			clauses = w.Body.List
		case *ast.TypeSwitchStmt:
			clauses = w.Body.List
		case *ast.SelectStmt:
			clauses = w.Body.List
		}
		var branches [][]pstate
		for _, c := range clauses {
			switch cc := c.(type) {
			case *ast.CaseClause:
				if cc.List == nil {
					hasDefault = true
				}
				branches = append(branches, stmtsPaths(live(ps), cc.Body))
			case *ast.CommClause:
				branches = append(branches, stmtsPaths(live(ps), cc.Body))
			}
		}
		if !hasDefault {
			branches = append(branches, live(ps))
		}
		return merge(ps, branches...)
	case *ast.DeferStmt:
		return extend(ps, exprPaths(v.Call), false)
	case *ast.GoStmt:
		die("go statement (fragment not supported)")
	case *ast.LabeledStmt:
		return stmtPaths(ps, v.Stmt)
	default:
		return extend(ps, exprPaths(st), false)
	}
	return ps
}

func blockPaths(stmts []ast.Stmt) [][]eff {
	ps := stmtsPaths([]pstate{{}}, stmts)
	seen := map[string]bool{}
	var out [][]eff
	for _, p := range ps {
		k := key(p.effs)
		if !seen[k] {
			seen[k] = true
			out = append(out, p.effs)
		}
	}
	return out
}

// flatten expands lock / loop bodies into begin/end tokens; alternatives multiply the path set.
func flatten(p []eff) [][]string {
	res := [][]string{{}}
	app := func(alts [][]string) {
		var out [][]string
		for _, a := range res {
			for _, b := range alts {
				x := append(append([]string{}, a...), b...)
				out = append(out, x)
			}
		}
		if len(out) > maxPaths {
			die("more than %d flattened paths", maxPaths)
		}
		res = out
	}
	for _, e := range p {
		switch e.kind {
		case "load":
			app([][]string{{"TLoad"}})
		case "write":
			app([][]string{{"TWrite"}})
		case "raw":
			app([][]string{{"(TRaw " + coqStr(e.name) + ")"}})
		case "lock", "loop":
			open, close := "(TLockB "+coqStr(e.name)+")", "TLockE"
			if e.kind == "loop" {
				open, close = "TLoopB", "TLoopE"
			}
			var alts [][]string
			for _, bp := range e.paths {
				for _, f := range flatten(bp) {
					alts = append(alts, append(append([]string{open}, f...), close))
				}
			}
			if len(alts) == 0 {
				alts = [][]string{{open, close}}
			}
			app(alts)
		}
	}
	return res
}

func summary(name string) [][]eff {
	if m, ok := memo[name]; ok {
		return m
	}
	if onStack[name] {
		return [][]eff{{}} // recursion: the recursive call adds nothing new
	}
	fd := funcDecls[name]
	if fd == nil || fd.Body == nil {
		return [][]eff{{}}
	}
	onStack[name] = true
	res := blockPaths(fd.Body.List)
	onStack[name] = false
	memo[name] = res
	return res
}

func main() {
	if len(os.Args) != 3 {
		die("usage: gen <repo-root> <out-dir>")
	}
	root, outDir := os.Args[1], os.Args[2]
	dir := filepath.Join(root, "internal", "ergo")
	fset := token.NewFileSet()
	entries, err := os.ReadDir(dir)
	if err != nil {
		die("%v", err)
	}
	var files []*ast.File
	for _, e := range entries {
		n := e.Name()
		if !strings.HasSuffix(n, ".go") || strings.HasSuffix(n, "_test.go") || strings.HasPrefix(n, "verif_") {
			continue
		}
		f, err := parser.ParseFile(fset, filepath.Join(dir, n), nil, 0)
		if err != nil {
			die("parse %s: %v", n, err)
		}
		files = append(files, f)
	}
	// constants and package-level function names
	for pass := 0; pass < 2; pass++ {
		for _, f := range files {
			for _, d := range f.Decls {
				switch v := d.(type) {
				case *ast.GenDecl:
					if v.Tok != token.CONST {
						continue
					}
					for _, sp := range v.Specs {
						vs := sp.(*ast.ValueSpec)
						for i, name := range vs.Names {
							if i >= len(vs.Values) {
								continue
							}
							if s, ok := strOf(vs.Values[i]); ok {
								strConsts[name.Name] = s
							} else if n, ok := evalInt(vs.Values[i]); ok {
								intConsts[name.Name] = n
							}
						}
					}
				case *ast.FuncDecl:
					if v.Recv == nil {
						funcDecls[v.Name.Name] = v
					}
				}
			}
		}
	}
	var sm strings.Builder
	sm.WriteString("(* GENERATED by tools/gen from internal/ergo/model.go — do not edit *)\nFrom Coq Require Import String List.\nImport ListNotations.\nLocal Open Scope string_scope.\n\n")
	foundStates, foundTrans, foundClaim := false, false, false
	for _, f := range files {
		for _, d := range f.Decls {
			if gd, ok := d.(*ast.GenDecl); ok && gd.Tok == token.VAR {
				for _, sp := range gd.Specs {
					vs := sp.(*ast.ValueSpec)
					for i, name := range vs.Names {
						if i >= len(vs.Values) {
							continue
						}
						cl, ok := vs.Values[i].(*ast.CompositeLit)
						if !ok {
							continue
						}
						switch name.Name {
						case "validStates":
							var ks []string
							for _, el := range cl.Elts {
								kv := el.(*ast.KeyValueExpr)
								s, ok := strOf(kv.Key)
								if !ok {
									die("validStates: key is not a string constant")
								}
								ks = append(ks, s)
							}
							sort.Strings(ks)
							q := []string{}
							for _, k := range ks {
								q = append(q, coqStr(k))
							}
							sm.WriteString("Definition gen_valid_states : list string := " + coqList(q) + ".\n")
							foundStates = true
						case "validTransitions":
							type row struct {
								from string
								to   []string
							}
							var rows []row
							for _, el := range cl.Elts {
								kv := el.(*ast.KeyValueExpr)
								from, ok := strOf(kv.Key)
								if !ok {
									die("validTransitions: key is not a string constant")
								}
								inner, ok := kv.Value.(*ast.CompositeLit)
								if !ok {
									die("validTransitions: value is not a composite literal")
								}
								var tos []string
								for _, e2 := range inner.Elts {
									kv2 := e2.(*ast.KeyValueExpr)
									to, ok := strOf(kv2.Key)
									if !ok {
										die("validTransitions: inner key is not a string constant")
									}
									tos = append(tos, to)
								}
								sort.Strings(tos)
								rows = append(rows, row{from, tos})
							}
							sort.Slice(rows, func(i, j int) bool { return rows[i].from < rows[j].from })
							items := []string{}
							for _, r := range rows {
								q := []string{}
								for _, t := range r.to {
									q = append(q, coqStr(t))
								}
								items = append(items, "("+coqStr(r.from)+", "+coqList(q)+")")
							}
							sm.WriteString("Definition gen_transitions : list (string * list string) := " + coqList(items) + ".\n")
							foundTrans = true
						}
					}
				}
			}
			if fd, ok := d.(*ast.FuncDecl); ok && fd.Name.Name == "validateClaimInvariant" {
				// switch state { case A: if claimedBy == "" { return err } ... }
				var items []string
				for _, st := range fd.Body.List {
					sw, ok := st.(*ast.SwitchStmt)
					if !ok {
						continue
					}
					for _, c := range sw.Body.List {
						cc := c.(*ast.CaseClause)
						var states []string
						for _, e := range cc.List {
							s, ok := strOf(e)
							if !ok {
								die("validateClaimInvariant: case label is not a string constant")
							}
							states = append(states, coqStr(s))
						}
						req := "ClaimAny"
						for _, b := range cc.Body {
							if is, ok := b.(*ast.IfStmt); ok {
								if be, ok := is.Cond.(*ast.BinaryExpr); ok {
									if id, ok := be.X.(*ast.Ident); ok && id.Name == "claimedBy" {
										if s, ok := strOf(be.Y); ok && s == "" {
											if be.Op == token.EQL {
												req = "ClaimRequired"
											} else if be.Op == token.NEQ {
												req = "ClaimForbidden"
											}
										}
									}
								}
							}
						}
						sort.Strings(states)
						items = append(items, "("+coqList(states)+", "+req+")")
					}
				}
				sm.WriteString("Inductive claim_req := ClaimRequired | ClaimForbidden | ClaimAny.\n")
				sm.WriteString("Definition gen_claim_rule : list (list string * claim_req) := " + coqList(items) + ".\n")
				foundClaim = true
			}
		}
	}
	if !foundStates || !foundTrans || !foundClaim {
		die("state machine declarations not found (states=%v transitions=%v claim=%v)", foundStates, foundTrans, foundClaim)
	}
	var cs strings.Builder
	cs.WriteString("(* GENERATED by tools/gen — do not edit *)\nFrom Coq Require Import String ZArith List.\nImport ListNotations.\nLocal Open Scope string_scope.\n\n")
	skeys := []string{}
	for k := range strConsts {
		skeys = append(skeys, k)
	}
	sort.Strings(skeys)
	items := []string{}
	for _, k := range skeys {
		if len(strConsts[k]) < 64 && !strings.ContainsAny(strConsts[k], "\x1b\n") {
			items = append(items, "("+coqStr(k)+", "+coqStr(strConsts[k])+")")
		}
	}
	cs.WriteString("Definition gen_string_consts : list (string * string) := " + coqList(items) + ".\n")
	ikeys := []string{}
	for k := range intConsts {
		ikeys = append(ikeys, k)
	}
	sort.Strings(ikeys)
	items = []string{}
	for _, k := range ikeys {
		items = append(items, fmt.Sprintf("(%s, (%d)%%Z)", coqStr(k), intConsts[k]))
	}
	cs.WriteString("Definition gen_int_consts : list (string * Z) := " + coqList(items) + ".\n")

	var sk strings.Builder
	sk.WriteString("(* GENERATED by tools/gen — do not edit.  Per entry point: every control-flow path's lock / load / write / raw-file-system effects, callees inlined. *)\nFrom Coq Require Import String List.\nImport ListNotations.\nLocal Open Scope string_scope.\n\n")
	sk.WriteString("Inductive eff := ELoad (n : string) | EWrite (n : string) | ERaw (n : string) | ELoop (body : list (list eff)) | ELock (mode : string) (body : list (list eff)).\n\n")
	var names []string
	for n := range funcDecls {
		if strings.HasPrefix(n, "Run") && ast.IsExported(n) {
			names = append(names, n)
		}
	}
	sort.Strings(names)
	items = []string{}
	for _, n := range names {
		ps := summary(n)
		q := []string{}
		for _, p := range ps {
			q = append(q, "    "+coqPath(p))
		}
		items = append(items, "  ("+coqStr(n)+", [\n"+strings.Join(q, ";\n")+"])")
	}
	sk.WriteString("Definition gen_entries : list (string * list (list eff)) := [\n" + strings.Join(items, ";\n") + "\n].\n\n")
	sk.WriteString("Inductive tok := TLoad | TWrite | TRaw (n : string) | TLockB (mode : string) | TLockE | TLoopB | TLoopE.\n\n")
	items = []string{}
	for _, n := range names {
		seen := map[string]bool{}
		q := []string{}
		for _, p := range summary(n) {
			for _, f := range flatten(p) {
				t := coqList(f)
				if !seen[t] {
					seen[t] = true
					q = append(q, "    "+t)
				}
			}
		}
		items = append(items, "  ("+coqStr(n)+", [\n"+strings.Join(q, ";\n")+"])")
	}
	sk.WriteString("Definition gen_flat : list (string * list (list tok)) := [\n" + strings.Join(items, ";\n") + "\n].\n\n")
	// the append primitive itself, at system-call granularity
	primitiveMode = true
	memo = map[string][][]eff{}
	loadsSaved, writesSaved := loads, writes
	loads, writes = map[string]bool{}, map[string]bool{"appendEventsAtomically": true}
	q2 := []string{}
	if fd := funcDecls["appendEvents"]; fd != nil {
		seen := map[string]bool{}
		for _, p := range blockPaths(fd.Body.List) {
			for _, f := range flatten(p) {
				t := coqList(f)
				if !seen[t] {
					seen[t] = true
					q2 = append(q2, "    "+t)
				}
			}
		}
	} else {
		die("appendEvents not found")
	}
	loads, writes = loadsSaved, writesSaved
	primitiveMode = false
	sk.WriteString("Definition gen_append_prim : list (list tok) := [\n" + strings.Join(q2, ";\n") + "].\n\n")
	// withLock itself: which file-system operations it performs besides open + flock
	memo = map[string][][]eff{}
	leavesSaved := leaves
	leaves = map[string]bool{"ensureFileExists": true}
	q3 := []string{}
	if fd := funcDecls["withLock"]; fd != nil {
		seen := map[string]bool{}
		for _, p := range blockPaths(fd.Body.List) {
			for _, f := range flatten(p) {
				t := coqList(f)
				if !seen[t] {
					seen[t] = true
					q3 = append(q3, "    "+t)
				}
			}
		}
	} else {
		die("withLock not found")
	}
	leaves = leavesSaved
	memo = map[string][][]eff{}
	sk.WriteString("Definition gen_withlock_prim : list (list tok) := [\n" + strings.Join(q3, ";\n") + "].\n")
	if err := os.MkdirAll(outDir, 0755); err != nil {
		die("%v", err)
	}
	write := func(name, content string) {
		p := filepath.Join(outDir, name)
		old, err := os.ReadFile(p)
		if err == nil && string(old) == content {
			return // keep timestamps so make does not rebuild
		}
		if err := os.WriteFile(p, []byte(content), 0644); err != nil {
			die("%v", err)
		}
	}
	write("StateMachine.v", sm.String())
	write("Consts.v", cs.String())
	write("Skeleton.v", sk.String())
	write("ReplayGen.v", genReplay(fset, files))     // replay_ir.go
	write("ReadyGen.v", genReadyIR(fset, files))     // ready_ir.go
	write("CompactGen.v", genCompactIR(fset, files)) // compact_ir.go
	write("ReadGen.v", genReadIR(fset, files))       // read_ir.go
	write("CycleGen.v", genCycleIR(fset, files))     // cycle_ir.go
	write("PruneGen.v", genPruneIR(fset, files))     // prune_ir.go
	write("CmdGen.v", genCmdIR(fset, files))         // cmd_ir.go
	write("OutGen.v", genOutSafe(root))              // out_ir.go, out_scan.go, out_walk.go
}
