// out_scan.go — syntactic over-approximation of "this function can write to a stream, terminate the
// process, or call through a function value".  Exactly the functions in this set are inlined by the
// walker (out_walk.go); every other in-package function is treated as silent.
package main

import (
	"go/ast"
	"go/token"
	"strings"
)

// methods that write to their receiver (WriteTo: to its argument)
var writerMethods = map[string]bool{"Write": true, "WriteString": true, "WriteByte": true, "WriteRune": true, "WriteTo": true,
	"ReadFrom": true, "Flush": true, "Encode": true, "Print": true, "Printf": true, "Println": true, "WriteAll": true, "WriteJSONTo": true}

var builtinFuncs = map[string]bool{"append": true, "cap": true, "clear": true, "close": true, "complex": true, "copy": true, "delete": true,
	"imag": true, "len": true, "make": true, "max": true, "min": true, "new": true, "panic": true, "print": true, "println": true, "real": true, "recover": true}

var basicTypes = map[string]bool{"bool": true, "byte": true, "rune": true, "string": true, "error": true, "any": true, "int": true, "int8": true,
	"int16": true, "int32": true, "int64": true, "uint": true, "uint8": true, "uint16": true, "uint32": true, "uint64": true, "uintptr": true,
	"float32": true, "float64": true, "complex64": true, "complex128": true}

var harmlessFileMethods = map[string]bool{"Stat": true, "Fd": true, "Name": true}

type scanInfo struct {
	direct   bool
	nonText  bool
	dyn      bool
	dynOther bool     // a dynamic call that is not a plain identifier call
	dynNames []string // identifiers called as function values
	callees  []string // package functions
	mcalls   []string // method names on non-package receivers
}

// names that are, everywhere in the function, a `var x strings.Builder` / `var x bytes.Buffer`
func sinkLocals(fn ast.Node) map[string]bool {
	decl := map[string]bool{}
	other := map[string]bool{}
	ast.Inspect(fn, func(n ast.Node) bool {
		switch v := n.(type) {
		case *ast.FuncType:
			for _, fl := range []*ast.FieldList{v.Params, v.Results} {
				if fl != nil {
					for _, f := range fl.List {
						for _, nm := range f.Names {
							other[nm.Name] = true
						}
					}
				}
			}
		case *ast.FuncDecl:
			if v.Recv != nil {
				for _, f := range v.Recv.List {
					for _, nm := range f.Names {
						other[nm.Name] = true
					}
				}
			}
		case *ast.ValueSpec:
			ok := v.Type != nil && sinkTypes[typeName(v.Type)] && len(v.Values) == 0
			if _, star := v.Type.(*ast.StarExpr); star {
				ok = false
			}
			for _, nm := range v.Names {
				if ok {
					decl[nm.Name] = true
				} else {
					other[nm.Name] = true
				}
			}
		case *ast.AssignStmt:
			for _, l := range v.Lhs {
				if id, ok := l.(*ast.Ident); ok {
					other[id.Name] = true
				}
			}
		case *ast.RangeStmt:
			for _, l := range []ast.Expr{v.Key, v.Value} {
				if id, ok := l.(*ast.Ident); ok {
					other[id.Name] = true
				}
			}
		}
		return true
	})
	for k := range other {
		delete(decl, k)
	}
	return decl
}

func (w *oWalker) scanNode(fn ast.Node) scanInfo {
	var si scanInfo
	sinks := sinkLocals(fn)
	// identifiers bound locally (parameters, :=, var, range): a call of one of them is a call through a function value
	harmless := map[*ast.SelectorExpr]bool{}
	ast.Inspect(fn, func(n ast.Node) bool {
		switch v := n.(type) {
		case *ast.GoStmt:
			si.direct, si.nonText = true, true
		case *ast.CallExpr:
			fun := v.Fun
			for {
				if p, ok := fun.(*ast.ParenExpr); ok {
					fun = p.X
				} else {
					break
				}
			}
			switch f := fun.(type) {
			case *ast.Ident:
				switch {
				case f.Name == "print" || f.Name == "println" || f.Name == "panic":
					si.direct = true
				case builtinFuncs[f.Name] || basicTypes[f.Name] || w.types[f.Name]:
				case w.funcs[f.Name] != nil:
					si.callees = append(si.callees, f.Name)
				default:
					si.dyn = true
					si.dynNames = append(si.dynNames, f.Name)
				}
			case *ast.SelectorExpr:
				if x, ok := f.X.(*ast.Ident); ok && w.imports[x.Name] {
					switch x.Name {
					case "fmt":
						if strings.HasPrefix(f.Sel.Name, "Print") || strings.HasPrefix(f.Sel.Name, "Fprint") {
							si.direct = true
						}
					case "io":
						if f.Sel.Name == "WriteString" || strings.HasPrefix(f.Sel.Name, "Copy") {
							si.direct = true
						}
					case "log":
						si.direct = true
					case "os":
						if f.Sel.Name == "Exit" {
							si.direct = true
						}
						if f.Sel.Name == "NewFile" {
							si.direct, si.nonText = true, true
						}
					case "syscall", "unix":
						if f.Sel.Name == "Write" || f.Sel.Name == "Dup2" || f.Sel.Name == "Dup3" {
							si.direct, si.nonText = true, true
						}
					}
					if x.Name == w.ergoImport && w.other != nil {
						if fd := w.other.funcs[f.Sel.Name]; fd != nil && w.other.inline[fd] {
							si.direct, si.nonText = true, true
						}
					}
					return true
				}
				if x, ok := f.X.(*ast.SelectorExpr); ok {
					if p, ok := x.X.(*ast.Ident); ok && p.Name == "os" && (x.Sel.Name == "Stdout" || x.Sel.Name == "Stderr") && harmlessFileMethods[f.Sel.Name] {
						harmless[x] = true
					}
				}
				if writerMethods[f.Sel.Name] {
					if x, ok := f.X.(*ast.Ident); ok && sinks[x.Name] {
						return true
					}
					si.direct = true
					if f.Sel.Name == "Encode" {
						si.nonText = true
					}
					return true
				}
				si.mcalls = append(si.mcalls, f.Sel.Name)
				if w.funcFields[f.Sel.Name] {
					si.dyn, si.dynOther = true, true
				}
			case *ast.FuncLit, *ast.ArrayType, *ast.MapType, *ast.StarExpr, *ast.InterfaceType, *ast.ChanType, *ast.FuncType:
			default:
				si.dyn, si.dynOther = true, true
			}
		case *ast.SelectorExpr:
			if p, ok := v.X.(*ast.Ident); ok && p.Name == "os" && (v.Sel.Name == "Stdout" || v.Sel.Name == "Stderr") && !harmless[v] {
				si.direct = true
			}
		}
		return true
	})
	return si
}

func (w *oWalker) allDecls() []*ast.FuncDecl {
	var out []*ast.FuncDecl
	for _, f := range w.files {
		for _, d := range f.Decls {
			if fd, ok := d.(*ast.FuncDecl); ok && fd.Body != nil {
				out = append(out, fd)
			}
		}
	}
	return out
}

func (w *oWalker) scanPackage() {
	decls := w.allDecls()
	infos := map[*ast.FuncDecl]scanInfo{}
	for _, fd := range decls {
		si := w.scanNode(fd)
		infos[fd] = si
		if si.direct || si.dyn {
			w.inline[fd] = true
		}
		if si.nonText || si.dyn {
			w.nonText[fd] = true
		}
	}
	for changed := true; changed; {
		changed = false
		for _, fd := range decls {
			si := infos[fd]
			in, nt := w.inline[fd], w.nonText[fd]
			for _, c := range si.callees {
				if g := w.funcs[c]; g != nil {
					in = in || w.inline[g]
					nt = nt || w.nonText[g]
				}
			}
			for _, m := range si.mcalls {
				for _, g := range w.methods[m] {
					in = in || w.inline[g]
					nt = nt || w.nonText[g]
				}
			}
			if in != w.inline[fd] || nt != w.nonText[fd] {
				w.inline[fd], w.nonText[fd] = in, nt
				changed = true
			}
		}
	}
}

// litQuiet: a closure body that cannot write, terminate or call through a function value
func (w *oWalker) nodeQuiet(n ast.Node) bool { return w.nodeQuietX(n, false) }

func (w *oWalker) nodeQuietX(n ast.Node, ignoreDyn bool) bool {
	si := w.scanNode(n)
	if si.direct || (si.dyn && !ignoreDyn) {
		return false
	}
	for _, c := range si.callees {
		if g := w.funcs[c]; g != nil && w.inline[g] {
			return false
		}
	}
	for _, m := range si.mcalls {
		for _, g := range w.methods[m] {
			if w.inline[g] {
				return false
			}
		}
	}
	return true
}

func (w *oWalker) nodeTextOnly(n ast.Node, ignoreDyn bool) bool {
	si := w.scanNode(n)
	if si.nonText || (si.dyn && !ignoreDyn) {
		return false
	}
	for _, c := range si.callees {
		if g := w.funcs[c]; g != nil && w.nonText[g] {
			return false
		}
	}
	for _, m := range si.mcalls {
		for _, g := range w.methods[m] {
			if w.nonText[g] {
				return false
			}
		}
	}
	return true
}

// ---------------------------------------------------------------- summaries of functions that are not inlined

func (w *oWalker) resultTypes(fd *ast.FuncDecl) []ast.Expr {
	var out []ast.Expr
	if fd.Type.Results == nil {
		return nil
	}
	for _, f := range fd.Type.Results.List {
		n := len(f.Names)
		if n == 0 {
			n = 1
		}
		for i := 0; i < n; i++ {
			out = append(out, f.Type)
		}
	}
	return out
}

func (w *oWalker) nilness(e ast.Expr) string {
	switch v := e.(type) {
	case *ast.ParenExpr:
		return w.nilness(v.X)
	case *ast.Ident:
		if v.Name == "nil" {
			return "nil"
		}
		if pv := w.pkgVars[v.Name]; pv != nil && !pv.mutable && pv.init != nil {
			return w.nilness(pv.init)
		}
	case *ast.UnaryExpr:
		if v.Op == token.AND {
			if _, ok := v.X.(*ast.CompositeLit); ok {
				return "nonnil"
			}
		}
	case *ast.CallExpr:
		if s, ok := v.Fun.(*ast.SelectorExpr); ok {
			if x, ok := s.X.(*ast.Ident); ok && w.imports[x.Name] {
				if (x.Name == "errors" && s.Sel.Name == "New") || (x.Name == "fmt" && s.Sel.Name == "Errorf") {
					return "nonnil"
				}
			}
		}
		if id, ok := v.Fun.(*ast.Ident); ok {
			if fd := w.funcs[id.Name]; fd != nil {
				if s := w.summary(fd); len(s) == 1 {
					return s[0].k
				}
			}
		}
	}
	return ""
}

// summary: per result the declared type and, when every return statement agrees, nil / nonnil
func (w *oWalker) summary(fd *ast.FuncDecl) []oAval {
	if s, ok := w.sumMemo[fd]; ok {
		return s
	}
	rts := w.resultTypes(fd)
	out := make([]oAval, len(rts))
	for i, t := range rts {
		out[i].typ = typeName(t)
	}
	if w.sumBusy[fd] || fd.Body == nil {
		return out
	}
	w.sumBusy[fd] = true
	kinds := make([]string, len(rts))
	first := true
	var visit func(n ast.Node) bool
	visit = func(n ast.Node) bool {
		switch v := n.(type) {
		case *ast.FuncLit:
			return false
		case *ast.ReturnStmt:
			for i := range rts {
				k := ""
				if len(v.Results) == len(rts) {
					k = w.nilness(v.Results[i])
				}
				if first {
					kinds[i] = k
				} else if kinds[i] != k {
					kinds[i] = ""
				}
			}
			first = false
		}
		return true
	}
	ast.Inspect(fd.Body, visit)
	w.sumBusy[fd] = false
	if !first {
		for i := range rts {
			if kinds[i] == "nil" || kinds[i] == "nonnil" {
				out[i].k = kinds[i]
			}
		}
	}
	w.sumMemo[fd] = out
	return out
}
