// replay_ir.go — translate graph.go's replayEvents / applyTombstone into the statement IR of
// coq/bridge/ReplayIR.v and emit coq/gen/ReplayGen.v.
//
// The matcher is deliberately dumb: each Go statement (or the two-statement idioms `var d T; if err :=
// json.Unmarshal(..)`, `x, err := parseTime(..); if err != nil`, `t, ok := graph.Tasks[..]; if !ok`) is
// compared against a fixed list of shapes; whatever does not fit is emitted as RUnknown / TUnknown /
// PUnknown with its source text, on which the Coq interpreter is stuck.  Statement order is preserved.
// Named string constants are replaced by their VALUES; payload fields are named by their json keys.
package main

import (
	"bytes"
	"go/ast"
	"go/printer"
	"go/token"
	"reflect"
	"sort"
	"strconv"
	"strings"
)

type structField struct{ goName, key, typ string }

type rctx struct {
	fset       *token.FileSet
	structs    map[string][]structField
	graph      string // local name of the *Graph
	event      string // range variable of the event loop
	data       string // decoded payload variable of the current case
	dataStruct string
}

func (c *rctx) text(n interface{}) string {
	var b bytes.Buffer
	if err := printer.Fprint(&b, c.fset, n); err != nil {
		return "<unprintable>"
	}
	return strings.Join(strings.Fields(b.String()), " ")
}

func collectStructs(files []*ast.File) map[string][]structField {
	out := map[string][]structField{}
	tmp := &rctx{fset: token.NewFileSet()}
	for _, f := range files {
		for _, d := range f.Decls {
			gd, ok := d.(*ast.GenDecl)
			if !ok || gd.Tok != token.TYPE {
				continue
			}
			for _, sp := range gd.Specs {
				ts := sp.(*ast.TypeSpec)
				st, ok := ts.Type.(*ast.StructType)
				if !ok {
					continue
				}
				var fs []structField
				for _, fl := range st.Fields.List {
					key, skip := "", false
					if fl.Tag != nil {
						if raw, err := strconv.Unquote(fl.Tag.Value); err == nil {
							if j, ok := reflect.StructTag(raw).Lookup("json"); ok {
								name := strings.Split(j, ",")[0]
								if name == "-" && j == "-" {
									skip = true
								}
								key = name
							}
						}
					}
					for _, n := range fl.Names {
						k := key
						if k == "" {
							k = n.Name
						}
						if skip || !ast.IsExported(n.Name) {
							continue
						}
						fs = append(fs, structField{n.Name, k, tmp.text(fl.Type)})
					}
				}
				out[ts.Name.Name] = fs
			}
		}
	}
	return out
}

func identName(e ast.Expr) (string, bool) {
	id, ok := e.(*ast.Ident)
	if !ok {
		return "", false
	}
	return id.Name, true
}

func isIdent(e ast.Expr, name string) bool {
	n, ok := identName(e)
	return ok && n == name
}

// G.Field[key]
func (c *rctx) graphIndex(e ast.Expr) (string, ast.Expr, bool) {
	ix, ok := e.(*ast.IndexExpr)
	if !ok {
		return "", nil, false
	}
	sel, ok := ix.X.(*ast.SelectorExpr)
	if !ok || c.graph == "" || !isIdent(sel.X, c.graph) {
		return "", nil, false
	}
	return sel.Sel.Name, ix.Index, true
}

func (c *rctx) reserved(name string) bool {
	return name == c.graph || name == c.event || name == c.data || name == "nil" || name == "_" || name == "err"
}

func (c *rctx) expr(e ast.Expr) (string, bool) {
	switch v := e.(type) {
	case *ast.ParenExpr:
		return c.expr(v.X)
	case *ast.BasicLit:
		if s, ok := strOf(v); ok {
			return "(XStr " + coqStr(s) + ")", true
		}
	case *ast.Ident:
		switch {
		case v.Name == "true":
			return "(XBool true)", true
		case v.Name == "false":
			return "(XBool false)", true
		case c.reserved(v.Name):
			return "", false
		}
		if s, ok := strConsts[v.Name]; ok {
			return "(XStr " + coqStr(s) + ")", true
		}
		return "(XVar " + coqStr(v.Name) + ")", true
	case *ast.SelectorExpr:
		x, ok := identName(v.X)
		if !ok {
			return "", false
		}
		if c.data != "" && x == c.data {
			for _, f := range c.structs[c.dataStruct] {
				if f.goName == v.Sel.Name {
					return "(XData " + coqStr(f.key) + ")", true
				}
			}
			return "", false
		}
		if c.reserved(x) {
			return "", false
		}
		return "(XField " + coqStr(x) + " " + coqStr(v.Sel.Name) + ")", true
	case *ast.BinaryExpr:
		if v.Op == token.EQL {
			if sel, ok := v.X.(*ast.SelectorExpr); ok && c.event != "" && isIdent(sel.X, c.event) && sel.Sel.Name == "Type" {
				if s, ok := strOf(v.Y); ok {
					return "(XTypeIs " + coqStr(s) + ")", true
				}
			}
		}
	case *ast.CallExpr:
		fn, ok := identName(v.Fun)
		if !ok {
			return "", false
		}
		switch {
		case fn == "maxTime" && len(v.Args) == 2 && !v.Ellipsis.IsValid():
			a, ok1 := c.expr(v.Args[0])
			b, ok2 := c.expr(v.Args[1])
			if ok1 && ok2 {
				return "(XMaxTime " + a + " " + b + ")", true
			}
		case fn == "append" && len(v.Args) == 2 && v.Ellipsis.IsValid():
			cl, ok := v.Args[0].(*ast.CompositeLit)
			if !ok || len(cl.Elts) != 1 {
				return "", false
			}
			at, ok := cl.Type.(*ast.ArrayType)
			if !ok || at.Len != nil || !isIdent(at.Elt, "Result") {
				return "", false
			}
			a, ok1 := c.expr(cl.Elts[0])
			b, ok2 := c.expr(v.Args[1])
			if ok1 && ok2 {
				return "(XPrepend " + a + " " + b + ")", true
			}
		}
	}
	return "", false
}

// T{F: e, ...} with every element keyed by a field name
func (c *rctx) literalFields(e ast.Expr, typ string) (string, bool) {
	cl, ok := e.(*ast.CompositeLit)
	if !ok || !isIdent(cl.Type, typ) {
		return "", false
	}
	var items []string
	for _, el := range cl.Elts {
		kv, ok := el.(*ast.KeyValueExpr)
		if !ok {
			return "", false
		}
		k, ok := identName(kv.Key)
		if !ok {
			return "", false
		}
		x, ok := c.expr(kv.Value)
		if !ok {
			return "", false
		}
		items = append(items, "("+coqStr(k)+", "+x+")")
	}
	return coqList(items), true
}

func addrOf(e ast.Expr) (ast.Expr, bool) {
	u, ok := e.(*ast.UnaryExpr)
	if !ok || u.Op != token.AND {
		return nil, false
	}
	return u.X, true
}

func soleStmt(b *ast.BlockStmt) ast.Stmt {
	if b == nil || len(b.List) != 1 {
		return nil
	}
	return b.List[0]
}

func isContinue(b *ast.BlockStmt) bool {
	br, ok := soleStmt(b).(*ast.BranchStmt)
	return ok && br.Tok == token.CONTINUE && br.Label == nil
}

func isBareReturn(b *ast.BlockStmt) bool {
	r, ok := soleStmt(b).(*ast.ReturnStmt)
	return ok && len(r.Results) == 0
}

// { return nil, err }
func isReturnNilErr(b *ast.BlockStmt) bool {
	r, ok := soleStmt(b).(*ast.ReturnStmt)
	return ok && len(r.Results) == 2 && isIdent(r.Results[0], "nil") && isIdent(r.Results[1], "err")
}

func isErrNotNil(e ast.Expr) bool {
	b, ok := e.(*ast.BinaryExpr)
	return ok && b.Op == token.NEQ && isIdent(b.X, "err") && isIdent(b.Y, "nil")
}

func isEmptyMapLit(e ast.Expr) bool {
	cl, ok := e.(*ast.CompositeLit)
	if !ok || len(cl.Elts) != 0 {
		return false
	}
	_, ok = cl.Type.(*ast.MapType)
	return ok
}

func isEmptyStructValue(e ast.Expr) bool {
	cl, ok := e.(*ast.CompositeLit)
	if !ok || len(cl.Elts) != 0 {
		return false
	}
	st, ok := cl.Type.(*ast.StructType)
	return ok && (st.Fields == nil || len(st.Fields.List) == 0)
}

func define1(s ast.Stmt) (lhs []ast.Expr, rhs ast.Expr, ok bool) {
	a, isA := s.(*ast.AssignStmt)
	if !isA || a.Tok != token.DEFINE || len(a.Rhs) != 1 {
		return nil, nil, false
	}
	return a.Lhs, a.Rhs[0], true
}

func plainIf(s ast.Stmt) (*ast.IfStmt, bool) {
	i, ok := s.(*ast.IfStmt)
	if !ok || i.Init != nil || i.Else != nil {
		return nil, false
	}
	return i, true
}

// a == c1 || a == c2 || ...
func (c *rctx) orChain(e ast.Expr) (string, []string, bool) {
	var leaves []ast.Expr
	var walk func(ast.Expr)
	walk = func(x ast.Expr) {
		if p, ok := x.(*ast.ParenExpr); ok {
			walk(p.X)
			return
		}
		if b, ok := x.(*ast.BinaryExpr); ok && b.Op == token.LOR {
			walk(b.X)
			walk(b.Y)
			return
		}
		leaves = append(leaves, x)
	}
	walk(e)
	subject := ""
	var consts []string
	for _, l := range leaves {
		b, ok := l.(*ast.BinaryExpr)
		if !ok || b.Op != token.EQL {
			return "", nil, false
		}
		x, ok := c.expr(b.X)
		if !ok {
			return "", nil, false
		}
		if _, isConst := strOf(b.X); isConst {
			return "", nil, false
		}
		s, ok := strOf(b.Y)
		if !ok {
			return "", nil, false
		}
		if subject != "" && subject != x {
			return "", nil, false
		}
		subject = x
		consts = append(consts, coqStr(s))
	}
	return subject, consts, len(consts) > 0
}

// v.F = e
func (c *rctx) fieldAssign(s ast.Stmt) (v, f, x string, ok bool) {
	a, isA := s.(*ast.AssignStmt)
	if !isA || a.Tok != token.ASSIGN || len(a.Lhs) != 1 || len(a.Rhs) != 1 {
		return
	}
	sel, isS := a.Lhs[0].(*ast.SelectorExpr)
	if !isS {
		return
	}
	v, isI := identName(sel.X)
	if !isI || c.reserved(v) {
		return
	}
	x, okx := c.expr(a.Rhs[0])
	if !okx {
		return
	}
	return v, sel.Sel.Name, x, true
}

// one statement of a case; `next` is the statement after it (for the two-statement idioms).
// Returns the IR text and how many Go statements were consumed (0 = not recognised).
func (c *rctx) caseStmt(s, next ast.Stmt) (string, int) {
	switch v := s.(type) {
	case *ast.DeclStmt:
		gd, ok := v.Decl.(*ast.GenDecl)
		if !ok || gd.Tok != token.VAR || len(gd.Specs) != 1 {
			return "", 0
		}
		vs := gd.Specs[0].(*ast.ValueSpec)
		if len(vs.Names) != 1 || len(vs.Values) != 0 || vs.Type == nil {
			return "", 0
		}
		typ, ok := identName(vs.Type)
		if !ok {
			return "", 0
		}
		fields, known := c.structs[typ]
		iff, ok := next.(*ast.IfStmt)
		if !known || !ok || iff.Else != nil || !isErrNotNil(iff.Cond) || !isReturnNilErr(iff.Body) {
			return "", 0
		}
		lhs, rhs, ok := define1(iff.Init)
		if !ok || len(lhs) != 1 || !isIdent(lhs[0], "err") {
			return "", 0
		}
		call, ok := rhs.(*ast.CallExpr)
		if !ok || len(call.Args) != 2 || c.text(call.Fun) != "json.Unmarshal" || c.event == "" || c.text(call.Args[0]) != c.event+".Data" {
			return "", 0
		}
		target, ok := addrOf(call.Args[1])
		if !ok || !isIdent(target, vs.Names[0].Name) {
			return "", 0
		}
		c.data, c.dataStruct = vs.Names[0].Name, typ
		sorted := append([]structField{}, fields...)
		sort.Slice(sorted, func(i, j int) bool { return sorted[i].key < sorted[j].key })
		var shape []string
		for _, f := range sorted {
			shape = append(shape, "("+coqStr(f.key)+", "+coqStr(f.typ)+")")
		}
		return "RDecode " + coqStr(c.data) + " " + coqStr(typ) + " " + coqList(shape), 2

	case *ast.IfStmt:
		if v.Else != nil {
			return "", 0
		}
		if v.Init != nil {
			// if _, x := graph.M[key]; x { ... }
			lhs, rhs, ok := define1(v.Init)
			if !ok || len(lhs) != 2 || !isIdent(lhs[0], "_") {
				return "", 0
			}
			flag, ok := identName(lhs[1])
			if !ok || flag == "_" || !isIdent(v.Cond, flag) {
				return "", 0
			}
			m, key, ok := c.graphIndex(rhs)
			if !ok {
				return "", 0
			}
			k, ok := c.expr(key)
			if !ok {
				return "", 0
			}
			if m == "Tombstones" && isContinue(v.Body) {
				return "RSkipIfTombstoned " + k, 1
			}
			if m == "Tasks" {
				r, ok := soleStmt(v.Body).(*ast.ReturnStmt)
				if !ok || len(r.Results) != 2 || !isIdent(r.Results[0], "nil") {
					return "", 0
				}
				call, ok := r.Results[1].(*ast.CallExpr)
				if !ok || c.text(call.Fun) != "fmt.Errorf" || len(call.Args) < 1 || call.Ellipsis.IsValid() {
					return "", 0
				}
				format, ok := strOf(call.Args[0])
				if !ok {
					return "", 0
				}
				var args []string
				for _, a := range call.Args[1:] {
					x, ok := c.expr(a)
					if !ok {
						return "", 0
					}
					args = append(args, x)
				}
				return "RErrIfTaskExists " + k + " " + coqStr(format) + " " + coqList(args), 1
			}
			return "", 0
		}
		// if m != nil { m.F = e }
		if b, ok := v.Cond.(*ast.BinaryExpr); ok && b.Op == token.NEQ && isIdent(b.Y, "nil") {
			if m, ok := identName(b.X); ok && !c.reserved(m) {
				if mv, f, x, ok := c.fieldAssign(soleStmt(v.Body)); ok && mv == m {
					return "RIfMetaSet " + coqStr(m) + " " + coqStr(f) + " " + x, 1
				}
				return "", 0
			}
		}
		// if graph.Deps[k] == nil { graph.Deps[k] = map[string]struct{}{} }   /   if graph.Deps[k] != nil { delete(graph.Deps[k], k2) }
		if b, ok := v.Cond.(*ast.BinaryExpr); ok && isIdent(b.Y, "nil") {
			if m, key, ok := c.graphIndex(b.X); ok && m == "Deps" {
				k, ok := c.expr(key)
				if !ok {
					return "", 0
				}
				switch body := soleStmt(v.Body).(type) {
				case *ast.AssignStmt:
					if b.Op == token.EQL && body.Tok == token.ASSIGN && len(body.Lhs) == 1 && len(body.Rhs) == 1 &&
						c.text(body.Lhs[0]) == c.text(b.X) && c.text(body.Rhs[0]) == "map[string]struct{}{}" {
						return "REnsureDeps " + k, 1
					}
				case *ast.ExprStmt:
					call, ok := body.X.(*ast.CallExpr)
					if b.Op == token.NEQ && ok && isIdent(call.Fun, "delete") && len(call.Args) == 2 && c.text(call.Args[0]) == c.text(b.X) {
						if k2, ok := c.expr(call.Args[1]); ok {
							return "RDepDelete " + k + " " + k2, 1
						}
					}
				}
				return "", 0
			}
		}
		// if e != c { continue }
		if b, ok := v.Cond.(*ast.BinaryExpr); ok && b.Op == token.NEQ && isContinue(v.Body) {
			if s, ok := strOf(b.Y); ok {
				if _, isConst := strOf(b.X); !isConst {
					if x, ok := c.expr(b.X); ok {
						return "RSkipIfStrNe " + x + " " + coqStr(s), 1
					}
				}
			}
			return "", 0
		}
		// if e == c1 || e == c2 ... { v.F = e' ... }
		if subject, consts, ok := c.orChain(v.Cond); ok && len(v.Body.List) > 0 {
			var body []string
			for _, bs := range v.Body.List {
				tv, f, x, ok := c.fieldAssign(bs)
				if !ok {
					return "", 0
				}
				body = append(body, "("+coqStr(tv)+", "+coqStr(f)+", "+x+")")
			}
			return "RIfStrIn " + subject + " " + coqList(consts) + " " + coqList(body), 1
		}
		return "", 0

	case *ast.AssignStmt:
		if v.Tok == token.DEFINE && len(v.Rhs) == 1 {
			switch len(v.Lhs) {
			case 2:
				a, ok1 := identName(v.Lhs[0])
				b, ok2 := identName(v.Lhs[1])
				if !ok1 || !ok2 || a == "_" || c.reserved(a) {
					return "", 0
				}
				// x, err := parseTime(e); if err != nil { return nil, err }
				if call, ok := v.Rhs[0].(*ast.CallExpr); ok && b == "err" && isIdent(call.Fun, "parseTime") && len(call.Args) == 1 {
					iff, ok := plainIfOf(next)
					if !ok || !isErrNotNil(iff.Cond) || !isReturnNilErr(iff.Body) {
						return "", 0
					}
					if x, ok := c.expr(call.Args[0]); ok {
						return "RParseTime " + coqStr(a) + " " + x, 2
					}
					return "", 0
				}
				// t, ok := graph.Tasks[k]; if !ok { continue }
				if m, key, ok := c.graphIndex(v.Rhs[0]); ok && m == "Tasks" && b != "_" && b != "err" {
					iff, ok := plainIfOf(next)
					if !ok || !isContinue(iff.Body) {
						return "", 0
					}
					neg, ok := iff.Cond.(*ast.UnaryExpr)
					if !ok || neg.Op != token.NOT || !isIdent(neg.X, b) {
						return "", 0
					}
					if k, ok := c.expr(key); ok {
						return "RGetTaskOrSkip " + coqStr(a) + " " + k, 2
					}
				}
				return "", 0
			case 1:
				a, ok := identName(v.Lhs[0])
				if !ok || a == "_" || c.reserved(a) {
					return "", 0
				}
				if m, key, ok := c.graphIndex(v.Rhs[0]); ok && m == "Meta" {
					if k, ok := c.expr(key); ok {
						return "RGetMeta " + coqStr(a) + " " + k, 1
					}
					return "", 0
				}
				if inner, ok := addrOf(v.Rhs[0]); ok {
					if fs, ok := c.literalFields(inner, "Task"); ok {
						return "RNewTask " + coqStr(a) + " " + fs, 1
					}
					return "", 0
				}
				if fs, ok := c.literalFields(v.Rhs[0], "Result"); ok {
					return "RNewResult " + coqStr(a) + " " + fs, 1
				}
			}
			return "", 0
		}
		if v.Tok == token.ASSIGN && len(v.Lhs) == 1 && len(v.Rhs) == 1 {
			if m, key, ok := c.graphIndex(v.Lhs[0]); ok {
				k, ok := c.expr(key)
				if !ok {
					return "", 0
				}
				switch m {
				case "Tasks":
					if t, ok := identName(v.Rhs[0]); ok && !c.reserved(t) {
						return "RStoreTask " + k + " " + coqStr(t), 1
					}
				case "Meta":
					if inner, ok := addrOf(v.Rhs[0]); ok {
						if fs, ok := c.literalFields(inner, "TaskMeta"); ok {
							return "RStoreMeta " + k + " " + fs, 1
						}
					}
				}
				return "", 0
			}
			// graph.Deps[a][b] = struct{}{}
			if ix, ok := v.Lhs[0].(*ast.IndexExpr); ok {
				if m, key, ok := c.graphIndex(ix.X); ok && m == "Deps" && isEmptyStructValue(v.Rhs[0]) {
					a, ok1 := c.expr(key)
					b, ok2 := c.expr(ix.Index)
					if ok1 && ok2 {
						return "RDepInsert " + a + " " + b, 1
					}
				}
				return "", 0
			}
			if tv, f, x, ok := c.fieldAssign(v); ok {
				return "RSetTaskField " + coqStr(tv) + " " + coqStr(f) + " " + x, 1
			}
		}
		return "", 0

	case *ast.ExprStmt:
		call, ok := v.X.(*ast.CallExpr)
		if !ok || !isIdent(call.Fun, "applyTombstone") || len(call.Args) != 3 || call.Ellipsis.IsValid() || c.graph == "" || !isIdent(call.Args[0], c.graph) {
			return "", 0
		}
		k, ok := c.expr(call.Args[1])
		if !ok {
			return "", 0
		}
		if fs, ok := c.literalFields(call.Args[2], "TombstoneInfo"); ok {
			return "RTombstone " + k + " " + fs, 1
		}
	}
	return "", 0
}

func plainIfOf(s ast.Stmt) (*ast.IfStmt, bool) {
	if s == nil {
		return nil, false
	}
	return plainIf(s)
}

func (c *rctx) caseBody(stmts []ast.Stmt) []string {
	c.data, c.dataStruct = "", ""
	var out []string
	for i := 0; i < len(stmts); {
		var next ast.Stmt
		if i+1 < len(stmts) {
			next = stmts[i+1]
		}
		ir, n := c.caseStmt(stmts[i], next)
		if n == 0 {
			out = append(out, "RUnknown "+coqStr(c.text(stmts[i])))
			i++
			continue
		}
		out = append(out, ir)
		i += n
	}
	return out
}

// the event loop: for _, ev := range <events> { switch ev.Type { case ...: ... } }
func (c *rctx) eventLoop(s ast.Stmt, eventsParam string) ([]string, bool) {
	r, ok := s.(*ast.RangeStmt)
	if !ok || r.Tok != token.DEFINE || !isIdent(r.Key, "_") || !isIdent(r.X, eventsParam) {
		return nil, false
	}
	ev, ok := identName(r.Value)
	if !ok || ev == "_" {
		return nil, false
	}
	sw, ok := soleStmt(r.Body).(*ast.SwitchStmt)
	if !ok || sw.Init != nil || c.text(sw.Tag) != ev+".Type" {
		return nil, false
	}
	c.event = ev
	var cases []string
	for _, cl := range sw.Body.List {
		cc, ok := cl.(*ast.CaseClause)
		if !ok || cc.List == nil { // a default clause would make unknown event types do something
			return nil, false
		}
		var labels []string
		for _, l := range cc.List {
			s, ok := strOf(l)
			if !ok {
				return nil, false
			}
			labels = append(labels, coqStr(s))
		}
		body := c.caseBody(cc.Body)
		cases = append(cases, "  ("+coqList(labels)+", [\n    "+strings.Join(body, ";\n    ")+"])")
	}
	return cases, true
}

func (c *rctx) frameStmt(s ast.Stmt, eventsParam string, cases *[]string, haveLoop *bool) string {
	unknown := "PUnknown " + coqStr(c.text(s))
	switch v := s.(type) {
	case *ast.AssignStmt:
		// graph := &Graph{F: map[...]...{}, ...}
		lhs, rhs, ok := define1(v)
		if !ok || len(lhs) != 1 || c.graph != "" {
			return unknown
		}
		g, ok := identName(lhs[0])
		inner, ok2 := addrOf(rhs)
		if !ok || !ok2 {
			return unknown
		}
		cl, ok := inner.(*ast.CompositeLit)
		if !ok || !isIdent(cl.Type, "Graph") {
			return unknown
		}
		var fields []string
		for _, el := range cl.Elts {
			kv, ok := el.(*ast.KeyValueExpr)
			if !ok || !isEmptyMapLit(kv.Value) {
				return unknown
			}
			k, ok := identName(kv.Key)
			if !ok {
				return unknown
			}
			fields = append(fields, coqStr(k))
		}
		c.graph = g
		return "PInitGraph " + coqList(fields)
	case *ast.RangeStmt:
		if !*haveLoop {
			if cs, ok := c.eventLoop(v, eventsParam); ok {
				*haveLoop = true
				*cases = cs
				return "PLoopSwitch"
			}
		}
		if c.graph == "" || v.Tok != token.DEFINE {
			return unknown
		}
		k, ok1 := identName(v.Key)
		val, ok2 := identName(v.Value)
		if !ok1 || !ok2 || k == "_" || val == "_" {
			return unknown
		}
		switch c.text(v.X) {
		case c.graph + ".Deps":
			// for from, deps := range graph.Deps { for to := range deps { if graph.RDeps[to] == nil {...}; graph.RDeps[to][from] = struct{}{} } }
			in, ok := soleStmt(v.Body).(*ast.RangeStmt)
			if !ok || in.Tok != token.DEFINE || in.Value != nil || !isIdent(in.X, val) || len(in.Body.List) != 2 {
				return unknown
			}
			to, ok := identName(in.Key)
			if !ok || to == "_" {
				return unknown
			}
			slot := c.graph + ".RDeps[" + to + "]"
			if c.text(in.Body.List[0]) != "if "+slot+" == nil { "+slot+" = map[string]struct{}{} }" {
				return unknown
			}
			if c.text(in.Body.List[1]) != slot+"["+k+"] = struct{}{}" {
				return unknown
			}
			return "PBuildRDeps"
		case c.graph + ".Tasks":
			// for id, task := range graph.Tasks { task.F = sortedKeys(graph.M[id]) ... }
			var assigns []string
			for _, bs := range v.Body.List {
				a, ok := bs.(*ast.AssignStmt)
				if !ok || a.Tok != token.ASSIGN || len(a.Lhs) != 1 || len(a.Rhs) != 1 {
					return unknown
				}
				sel, ok := a.Lhs[0].(*ast.SelectorExpr)
				if !ok || !isIdent(sel.X, val) {
					return unknown
				}
				call, ok := a.Rhs[0].(*ast.CallExpr)
				if !ok || !isIdent(call.Fun, "sortedKeys") || len(call.Args) != 1 {
					return unknown
				}
				m, key, ok := c.graphIndex(call.Args[0])
				if !ok || !isIdent(key, k) {
					return unknown
				}
				assigns = append(assigns, "("+coqStr(sel.Sel.Name)+", "+coqStr(m)+")")
			}
			if len(assigns) == 0 {
				return unknown
			}
			return "PTaskAdjacency " + coqList(assigns)
		}
		return unknown
	case *ast.ExprStmt:
		call, ok := v.X.(*ast.CallExpr)
		if !ok || len(call.Args) != 1 || c.graph == "" || !isIdent(call.Args[0], c.graph) {
			return unknown
		}
		fn, ok := identName(call.Fun)
		if !ok {
			return unknown
		}
		return "PCall " + coqStr(fn)
	case *ast.ReturnStmt:
		if len(v.Results) == 2 && c.graph != "" && isIdent(v.Results[0], c.graph) && isIdent(v.Results[1], "nil") {
			return "PReturnGraph"
		}
	}
	return unknown
}

func (c *rctx) tombStmt(s ast.Stmt, id, info string) string {
	unknown := "TUnknown " + coqStr(c.text(s))
	g := c.graph
	switch v := s.(type) {
	case *ast.IfStmt:
		if iff, ok := plainIf(v); ok && c.text(iff.Cond) == g+" == nil" && isBareReturn(iff.Body) {
			return "TNilGuard"
		}
	case *ast.AssignStmt:
		if c.text(v) == g+".Tombstones["+id+"] = "+info {
			return "TSetTombstone"
		}
	case *ast.ExprStmt:
		call, ok := v.X.(*ast.CallExpr)
		if !ok || !isIdent(call.Fun, "delete") || len(call.Args) != 2 || !isIdent(call.Args[1], id) {
			return unknown
		}
		sel, ok := call.Args[0].(*ast.SelectorExpr)
		if !ok || !isIdent(sel.X, g) {
			return unknown
		}
		return "TDelete " + coqStr(sel.Sel.Name)
	case *ast.RangeStmt:
		if v.Tok != token.DEFINE || c.text(v.X) != g+".Deps" {
			return unknown
		}
		from, ok1 := identName(v.Key)
		deps, ok2 := identName(v.Value)
		if !ok1 || !ok2 || from == "_" || deps == "_" {
			return unknown
		}
		body := soleStmt(v.Body)
		if body == nil {
			return unknown
		}
		want := "if _, ok := " + deps + "[" + id + "]; ok { delete(" + deps + ", " + id + ") if len(" + deps + ") == 0 { delete(" + g + ".Deps, " + from + ") } }"
		got := c.text(body)
		// the flag variable may have any name
		if iff, ok := body.(*ast.IfStmt); ok && iff.Init != nil {
			if lhs, _, ok := define1(iff.Init); ok && len(lhs) == 2 {
				if flag, ok := identName(lhs[1]); ok && flag != "_" && flag != deps && flag != id && flag != g && flag != from {
					want = "if _, " + flag + " := " + deps + "[" + id + "]; " + flag + " { delete(" + deps + ", " + id + ") if len(" + deps + ") == 0 { delete(" + g + ".Deps, " + from + ") } }"
				}
			}
		}
		if got == want {
			return "TScrubDeps"
		}
	}
	return unknown
}

func paramNames(fd *ast.FuncDecl) []string {
	var out []string
	for _, f := range fd.Type.Params.List {
		for _, n := range f.Names {
			out = append(out, n.Name)
		}
	}
	return out
}

// helper functions the IR treats as primitives: pinned by their (comment-free, whitespace-normalised) source
var replayPrims = []string{"maxTime", "parseTime", "sortedKeys"}

const replayStub = "(* GENERATED STUB: tools/gen could not translate replayEvents — B_Replay.v will not compile against this *)\n" +
	"From ErgoBridge Require Import ReplayIR.\nFrom Coq Require Import String List.\nImport ListNotations.\nLocal Open Scope string_scope.\n\n" +
	"Definition gen_replay_cases : list (list string * list rstmt) := [].\n" +
	"Definition gen_tombstone : list tstmt := [].\n" +
	"Definition gen_replay_frame : list pstmt := [].\n" +
	"Definition gen_replay_prims : list (string * string) := [].\n"

func genReplay(fset *token.FileSet, files []*ast.File) (out string) {
	defer func() {
		if r := recover(); r != nil {
			out = replayStub
		}
	}()
	c := &rctx{fset: fset, structs: collectStructs(files)}
	var sb strings.Builder
	sb.WriteString("(* GENERATED by tools/gen from internal/ergo/graph.go (replayEvents, applyTombstone) — do not edit *)\n")
	sb.WriteString("From ErgoBridge Require Import ReplayIR.\nFrom Coq Require Import String List.\nImport ListNotations.\nLocal Open Scope string_scope.\n\n")

	var cases, frame, tomb []string
	if fd := funcDecls["replayEvents"]; fd != nil && fd.Body != nil {
		ps := paramNames(fd)
		if len(ps) == 1 {
			haveLoop := false
			for _, s := range fd.Body.List {
				frame = append(frame, c.frameStmt(s, ps[0], &cases, &haveLoop))
			}
		} else {
			frame = []string{"PUnknown " + coqStr("replayEvents takes "+strconv.Itoa(len(ps))+" parameters")}
		}
	}
	if fd := funcDecls["applyTombstone"]; fd != nil && fd.Body != nil {
		ps := paramNames(fd)
		if len(ps) == 3 {
			tc := &rctx{fset: fset, structs: c.structs, graph: ps[0]}
			for _, s := range fd.Body.List {
				tomb = append(tomb, tc.tombStmt(s, ps[1], ps[2]))
			}
		} else {
			tomb = []string{"TUnknown " + coqStr("applyTombstone takes "+strconv.Itoa(len(ps))+" parameters")}
		}
	}
	sb.WriteString("Definition gen_replay_cases : list (list string * list rstmt) := [\n" + strings.Join(cases, ";\n") + "\n].\n\n")
	sb.WriteString("Definition gen_tombstone : list tstmt := [\n  " + strings.Join(tomb, ";\n  ") + "\n].\n\n")
	sb.WriteString("Definition gen_replay_frame : list pstmt := [\n  " + strings.Join(frame, ";\n  ") + "\n].\n\n")
	var prims []string
	for _, n := range replayPrims {
		src := "<missing>"
		if fd := funcDecls[n]; fd != nil {
			src = c.text(fd)
		}
		prims = append(prims, "  ("+coqStr(n)+", "+coqStr(src)+")")
	}
	sb.WriteString("Definition gen_replay_prims : list (string * string) := [\n" + strings.Join(prims, ";\n") + "\n].\n")
	return sb.String()
}
