// out_walk.go — the abstract interpreter behind gen/OutGen.v (see out_ir.go).
//
// Per path it tracks the token list, the JSON / text mode already committed to, and a lexically scoped
// environment of abstract values (nil / non-nil, constant booleans, "is opts.JSON", stdout / stderr /
// in-memory sink, closures).  Unknown conditions fork; paths with equal tokens are joined (variables on
// which they differ become unknown), so the number of paths is the number of distinct token lists.
package main

import (
	"go/ast"
	"go/token"
	"sort"
	"strconv"
	"strings"
)

const maxOutPaths = 6000

type kont func(*oPath, []oAval) []*oPath

func one(p *oPath) []*oPath { return []*oPath{p} }

// ---------------------------------------------------------------- environment

func (w *oWalker) push(p *oPath, parent int, isFunc bool) {
	w.serial++
	p.frames = append(p.frames, oFrame{parent: parent, serial: w.serial, vars: map[string]oAval{}, isFunc: isFunc})
}

func (w *oWalker) pushBlock(p *oPath) { w.push(p, len(p.frames)-1, false) }

func (p *oPath) lookup(name string) (oAval, bool) {
	for i := len(p.frames) - 1; i >= 0; i = p.frames[i].parent {
		if v, ok := p.frames[i].vars[name]; ok {
			return v, true
		}
	}
	return oAval{}, false
}

func (p *oPath) set(name string, v oAval) bool {
	for i := len(p.frames) - 1; i >= 0; i = p.frames[i].parent {
		if _, ok := p.frames[i].vars[name]; ok {
			p.frames[i].vars[name] = v
			return true
		}
	}
	return false
}

func (p *oPath) define(name string, v oAval) {
	if name == "_" || name == "" {
		return
	}
	p.frames[len(p.frames)-1].vars[name] = v
}

func (p *oPath) funcFrame() *oFrame {
	for i := len(p.frames) - 1; i >= 0; i = p.frames[i].parent {
		if p.frames[i].isFunc {
			return &p.frames[i]
		}
	}
	ofail("no function frame")
	return nil
}

func (p *oPath) havoc(names map[string]bool) {
	for n := range names {
		if v, ok := p.lookup(n); ok {
			p.set(n, oAval{typ: v.typ})
		}
	}
}

func pathKey(p *oPath) string {
	var b strings.Builder
	b.WriteString(strings.Join(p.toks, ";"))
	b.WriteString("|" + strconv.Itoa(p.st) + "|" + p.label)
	if p.st == stRet || p.st == stExit {
		for _, v := range p.ret {
			b.WriteString("," + v.k)
			if v.fn != nil {
				b.WriteString("@" + strconv.Itoa(v.fn.serial))
			}
		}
	}
	return b.String()
}

func joinPaths(a, b *oPath) {
	n := len(a.frames)
	if len(b.frames) < n {
		n = len(b.frames)
	}
	a.frames = a.frames[:n]
	for i := 0; i < n; i++ {
		fa, fb := a.frames[i], b.frames[i]
		for k, va := range fa.vars {
			if vb, ok := fb.vars[k]; ok {
				fa.vars[k] = joinAval(va, vb)
			} else {
				fa.vars[k] = oAval{}
			}
		}
		for k := range fb.deferHavoc {
			if a.frames[i].deferHavoc == nil {
				a.frames[i].deferHavoc = map[string]bool{}
			}
			a.frames[i].deferHavoc[k] = true
		}
	}
	for i := range a.ret {
		if i < len(b.ret) {
			a.ret[i] = joinAval(a.ret[i], b.ret[i])
		}
	}
}

func (w *oWalker) dedupe(ps []*oPath) []*oPath {
	if len(ps) < 2 {
		return ps
	}
	seen := map[string]*oPath{}
	var out []*oPath
	for _, p := range ps {
		k := pathKey(p)
		if q, ok := seen[k]; ok {
			joinPaths(q, p)
			continue
		}
		seen[k] = p
		out = append(out, p)
	}
	if len(out) > maxOutPaths {
		ofail("more than %d output paths (fragment too large)", maxOutPaths)
	}
	return out
}

// ---------------------------------------------------------------- syntactic helpers

func hasCall(e ast.Node) bool {
	found := false
	if e == nil {
		return false
	}
	ast.Inspect(e, func(n ast.Node) bool {
		switch n.(type) {
		case *ast.CallExpr, *ast.FuncLit:
			found = true
		}
		return !found
	})
	return found
}

func oIsNil(e ast.Expr) bool {
	id, ok := e.(*ast.Ident)
	return ok && id.Name == "nil"
}

func unparen(e ast.Expr) ast.Expr {
	for {
		if p, ok := e.(*ast.ParenExpr); ok {
			e = p.X
		} else {
			return e
		}
	}
}

// variables a piece of code may assign (closures inside included)
func assignedIn(n ast.Node, into map[string]bool) {
	if n == nil {
		return
	}
	ast.Inspect(n, func(x ast.Node) bool {
		switch v := x.(type) {
		case *ast.AssignStmt:
			for _, l := range v.Lhs {
				if id, ok := l.(*ast.Ident); ok {
					into[id.Name] = true
				}
			}
		case *ast.IncDecStmt:
			if id, ok := v.X.(*ast.Ident); ok {
				into[id.Name] = true
			}
		case *ast.RangeStmt:
			for _, l := range []ast.Expr{v.Key, v.Value} {
				if id, ok := l.(*ast.Ident); ok {
					into[id.Name] = true
				}
			}
		case *ast.UnaryExpr:
			if v.Op == token.AND {
				if id, ok := v.X.(*ast.Ident); ok {
					into[id.Name] = true
				}
			}
		case *ast.ValueSpec:
			for _, nm := range v.Names {
				into[nm.Name] = true
			}
		}
		return true
	})
}

// everything the loop / repeated closure may assign, including through closures it mentions
func (w *oWalker) loopAssigned(p *oPath, n ast.Node) map[string]bool {
	m := map[string]bool{}
	assignedIn(n, m)
	ast.Inspect(n, func(x ast.Node) bool {
		if id, ok := x.(*ast.Ident); ok {
			if v, ok := p.lookup(id.Name); ok && v.k == "func" && v.fn != nil && v.fn.lit != nil {
				assignedIn(v.fn.lit.Body, m)
			}
		}
		return true
	})
	return m
}

// ---------------------------------------------------------------- values of call-free expressions

func (w *oWalker) typedZero(t ast.Expr) oAval {
	v := oAval{typ: typeName(t)}
	if _, star := t.(*ast.StarExpr); !star && sinkTypes[v.typ] {
		v.k = "sink"
	} else if nilableType(t) {
		v.k = "nil"
	}
	return v
}

func (w *oWalker) pure(p *oPath, e ast.Expr) oAval {
	switch v := e.(type) {
	case *ast.ParenExpr:
		return w.pure(p, v.X)
	case *ast.Ident:
		switch v.Name {
		case "nil":
			return oAval{k: "nil"}
		case "true":
			return oAval{k: "true"}
		case "false":
			return oAval{k: "false"}
		}
		if x, ok := p.lookup(v.Name); ok {
			return x
		}
		if pv := w.pkgVars[v.Name]; pv != nil {
			r := oAval{typ: pv.typ}
			if !pv.mutable && pv.init != nil {
				r.k = w.nilness(pv.init)
			}
			return r
		}
		if fd := w.funcs[v.Name]; fd != nil {
			return oAval{k: "func", fn: &oClosure{decl: fd}}
		}
		return oAval{}
	case *ast.SelectorExpr:
		if x, ok := v.X.(*ast.Ident); ok {
			if _, local := p.lookup(x.Name); !local && w.imports[x.Name] {
				if x.Name == "os" && v.Sel.Name == "Stdout" {
					return oAval{k: "stdout", typ: "os.File"}
				}
				if x.Name == "os" && v.Sel.Name == "Stderr" {
					return oAval{k: "stderr", typ: "os.File"}
				}
				return oAval{}
			}
		}
		b := w.pure(p, v.X)
		if b.k == "opts" && v.Sel.Name == "JSON" {
			return oAval{k: "json"}
		}
		return oAval{}
	case *ast.StarExpr:
		b := w.pure(p, v.X)
		if b.k == "opts" || b.k == "sink" {
			return b
		}
		return oAval{typ: b.typ}
	case *ast.UnaryExpr:
		switch v.Op {
		case token.NOT:
			b := w.pure(p, v.X)
			switch b.k {
			case "json":
				return oAval{k: "njson"}
			case "njson":
				return oAval{k: "json"}
			case "true":
				return oAval{k: "false"}
			case "false":
				return oAval{k: "true"}
			}
			return oAval{}
		case token.AND:
			if cl, ok := unparen(v.X).(*ast.CompositeLit); ok {
				t := typeName(cl.Type)
				if sinkTypes[t] {
					return oAval{k: "sink", typ: t}
				}
				return oAval{k: "nonnil", typ: t}
			}
			b := w.pure(p, v.X)
			if b.k == "sink" || b.k == "opts" {
				return b
			}
			return oAval{k: "nonnil", typ: b.typ}
		}
		return oAval{}
	case *ast.BinaryExpr:
		if v.Op == token.EQL || v.Op == token.NEQ {
			var o ast.Expr
			if oIsNil(v.Y) {
				o = v.X
			} else if oIsNil(v.X) {
				o = v.Y
			}
			if o != nil {
				b := w.pure(p, o)
				isNil, known := false, false
				switch b.k {
				case "nil":
					isNil, known = true, true
				case "nonnil", "func", "stdout", "stderr", "sink":
					known = true
				}
				if known {
					if isNil == (v.Op == token.EQL) {
						return oAval{k: "true"}
					}
					return oAval{k: "false"}
				}
			}
		}
		return oAval{}
	case *ast.CompositeLit:
		t := typeName(v.Type)
		if sinkTypes[t] {
			return oAval{k: "sink", typ: t}
		}
		return oAval{typ: t}
	case *ast.TypeAssertExpr:
		b := w.pure(p, v.X)
		if b.k == "stdout" || b.k == "stderr" || b.k == "sink" {
			return b
		}
		return oAval{}
	}
	return oAval{}
}

// ---------------------------------------------------------------- expressions (continuation style)

func (w *oWalker) eval(p *oPath, e ast.Expr, k kont) []*oPath {
	if p.st != stRun {
		return one(p)
	}
	if e == nil {
		return k(p, []oAval{{}})
	}
	if !hasCall(e) {
		return k(p, []oAval{w.pure(p, e)})
	}
	switch v := e.(type) {
	case *ast.ParenExpr:
		return w.eval(p, v.X, k)
	case *ast.FuncLit:
		top := len(p.frames) - 1
		return k(p, []oAval{{k: "func", fn: &oClosure{lit: v, scope: top, serial: p.frames[top].serial}}})
	case *ast.CallExpr:
		return w.call(p, v, k)
	case *ast.UnaryExpr:
		return w.eval(p, v.X, func(p *oPath, vs []oAval) []*oPath {
			if v.Op == token.AND {
				return k(p, []oAval{{k: "nonnil", typ: first(vs).typ}})
			}
			if v.Op == token.NOT {
				switch first(vs).k {
				case "json":
					return k(p, []oAval{{k: "njson"}})
				case "njson":
					return k(p, []oAval{{k: "json"}})
				case "true":
					return k(p, []oAval{{k: "false"}})
				case "false":
					return k(p, []oAval{{k: "true"}})
				}
			}
			return k(p, []oAval{{}})
		})
	case *ast.BinaryExpr:
		if (v.Op == token.LAND || v.Op == token.LOR) && hasCall(v.Y) {
			return w.eval(p, v.X, func(p *oPath, _ []oAval) []*oPath {
				q := p.clone()
				out := k(q, []oAval{{}}) // short-circuit: right operand not evaluated
				return append(out, w.eval(p, v.Y, func(p *oPath, _ []oAval) []*oPath { return k(p, []oAval{{}}) })...)
			})
		}
		return w.eval(p, v.X, func(p *oPath, xs []oAval) []*oPath {
			return w.eval(p, v.Y, func(p *oPath, ys []oAval) []*oPath {
				if v.Op == token.EQL || v.Op == token.NEQ {
					var o oAval
					ok := false
					if oIsNil(v.Y) {
						o, ok = first(xs), true
					} else if oIsNil(v.X) {
						o, ok = first(ys), true
					}
					if ok && (o.k == "nil" || o.k == "nonnil") {
						if (o.k == "nil") == (v.Op == token.EQL) {
							return k(p, []oAval{{k: "true"}})
						}
						return k(p, []oAval{{k: "false"}})
					}
				}
				return k(p, []oAval{{}})
			})
		})
	case *ast.CompositeLit:
		var es []ast.Expr
		for _, el := range v.Elts {
			if kv, ok := el.(*ast.KeyValueExpr); ok {
				if hasCall(kv.Key) {
					es = append(es, kv.Key)
				}
				es = append(es, kv.Value)
			} else {
				es = append(es, el)
			}
		}
		return w.evalList(p, es, func(p *oPath, _ []oAval) []*oPath { return k(p, []oAval{w.pure(p, &ast.CompositeLit{Type: v.Type})}) })
	case *ast.SelectorExpr:
		return w.eval(p, v.X, func(p *oPath, vs []oAval) []*oPath {
			if first(vs).k == "opts" && v.Sel.Name == "JSON" {
				return k(p, []oAval{{k: "json"}})
			}
			return k(p, []oAval{{}})
		})
	case *ast.IndexExpr:
		return w.evalList(p, []ast.Expr{v.X, v.Index}, func(p *oPath, _ []oAval) []*oPath { return k(p, []oAval{{}}) })
	case *ast.SliceExpr:
		return w.evalList(p, []ast.Expr{v.X, v.Low, v.High, v.Max}, func(p *oPath, _ []oAval) []*oPath { return k(p, []oAval{{}}) })
	case *ast.StarExpr:
		return w.eval(p, v.X, func(p *oPath, _ []oAval) []*oPath { return k(p, []oAval{{}}) })
	case *ast.TypeAssertExpr:
		return w.eval(p, v.X, func(p *oPath, vs []oAval) []*oPath {
			b := first(vs)
			if b.k == "stdout" || b.k == "stderr" || b.k == "sink" {
				return k(p, []oAval{b})
			}
			return k(p, []oAval{{}})
		})
	case *ast.KeyValueExpr:
		return w.evalList(p, []ast.Expr{v.Key, v.Value}, func(p *oPath, _ []oAval) []*oPath { return k(p, []oAval{{}}) })
	}
	ofail("unsupported expression form at %s", w.pos(e.Pos()))
	return nil
}

func first(vs []oAval) oAval {
	if len(vs) > 0 {
		return vs[0]
	}
	return oAval{}
}

// evalList evaluates left to right; a single multi-valued call spreads
func (w *oWalker) evalList(p *oPath, es []ast.Expr, k kont) []*oPath {
	var rec func(p *oPath, i int, acc []oAval) []*oPath
	rec = func(p *oPath, i int, acc []oAval) []*oPath {
		if p.st != stRun {
			return one(p)
		}
		for i < len(es) && es[i] == nil {
			i++
			acc = append(append([]oAval{}, acc...), oAval{})
		}
		if i >= len(es) {
			return k(p, acc)
		}
		return w.eval(p, es[i], func(p *oPath, vs []oAval) []*oPath {
			next := append([]oAval{}, acc...)
			if len(es) == 1 && len(vs) > 1 {
				next = append(next, vs...)
			} else {
				next = append(next, first(vs))
			}
			return rec(p, i+1, next)
		})
	}
	return rec(p, 0, nil)
}

// ---------------------------------------------------------------- writes

func (w *oWalker) src(c *ast.CallExpr, what string) string { return w.pos(c.Pos()) + " " + what }

// writeTo: one write of plain text to dest
func (w *oWalker) writeTo(p *oPath, dest oAval, c *ast.CallExpr, what string) {
	switch dest.k {
	case "stdout":
		p.tok(tText(w.src(c, what)))
	case "stderr":
		p.tok(tStderr)
	case "sink":
	default:
		p.tok(tUnknown(w.src(c, what+" to an unresolved writer")))
	}
}

func (w *oWalker) leakCheck(p *oPath, vals []oAval, c *ast.CallExpr, what string) {
	for _, v := range vals {
		if v.k == "stdout" {
			p.tok(tUnknown(w.src(c, "os.Stdout passed to "+what)))
		}
		if v.k == "opts" && w.trackOpts {
			for _, a := range c.Args {
				if u, ok := unparen(a).(*ast.UnaryExpr); ok && u.Op == token.AND {
					p.tok(tUnknown(w.src(c, "address of the options passed to "+what)))
				}
			}
		}
	}
	if w.trackOpts {
		for _, a := range c.Args {
			if u, ok := unparen(a).(*ast.UnaryExpr); ok && u.Op == token.AND {
				if s, ok := unparen(u.X).(*ast.SelectorExpr); ok && s.Sel.Name == "JSON" {
					p.tok(tUnknown(w.src(c, "address of a JSON field passed to "+what)))
				}
			}
		}
	}
}

// closures handed to code we do not follow may run any number of times
func (w *oWalker) runForeignClosures(p *oPath, vals []oAval, c *ast.CallExpr, k func(*oPath) []*oPath) []*oPath {
	var cls []*oClosure
	for _, v := range vals {
		if v.k == "func" && v.fn != nil {
			cls = append(cls, v.fn)
		}
	}
	if len(cls) == 0 {
		return k(p)
	}
	cur := []*oPath{p}
	for _, cl := range cls {
		var next []*oPath
		for _, q := range cur {
			if q.st != stRun {
				next = append(next, q)
				continue
			}
			next = append(next, w.repeated(q, cl, c)...)
		}
		cur = w.dedupe(next)
	}
	var out []*oPath
	for _, q := range cur {
		if q.st != stRun {
			out = append(out, q)
		} else {
			out = append(out, k(q)...)
		}
	}
	return out
}

func (w *oWalker) repeated(p *oPath, cl *oClosure, c *ast.CallExpr) []*oPath {
	var body ast.Node
	if cl.lit != nil {
		body = cl.lit.Body
	} else {
		body = cl.decl
		if !w.inline[cl.decl] {
			return one(p)
		}
	}
	if cl.lit != nil && w.nodeQuiet(cl.lit) {
		p.havoc(w.loopAssigned(p, body))
		return one(p)
	}
	p.havoc(w.loopAssigned(p, body))
	base := p.toks
	b := p.clone()
	b.toks = nil
	h := len(p.frames)
	out := []*oPath{p}
	res := w.invoke(b, cl, nil, nil, c, func(q *oPath, _ []oAval) []*oPath { return one(q) })
	for _, r := range res {
		out = append(out, w.closeLoop(p, base, r, h, ""))
	}
	return w.dedupe(out)
}

// closeLoop turns one path r through a loop body (tokens relative to the loop start) into a path of the
// enclosing code, continuing from the widened pre-loop state p1.  nil: nothing to add.
func (w *oWalker) closeLoop(p1 *oPath, base []string, r *oPath, h int, label string) *oPath {
	material, onlyText := false, true
	for _, t := range r.toks {
		if !isGuardTok(t) {
			material = true
			if !isTextTok(t) && t != tStderr {
				onlyText = false
			}
		}
	}
	leaves := r.st == stRet || r.st == stExit || ((r.st == stBrk || r.st == stCont) && r.label != "" && r.label != label)
	var q *oPath
	if leaves {
		q = r
	} else {
		q = p1.clone()
		q.frames = q.frames[:h]
		q.st, q.label, q.ret = stRun, "", nil
	}
	q.mode = r.mode
	body := r.toks
	q.toks = append([]string{}, base...)
	flat := !material || (r.mode == 2 && onlyText)
	if !flat {
		q.toks = append(q.toks, tLoopB)
	}
	for _, t := range body {
		if flat {
			q.tok(t)
		} else {
			q.toks = append(q.toks, t)
		}
	}
	if !flat && !leaves {
		q.toks = append(q.toks, tLoopE)
	}
	return q
}

// ---------------------------------------------------------------- calls

func (w *oWalker) unknownResults(n int) []oAval {
	if n < 1 {
		n = 1
	}
	return make([]oAval, n)
}

func (w *oWalker) call(p *oPath, c *ast.CallExpr, k kont) []*oPath {
	fun := unparen(c.Fun)
	switch f := fun.(type) {
	case *ast.ArrayType, *ast.MapType, *ast.StarExpr, *ast.InterfaceType, *ast.ChanType, *ast.FuncType:
		return w.evalList(p, c.Args, func(p *oPath, vs []oAval) []*oPath { return k(p, []oAval{{}}) })
	case *ast.FuncLit:
		return w.eval(p, f, func(p *oPath, fv []oAval) []*oPath {
			return w.evalList(p, c.Args, func(p *oPath, vs []oAval) []*oPath { return w.invoke(p, fv[0].fn, nil, vs, c, k) })
		})
	case *ast.Ident:
		if v, ok := p.lookup(f.Name); ok {
			return w.evalList(p, c.Args, func(p *oPath, vs []oAval) []*oPath {
				if v.k == "func" && v.fn != nil {
					return w.invoke(p, v.fn, nil, vs, c, k)
				}
				p.tok(tUnknown(w.src(c, "call through the function value "+f.Name)))
				return k(p, w.unknownResults(1))
			})
		}
		switch {
		case f.Name == "panic":
			return w.evalList(p, c.Args, func(p *oPath, vs []oAval) []*oPath {
				p.tok(tStderr)
				p.st, p.ret = stExit, []oAval{{k: "nonnil"}}
				return one(p)
			})
		case f.Name == "print" || f.Name == "println":
			return w.evalList(p, c.Args, func(p *oPath, vs []oAval) []*oPath { p.tok(tStderr); return k(p, []oAval{{}}) })
		case f.Name == "new" && len(c.Args) == 1:
			t := typeName(c.Args[0])
			if sinkTypes[t] {
				return k(p, []oAval{{k: "sink", typ: t}})
			}
			return k(p, []oAval{{k: "nonnil", typ: t}})
		case f.Name == "make":
			return w.evalList(p, c.Args[1:], func(p *oPath, vs []oAval) []*oPath { return k(p, []oAval{{k: "nonnil"}}) })
		case builtinFuncs[f.Name]:
			return w.evalList(p, c.Args, func(p *oPath, vs []oAval) []*oPath { return k(p, []oAval{{}}) })
		case basicTypes[f.Name] || w.types[f.Name]:
			return w.evalList(p, c.Args, func(p *oPath, vs []oAval) []*oPath { return k(p, []oAval{{typ: f.Name}}) })
		case w.funcs[f.Name] != nil:
			fd := w.funcs[f.Name]
			return w.evalList(p, c.Args, func(p *oPath, vs []oAval) []*oPath { return w.invoke(p, &oClosure{decl: fd}, nil, vs, c, k) })
		case w.pkgVars[f.Name] != nil:
			return w.evalList(p, c.Args, func(p *oPath, vs []oAval) []*oPath {
				p.tok(tUnknown(w.src(c, "call through the package-level function value "+f.Name)))
				return k(p, w.unknownResults(1))
			})
		}
		return w.evalList(p, c.Args, func(p *oPath, vs []oAval) []*oPath {
			p.tok(tUnknown(w.src(c, "call of the unknown function "+f.Name)))
			return k(p, w.unknownResults(1))
		})
	case *ast.SelectorExpr:
		if x, ok := f.X.(*ast.Ident); ok {
			if _, local := p.lookup(x.Name); !local && w.imports[x.Name] && w.pkgVars[x.Name] == nil {
				return w.evalList(p, c.Args, func(p *oPath, vs []oAval) []*oPath { return w.extCall(p, x.Name, f.Sel.Name, c, vs, k) })
			}
		}
		return w.eval(p, f.X, func(p *oPath, rv []oAval) []*oPath {
			return w.evalList(p, c.Args, func(p *oPath, vs []oAval) []*oPath { return w.methodCall(p, first(rv), f.Sel.Name, c, vs, k) })
		})
	}
	return w.evalList(p, c.Args, func(p *oPath, vs []oAval) []*oPath {
		p.tok(tUnknown(w.src(c, "unsupported call form")))
		return k(p, w.unknownResults(1))
	})
}

// classOf: a writer wrapped around v (encoder, buffered writer, ...) writes where v writes
func classOf(v oAval) oAval {
	switch v.k {
	case "stdout", "stderr", "sink":
		return oAval{k: v.k, typ: "wrapped writer"}
	}
	return oAval{}
}

func (w *oWalker) extCall(p *oPath, pkg, name string, c *ast.CallExpr, vs []oAval, k kont) []*oPath {
	q := pkg + "." + name
	switch pkg {
	case "fmt":
		switch {
		case name == "Print" || name == "Printf" || name == "Println":
			p.tok(tText(w.src(c, q)))
			return k(p, make([]oAval, 2))
		case name == "Fprint" || name == "Fprintf" || name == "Fprintln":
			w.writeTo(p, first(vs), c, q)
			return k(p, make([]oAval, 2))
		case name == "Errorf":
			return k(p, []oAval{{k: "nonnil"}})
		case strings.HasPrefix(name, "Sprint") || strings.HasPrefix(name, "Append") || strings.HasPrefix(name, "Sscan"):
			return k(p, make([]oAval, 2))
		}
	case "errors":
		if name == "New" {
			return k(p, []oAval{{k: "nonnil"}})
		}
	case "io":
		if name == "WriteString" || strings.HasPrefix(name, "Copy") {
			w.writeTo(p, first(vs), c, q)
			return k(p, make([]oAval, 2))
		}
		if name == "MultiWriter" {
			r := oAval{k: "sink"}
			for _, v := range vs {
				if v.k == "stdout" {
					r = oAval{k: "stdout"}
					break
				}
				if v.k != "sink" {
					r = oAval{}
				}
			}
			if r.k == "" {
				w.leakCheck(p, vs, c, q)
			}
			return k(p, []oAval{r})
		}
	case "bufio":
		if name == "NewWriter" || name == "NewWriterSize" {
			return k(p, []oAval{classOf(first(vs))})
		}
	case "json":
		if name == "NewEncoder" {
			return k(p, []oAval{classOf(first(vs))})
		}
	case "tabwriter", "csv":
		if name == "NewWriter" {
			return k(p, []oAval{classOf(first(vs))})
		}
	case "strings", "bytes":
		if name == "NewBuffer" || name == "NewBufferString" {
			return k(p, []oAval{{k: "sink", typ: "bytes.Buffer"}})
		}
	case "os":
		switch name {
		case "Exit":
			ok := false
			if len(c.Args) == 1 {
				if bl, isLit := unparen(c.Args[0]).(*ast.BasicLit); isLit && bl.Value == "0" {
					ok = true
				}
			}
			p.st = stExit
			if ok {
				p.ret = []oAval{{k: "nil"}}
			} else {
				p.ret = []oAval{{k: "nonnil"}}
			}
			return one(p)
		case "OpenFile", "Create", "CreateTemp", "Open":
			return k(p, []oAval{{k: "sink", typ: "os.File"}, {}})
		case "NewFile":
			p.tok(tUnknown(w.src(c, q)))
			return k(p, []oAval{{}})
		}
	case "log":
		p.tok(tStderr)
		if name == "SetOutput" {
			w.leakCheck(p, vs, c, q)
		}
		if strings.HasPrefix(name, "Fatal") || strings.HasPrefix(name, "Panic") {
			p.st, p.ret = stExit, []oAval{{k: "nonnil"}}
			return one(p)
		}
		return k(p, []oAval{{}})
	case "syscall", "unix":
		if name == "Write" || name == "Dup2" || name == "Dup3" {
			p.tok(tUnknown(w.src(c, q)))
			return k(p, make([]oAval, 2))
		}
	}
	if w.other != nil && pkg == w.ergoImport {
		if fd := w.other.funcs[name]; fd != nil {
			if strings.HasPrefix(name, "Run") {
				p.tok(tRun(name))
			} else if w.other.inline[fd] {
				p.tok(tUnknown(w.src(c, q+" may write")))
			}
			return k(p, w.other.summary(fd))
		}
	}
	w.leakCheck(p, vs, c, q)
	return w.runForeignClosures(p, vs, c, func(p *oPath) []*oPath { return k(p, w.unknownResults(1)) })
}

func (w *oWalker) methodCall(p *oPath, recv oAval, name string, c *ast.CallExpr, vs []oAval, k kont) []*oPath {
	// in-package method on a receiver whose type is known
	if recv.typ != "" {
		if fd := w.methods[name][recv.typ]; fd != nil {
			r := recv
			return w.invoke(p, &oClosure{decl: fd}, &r, vs, c, k)
		}
	}
	if (recv.k == "stdout" || recv.k == "stderr") && recv.typ == "os.File" && (harmlessFileMethods[name] || name == "Sync") {
		return k(p, make([]oAval, 2))
	}
	if writerMethods[name] {
		dest := recv
		if name == "WriteTo" {
			dest = first(vs)
		}
		if name == "Encode" && dest.k == "stdout" {
			// one JSON value; the only write whose failure the source inspects
			q := p.clone()
			if w.errObj[first(vs).typ] {
				p.tok(tErrJson)
			} else {
				p.tok(tJson)
			}
			out := k(p, []oAval{{k: "nil"}})
			q.tok(tWriteFail)
			return append(out, k(q, []oAval{{k: "nonnil"}})...)
		}
		w.writeTo(p, dest, c, "."+name)
		return k(p, make([]oAval, 2))
	}
	if recv.k == "stdout" && (recv.typ == "os.File" || name == "Reset") {
		p.tok(tUnknown(w.src(c, "os.Stdout."+name)))
		return k(p, make([]oAval, 2))
	}
	for _, fd := range w.methods[name] {
		if w.inline[fd] {
			p.tok(tUnknown(w.src(c, "method "+name+" on a receiver of unresolved type")))
			return k(p, w.unknownResults(1))
		}
	}
	if w.funcFields[name] {
		p.tok(tUnknown(w.src(c, "call through the function-typed field "+name)))
		return k(p, w.unknownResults(1))
	}
	w.leakCheck(p, vs, c, "method "+name)
	// a silent in-package method of unresolved receiver: use its summary when the name is unambiguous
	if ms := w.methods[name]; len(ms) == 1 {
		for _, fd := range ms {
			s := w.summary(fd)
			for i := range s {
				s[i].k = "" // the receiver type was not resolved: keep only the declared types
			}
			return w.runForeignClosures(p, vs, c, func(p *oPath) []*oPath { return k(p, append([]oAval{}, s...)) })
		}
	}
	return w.runForeignClosures(p, vs, c, func(p *oPath) []*oPath { return k(p, w.unknownResults(1)) })
}

func (w *oWalker) bindParams(p *oPath, ft *ast.FuncType, vals []oAval, entry bool) {
	i := 0
	if ft.Params != nil {
		for _, f := range ft.Params.List {
			_, variadic := f.Type.(*ast.Ellipsis)
			names := f.Names
			if len(names) == 0 {
				i++
				continue
			}
			for _, nm := range names {
				v := oAval{}
				if i < len(vals) && !variadic {
					v = vals[i]
				}
				if v.typ == "" {
					v.typ = typeName(f.Type)
				}
				if entry && w.trackOpts && typeName(f.Type) == "GlobalOptions" {
					v = oAval{k: "opts", typ: "GlobalOptions"}
				}
				p.define(nm.Name, v)
				i++
			}
		}
	}
	ff := &p.frames[len(p.frames)-1]
	if ft.Results != nil {
		for _, f := range ft.Results.List {
			if len(f.Names) == 0 {
				ff.results = append(ff.results, "")
				ff.nres++
			}
			for _, nm := range f.Names {
				ff.results = append(ff.results, nm.Name)
				ff.nres++
				p.define(nm.Name, oAval{typ: typeName(f.Type)})
			}
		}
	}
}

func (w *oWalker) invoke(p *oPath, cl *oClosure, recv *oAval, vals []oAval, c *ast.CallExpr, k kont) []*oPath {
	var ft *ast.FuncType
	var body *ast.BlockStmt
	var node ast.Node
	name := "closure"
	if cl.decl != nil {
		if !w.inline[cl.decl] || cl.decl.Body == nil {
			s := w.summary(cl.decl)
			return k(p, append([]oAval{}, s...))
		}
		ft, body, node, name = cl.decl.Type, cl.decl.Body, cl.decl, cl.decl.Name.Name
	} else {
		ft, body, node = cl.lit.Type, cl.lit.Body, cl.lit
	}
	nres := 0
	if ft.Results != nil {
		nres = ft.Results.NumFields()
	}
	for _, n := range w.stack {
		if n == node {
			// recursion: whatever the function writes, any number of times.  Its calls through function
			// values are harmless when each of them is a function already being inlined (the recursion itself).
			si := w.scanNode(node)
			selfOnly := !si.dynOther
			for _, dn := range si.dynNames {
				v, ok := p.lookup(dn)
				on := false
				if ok && v.k == "func" && v.fn != nil {
					for _, m := range w.stack {
						if (v.fn.lit != nil && m == ast.Node(v.fn.lit)) || (v.fn.decl != nil && m == ast.Node(v.fn.decl)) {
							on = true
						}
					}
				}
				if !on {
					selfOnly = false
				}
			}
			if w.nodeQuietX(node, selfOnly) {
				return k(p, w.unknownResults(nres))
			}
			if w.nodeTextOnly(node, selfOnly) {
				r := &oPath{toks: []string{tText(w.src(c, "recursive call of "+name))}, mode: p.mode, st: stRun}
				q := w.closeLoop(p, p.toks, r, len(p.frames), "")
				return k(q, w.unknownResults(nres))
			}
			p.tok(tUnknown(w.src(c, "recursive call of "+name+", which may write JSON")))
			return k(p, w.unknownResults(nres))
		}
	}
	if len(w.stack) > 60 {
		ofail("inlining deeper than 60 calls at %s", w.pos(c.Pos()))
	}
	h := len(p.frames)
	parent := -1
	if cl.lit != nil {
		if cl.scope >= h || p.frames[cl.scope].serial != cl.serial {
			p.tok(tUnknown(w.src(c, "closure called outside the scope that created it")))
			return k(p, w.unknownResults(nres))
		}
		parent = cl.scope
	}
	w.push(p, parent, true)
	if cl.decl != nil && cl.decl.Recv != nil && recv != nil {
		for _, f := range cl.decl.Recv.List {
			for _, nm := range f.Names {
				rv := *recv
				if rv.typ == "" {
					rv.typ = typeName(f.Type)
				}
				p.define(nm.Name, rv)
			}
		}
	}
	w.bindParams(p, ft, vals, false)
	w.stack = append(w.stack, node)
	res := w.stmts([]*oPath{p}, body.List)
	w.stack = w.stack[:len(w.stack)-1]
	var outs []*oPath
	for _, r := range res {
		switch r.st {
		case stExit:
			outs = append(outs, r)
			continue
		case stRun:
			r.ret = w.namedResults(r)
		case stRet:
		default:
			ofail("break / continue leaves the function %s", name)
		}
		r.frames = r.frames[:h]
		r.st = stRet
		outs = append(outs, r)
	}
	outs = w.dedupe(outs)
	var final []*oPath
	for _, r := range outs {
		if r.st == stExit {
			final = append(final, r)
			continue
		}
		vs := r.ret
		r.ret, r.st = nil, stRun
		if len(vs) == 0 {
			vs = []oAval{{}}
		}
		final = append(final, k(r, vs)...)
	}
	return final
}

func (w *oWalker) namedResults(p *oPath) []oAval {
	ff := p.funcFrame()
	var out []oAval
	for _, nm := range ff.results {
		if nm == "" {
			out = append(out, oAval{})
			continue
		}
		v, _ := p.lookup(nm)
		if ff.deferHavoc[nm] {
			v = oAval{typ: v.typ}
		}
		out = append(out, v)
	}
	return out
}

// ---------------------------------------------------------------- conditions

func (w *oWalker) guard(p *oPath, json bool) bool {
	m := 2
	if json {
		m = 1
	}
	if p.mode == 0 {
		p.mode = m
		p.toks = append(p.toks, tGuard(json))
		return true
	}
	return p.mode == m
}

func (w *oWalker) branch(p *oPath, cond ast.Expr, kt, kf func(*oPath) []*oPath) []*oPath {
	if p.st != stRun {
		return one(p)
	}
	switch c := cond.(type) {
	case *ast.ParenExpr:
		return w.branch(p, c.X, kt, kf)
	case *ast.UnaryExpr:
		if c.Op == token.NOT {
			return w.branch(p, c.X, kf, kt)
		}
	case *ast.BinaryExpr:
		switch c.Op {
		case token.LAND:
			return w.branch(p, c.X, func(p *oPath) []*oPath { return w.branch(p, c.Y, kt, kf) }, kf)
		case token.LOR:
			return w.branch(p, c.X, kt, func(p *oPath) []*oPath { return w.branch(p, c.Y, kt, kf) })
		}
	}
	return w.eval(p, cond, func(p *oPath, vs []oAval) []*oPath {
		switch first(vs).k {
		case "true":
			return kt(p)
		case "false":
			return kf(p)
		case "json", "njson":
			pos := first(vs).k == "json"
			q := p.clone()
			var out []*oPath
			if w.guard(p, pos) {
				out = append(out, kt(p)...)
			}
			if w.guard(q, !pos) {
				out = append(out, kf(q)...)
			}
			return out
		}
		q := p.clone()
		// refinement on the two sides of an unknown test
		switch c := unparen(cond).(type) {
		case *ast.Ident:
			if v, ok := p.lookup(c.Name); ok && v.k == "" {
				p.set(c.Name, oAval{k: "true", typ: v.typ})
				q.set(c.Name, oAval{k: "false", typ: v.typ})
			}
		case *ast.BinaryExpr:
			if c.Op == token.EQL || c.Op == token.NEQ {
				var o ast.Expr
				if oIsNil(c.Y) {
					o = c.X
				} else if oIsNil(c.X) {
					o = c.Y
				}
				if id, ok := unparen(o).(*ast.Ident); o != nil && ok {
					if v, ok := p.lookup(id.Name); ok && v.k == "" {
						a, b := "nil", "nonnil"
						if c.Op == token.NEQ {
							a, b = b, a
						}
						p.set(id.Name, oAval{k: a, typ: v.typ})
						q.set(id.Name, oAval{k: b, typ: v.typ})
					}
				}
			}
		}
		return append(kt(p), kf(q)...)
	})
}

// ---------------------------------------------------------------- statements

func (w *oWalker) stmts(ps []*oPath, list []ast.Stmt) []*oPath {
	for _, s := range list {
		var out []*oPath
		for _, p := range ps {
			if p.st != stRun {
				out = append(out, p)
			} else {
				out = append(out, w.stmt(p, s, "")...)
			}
		}
		ps = w.dedupe(out)
	}
	return ps
}

// block runs statements in a fresh scope; running paths leave with the scope removed
func (w *oWalker) block(p *oPath, list []ast.Stmt) []*oPath {
	if p.st != stRun {
		return one(p)
	}
	h := len(p.frames)
	w.pushBlock(p)
	res := w.stmts([]*oPath{p}, list)
	for _, r := range res {
		if r.st == stRun {
			r.frames = r.frames[:h]
		}
	}
	return res
}

func (w *oWalker) scoped(p *oPath, f func(p *oPath) []*oPath) []*oPath {
	h := len(p.frames)
	w.pushBlock(p)
	res := f(p)
	for _, r := range res {
		if r.st == stRun {
			r.frames = r.frames[:h]
		}
	}
	return w.dedupe(res)
}

func (w *oWalker) bind(p *oPath, lhs []ast.Expr, vals []oAval, define bool, at token.Pos) {
	for i, l := range lhs {
		v := oAval{}
		if i < len(vals) {
			v = vals[i]
		}
		switch x := unparen(l).(type) {
		case *ast.Ident:
			if x.Name == "_" {
				continue
			}
			if define {
				if _, ok := p.frames[len(p.frames)-1].vars[x.Name]; ok {
					p.frames[len(p.frames)-1].vars[x.Name] = v
				} else {
					p.define(x.Name, v)
				}
			} else if !p.set(x.Name, v) {
				if v.k == "stdout" || v.k == "func" {
					p.tok(tUnknown(w.pos(at) + " os.Stdout or a closure stored in the package-level variable " + x.Name))
				}
			}
		default:
			if s, ok := x.(*ast.SelectorExpr); ok && s.Sel.Name == "JSON" && w.trackOpts {
				p.tok(tUnknown(w.pos(at) + " assignment to a field named JSON"))
			}
			if v.k == "stdout" || (v.k == "func" && v.fn != nil && v.fn.lit != nil && !w.nodeQuiet(v.fn.lit)) {
				p.tok(tUnknown(w.pos(at) + " os.Stdout or a writing closure stored where the matcher does not follow"))
			}
		}
	}
}

func (w *oWalker) stmt(p *oPath, s ast.Stmt, label string) []*oPath {
	switch v := s.(type) {
	case nil, *ast.EmptyStmt:
		return one(p)
	case *ast.ExprStmt:
		return w.eval(p, v.X, func(p *oPath, _ []oAval) []*oPath { return one(p) })
	case *ast.IncDecStmt:
		if id, ok := v.X.(*ast.Ident); ok {
			if x, ok := p.lookup(id.Name); ok {
				p.set(id.Name, oAval{typ: x.typ})
			}
		}
		return one(p)
	case *ast.SendStmt:
		return w.evalList(p, []ast.Expr{v.Chan, v.Value}, func(p *oPath, _ []oAval) []*oPath { return one(p) })
	case *ast.AssignStmt:
		var lhsCalls []ast.Expr
		for _, l := range v.Lhs {
			if hasCall(l) {
				lhsCalls = append(lhsCalls, l)
			}
		}
		return w.evalList(p, lhsCalls, func(p *oPath, _ []oAval) []*oPath {
			return w.evalList(p, v.Rhs, func(p *oPath, vals []oAval) []*oPath {
				if v.Tok != token.DEFINE && v.Tok != token.ASSIGN {
					vals = nil // op-assignment
				}
				if len(v.Rhs) == 1 && len(v.Lhs) == 2 && !isCall(v.Rhs[0]) {
					vals = []oAval{first(vals), {}} // comma-ok forms
					if ta, ok := unparen(v.Rhs[0]).(*ast.TypeAssertExpr); ok && ta.Type != nil && vals[0].typ == "" && vals[0].k == "" {
						vals[0].typ = typeName(ta.Type)
					}
				}
				w.bind(p, v.Lhs, vals, v.Tok == token.DEFINE, v.Pos())
				return one(p)
			})
		})
	case *ast.DeclStmt:
		gd, ok := v.Decl.(*ast.GenDecl)
		if !ok || gd.Tok != token.VAR {
			return one(p)
		}
		cur := []*oPath{p}
		for _, sp := range gd.Specs {
			vs := sp.(*ast.ValueSpec)
			var next []*oPath
			for _, q := range cur {
				if q.st != stRun {
					next = append(next, q)
					continue
				}
				if len(vs.Values) == 0 {
					for _, nm := range vs.Names {
						q.define(nm.Name, w.typedZero(vs.Type))
					}
					next = append(next, q)
					continue
				}
				next = append(next, w.evalList(q, vs.Values, func(q *oPath, vals []oAval) []*oPath {
					for i, nm := range vs.Names {
						x := oAval{}
						if i < len(vals) {
							x = vals[i]
						}
						if x.typ == "" && vs.Type != nil {
							x.typ = typeName(vs.Type)
						}
						q.define(nm.Name, x)
					}
					return one(q)
				})...)
			}
			cur = next
		}
		return cur
	case *ast.BlockStmt:
		return w.block(p, v.List)
	case *ast.LabeledStmt:
		return w.stmt(p, v.Stmt, v.Label.Name)
	case *ast.ReturnStmt:
		return w.evalList(p, v.Results, func(p *oPath, vals []oAval) []*oPath {
			ff := p.funcFrame()
			if len(v.Results) == 0 && ff.nres > 0 {
				vals = w.namedResults(p)
			} else {
				for i, nm := range ff.results {
					if nm != "" && ff.deferHavoc[nm] && i < len(vals) {
						vals[i] = oAval{typ: vals[i].typ}
					}
				}
			}
			p.st, p.ret = stRet, vals
			return one(p)
		})
	case *ast.BranchStmt:
		switch v.Tok {
		case token.BREAK:
			p.st = stBrk
		case token.CONTINUE:
			p.st = stCont
		default:
			ofail("%s statement at %s", v.Tok, w.pos(v.Pos()))
		}
		p.label = ""
		if v.Label != nil {
			p.label = v.Label.Name
		}
		return one(p)
	case *ast.GoStmt:
		p.tok(tUnknown(w.pos(v.Pos()) + " go statement"))
		return one(p)
	case *ast.DeferStmt:
		return w.deferStmt(p, v)
	case *ast.IfStmt:
		return w.scoped(p, func(p *oPath) []*oPath {
			var out []*oPath
			for _, q := range w.stmt(p, v.Init, "") {
				out = append(out, w.branch(q, v.Cond,
					func(q *oPath) []*oPath { return w.block(q, v.Body.List) },
					func(q *oPath) []*oPath {
						if v.Else == nil {
							return one(q)
						}
						return w.stmt(q, v.Else, "")
					})...)
			}
			return out
		})
	case *ast.ForStmt:
		return w.loop(p, v, label, v.Init, v.Cond, v.Post, nil, nil, nil, v.Body)
	case *ast.RangeStmt:
		return w.loop(p, v, label, nil, nil, nil, v.Key, v.Value, v.X, v.Body)
	case *ast.SwitchStmt:
		return w.scoped(p, func(p *oPath) []*oPath { return w.catchBreak(w.switchStmt(p, v), label) })
	case *ast.TypeSwitchStmt:
		return w.scoped(p, func(p *oPath) []*oPath { return w.catchBreak(w.typeSwitch(p, v), label) })
	case *ast.SelectStmt:
		return w.scoped(p, func(p *oPath) []*oPath {
			var out []*oPath
			for _, c := range v.Body.List {
				cc := c.(*ast.CommClause)
				q := p.clone()
				for _, r := range w.stmt(q, cc.Comm, "") {
					out = append(out, w.block(r, cc.Body)...)
				}
			}
			return w.catchBreak(out, label)
		})
	}
	ofail("unsupported statement at %s", w.pos(s.Pos()))
	return nil
}

func isCall(e ast.Expr) bool { _, ok := unparen(e).(*ast.CallExpr); return ok }

func (w *oWalker) catchBreak(ps []*oPath, label string) []*oPath {
	for _, p := range ps {
		if p.st == stBrk && (p.label == "" || p.label == label) {
			p.st, p.label = stRun, ""
		}
	}
	// scopes of the caught paths are restored by the enclosing block (frames above its height are dropped there)
	return ps
}

func (w *oWalker) switchStmt(p *oPath, v *ast.SwitchStmt) []*oPath {
	h := len(p.frames)
	fix := func(ps []*oPath) []*oPath {
		for _, r := range ps {
			if r.st == stRun || (r.st == stBrk && r.label == "") {
				r.frames = r.frames[:h]
			}
		}
		return ps
	}
	for _, c := range v.Body.List {
		for _, st := range c.(*ast.CaseClause).Body {
			if b, ok := st.(*ast.BranchStmt); ok && b.Tok == token.FALLTHROUGH {
				ofail("fallthrough at %s", w.pos(b.Pos()))
			}
		}
	}
	var out []*oPath
	for _, q := range w.stmt(p, v.Init, "") {
		if q.st != stRun {
			out = append(out, q)
			continue
		}
		if v.Tag == nil {
			// if / else-if chain
			var def *ast.CaseClause
			remaining := []*oPath{q}
			for _, c := range v.Body.List {
				cc := c.(*ast.CaseClause)
				if cc.List == nil {
					def = cc
					continue
				}
				cond := cc.List[0]
				for _, e := range cc.List[1:] {
					cond = &ast.BinaryExpr{X: cond, Op: token.LOR, Y: e, OpPos: e.Pos()}
				}
				var rest []*oPath
				for _, r := range remaining {
					out = append(out, w.branch(r, cond,
						func(r *oPath) []*oPath { return fix(w.block(r, cc.Body)) },
						func(r *oPath) []*oPath { rest = append(rest, r); return nil })...)
				}
				remaining = w.dedupe(rest)
			}
			for _, r := range remaining {
				if r.st != stRun {
					out = append(out, r)
				} else if def != nil {
					out = append(out, fix(w.block(r, def.Body))...)
				} else {
					out = append(out, r)
				}
			}
			continue
		}
		out = append(out, w.eval(q, v.Tag, func(q *oPath, _ []oAval) []*oPath {
			var res []*oPath
			hasDefault := false
			for _, c := range v.Body.List {
				cc := c.(*ast.CaseClause)
				if cc.List == nil {
					hasDefault = true
				}
				var calls []ast.Expr
				for _, e := range cc.List {
					if hasCall(e) {
						calls = append(calls, e)
					}
				}
				r := q.clone()
				res = append(res, w.evalList(r, calls, func(r *oPath, _ []oAval) []*oPath { return fix(w.block(r, cc.Body)) })...)
			}
			if !hasDefault {
				res = append(res, q)
			}
			return res
		})...)
	}
	return out
}

func (w *oWalker) typeSwitch(p *oPath, v *ast.TypeSwitchStmt) []*oPath {
	var out []*oPath
	for _, q := range w.stmt(p, v.Init, "") {
		if q.st != stRun {
			out = append(out, q)
			continue
		}
		bound := ""
		var subject ast.Expr
		switch a := v.Assign.(type) {
		case *ast.AssignStmt:
			bound = a.Lhs[0].(*ast.Ident).Name
			subject = a.Rhs[0].(*ast.TypeAssertExpr).X
		case *ast.ExprStmt:
			subject = a.X.(*ast.TypeAssertExpr).X
		}
		out = append(out, w.eval(q, subject, func(q *oPath, sv []oAval) []*oPath {
			var res []*oPath
			hasDefault := false
			for _, c := range v.Body.List {
				cc := c.(*ast.CaseClause)
				if cc.List == nil {
					hasDefault = true
				}
				r := q.clone()
				h := len(r.frames)
				w.pushBlock(r)
				if bound != "" {
					x := classOf(first(sv))
					if len(cc.List) == 1 {
						x.typ = typeName(cc.List[0])
					}
					r.define(bound, x)
				}
				for _, z := range w.stmts([]*oPath{r}, cc.Body) {
					if z.st == stRun || (z.st == stBrk && z.label == "") {
						z.frames = z.frames[:h]
					}
					res = append(res, z)
				}
			}
			if !hasDefault {
				res = append(res, q)
			}
			return res
		})...)
	}
	return out
}

func (w *oWalker) deferStmt(p *oPath, v *ast.DeferStmt) []*oPath {
	c := v.Call
	var pre []ast.Expr
	fun := unparen(c.Fun)
	if s, ok := fun.(*ast.SelectorExpr); ok && hasCall(s.X) {
		pre = append(pre, s.X)
	}
	pre = append(pre, c.Args...)
	return w.evalList(p, pre, func(p *oPath, _ []oAval) []*oPath {
		quiet := true
		switch f := fun.(type) {
		case *ast.FuncLit:
			quiet = w.nodeQuiet(f)
			ff := p.funcFrame()
			m := map[string]bool{}
			assignedIn(f.Body, m)
			for _, nm := range ff.results {
				if nm != "" && m[nm] {
					if ff.deferHavoc == nil {
						ff.deferHavoc = map[string]bool{}
					}
					ff.deferHavoc[nm] = true
				}
			}
		case *ast.Ident:
			if _, local := p.lookup(f.Name); local {
				quiet = false
			} else if fd := w.funcs[f.Name]; fd != nil {
				quiet = !w.inline[fd]
			} else if !builtinFuncs[f.Name] || f.Name == "panic" || f.Name == "print" || f.Name == "println" {
				quiet = false
			}
		case *ast.SelectorExpr:
			quiet = w.nodeQuiet(&ast.ExprStmt{X: c})
			if x, ok := f.X.(*ast.Ident); ok && writerMethods[f.Sel.Name] {
				if r, ok := p.lookup(x.Name); ok && r.k == "sink" {
					quiet = true
				}
			}
		default:
			quiet = false
		}
		if !quiet {
			p.tok(tUnknown(w.pos(v.Pos()) + " deferred call that may write"))
		}
		return one(p)
	})
}

func (w *oWalker) loop(p *oPath, node ast.Stmt, label string, init ast.Stmt, cond ast.Expr, post ast.Stmt, key, value, rng ast.Expr, body *ast.BlockStmt) []*oPath {
	h := len(p.frames)
	w.pushBlock(p)
	var starts []*oPath
	for _, q := range w.stmt(p, init, "") {
		starts = append(starts, w.eval(q, rng, func(q *oPath, _ []oAval) []*oPath { return one(q) })...)
	}
	var out []*oPath
	for _, p1 := range starts {
		if p1.st != stRun {
			out = append(out, p1)
			continue
		}
		p1.havoc(w.loopAssigned(p1, node))
		if rs, ok := node.(*ast.RangeStmt); ok && rs.Tok == token.DEFINE {
			for _, e := range []ast.Expr{key, value} {
				if id, ok := e.(*ast.Ident); ok {
					p1.define(id.Name, oAval{})
				}
			}
		}
		base := p1.toks
		b := p1.clone()
		b.toks = nil
		zero := p1.clone()
		zero.frames = zero.frames[:h]
		out = append(out, zero)
		iter := func(b *oPath) []*oPath {
			var res []*oPath
			for _, r := range w.block(b, body.List) {
				if r.st == stCont && (r.label == "" || r.label == label) {
					r.st, r.label = stRun, ""
					r.frames = r.frames[:h+1]
				}
				if r.st == stRun && post != nil {
					res = append(res, w.stmt(r, post, "")...)
				} else {
					res = append(res, r)
				}
			}
			return res
		}
		var res []*oPath
		if cond != nil {
			res = w.branch(b, cond, iter, func(q *oPath) []*oPath { return nil })
		} else {
			res = iter(b)
		}
		for _, r := range w.dedupe(res) {
			if len(r.toks) == 0 && (r.st == stRun || ((r.st == stBrk || r.st == stCont) && (r.label == "" || r.label == label))) {
				continue // an iteration without effects: covered by the widened fall-through path
			}
			if q := w.closeLoop(p1, base, r, h, label); q != nil {
				if q.st == stBrk && (q.label == "" || q.label == label) {
					q.st, q.label = stRun, ""
				}
				out = append(out, q)
			}
		}
	}
	return w.dedupe(out)
}

// ---------------------------------------------------------------- entry points

func (w *oWalker) entryPaths(fd *ast.FuncDecl, lit *ast.FuncLit, name string) [][]string {
	p := &oPath{}
	w.push(p, -1, true)
	var ft *ast.FuncType
	var body *ast.BlockStmt
	var node ast.Node
	if fd != nil {
		ft, body, node = fd.Type, fd.Body, fd
		if fd.Recv != nil {
			for _, f := range fd.Recv.List {
				for _, nm := range f.Names {
					p.define(nm.Name, oAval{typ: typeName(f.Type)})
				}
			}
		}
	} else {
		ft, body, node = lit.Type, lit.Body, lit
	}
	w.bindParams(p, ft, nil, true)
	w.stack = []ast.Node{node}
	res := w.stmts([]*oPath{p}, body.List)
	w.stack = nil
	seen := map[string]bool{}
	var out [][]string
	add := func(toks []string, last string) {
		t := append(append([]string{}, toks...), last)
		k := strings.Join(t, ";")
		if !seen[k] {
			seen[k] = true
			out = append(out, t)
		}
	}
	for _, r := range res {
		kind := ""
		switch r.st {
		case stRun:
			kind = "nil"
		case stRet, stExit:
			if len(r.ret) == 0 {
				kind = "nil"
			} else {
				kind = r.ret[len(r.ret)-1].k
			}
		default:
			ofail("break / continue leaves %s", name)
		}
		switch kind {
		case "nil":
			add(r.toks, tRetOk)
		case "nonnil":
			add(r.toks, tRetErr)
		default:
			add(r.toks, tRetOk)
			add(r.toks, tRetErr)
		}
	}
	sort.Slice(out, func(i, j int) bool { return strings.Join(out[i], ";") < strings.Join(out[j], ";") })
	return out
}

// exprPaths: a package-level initialiser, evaluated once at start-up
func (w *oWalker) exprPaths(e ast.Expr) [][]string {
	p := &oPath{}
	w.push(p, -1, true)
	w.stack = nil
	res := w.eval(p, e, func(p *oPath, _ []oAval) []*oPath { return one(p) })
	seen := map[string]bool{}
	var out [][]string
	for _, r := range res {
		last := tRetOk
		if r.st == stExit && !(len(r.ret) == 1 && r.ret[0].k == "nil") {
			last = tRetErr
		}
		t := append(append([]string{}, r.toks...), last)
		if k := strings.Join(t, ";"); !seen[k] {
			seen[k] = true
			out = append(out, t)
		}
	}
	sort.Slice(out, func(i, j int) bool { return strings.Join(out[i], ";") < strings.Join(out[j], ";") })
	return out
}
