#!/usr/bin/env python3
"""Rewrite the table between <!-- catches:begin --> and <!-- catches:end --> in DESIGN.md from seeded/*/result.json."""
import json, os, re, subprocess
S = '/verif/seeded'
rows = []


def mech(lines):
    ms = set()
    for l in lines:
        if 'proof obligation' in l:
            ms.add('obligation')
        elif 'model/implementation' in l or 'model and real tool' in l or 'model disagrees' in l or 'disagrees with' in l:
            ms.add('model≠code')
        elif l.strip().startswith('-'):
            ms.add('search/monitor')
    return '+'.join(sorted(ms))


for d in sorted(os.listdir(S)):
    rp = os.path.join(S, d, 'result.json')
    if not os.path.exists(rp):
        continue
    r = json.load(open(rp))
    mp = os.path.join(S, d, 'meta.json')
    if os.path.exists(mp):
        summ = json.load(open(mp)).get('summary', '')
    else:
        sha = d.split('-')[1]
        summ = 'revert of ' + subprocess.run(['git', '-C', '/repo', 'log', '-1', '--format=%s', sha], capture_output=True, text=True).stdout.strip()
    summ = re.sub(r'\s+', ' ', summ)
    summ = summ[:150] + ('…' if len(summ) > 150 else '')
    det = r.get('detail', {})
    if isinstance(det, str):
        det = {}
    allines = [l for v in det.values() for l in v]
    first = next((l.strip()[2:] for l in allines if l.strip().startswith('-')), '')
    first = re.sub(r'\|', '/', first)[:120]
    rows.append('| %s | %s | %s | %s | %s |' % (d, summ.replace('|', '/'), ', '.join(r.get('caught_by', [])) or '—', mech(allines), first))
tbl = '| change | what it does | caught by | how | first report line |\n|---|---|---|---|---|\n' + '\n'.join(rows) + '\n'
p = '/verif/DESIGN.md'
s = open(p).read()
s = re.sub(r'<!-- catches:begin -->.*?<!-- catches:end -->', lambda m: '<!-- catches:begin -->\n' + tbl + '<!-- catches:end -->', s, flags=re.S)
open(p, 'w').write(s)
print(len(rows), 'rows')
