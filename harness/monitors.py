"""Model-free monitors: direct executable readings of the property statements over recorded
real-binary runs.  They are search / support for the proofs, never the proof."""
import json

GO_WS = '\t\n\v\f\r \x85\xa0\u1680' + ''.join(chr(c) for c in range(0x2000, 0x200b)) + '\u2028\u2029\u202f\u205f\u3000'
SIX = {'todo', 'doing', 'done', 'blocked', 'canceled', 'error'}
FIN = {'done', 'canceled'}


def tasks_by_id(snap):
    return {t['id']: t for t in snap.get('tasks', [])}


def strict_json_values(text):
    """Number of JSON values in text (None if trailing garbage)."""
    dec = json.JSONDecoder()
    i, n, vals = 0, len(text), []
    while True:
        while i < n and text[i] in ' \t\r\n':
            i += 1
        if i >= n:
            return vals
        try:
            v, j = dec.raw_decode(text, i)
        except ValueError:
            return None
        vals.append(v)
        i = j


# ---------------------------------------------------------------- per-step monitors
def mon_C06(tr):
    out = []
    for t in tr['after'].get('tasks', []):
        st, cl = t['state'], t['claimed_by']
        if t['is_epic']:
            if st != 'todo' or cl != '':
                out.append(('epic_has_state_or_claim', t['id']))
            continue
        if st not in SIX:
            out.append(('bad_state', t['id'], st))
        if st in ('doing', 'error') and cl == '':
            out.append(('active_unclaimed', t['id'], st))
        if st in ('todo', 'done', 'canceled') and cl != '':
            out.append(('idle_claimed', t['id'], st))
    return out


ALLOWED = {'todo': {'doing', 'done', 'blocked', 'canceled'}, 'doing': {'todo', 'done', 'blocked', 'canceled', 'error'},
           'blocked': {'todo', 'doing', 'done', 'canceled'}, 'done': {'todo'}, 'canceled': {'todo'},
           'error': {'todo', 'doing', 'canceled'}}


def mon_C06_transitions(tr, table=ALLOWED):
    """Every observed change of state between two snapshots is a row of the documented table."""
    out = []
    b, a = tasks_by_id(tr['before']), tasks_by_id(tr['after'])
    for i, t in a.items():
        if i in b and not t['is_epic'] and b[i]['state'] != t['state']:
            if t['state'] not in table.get(b[i]['state'], set()):
                out.append(('illegal_transition', i, b[i]['state'], t['state']))
    return out


def snap_core(snap):
    """What 'observable state' means for no-effect comparisons."""
    return (snap.get('tasks'), snap.get('tombstones'), snap.get('ready_order'))


def mon_C10(tr):
    out = []
    if tr['rc'] != 0:
        if tr['log_grew_by'] != 0 or not tr['log_prefix_kept']:
            out.append(('failed_command_wrote_log', tr['args']))
        if snap_core(tr['before']) != snap_core(tr['after']):
            out.append(('failed_command_changed_state', tr['args']))
    return out


def has_cycle_edges(edges):
    adj = {}
    for a, b in edges:
        adj.setdefault(a, set()).add(b)
    color = {}

    def dfs(u):
        color[u] = 1
        for v in adj.get(u, ()):
            if color.get(v) == 1:
                return True
            if color.get(v) is None and dfs(v):
                return True
        color[u] = 2
        return False
    return any(color.get(u) is None and dfs(u) for u in list(adj))


def mon_C07(tr):
    out = []
    snap = tr['after']
    ts = tasks_by_id(snap)
    edges = [(t['id'], d) for t in snap.get('tasks', []) for d in t['deps']]
    for a, b in edges:
        if a == b:
            out.append(('self_edge', a))
        if b not in ts:
            out.append(('edge_to_missing', a, b))
        elif ts[a]['is_epic'] != ts[b]['is_epic']:
            out.append(('mixed_kind_edge', a, b))
    if has_cycle_edges(edges):
        out.append(('cycle',))
    for t in snap.get('tasks', []):
        for d in t['deps']:
            if d in ts and t['id'] not in ts[d]['rdeps']:
                out.append(('mirror_missing_rdep', t['id'], d))
        for r in t['rdeps']:
            if r in ts and t['id'] not in ts[r]['deps']:
                out.append(('mirror_missing_dep', r, t['id']))
            if r not in ts:
                out.append(('rdep_from_missing', t['id'], r))
    # a raw dependency map entry mentioning a pruned id
    for frm, tos in (snap.get('deps') or {}).items():
        for to in tos:
            if frm in snap.get('tombstones', []) or to in snap.get('tombstones', []):
                out.append(('edge_mentions_pruned', frm, to))
    r = tr['req']
    if r['k'] == 'seqrm' and tr['rc'] == 0:
        be = {(t['id'], d) for t in tr['before'].get('tasks', []) for d in t['deps']}
        ae = set(edges)
        if be - ae - {(r['b'], r['a'])} or ae - be:
            out.append(('rm_changed_other_edges', sorted(be ^ ae)))
    return out


def ready_by_manual(snap):
    """The manual's sentence, independently: todo, unclaimed, every existing dep done/canceled,
    every existing epic its epic depends on has only done/canceled children."""
    ts = tasks_by_id(snap)
    children = {}
    for t in snap.get('tasks', []):
        if t['epic']:
            children.setdefault(t['epic'], []).append(t)

    def epic_complete(e):
        return all(c['state'] in FIN for c in children.get(e, []))
    res = {}
    for t in snap.get('tasks', []):
        ok = t['state'] == 'todo' and t['claimed_by'] == ''
        if ok:
            for d in t['deps']:
                if d in ts and ts[d]['state'] not in FIN:
                    ok = False
        if ok and t['epic'] and t['epic'] in ts:
            for d in ts[t['epic']]['deps']:
                if d in ts and ts[d]['is_epic'] and not epic_complete(d):
                    ok = False
        elif ok and t['epic'] and t['epic'] not in ts:
            # epic id unknown: Go looks up Deps[epicID] regardless of liveness
            for d in (snap.get('deps') or {}).get(t['epic'], []):
                if d in ts and ts[d]['is_epic'] and not epic_complete(d):
                    ok = False
        res[t['id']] = ok
    return res


def mon_C08(tr):
    out = []
    snap = tr['after']
    rd = ready_by_manual(snap)
    for t in snap.get('tasks', []):
        if t['ready'] != rd[t['id']]:
            out.append(('ready_flag', t['id'], t['ready'], rd[t['id']]))
        blocked = t['state'] == 'blocked' or (t['state'] == 'todo' and t['claimed_by'] == '' and not rd[t['id']])
        if t['blocked'] != blocked:
            out.append(('blocked_flag', t['id'], t['blocked'], blocked))
    exp = [t for t in snap.get('tasks', []) if rd[t['id']] and not t['is_epic']]
    exp.sort(key=lambda t: (t['created'][0], t['created'][1], t['id'].encode()))
    if [t['id'] for t in exp] != snap.get('ready_order'):
        out.append(('claim_order', snap.get('ready_order'), [t['id'] for t in exp]))
    r = tr['req']
    if r['k'] == 'claim' and r.get('id') is None and r.get('agent'):
        b = tr['before']
        rdb = ready_by_manual(b)
        cand = [t for t in b.get('tasks', []) if rdb[t['id']] and not t['is_epic'] and
                (not r.get('in_epic') or t['epic'] == r['in_epic'])]
        cand.sort(key=lambda t: (t['created'][0], t['created'][1], t['id'].encode()))
        v = None
        try:
            v = json.loads(tr['stdout'])
        except Exception:
            pass
        if tr['rc'] == 0 and isinstance(v, dict):
            if cand and v.get('id') != cand[0]['id']:
                out.append(('claim_not_oldest', v.get('id'), cand[0]['id']))
            if not cand and v.get('status') != 'no_ready':
                out.append(('claim_from_empty', v))
            if cand and v.get('status') == 'no_ready':
                out.append(('no_ready_but_ready', cand[0]['id']))
    return out


def prune_policy(snap):
    ts = snap.get('tasks', [])
    elig = {t['id'] for t in ts if not t['is_epic'] and t['state'] in FIN}
    remaining = {}
    for t in ts:
        if not t['is_epic'] and t['id'] not in elig and t['epic']:
            remaining[t['epic']] = remaining.get(t['epic'], 0) + 1
    eps = {t['id'] for t in ts if t['is_epic'] and remaining.get(t['id'], 0) == 0}
    return sorted(elig | eps, key=lambda s: s.encode())


def mon_C09(tr, pruned_so_far):
    out = []
    r = tr['req']
    if r['k'] == 'prune' and tr['rc'] == 0:
        exp = prune_policy(tr['before'])
        try:
            v = json.loads(tr['stdout'])
        except Exception:
            v = {}
        if (v.get('pruned_ids') or []) != exp:
            out.append(('prune_reply', v.get('pruned_ids'), exp))
        if r['yes']:
            gone = set(tasks_by_id(tr['before'])) - set(tasks_by_id(tr['after']))
            if sorted(gone, key=lambda s: s.encode()) != exp:
                out.append(('prune_removed', sorted(gone), exp))
        else:
            if tr['log_grew_by'] != 0 or snap_core(tr['before']) != snap_core(tr['after']):
                out.append(('dry_run_wrote',))
    for t in tr['after'].get('tasks', []):
        if t['id'] in pruned_so_far:
            out.append(('pruned_id_alive', t['id']))
        for d in t['deps'] + t['rdeps']:
            if d in pruned_so_far:
                out.append(('edge_to_pruned', t['id'], d))
    tgt = r.get('id')
    if tgt in pruned_so_far and r['k'] in ('set', 'claim') and tr['rc'] == 0:
        out.append(('command_on_pruned_succeeded', r['k'], tgt))
    if r['k'] == 'seq' and tr['rc'] == 0 and any(x in pruned_so_far for x in r['ids']):
        out.append(('sequence_on_pruned_succeeded', r['ids']))
    for e in tr.get('appended', []):
        if e['t'] in ('new_task', 'new_epic') and e.get('id') in pruned_so_far:
            out.append(('pruned_id_reissued', e['id']))
    return out


def mon_C14(tr):
    out = []
    ts = tasks_by_id(tr['after'])
    for t in tr['after'].get('tasks', []):
        if t['is_epic']:
            if t['epic'] != '':
                out.append(('epic_in_epic', t['id']))
        elif t['epic'] != '':
            e = ts.get(t['epic'])
            if e is None:
                out.append(('dangling_epic', t['id'], t['epic']))
            elif not e['is_epic']:
                out.append(('epic_is_task', t['id'], t['epic']))
    return out


def mon_C15(tr):
    ts = [t for t in tr['after'].get('tasks', []) if not t['is_epic']]
    if any(t['state'] == 'todo' for t in ts) and not any(t['state'] in ('doing', 'blocked', 'error') for t in ts):
        if not tr['after'].get('ready_order'):
            return [('no_progress',)]
    return []


def mon_C16(tr):
    out = []
    if '--json' not in tr['args']:
        return out
    vals = strict_json_values(tr['stdout'])
    if tr['rc'] == 0:
        if vals is None or len(vals) != 1:
            out.append(('success_not_single_json', tr['args'], tr['stdout'][:200]))
    else:
        if tr['stderr'].strip() == '':
            out.append(('failure_without_stderr', tr['args']))
        if vals is None or len(vals) > 1:
            out.append(('failure_stdout_not_json', tr['args'], tr['stdout'][:200]))
        elif len(vals) == 1 and not (isinstance(vals[0], dict) and 'error' in vals[0]):
            out.append(('failure_stdout_not_error_object', tr['args'], tr['stdout'][:200]))
    if tr['rc'] == 0 and vals and len(vals) == 1 and isinstance(vals[0], dict):
        v = vals[0]
        a = tasks_by_id(tr['after'])
        k = tr['req']['k']
        if k == 'new':
            t = a.get(v.get('id'))
            if t is None:
                out.append(('reply_id_not_visible', v.get('id')))
            else:
                import re
                if not re.fullmatch(r'[A-Z2-7]{6}', v['id']):
                    out.append(('id_shape', v['id']))
                if v['id'] in tasks_by_id(tr['before']):
                    out.append(('id_not_fresh', v['id']))
                if v.get('state') != t['state']:
                    out.append(('reply_state', v.get('state'), t['state']))
                if v.get('epic_id', '') != t['epic'] or v.get('title') != t['title'] or v.get('body') != t['body']:
                    # title/body may be migrated for blank legacy titles only; new always has a title
                    out.append(('reply_fields', v, t['id']))
        elif k == 'set':
            t = a.get(v.get('id'))
            if t is not None and (v.get('state') != t['state'] or v.get('claimed_by', '') != t['claimed_by']):
                out.append(('set_reply', v, t['state'], t['claimed_by']))
        elif k == 'claim' and v.get('status') != 'no_ready':
            t = a.get(v.get('id'))
            if t is None or t['state'] != 'doing' or t['claimed_by'] != v.get('agent_id') or v.get('state') != 'doing':
                out.append(('claim_reply', v.get('id'), t and (t['state'], t['claimed_by'])))
        elif k == 'seq':
            for e in v.get('edges', []):
                t = a.get(e['from_id'])
                if t is None or e['to_id'] not in t['deps']:
                    out.append(('edge_reply', e))
        elif k == 'plan':
            ep = a.get(v['epic']['id'])
            if ep is None or not ep['is_epic']:
                out.append(('plan_epic_reply', v['epic']))
            for pt in v['tasks']:
                t = a.get(pt['id'])
                if t is None or t['title'] != pt['title'] or t['epic'] != v['epic']['id']:
                    out.append(('plan_task_reply', pt))
            for e in v['edges']:
                t = a.get(e['from_id'])
                if t is None or e['to_id'] not in t['deps']:
                    out.append(('plan_edge_reply', e))
    return out


OBS_KEYS = ['id', 'uuid', 'epic', 'is_epic', 'state', 'title', 'body', 'claimed_by', 'created', 'updated', 'deps',
            'rdeps', 'results', 'ready', 'blocked', 'claimed_at']


def obs_of(snap):
    return [{k: t[k] for k in OBS_KEYS} for t in snap.get('tasks', [])], snap.get('ready_order')


def mon_C05(tr):
    if tr['req']['k'] != 'compact' or tr['rc'] != 0:
        return []
    out = []
    if obs_of(tr['before']) != obs_of(tr['after']):
        bt, at = obs_of(tr['before'])[0], obs_of(tr['after'])[0]
        diff = []
        for x, y in zip(bt, at):
            for k in OBS_KEYS:
                if x[k] != y[k]:
                    diff.append((x['id'], k, x[k], y[k]))
        out.append(('compact_changed_obs', diff[:5]))
    if tr['after'].get('tombstones'):
        out.append(('compact_left_tombstones',))
    return out


def mon_C11(tr):
    r = tr['req']
    if r['k'] != 'plan':
        return []
    out = []
    b, a = tasks_by_id(tr['before']), tasks_by_id(tr['after'])
    if tr['rc'] != 0:
        return out
    doc = r['doc']
    try:
        v = json.loads(tr['stdout'])
    except Exception:
        return [('plan_reply_unparsable',)]
    new = [i for i in a if i not in b]
    ids = [v['epic']['id']] + [t['id'] for t in v['tasks']]
    if sorted(new) != sorted(ids) or len(set(ids)) != len(ids):
        out.append(('plan_new_items', new, ids))
    for i in b:
        if a.get(i) != b[i]:
            # rdeps/ready of old items must not change either
            out.append(('plan_altered_existing', i))
    ep = a.get(ids[0])
    if ep and (not ep['is_epic'] or ep['title'] != doc['title'] or ep['body'] != doc.get('body', '')):
        out.append(('plan_epic_fields', ep['title']))
    if len(v['tasks']) != len(doc['tasks']):
        out.append(('plan_task_count',))
    tid = {}
    prev = None
    for pt, dt in zip(v['tasks'], doc['tasks']):
        t = a.get(pt['id'])
        tid[dt['title']] = pt['id']
        if t is None:
            continue
        if (t['title'], t['body'], t['state'], t['claimed_by'], t['epic'], t['is_epic']) != \
                (dt['title'], dt.get('body', ''), 'todo', '', ids[0], False):
            out.append(('plan_task_fields', pt['id']))
        if prev is not None and (t['created'][0], t['created'][1]) < prev:
            out.append(('plan_created_order', pt['id']))
        prev = (t['created'][0], t['created'][1])
    for dt in doc['tasks']:
        t = a.get(tid.get(dt['title']))
        if t is None:
            continue
        unknown = [x for x in dt.get('after', []) if x not in tid]
        if unknown:
            out.append(('plan_accepted_with_undefined_after', dt['title'], unknown))
            continue
        exp = sorted({tid[x] for x in dt.get('after', [])}, key=lambda s: s.encode())
        if t['deps'] != exp:
            out.append(('plan_edges', t['id'], t['deps'], exp))
    return out


def mon_C17(tr):
    """Text round trip on create / set (JSON: exact; flags/set title: trimmed)."""
    r = tr['req']
    if r['k'] not in ('new', 'set') or tr['rc'] != 0:
        return []
    out = []
    f = r['fields']
    a = tasks_by_id(tr['after'])
    if r['k'] == 'new':
        try:
            i = json.loads(tr['stdout'])['id']
        except Exception:
            return out
    else:
        i = r['id']
    t = a.get(i)
    if t is None:
        return out

    def gotrim(s):
        ws = GO_WS
        return s.strip(ws)
    if f.get('title') is not None:
        title = f['title']
        exp = title if (r['k'] == 'new' and r['mode'] == 'json') else gotrim(title)
        if exp != '' and t['title'] != exp:
            out.append(('title_roundtrip', i, exp, t['title']))
    if f.get('body') is not None and not (r['mode'] == 'flags' and f['body'] == ''):
        if t['body'] != f['body']:
            out.append(('body_roundtrip', i, f['body'][:50], t['body'][:50]))
    return out


def mon_C20(tr):
    """Results only grow at the front; a successful attach is recorded faithfully."""
    out = []
    b, a = tasks_by_id(tr['before']), tasks_by_id(tr['after'])
    for i, t in a.items():
        if i in b:
            old, new = b[i]['results'], t['results']
            if len(new) < len(old) or new[len(new) - len(old):] != old:
                out.append(('results_not_preserved', i))
            if len(new) > len(old) + 1:
                out.append(('results_duplicated', i))
    for e in tr.get('appended', []):
        if e['t'] == 'result':
            p = e['path']
            if p.startswith('/') or p == '..' or p.startswith('../') or '/../' in p or p.endswith('/..') \
                    or p == '.ergo' or p.startswith('.ergo/'):
                out.append(('result_path_escapes', p))
    return out


STEP_MONITORS = {'C05': [mon_C05], 'C06': [mon_C06, mon_C06_transitions, mon_C10], 'C07': [mon_C07], 'C08': [mon_C08],
                 'C10': [mon_C10], 'C11': [mon_C11], 'C14': [mon_C14], 'C15': [mon_C15], 'C16': [mon_C16],
                 'C17': [mon_C17], 'C20': [mon_C20]}


def run_monitors(prop, trace):
    """-> list of (step_index, failure tuple)"""
    out = []
    pruned = set()
    for k, tr in enumerate(trace):
        for m in STEP_MONITORS.get(prop, []):
            for f in m(tr):
                out.append((k, f))
        if prop == 'C09':
            for f in mon_C09(tr, pruned):
                out.append((k, f))
        pruned |= set(tr['after'].get('tombstones', []))
    return out
