"""Batch execution: parallel history generation on the real binary, Coq evaluation of the model
on the recorded cases, monitors; shrinking; evidence."""
import json, os, random, shutil, sys, time, multiprocessing, subprocess, re
from collections import Counter
from common import *
import history, monitors


def _worker(args):
    seed, nsteps, profile = args
    import common
    common.INTERN.__init__()
    rpc = Rpc()
    try:
        h = history.History(rpc, random.Random(seed))
        if profile:
            h.profile = profile
        if profile and profile.get('prelude') == 'epic_chain' and seed % 3 == 0:
            h.prelude_epic_chain()
        for _ in range(nsteps):
            h.do(h.gen_request())
        term = h.coq_case()
        defs = common.INTERN.defs_for(term)
        trace = h.trace
        h.close()
        return seed, term, defs, trace
    finally:
        rpc.close()


def run_batch(seeds, nsteps, profile=None, workers=14):
    with multiprocessing.Pool(workers) as pool:
        return pool.map(_worker, [(s, nsteps, profile) for s in seeds], chunksize=1)


def eval_cases(results, workdir, shard=6, jobs=16):
    """results: list of (seed, term, defs, trace) with per-case private definitions; each case gets
    its own name space by prefixing."""
    files = []
    for k in range(0, len(results), shard):
        part = results[k:k + shard]
        name = os.path.join(workdir, 'cases_%d.v' % (k // shard))
        with open(name, 'w') as f:
            f.write(CASES_HEADER)
            terms = []
            for j, (seed, term, defs, _) in enumerate(part):
                pre = 'c%d_' % j
                defs2 = re.sub(r'\bk([sz]\d+)\b', lambda m: pre + 'k' + m.group(1), defs)
                term2 = re.sub(r'\bk([sz]\d+)\b', lambda m: pre + 'k' + m.group(1), term)
                f.write(defs2)
                terms.append(term2)
            f.write('Definition cases : list case := [\n' + ';\n'.join(terms) + '\n].\n')
            f.write('Definition M := Eval vm_compute in run_cases cases.\nPrint M.\n')
        files.append((k, name))
    mism, errors = [], []
    running = []
    pending = list(files)

    def reap(entry):
        k, name, p = entry
        out, _ = p.communicate()
        text = out.decode('utf-8', 'replace')
        if p.returncode != 0:
            errors.append((name, text[-1500:]))
            return
        flat = ' '.join(text.split())
        if re.search(r'M\s*=\s*\[\s*\]', flat):
            return
        found = False
        for m in re.finditer(r'\((\d+),\s*(\d+),\s*"([A-Za-z]+)"\)', flat):
            mism.append((k + int(m.group(1)), int(m.group(2)), m.group(3)))
            found = True
        if not found:
            errors.append((name, 'unparsable: ' + flat[:400]))
    while pending or running:
        while pending and len(running) < jobs:
            k, name = pending.pop(0)
            p = subprocess.Popen(['coqc', '-Q', os.path.join(COQ, 'theories'), 'Ergo', '-Q', os.path.join(COQ, 'run'),
                                  'ErgoRun', '-w', '-all', name], cwd=workdir, stdout=subprocess.PIPE,
                                 stderr=subprocess.STDOUT)
            running.append((k, name, p))
        reap(running.pop(0))
    return mism, errors


def histogram(results):
    kinds, rcs, modes, sizes = Counter(), Counter(), Counter(), Counter()
    for _, _, _, trace in results:
        for tr in trace:
            r = tr['req']
            kinds[r['k']] += 1
            rcs['ok' if tr['rc'] == 0 else 'fail'] += 1
            if 'mode' in r:
                modes[r['mode']] += 1
        if trace:
            sizes[min(len(trace[-1]['after'].get('tasks', [])) // 4 * 4, 40)] += 1
    return {'commands': dict(kinds), 'exit': dict(rcs), 'input_modes': dict(modes),
            'final_store_size_buckets': {str(k): v for k, v in sorted(sizes.items())}}
