#!/usr/bin/env python3
"""Differential test: Coq model `clean` / `lexical_result_path` (theories/Path.v) against Go's
filepath.Clean and ergo's validateResultPath, through `ergo verif-rpc`.

usage: difftest_path.py [N] [SEED]      (default N = 6000)
env:   ERGO (binary built with -tags verif), COQDIR (dir holding _CoqProject + compiled theories)
exit status 0 iff zero disagreements."""
import base64, json, os, random, subprocess, sys, shutil, re

HERE = os.path.dirname(os.path.abspath(__file__))
ERGO = os.environ.get('ERGO') or (os.path.join(HERE, 'ergo') if os.path.exists(os.path.join(HERE, 'ergo')) else '/verif/build/ergo')
COQDIR = os.environ.get('COQDIR', os.path.join(HERE, 'coq'))
FS = os.path.join(HERE, 'fs')
N = int(sys.argv[1]) if len(sys.argv) > 1 else 6000
SEED = int(sys.argv[2]) if len(sys.argv) > 2 else 20260929

COMPS = [b'a', b'b', b'..', b'.', b'.ergo', b'..x', b'x..', b'...', b'', 'é'.encode(), b'L' * 300,
         b'd', b'f.txt', b'fifo', b'.ergox', b'x.ergo', b' ', b'a b']


def b64(b):
    return base64.b64encode(b).decode()


def gen_paths(rng, n):
    out, seen = [], set()

    def add(p):
        if p not in seen:
            seen.add(p)
            out.append(p)

    # fixed corner cases first
    for p in [b'', b'.', b'..', b'/', b'//', b'///', b'/.', b'/..', b'/../..', b'./', b'../', b'a/..', b'a/../..',
              b'a/b/../../..', b'.ergo', b'.ergo/', b'./.ergo', b'.ergo/x', b'.ergo/..', b'.ergo/../a', b'a/.ergo',
              b'a/../.ergo', b'a/../.ergo/plans.jsonl', b'..a', b'a/..b', b'a/b..', b'a/...', b'...', b'.../a',
              b'a//b', b'a/./b', b'/a/../../b', b'f.txt', b'd', b'd/', b'd/g.txt', b'fifo', b'd/../f.txt',
              b'./f.txt', b'.ergox', b'.ergo.txt', b'..ergo', b'a/.ergo/..', b'.ergo//x', b'.//.ergo']:
        add(p)
    # exhaustive over short component sequences from the core alphabet
    core = [b'a', b'..', b'.', b'.ergo', b'', b'..x']
    for k in (1, 2, 3):
        def rec(prefix, depth):
            if depth == 0:
                for lead in (b'', b'/'):
                    for trail in (b'', b'/'):
                        add(lead + b'/'.join(prefix) + trail)
                return
            for c in core:
                rec(prefix + [c], depth - 1)
        rec([], k)
    while len(out) < n:
        k = rng.randint(1, 7)
        s = b'/' * rng.choice([0, 0, 0, 0, 0, 0, 1, 1, 2, 3])
        for i in range(k):
            if i:
                s += b'/' * rng.choice([1, 1, 1, 2, 3])
            s += rng.choice(COMPS)
        s += b'/' * rng.choice([0, 0, 1, 2])
        add(s)
    return out


def make_fs():
    shutil.rmtree(FS, ignore_errors=True)
    os.makedirs(os.path.join(FS, 'd'))
    os.makedirs(os.path.join(FS, '.ergo'))
    os.makedirs(os.path.join(FS, 'a', 'b'))
    for f in ['f.txt', 'd/g.txt', '.ergo/plans.jsonl', 'a/f.txt', 'a/b/f.txt', '..x', 'a/..x', '.ergox', 'b']:
        with open(os.path.join(FS, f), 'w') as fh:
            fh.write('x\n')
    os.mkfifo(os.path.join(FS, 'fifo'))
    return FS


def rpc(reqs):
    p = subprocess.run([ERGO, 'verif-rpc'], input=''.join(json.dumps(r) + '\n' for r in reqs).encode(),
                       capture_output=True, check=True)
    return [json.loads(l) for l in p.stdout.decode().splitlines()]


def lit(b):
    if b == b'':
        return '""'
    if len(b) < 200 and all(32 <= c < 127 and c != 34 for c in b):
        return '"' + b.decode('ascii') + '"'
    return '(S [' + ';'.join(str(c) for c in b) + ']%N)'


LEX_ERRS = ('result path must be relative', 'result path must be within project', 'result path cannot be inside .ergo/')


def main():
    rng = random.Random(SEED)
    paths = gen_paths(rng, N)
    repo = make_fs()
    strs = [b64(p) for p in paths]
    r_clean, r_val = rpc([{'op': 'clean', 'strs': strs}, {'op': 'valpath', 'repo': repo, 'strs': strs}])
    go_clean = [base64.b64decode(x) for x in r_clean['ok']]
    val = r_val['ok']
    assert len(go_clean) == len(paths) == len(val)

    # oracle for lexical_result_path: None <=> one of the three lexical errors.  When Go accepts (or fails later, on
    # the file-system checks), the cleaned path it reports must equal the model's Some c.
    lex_none, classes = [], {}
    for p, gc, v in zip(paths, go_clean, val):
        if 'err' in v:
            m = v['err']
            is_lex = m.startswith(LEX_ERRS)
            lex_none.append(is_lex)
            key = m.split(':')[0]
            # Go-side sanity: every error message quotes Go's cleaned path
            if not m.startswith('cannot access'):
                assert m.endswith(': ' + gc.decode('utf-8', 'surrogateescape')), (p, m, gc)
        else:
            lex_none.append(False)
            key = 'accepted'
            assert base64.b64decode(v['ok']) == gc
        classes[key] = classes.get(key, 0) + 1

    if os.environ.get('SELFTEST'):  # corrupt the oracle in three places; exactly these must be reported
        go_clean[5] = go_clean[5] + b'x'; lex_none[7] = not lex_none[7]; lex_none[300] = not lex_none[300]

    names, defs = {}, []

    def piece(b):
        if b not in names:
            names[b] = 'k%d' % len(names)
            defs.append('Definition %s : string := %s.' % (names[b], lit(b)))
        return names[b]

    def nm(b):
        # Coq elaborates literals slowly: every distinct slash-free piece is one literal, a path is the
        # stdlib String.concat "/" of its pieces (independent of the model's own split/join).
        return '(J [' + ';'.join(piece(x) for x in b.split(b'/')) + '])'

    # ---- optional second part: the model of filepath.Dir / Base / Join (theories/Discovery.v) against Go itself,
    # through the helper gohelper/pathops (built with: cd gohelper && GOFLAGS=-mod=mod GOPROXY=off go build -o pathops .)
    helper = os.environ.get('PATHOPS', '/verif/build/pathops')
    ops_rows = []
    if os.path.exists(helper) and os.path.exists(os.path.join(COQDIR, 'theories', 'Discovery.vo')):
        second = [rng.choice(paths[:400] + [b'.ergo', b'plans.jsonl', b'', b'..', b'x/../..']) for _ in paths]
        pr = subprocess.run([helper], input=(json.dumps({'a': strs, 'b': [b64(x) for x in second]}) + '\n').encode(),
                            capture_output=True, check=True)
        ops = json.loads(pr.stdout.decode())
        for i, (a, b) in enumerate(zip(paths, second)):
            ops_rows.append('(%d%%N, %s, %s, %s, %s, %s)' % (i, nm(a), nm(b), nm(base64.b64decode(ops['dir'][i])),
                            nm(base64.b64decode(ops['base'][i])), nm(base64.b64decode(ops['join'][i]))))

    rows = ['(%d%%N, %s, %s, %s)' % (i, nm(p), nm(gc), 'true' if ln else 'false')
            for i, (p, gc, ln) in enumerate(zip(paths, go_clean, lex_none))]
    v = ['From Ergo Require Import Base Text Path.' if not ops_rows else 'From Ergo Require Import Base Text Path PathFacts Discovery.', 'From Coq Require Import Ascii String NArith List.',
         'Import ListNotations.', 'Local Open Scope string_scope.',
         'Fixpoint S (l : list N) : string := match l with [] => EmptyString | n :: r => String (Ascii.ascii_of_N n) (S r) end.']
    v.append('Definition J (l : list string) : string := String.concat "/" l.')
    v += defs
    v.append('Definition rows : list (N * string * string * bool) := [\n' + ';\n'.join(rows) + '].')
    v.append('''Definition bad (r : N * string * string * bool) : list (N * N) :=
  let '(i, p, gc, ln) := r in
  (if String.eqb (clean p) gc then [] else [(i, 1%N)]) ++
  (match lexical_result_path p with
   | None => if ln then [] else [(i, 2%N)]
   | Some c => if ln then [(i, 3%N)] else if String.eqb c gc then [] else [(i, 4%N)]
   end).
Definition disagreements := Eval vm_compute in flat_map bad rows.
Print disagreements.''')
    if ops_rows:
        v.append('Definition orows : list (N * string * string * string * string * string) := [\n' + ';\n'.join(ops_rows) + '].')
        v.append('''Definition obad (r : N * string * string * string * string * string) : list (N * N) :=
  let '(i, a, b, d, bs, j) := r in
  (if String.eqb (dir a) d then [] else [(i, 5%N)]) ++ (if String.eqb (base a) bs then [] else [(i, 6%N)])
  ++ (if String.eqb (join a b) j then [] else [(i, 7%N)]).
Definition ops_disagreements := Eval vm_compute in flat_map obad orows.
Print ops_disagreements.''')
    work = os.path.join(HERE, 'difftest_path_work')
    os.makedirs(work, exist_ok=True)
    vf = os.path.join(work, 'PathCases.v')
    with open(vf, 'w') as fh:
        fh.write('\n'.join(v) + '\n')
    p = subprocess.run(['coqc', '-Q', os.path.join(COQDIR, 'theories'), 'Ergo', '-w', '-all', vf],
                       capture_output=True, text=True, timeout=1800)
    if p.returncode != 0:
        print(p.stdout[-3000:], p.stderr[-3000:])
        sys.exit(2)
    out = re.sub(r'\s+', ' ', p.stdout)
    m = re.search(r'disagreements = (.*?) : list \(N \* N\)', out)
    assert m, out[-2000:]
    pairs = re.findall(r'\((\d+)(?:%N)?, (\d+)(?:%N)?\)', m.group(1))
    assert pairs or m.group(1).strip() == '[]', m.group(1)[:500]
    print('paths tested: %d (distinct); valpath outcome classes: %s' % (len(paths), json.dumps(classes, sort_keys=True)))
    print('disagreements (clean, lexical_result_path): %d' % len(pairs))
    if ops_rows:
        m2 = re.search(r'ops_disagreements = (.*?) : list \(N \* N\)', out)
        assert m2, out[-2000:]
        pairs2 = re.findall(r'\((\d+)(?:%N)?, (\d+)(?:%N)?\)', m2.group(1))
        assert pairs2 or m2.group(1).strip() == '[]', m2.group(1)[:500]
        print('Dir/Base/Join rows: %d, disagreements: %d' % (len(ops_rows), len(pairs2)))
        for i, k in pairs2[:30]:
            i = int(i)
            print('  #%d a=%r b=%r: model %s differs; Go dir=%r base=%r join=%r' % (
                i, paths[i], second[i], {'5': 'dir', '6': 'base', '7': 'join'}[k], base64.b64decode(ops['dir'][i]),
                base64.b64decode(ops['base'][i]), base64.b64decode(ops['join'][i])))
        pairs = pairs + pairs2
    else:
        print('Dir/Base/Join part skipped (no gohelper/pathops or no Discovery.vo)')
    kinds = {'1': 'clean differs', '2': 'model None, Go lexically accepts', '3': 'model Some, Go lexical error',
             '4': 'model Some c but c differs from Go cleaned path'}
    for i, k in pairs[:50]:
        i = int(i)
        print('  #%d %r: %s; go clean=%r go valpath=%r' % (i, paths[i], kinds[k], go_clean[i], val[i]))
    sys.exit(1 if pairs else 0)


if __name__ == '__main__':
    main()
