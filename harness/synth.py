"""Synthetic logs: typed event lists rendered to JSONL, replayed by the real code through the RPC,
and compared with the model's replay inside Coq (covers hand-merged / reordered / legacy logs that
the CLI itself never writes)."""
import json, os, random, datetime
from common import *

EPOCH0 = 1700000000


def ts_str(t, zone=None):
    """[sec, nsec] -> RFC3339Nano as Go prints it: UTC 'Z', or (hand-written / imported logs) the same instant
    written with a numeric offset of [zone] minutes."""
    if t is None:
        return 'not-a-time'
    sec, nsec = t
    frac = ('%09d' % nsec).rstrip('0')
    if zone is None:
        d = datetime.datetime.utcfromtimestamp(sec)
        return d.strftime('%Y-%m-%dT%H:%M:%S') + ('.' + frac if frac else '') + 'Z'
    d = datetime.datetime.utcfromtimestamp(sec + zone * 60)
    sign = '+' if zone >= 0 else '-'
    return d.strftime('%Y-%m-%dT%H:%M:%S') + ('.' + frac if frac else '') + '%s%02d:%02d' % (sign, abs(zone) // 60, abs(zone) % 60)


def render_event(ev):
    t = ev['t']
    at = ts_str(ev.get('at'), ev.get('zone'))
    g = lambda k: ev.get(k, '')
    if ev.get('bad'):
        data = {'id': 17}   # wrong field type: payload does not decode
    elif t in ('new_task', 'new_epic'):
        data = {'id': g('id'), 'uuid': g('uuid'), 'epic_id': g('epic'), 'state': g('state'), 'title': g('title'),
                'body': g('body'), 'created_at': at}
    elif t == 'state':
        data = {'id': g('id'), 'state': g('state'), 'ts': at}
    elif t == 'claim':
        data = {'id': g('id'), 'agent_id': g('agent'), 'ts': at}
    elif t == 'unclaim':
        data = {'id': g('id'), 'ts': ts_str([EPOCH0, 0])}
    elif t in ('link', 'unlink'):
        data = {'from_id': g('from'), 'to_id': g('to'), 'type': ev.get('ltype', 'depends')}
    elif t == 'title':
        data = {'id': g('id'), 'title': g('title'), 'ts': at}
    elif t == 'body':
        data = {'id': g('id'), 'body': g('body'), 'ts': at}
    elif t == 'epic':
        data = {'id': g('id'), 'epic_id': g('epic'), 'ts': at}
    elif t == 'tombstone':
        data = {'id': g('id'), 'agent_id': g('agent'), 'ts': at}
    elif t == 'result':
        data = {'task_id': g('id'), 'summary': g('summary'), 'path': g('path'), 'sha256_at_attach': g('sha'),
                'mtime_at_attach': g('mtime'), 'git_commit_at_attach': g('git'), 'ts': at}
    else:
        data = {'x': 1}
    return json.dumps({'type': t, 'ts': ts_str([EPOCH0, 0]), 'data': data}, ensure_ascii=False)


def write_log(path, events):
    with open(path, 'w', encoding='utf-8') as f:
        for e in events:
            f.write(render_event(e) + '\n')


class LogGen:
    """Random typed logs over a small id universe: legal-looking histories, then mutated."""

    def __init__(self, rng, nids=6, monotone=True, rich=False):
        self.rng = rng
        self.rich = rich          # many live, todo, unclaimed items: exercises the ORDER of the ready list
        self.ids = ['T%05d' % k for k in range(nids)]
        if rng.random() < 0.15:
            self.ids[rng.randrange(nids)] = ''      # hand-written logs can carry the empty id; replay does not reject it
        self.clock = EPOCH0
        self.monotone = monotone

    def now(self):
        if self.monotone:
            self.clock += self.rng.choice([0, 0, 1, 1, 5])
            # fractions whose printed forms are prefixes of one another (…:05Z / …:05.2Z / …:05.25Z / …:05.257Z):
            # comparing stamps as text instead of as instants goes wrong exactly on these
            return [self.clock, self.rng.choice([0, 0, 500, 999999999, 200000000, 250000000, 257000000, 500000000])]
        return [EPOCH0 + self.rng.randrange(0, 50), self.rng.choice([0, 1])]

    def event(self, created):
        rng = self.rng
        i = rng.choice(self.ids)
        k = rng.random()
        if self.rich and k >= 0.22 and k < 0.60 and rng.random() < 0.75:
            k = 0.0 if len(created) < len(self.ids) else 0.6       # turn most state/claim/link events into creates
        if k < 0.22 or not created:
            is_epic = rng.random() < 0.25
            title = rng.choice(['T ' + i, 'x', '', '  ', 'títle'])
            body = rng.choice(['', 'b', '# H\n\nfirst\nrest', '\n\n', 'only line'])
            epic = '' if is_epic else rng.choice(['', ''] + self.ids)
            return {'zone': rng.choice([None, None, None, 330, -480, 60, 0]),
                    't': 'new_epic' if is_epic else 'new_task', 'id': i, 'uuid': 'u-' + i, 'epic': epic,
                    'state': 'todo' if self.rich and rng.random() < 0.85 else rng.choice(['todo', 'todo', 'todo', 'doing', 'weird', '']), 'title': title, 'body': body,
                    'at': self.now()}
        if k < 0.40:
            return {'t': 'state', 'id': i, 'state': rng.choice(['todo', 'doing', 'done', 'blocked', 'canceled', 'error', 'odd']),
                    'at': self.now()}
        if k < 0.50:
            return {'t': 'claim', 'id': i, 'agent': rng.choice(['a', 'b', '']), 'at': self.now()}
        if k < 0.54:
            return {'t': 'unclaim', 'id': i}
        if k < 0.68:
            return {'t': 'link', 'from': i, 'to': rng.choice(self.ids), 'ltype': 'depends' if rng.random() < 0.93 else 'other'}
        if k < 0.72:
            return {'t': 'unlink', 'from': i, 'to': rng.choice(self.ids), 'ltype': 'depends'}
        if k < 0.78:
            return {'t': 'title', 'id': i, 'title': rng.choice(['new title', '', ' pad ']), 'at': self.now()}
        if k < 0.83:
            return {'t': 'body', 'id': i, 'body': rng.choice(['nb', '', 'l1\nl2']), 'at': self.now()}
        if k < 0.88:
            return {'t': 'epic', 'id': i, 'epic': rng.choice([''] + self.ids), 'at': self.now()}
        if k < 0.93:
            return {'t': 'tombstone', 'id': i, 'agent': rng.choice(['', 'a']), 'at': self.now()}
        if k < 0.98:
            return {'t': 'result', 'id': i, 'summary': 's', 'path': 'p/%s.txt' % i, 'sha': 'ab' * 32, 'mtime': '', 'git': '',
                    'at': self.now()}
        return {'t': 'mystery'}

    def log(self, n):
        evs, created = [], set()
        for _ in range(n):
            e = self.event(created)
            if e['t'] in ('new_task', 'new_epic'):
                if e['id'] in created and self.rng.random() < (0.99 if self.rich else 0.85):
                    continue   # mostly avoid duplicate creates (they are a replay error; keep a few)
                created.add(e['id'])
            evs.append(e)
        return evs


LOG_HEADER = CASES_HEADER


def check_logs(rpc, logs, workdir, with_compact=False):
    """-> (mismatch list [(index, tag)], errors, snapshots)"""
    import common
    common.INTERN.__init__()
    terms, snaps = [], []
    path = os.path.join(workdir, 'log.jsonl')
    for evs in logs:
        write_log(path, evs)
        resp = rpc.call(op='snapshot', path=path)
        snap = resp.get('ok') if 'ok' in resp else {'replay_error': resp.get('err')}
        comp = None
        if with_compact and 'replay_error' not in snap:
            r2 = rpc.call(op='compact', path=path)
            comp = r2.get('ok') if 'ok' in r2 else {'replay_error': r2.get('err')}
        snaps.append((snap, comp))
        decoded = snap.get('events') if snap.get('events') is not None else evs
        if comp is not None and 'replay_error' not in comp:
            ct = '(Some (%s, %s))' % (cq_events(comp['events']), cq_snapshot(dict(comp, prune_targets=comp.get('prune_targets', []), tombstones=comp.get('tombstones', []))))
        else:
            ct = 'None'
        terms.append('(LogCase %s %s %s)' % (cq_events(decoded), cq_snapshot(snap), ct))
    mism, errors = [], []
    shard = 40
    procs = []
    for k in range(0, len(terms), shard):
        part = terms[k:k + shard]
        name = os.path.join(workdir, 'logs_%d.v' % (k // shard))
        with open(name, 'w') as f:
            f.write(LOG_HEADER)
            f.write(common.INTERN.defs_for(' '.join(part)))
            f.write('Definition cases : list logcase := [\n' + ';\n'.join(part) + '\n].\n')
            f.write('Definition M := Eval vm_compute in run_logcases cases.\nPrint M.\n')
        p = subprocess.Popen(['coqc', '-Q', os.path.join(COQ, 'theories'), 'Ergo', '-Q', os.path.join(COQ, 'run'),
                              'ErgoRun', '-w', '-all', name], cwd=workdir, stdout=subprocess.PIPE, stderr=subprocess.STDOUT)
        procs.append((k, name, p))
    for k, name, p in procs:
        out, _ = p.communicate()
        text = out.decode('utf-8', 'replace')
        if p.returncode != 0:
            errors.append((name, text[-1500:]))
            continue
        flat = ' '.join(text.split())
        if re.search(r'M\s*=\s*\[\s*\]', flat):
            continue
        for m in re.finditer(r'\((\d+),\s*"([A-Za-z]+)"\)', flat):
            mism.append((k + int(m.group(1)), m.group(2)))
    return mism, errors, snaps
