"""Controlled schedules: real ergo processes parked at the verif build's sync points, driven step by
step by a schedule that is also fed to Sched.run_schedule inside Coq."""
import json, os, random, select, signal, socket, subprocess, time
from common import *
import history

WRITER_POINTS = 'lock.attempt,lock.held,lock.busy,append.before,append.after,tmp.before,rename.before,lock.release'
READER_POINTS = 'read.probed,read.scanned'


class Proc:
    def __init__(self, idx, kind, req, popen):
        self.idx, self.kind, self.req, self.popen = idx, kind, req, popen
        self.conn = None
        self.buf = b''
        self.at = None          # sync point the process is parked at
        self.rc = None
        self.killed = False
        self.state = 'launched'  # model-side state name
        self.out = self.err = b''
        self.appended = None

    def alive(self):
        return self.rc is None and not self.killed


class Controller:
    def __init__(self, store):
        self.store = store
        self.path = os.path.join(store.root, 'ctl.sock')
        self.srv = socket.socket(socket.AF_UNIX, socket.SOCK_STREAM)
        self.srv.bind(self.path)
        self.srv.listen(32)
        self.procs = []
        self.pending = []      # accepted connections not yet identified

    def close(self):
        for p in self.procs:
            if p.popen.poll() is None:
                p.popen.kill()
            try:
                p.popen.communicate(timeout=5)
            except Exception:
                pass
            if p.conn:
                p.conn.close()
        self.srv.close()

    def launch(self, kind, req, args, stdin, points):
        idx = len(self.procs)
        env = dict(os.environ, ERGO_VERIF_CTL=self.path, ERGO_VERIF_NAME='p%d' % idx, ERGO_VERIF_POINTS=points)
        po = subprocess.Popen([ERGO] + args, cwd=self.store.dir, stdin=subprocess.PIPE if stdin is not None else subprocess.DEVNULL,
                              stdout=subprocess.PIPE, stderr=subprocess.PIPE, env=env)
        if stdin is not None:
            try:
                po.stdin.write(stdin)
                po.stdin.close()
            except BrokenPipeError:
                pass
            po.stdin = None
        p = Proc(idx, kind, req, po)
        self.procs.append(p)
        self.wait(p)
        return p

    def _pump(self, timeout):
        socks = [self.srv] + [c for c, _ in self.pending] + [p.conn for p in self.procs if p.conn]
        r, _, _ = select.select(socks, [], [], timeout)
        for s in r:
            if s is self.srv:
                c, _ = self.srv.accept()
                self.pending.append((c, b''))
                continue
            data = b''
            try:
                data = s.recv(4096)
            except OSError:
                pass
            owner = next((p for p in self.procs if p.conn is s), None)
            if owner is None:
                for k, (c, buf) in enumerate(self.pending):
                    if c is s:
                        buf += data
                        if b'\n' in buf:
                            line, rest = buf.split(b'\n', 1)
                            parts = line.decode().split()
                            if parts and parts[0] == 'hello':
                                idx = int(parts[2][1:])
                                self.procs[idx].conn = c
                                self.procs[idx].buf = rest
                                del self.pending[k]
                                self._lines(self.procs[idx])
                        else:
                            self.pending[k] = (c, buf)
                        break
            else:
                if not data:
                    owner.conn.close()
                    owner.conn = None
                else:
                    owner.buf += data
                    self._lines(owner)

    def _lines(self, p):
        while b'\n' in p.buf:
            line, p.buf = p.buf.split(b'\n', 1)
            parts = line.decode().split()
            if parts and parts[0] == 'at':
                p.at = parts[1]

    def wait(self, p, timeout=20):
        """Until p is parked at a point or has exited."""
        t0 = time.time()
        while time.time() - t0 < timeout:
            if p.at is not None:
                return
            if p.popen.poll() is not None:
                # drain
                self._pump(0.01)
                if p.at is not None and False:
                    return
                out, err = p.popen.communicate()
                p.out, p.err, p.rc = out, err, p.popen.returncode
                return
            self._pump(0.05)
        raise RuntimeError('process %d (%s) neither parked nor exited; at=%r' % (p.idx, p.req, p.at))

    def release(self, p):
        assert p.at is not None and p.conn is not None, (p.idx, p.at)
        p.at = None
        p.conn.sendall(b'\n')
        self.wait(p)

    def kill(self, p):
        p.popen.send_signal(signal.SIGKILL)
        out, err = p.popen.communicate()
        p.out, p.err = out, err
        p.killed = True
        p.at = None
        if p.conn:
            p.conn.close()
            p.conn = None


def file_tail_class(path):
    try:
        data = open(path, 'rb').read()
    except FileNotFoundError:
        return 'TailClean'
    if not data or data.endswith(b'\n'):
        return 'TailClean'
    last = data.rsplit(b'\n', 1)[-1]
    try:
        v = json.loads(last)
        return 'TailValid' if isinstance(v, dict) else 'TailTorn'
    except Exception:
        return 'TailTorn'


class SchedRun:
    """One controlled execution.  Produces a Coq [schedcase] term and Python-side observations."""

    def __init__(self, rpc, rng, nwriters=3, nreaders=1, kills=0.0, tears=0.0, claimers=False, pre_steps=None, pre_tear=False,
                 fixed=None, pre_profile=None, strip_newline=False, readers=None):
        self.rpc, self.rng = rpc, rng
        self.kills, self.tears = kills, tears
        h = history.History(rpc, rng)
        h.profile = pre_profile or {'weights': {'compact': 2, 'malformed': 0}}
        for _ in range(pre_steps if pre_steps is not None else rng.choice([4, 8, 12])):
            h.do(h.gen_request())
        self.h = h
        self.store = h.store
        if pre_tear:
            with open(self.store.log, 'ab') as f:
                f.write(rng.choice([b'{"type":"state","ts":"2026-01-01T00:00:00Z","data":{"id":"AB', b'garbage']))
        if strip_newline:
            data = open(self.store.log, 'rb').read()
            if data.endswith(b'\n') and len(data) > 1:
                with open(self.store.log, 'wb') as f:       # last line complete but unterminated (editor / merge tool / write cut before '\n')
                    f.write(data[:-1])
        h.profile = {'weights': {'compact': 2, 'malformed': 0}}
        snap0 = self.decode()
        self.init_events = snap0
        self.init_tail = file_tail_class(self.store.log)
        self.ctl = Controller(self.store)
        self.sched = []          # (idx, action-term)
        self.protocol = []       # deviations from the one-write-per-section protocol
        self.states_seen = [self.snapshot_state()]
        self.kill_views = []      # (command, protocol state it was killed in, view before, view after)
        self.procs = []
        reqs = []
        for fx in (fixed or []):
            r = self.fixed_request(fx)
            if r is not None:
                reqs.append(('w', r))
        for _ in range(nwriters):
            if claimers:
                r = history.Req(k='claim', id=None, in_epic=None, agent=rng.choice(history.AGENTS))
            else:
                while True:
                    r = h.gen_request()
                    if r['k'] != 'malformed':
                        break
            reqs.append(('w', r))
        for _ in range(nreaders):
            reqs.append((rng.choice(readers or ['rdecode', 'rdecode', 'rlist']), None))
        rng.shuffle(reqs)
        self.plan = reqs

    def fixed_request(self, name):
        rng, h = self.rng, self.h
        tasks = [t for t in h.snap['tasks'] if not t['is_epic']]
        if name == 'compact':
            return history.Req(k='compact')
        if name == 'plan':
            return history.Req(k='plan', doc={'title': 'P', 'tasks': [{'title': 'p1'}, {'title': 'p2', 'after': ['p1']}]})
        if name == 'prune':
            return history.Req(k='prune', yes=True, agent=None)
        if name == 'claim':
            return history.Req(k='claim', id=None, in_epic=None, agent=rng.choice(history.AGENTS))
        if name == 'new':
            return history.Req(k='new', epic=False, mode='json', fields={'title': 'fresh %d' % rng.randrange(1000)}, agent=None)
        if name == 'finish':
            todo = [t for t in tasks if t['state'] == 'todo' and not t['claimed_by']]
            if not todo:
                return None
            todo.sort(key=lambda t: (t['created'], t['id']))
            return history.Req(k='set', epic=False, id=todo[0]['id'], mode='json', fields={'state': rng.choice(['done', 'canceled'])}, agent=None)
        if name == 'reopen':
            fin = [t for t in tasks if t['state'] in ('done', 'canceled')]
            if not fin:
                return None
            return history.Req(k='set', epic=False, id=rng.choice(fin)['id'], mode='json', fields={'state': 'todo'}, agent=None)
        if name in ('seq_ab', 'seq_ba'):
            if not hasattr(self, 'pair'):
                free = [t for t in tasks if not t['deps'] and not t['rdeps']]
                self.pair = rng.sample([t['id'] for t in free], 2) if len(free) >= 2 else None
            if not self.pair:
                return None
            a, b = self.pair
            return history.Req(k='seq', ids=[a, b] if name == 'seq_ab' else [b, a])
        raise ValueError(name)

    def decode(self):
        resp = self.rpc.call(op='decode', dir=self.store.ergodir)
        return resp.get('ok') if 'ok' in resp else None

    def snapshot_state(self):
        resp = self.rpc.call(op='snapshot', dir=self.store.ergodir)
        if 'ok' not in resp or 'tasks' not in resp['ok']:
            return None
        return sorted((t['id'], t['state'], t['claimed_by'], t['title']) for t in resp['ok']['tasks'])

    def start_all(self):
        for kind, r in self.plan:
            if kind == 'w':
                args, stdin = history.req_cli(r)
                p = self.ctl.launch('w', r, args, stdin, WRITER_POINTS)
                p.state = 'start' if p.at == 'lock.attempt' else ('done' if p.rc is not None else 'odd:%s' % p.at)
                if p.rc is not None:
                    p.state = 'done_early'      # failed before any lock attempt (validation): no model steps
            else:
                p = Proc(len(self.ctl.procs), kind, None, None)
                p.state = 'rstart'
                self.ctl.procs.append(p)
            self.procs.append(p)

    def live(self):
        return [p for p in self.procs if p.state not in ('done', 'dead', 'rdone', 'done_early')]

    def record_commit(self, p, before):
        after = self.decode()
        if after is not None and before is not None:
            if p.req['k'] == 'compact':
                p.appended = []
            elif after[:len(before)] == before:
                p.appended = after[len(before):]
            else:
                p.appended = []
        st = self.snapshot_state()
        if st is not None:
            self.states_seen.append(st)

    def step(self, p, action='AStep'):
        c = self.ctl
        if p.state == 'rstart':
            # open + probe happen between launch and the first reader sync point: two model steps
            if p.kind == 'rdecode':
                args, stdin = ['verif-rpc'], (json.dumps({'op': 'decode', 'dir': self.store.ergodir}) + '\n').encode()
            else:
                args, stdin = ['--json', 'list', '--all'], None
            q = c.launch(p.kind, None, args, stdin, READER_POINTS)
            q.idx = p.idx
            c.procs.pop()                  # launch appended a new Proc; keep our slot instead
            p.popen, p.conn, p.at, p.rc, p.out, p.err, p.buf = q.popen, q.conn, q.at, q.rc, q.out, q.err, q.buf
            c.procs[p.idx] = p
            self.sched += [(p.idx, 'AStep'), (p.idx, 'AStep')]
            p.state = 'rprobed' if p.at == 'read.probed' else 'rdone'
            return
        if action == 'AKill':
            was = p.state
            c.kill(p)
            self.sched.append((p.idx, 'AKill'))
            p.state = 'dead'
            if p.kind == 'w':
                # what a reader sees right after the kill: a plain kill (no write torn) happens between system calls,
                # so it is a state the store has already shown or the state after this command
                st = self.snapshot_state()
                self.kill_views.append(((p.req or {}).get('k'), was, self.states_seen[-1] if self.states_seen else None, st))
                if st is not None:
                    self.states_seen.append(st)
            return
        if p.state == 'rprobed':
            c.release(p)               # scan
            if p.at == 'read.scanned':
                c.release(p)
            self.sched.append((p.idx, 'AStep'))
            p.state = 'rdone'
            return
        if p.state == 'start':
            c.release(p)
            self.sched.append((p.idx, 'AStep'))
            if p.at == 'lock.held':
                p.state = 'locked'
            elif p.at == 'lock.busy':
                c.release(p)
                p.state = 'done'
            else:
                p.state = 'done' if p.rc is not None else 'odd:%s' % p.at
            return
        if p.state == 'locked':
            p.before = self.decode()
            p.size_before = os.path.getsize(self.store.log) if os.path.exists(self.store.log) else 0
            c.release(p)
            self.sched.append((p.idx, 'AStep'))
            p.state = {'append.before': 'append', 'tmp.before': 'tmp', 'lock.release': 'unlock'}.get(p.at, 'odd:%s' % p.at)
            return
        if p.state == 'append':
            c.release(p)               # the write(2)
            assert p.at == 'append.after', p.at
            if action.startswith('AKillTorn'):
                data = open(self.store.log, 'rb').read()
                chunk = data[p.size_before:]
                self.record_commit(p, p.before)    # learn the full would-be write (ids, stamps) before cutting it
                self.states_seen.pop()
                lines = chunk.split(b'\n')[:-1]
                n = len(lines)
                if n == 0:
                    # the write did not land where an append lands (the file shrank first?): cannot tear it, plain kill
                    self.protocol.append(('append_not_at_old_end', p.req.get('k')))
                    c.kill(p)
                    self.sched.append((p.idx, 'AKill'))
                    p.state = 'dead'
                    return
                kind = self.rng.choice(['CutBoundary', 'CutInside', 'CutBeforeNL'])
                k = self.rng.randrange(0, n + 1) if kind == 'CutBoundary' else self.rng.randrange(0, n)
                keep = sum(len(l) + 1 for l in lines[:k])
                if kind == 'CutInside':
                    keep += self.rng.randrange(1, max(2, len(lines[k]) - 1))
                elif kind == 'CutBeforeNL':
                    keep += len(lines[k])
                c.kill(p)
                with open(self.store.log, 'r+b') as f:
                    f.truncate(p.size_before + keep)
                self.sched.append((p.idx, '(AKillTorn (%s %d))' % (kind, k)))
                p.state = 'dead'
                st = self.snapshot_state()
                if st is not None:
                    self.states_seen.append(st)
                return
            self.record_commit(p, p.before)
            c.release(p)
            self.sched.append((p.idx, 'AStep'))
            if p.at == 'append.before':
                # a second write(2) inside one lock section: the command is not a single atomic append
                self.protocol.append(('second_write_in_section', p.req.get('k')))
                if self.kills > 0 or self.tears > 0:
                    c.kill(p)                      # die between the two writes: exhibits the half-applied command
                    self.sched.append((p.idx, 'AKill'))
                    p.state = 'dead'
                    st = self.snapshot_state()
                    if st is not None:
                        self.states_seen.append(st)
                    return
                while p.at in ('append.before', 'append.after'):
                    c.release(p)
                self.record_commit(p, p.before)
            p.state = 'unlock' if p.at == 'lock.release' else 'odd:%s' % p.at
            return
        if p.state == 'tmp':
            c.release(p)
            self.sched.append((p.idx, 'AStep'))
            p.state = 'rename' if p.at == 'rename.before' else 'odd:%s' % p.at
            return
        if p.state == 'rename':
            c.release(p)
            self.record_commit(p, p.before)
            self.sched.append((p.idx, 'AStep'))
            p.state = 'unlock' if p.at == 'lock.release' else 'odd:%s' % p.at
            return
        if p.state == 'unlock':
            c.release(p)
            self.sched.append((p.idx, 'AStep'))
            if p.rc is None and p.at == 'lock.attempt':
                # the command opens a SECOND lock section: it is not one transaction
                self.protocol.append(('second_section_in_command', p.req.get('k')))
                p.state = 'start'
                return
            p.state = 'done' if p.rc is not None else 'odd:%s' % p.at
            return
        raise RuntimeError('cannot step process %d in state %s' % (p.idx, p.state))

    def run(self, max_steps=200):
        self.start_all()
        n = 0
        while self.live() and n < max_steps:
            n += 1
            live = self.live()
            holders = [q for q in live if q.state in ('locked', 'append', 'tmp', 'rename', 'unlock')]
            p = holders[0] if holders and self.rng.random() < 0.6 else self.rng.choice(live)
            if p.state.startswith('odd'):
                raise RuntimeError('process %d in unexpected state %s (%s)' % (p.idx, p.state, p.req))
            action = 'AStep'
            x = self.rng.random()
            if p.kind == 'w' and p.state in ('start', 'locked', 'append', 'tmp', 'rename', 'unlock'):
                if p.state == 'append' and x < self.tears:
                    action = 'AKillTorn'
                elif x < self.kills:
                    action = 'AKill'
            self.step(p, action)
        self.finish()

    def run_order(self, order):
        """Prescribed interleaving: each entry = one step of that process (skipped when it is finished)."""
        self.start_all()
        for idx in order:
            p = self.procs[idx]
            if p in self.live():
                self.step(p, 'AStep')
        for p in list(self.procs):
            while p in self.live():
                self.step(p, 'AStep')
        self.finish()

    def finish(self):
        self.final_events = self.decode()
        self.final_tail = file_tail_class(self.store.log)
        self.final_state = self.snapshot_state()

    # ------------------------------------------------------------------ emission
    def outcome(self, p):
        if p.kind == 'w':
            if p.state == 'dead':
                return 'ObsDead'
            if p.state == 'done_early':
                return 'ObsSkip'
            if p.rc == 0:
                return 'ObsOk'
            return 'ObsBusy' if b'lock busy' in p.err else 'ObsFail'
        if p.state == 'dead':
            return 'ObsDead'
        if p.kind == 'rdecode':
            try:
                resp = json.loads(p.out.decode())
            except Exception:
                return 'ObsReadErr'
            if 'ok' in resp:
                return '(ObsRead %s)' % cq_events(resp['ok'])
            return 'ObsReadErr'
        return 'ObsSkip'

    def coq_case(self):
        procs = []
        for p in self.procs:
            if p.kind == 'w':
                r = p.req
                app = p.appended or []
                forced = None
                if not app and r['k'] in ('new', 'plan'):
                    forced = ['Q%05d' % (p.idx * 10 + j) for j in range(12)]   # never reached a write: any fresh ids do
                if p.state == 'done_early':
                    procs.append('(PWriter %s QMalformed)' % history.env_coq(r, [], self.store.dir))
                else:
                    procs.append('(PWriter %s %s)' % (history.env_coq(r, app, self.store.dir, forced), history.req_coq(r)))
            else:
                procs.append('PReader')
        sched = cq_list(['(%d%%nat, %s)' % (i, a) for i, a in self.sched])
        outs = cq_list([self.outcome(p) for p in self.procs])
        return '(SchedCase %s %s %s %s %s %s %s)' % (cq_events(self.init_events or []), self.init_tail, cq_list(procs), sched, outs,
                                                     cq_events(self.final_events or []), self.final_tail)

    def describe(self):
        return {'protocol': self.protocol, 'processes': [{'kind': p.kind, 'args': history.req_cli(p.req)[0] if p.req else p.kind,
                               'stdin': (history.req_cli(p.req)[1] or b'').decode('utf-8', 'replace') if p.req else None,
                               'rc': p.rc, 'state': p.state, 'stderr': p.err.decode('utf-8', 'replace')[:200]} for p in self.procs],
                'schedule': self.sched, 'init_tail': self.init_tail, 'final_tail': self.final_tail}

    def close(self):
        self.ctl.close()
        self.h.close()
