#!/usr/bin/env python3
"""Differential test of the Coq model of .ergo discovery (theories/Discovery.v: ergo_dir, get_events_path, init)
against the real binary: `ergo [--dir X] --json where`, `ergo --json list --all`, `ergo init [dir]`.

usage: difftest_discovery.py [SEED]
env:   ERGO (binary), COQDIR (dir with compiled theories/), SCRATCH (where trees are built; default <here>/dt)
exit status 0 iff zero disagreements.  SELFTEST=1 corrupts three oracle entries and expects exactly those reported."""
import hashlib, json, os, random, re, shutil, subprocess, sys

HERE = os.path.dirname(os.path.abspath(__file__))
ERGO = os.environ.get('ERGO') or (os.path.join(HERE, 'ergo') if os.path.exists(os.path.join(HERE, 'ergo')) else '/verif/build/ergo')
COQDIR = os.environ.get('COQDIR', os.path.join(HERE, 'coq'))
ROOT = os.path.realpath(os.environ.get('SCRATCH', os.path.join(HERE, 'dt')))
SEED = int(sys.argv[1]) if len(sys.argv) > 1 else 20260929
NAMES = ['a', 'b', 'c']


def run(args, cwd, pwd=None, stdin=None):
    env = dict(os.environ)
    env.pop('ERGO_VERIF_CTL', None)
    env['PWD'] = pwd if pwd is not None else cwd      # os.Getwd trusts $PWD when it names the same directory
    p = subprocess.run([ERGO] + args, cwd=cwd, env=env, stdin=subprocess.DEVNULL, capture_output=True, timeout=30)
    return p.returncode, p.stdout.decode('utf-8', 'replace'), p.stderr.decode('utf-8', 'replace')


def write(path, data=''):
    with open(path, 'w') as fh:
        fh.write(data)


def event_line(title):
    """One new_task line, produced by the real tool in a throw-away store."""
    tmp = os.path.join(ROOT, '_mk')
    shutil.rmtree(tmp, ignore_errors=True)
    os.makedirs(tmp)
    assert run(['init'], tmp)[0] == 0
    rc, out, err = run(['new', 'task', '--title', title], tmp)
    assert rc == 0, err
    with open(os.path.join(tmp, '.ergo', 'plans.jsonl')) as fh:
        data = fh.read()
    shutil.rmtree(tmp)
    return data


def make_store(d, kind, lines):
    """kind: plans | legacy | both | empty | nolock_legacy"""
    e = os.path.join(d, '.ergo')
    os.makedirs(e, exist_ok=True)
    if kind in ('plans', 'both'):
        write(os.path.join(e, 'plans.jsonl'), lines['P'])
    if kind == 'both_empty_plans':                       # e.g. after prune + compact of everything: plans.jsonl exists, zero bytes
        write(os.path.join(e, 'plans.jsonl'), '')
    if kind in ('legacy', 'both', 'nolock_legacy', 'both_empty_plans'):
        write(os.path.join(e, 'events.jsonl'), lines['L'])
    if kind in ('plans', 'legacy', 'both', 'both_empty_plans'):
        write(os.path.join(e, 'lock'))


def build_tree(rng, lines):
    """Random tree of depth <= 4 below ROOT/t with nested stores, a FILE named .ergo, plain files."""
    top = os.path.join(ROOT, 't')
    shutil.rmtree(top, ignore_errors=True)
    os.makedirs(top)
    dirs = [top]

    def grow(d, depth):
        if depth == 4:
            return
        for n in NAMES:
            if rng.random() < (0.75 if depth < 2 else 0.45):
                c = os.path.join(d, n)
                os.mkdir(c)
                dirs.append(c)
                grow(c, depth + 1)
    grow(top, 0)
    stores = {}
    for d in dirs:
        r = rng.random()
        if d == top or (os.path.dirname(d) == top and rng.random() < 0.5):
            r = 1.0                                               # keep some subtrees without any enclosing store
        if r < 0.30:
            k = rng.choice(['plans', 'legacy', 'both', 'empty', 'nolock_legacy', 'both_empty_plans'])
            make_store(d, k, lines)
            stores[d] = k
            if rng.random() < 0.5:
                os.mkdir(os.path.join(d, '.ergo', 'x'))          # a directory inside the store
            if rng.random() < 0.15:
                os.mkdir(os.path.join(d, '.ergo', '.ergo'))      # a nested .ergo inside the store directory
        elif r < 0.42:
            write(os.path.join(d, '.ergo'), 'not a dir\n')        # .ergo is a plain file
        if rng.random() < 0.3:
            write(os.path.join(d, 'f.txt'), 'x\n')
    # fixed fixtures so that every store kind and the corner cases are always present
    for name, k in [('s_plans', 'plans'), ('s_legacy', 'legacy'), ('s_both', 'both'), ('s_empty', 'empty'), ('s_both_ep', 'both_empty_plans')]:
        d = os.path.join(top, name)
        os.makedirs(os.path.join(d, 'sub', 'deep'))
        make_store(d, k, lines)
        stores[d] = k
        os.mkdir(os.path.join(d, '.ergo', 'x'))
    d = os.path.join(top, 's_file')
    os.makedirs(os.path.join(d, 'sub'))
    write(os.path.join(d, '.ergo'), '')
    write(os.path.join(d, 'f.txt'), '')
    os.makedirs(os.path.join(top, 's_plans', 'sub', 'inner'))
    make_store(os.path.join(top, 's_plans', 'sub', 'inner'), 'legacy', lines)
    stores[os.path.join(top, 's_plans', 'sub', 'inner')] = 'legacy'
    return top, stores


def scan(top):
    """(dirs, files) of the real tree, plus the real ancestors up to / (which must not contain .ergo)."""
    dirs, files = [], []
    p = top
    while True:
        par = os.path.dirname(p)
        if par == p:
            dirs.append(p)
            break
        assert not os.path.lexists(os.path.join(par, '.ergo')), 'ancestor %s has a .ergo; choose another SCRATCH' % par
        dirs.append(par)
        p = par
    for dp, dn, fn in os.walk(top):
        dirs.append(dp)
        for f in fn:
            files.append(os.path.join(dp, f))
    return sorted(set(dirs)), sorted(files)


def classify(rc, out, err):
    """-> ('Found', p) | ('ENotDirectory', p) | ('EStat', p) | ('ENoErgoDir',) | ('Other', text)"""
    if rc == 0:
        return ('Found', json.loads(out)['ergo_dir'])
    first = err.strip().splitlines()[0] if err.strip() else ''
    m = re.match(r'error: (.*) exists but is not a directory$', first)
    if m:
        return ('ENotDirectory', m.group(1))
    m = re.match(r'error: stat (.*): not a directory$', first)
    if m:
        return ('EStat', m.group(1))
    if first.startswith('error: no .ergo directory found'):
        return ('ENoErgoDir',)
    return ('Other', first)


def spellings(rng, cwd, all_dirs, top):
    """--dir values to try from cwd (None = no --dir)."""
    out = [None, '.', './', '..', '../', '.ergo', cwd, cwd + '/', cwd + '/.', 'nope', 'nope/deeper/..', 'f.txt', 'f.txt/z',
           '../' + os.path.basename(cwd), './../' + os.path.basename(cwd) + '/']
    subs = [d for d in all_dirs if os.path.dirname(d) == cwd]
    for s in subs[:3]:
        b = os.path.basename(s)
        out += [b, b + '/..', './' + b + '/../' + b, b + '//', os.path.join(cwd, b), b + '/.ergo', b + '/.ergo/x']
    for _ in range(4):
        t = rng.choice(all_dirs)
        out.append(t)                                   # absolute spelling of another directory
        out.append(os.path.relpath(t, cwd))             # relative spelling of the same
        out.append(os.path.relpath(t, cwd) + '/')
        out.append(os.path.join(cwd, os.path.relpath(t, cwd)))   # unclean absolute spelling cwd/../..
    return out


# ----------------------------------------------------------------------------- Coq emission
class Emit:
    def __init__(self):
        self.names, self.defs = {}, []

    def piece(self, s):
        if s not in self.names:
            self.names[s] = 'k%d' % len(self.names)
            assert all(32 <= ord(c) < 127 and c != '"' for c in s), s
            self.defs.append('Definition %s : string := "%s".' % (self.names[s], s))
        return self.names[s]

    def s(self, path):
        if path == '':
            return '""'
        return '(J [' + ';'.join(self.piece(x) if x else '""' for x in path.split('/')) + '])'

    def dres(self, r):
        if r[0] in ('Found', 'ENotDirectory', 'EStat'):
            return '(%s %s)' % (r[0], self.s(r[1]))
        if r[0] == 'ENoErgoDir':
            return 'ENoErgoDir'
        return 'EFuel'          # 'Other': never equal to a model result => reported


def coq_eval(body, tag):
    work = os.path.join(HERE, 'difftest_discovery_work')
    os.makedirs(work, exist_ok=True)
    vf = os.path.join(work, tag + '.v')
    write(vf, body)
    p = subprocess.run(['coqc', '-Q', os.path.join(COQDIR, 'theories'), 'Ergo', '-w', '-all', vf],
                       capture_output=True, text=True, timeout=3600)
    if p.returncode != 0:
        print(p.stdout[-3000:], p.stderr[-3000:])
        sys.exit(2)
    out = re.sub(r'\s+', ' ', p.stdout)
    res = {}
    for name in re.findall(r'(\w+) = ', out):
        m = re.search(name + r' = (.*?) : list N', out)
        if m:
            assert m.group(1).strip() == '[]' or re.search(r'\d', m.group(1)), m.group(1)[:300]
            res[name] = [int(x) for x in re.findall(r'(\d+)%N', m.group(1))]
    return res


HEADER = '''From Ergo Require Import Base Text Path PathFacts Discovery.
From Coq Require Import Ascii String NArith List.
Import ListNotations.
Local Open Scope string_scope.
Definition J (l : list string) : string := String.concat "/" l.
'''


def snapshot_store(d):
    """Everything observable about a project dir: file listing with hashes + what `list --all` shows."""
    listing = []
    for dp, dn, fn in os.walk(d):
        for x in sorted(dn):
            listing.append((os.path.relpath(os.path.join(dp, x), d), 'dir'))
        for x in sorted(fn):
            with open(os.path.join(dp, x), 'rb') as fh:
                listing.append((os.path.relpath(os.path.join(dp, x), d), hashlib.sha256(fh.read()).hexdigest()))
    rc, out, err = run(['--json', 'list', '--all'], d)
    return sorted(listing), (rc, out, err.strip().splitlines()[:1])


def main():
    rng = random.Random(SEED)
    os.makedirs(ROOT, exist_ok=True)
    lines = {'L': event_line('LEGACY-ITEM'), 'P': event_line('PLANS-ITEM')}
    top, stores = build_tree(rng, lines)
    dirs, files = scan(top)
    tree_dirs = [d for d in dirs if d.startswith(top)]
    problems = []

    # ---------------------------------------------------------------- 1. discovery
    queries = []   # (cwd as given in PWD, dirflag or None, observed)
    for cwd in tree_dirs:
        pwds = [cwd]
        if rng.random() < 0.3:
            pwds.append(cwd + '/.')                       # an unclean but valid $PWD
        if rng.random() < 0.3 and cwd != top:
            pwds.append(os.path.dirname(cwd) + '/./' + os.path.basename(cwd) + '//')
        for pwd in pwds:
            sp = spellings(rng, cwd, tree_dirs, top)
            if pwd != cwd:
                sp = sp[:6]
            for d in sp:
                args = (['--dir', d] if d is not None else []) + ['--json', 'where']
                queries.append((pwd, d, (args, cwd)))
    import concurrent.futures as _cf
    with _cf.ThreadPoolExecutor(max_workers=12) as ex:       # the real tool answers the queries in parallel (read-only)
        obs_all = list(ex.map(lambda q: classify(*run(q[2][0], q[2][1], pwd=q[0])), queries))
    queries = [(q[0], q[1], o) for q, o in zip(queries, obs_all)]
    # Go's os.Getwd ignores a $PWD that is not the same directory; sanity check that ours were accepted:
    em = Emit()
    rows = []
    for i, (pwd, d, obs) in enumerate(queries):
        if os.environ.get('SELFTEST') and i in (3, 77, 500):
            obs = ('Found', '/nonsense') if obs[0] != 'Found' else ('ENoErgoDir',)
            queries[i] = (pwd, d, obs)
        rows.append('(%d%%N, %s, %s, %s)' % (i, em.s(pwd), '""' if d is None else em.s(d), em.dres(obs)))
    body = []
    fs_dirs = '[' + ';'.join(em.s(x) for x in dirs) + ']'
    fs_files = '[' + ';'.join(em.s(x) for x in files) + ']'
    body.append('Definition F : fs := fs_of %s %s.' % (fs_dirs, fs_files))
    BAD = '''Definition bad (r : N * string * string * dres) : list N :=
  let '(i, cwd, d, obs) := r in if bool_decide (ergo_dir F cwd d = obs) then [] else [i].
Definition where_bad := Eval vm_compute in flat_map bad rows.
Print where_bad.'''
    NSH = 8
    shard_rows = [rows[k::NSH] for k in range(NSH)]
    fdef = body[0]
    body.append('Definition rows : list (N * string * string * dres) := [\n' + ';\n'.join(shard_rows[0]) + '].')
    body.append(BAD)

    # ---------------------------------------------------------------- 2. log choice: which file does `list` read?
    store_rows, observed_log = [], {}
    for j, (d, kind) in enumerate(sorted(stores.items())):
        rc, out, err = run(['--json', 'list', '--all'], d)
        titles = [t['title'] for t in json.loads(out)] if rc == 0 else None
        obs = {('PLANS-ITEM',): 'plans.jsonl', ('LEGACY-ITEM',): 'events.jsonl', (): 'none'}.get(tuple(titles or ()), 'ERR ' + err)
        observed_log[d] = obs
        e = os.path.join(d, '.ergo')
        # model: the chosen path; "none" (empty list shown) is what a missing chosen file looks like
        exp = {'plans.jsonl': em.s(e + '/plans.jsonl'), 'events.jsonl': em.s(e + '/events.jsonl')}.get(obs)
        if exp is None:
            if obs == 'none' and kind in ('empty', 'both_empty_plans'):
                exp = em.s(e + '/plans.jsonl')           # default for a store without any log
            else:
                problems.append('store %s (%s): list --all gave %s' % (d, kind, obs))
                continue
        store_rows.append('(%d%%N, %s, %s)' % (j, em.s(e), exp))
    body2 = ['Definition srows : list (N * string * string) := [\n' + ';\n'.join(store_rows) + '].',
             '''Definition sbad (r : N * string * string) : list N :=
  let '(i, e, exp) := r in if String.eqb (get_events_path F e) exp then [] else [i].
Definition log_bad := Eval vm_compute in flat_map sbad srows.
Print log_bad.''']

    # ---------------------------------------------------------------- 3. init on existing stores / fresh dirs / over a file
    init_rows = []
    targets = [(d, None, None) for d in sorted(stores)]                                   # `ergo init` inside the project
    targets += [(os.path.join(top, 's_plans'), '../s_legacy', None), (top, 's_both/', None), (top, './s_empty/.', None)]   # `ergo init <dir>`
    targets += [(top, 'fresh/deeper', None), (os.path.join(top, 's_file'), None, None), (top, 's_file/f.txt', None), (top, 's_file/sub', None)]
    # `--dir X init`: the global flag does not redirect init (it initialises the current directory); every spelling of
    # the store's own .ergo, the project, a sub-directory
    for d in sorted(stores)[:4]:
        targets += [(d, None, '.ergo'), (d, None, '.ergo/'), (d, None, d + '/.ergo/'), (d, None, '.'), (d, None, d), (d, None, './.ergo/.')]
    snap_before = {}
    for j, (cwd, arg, dflag) in enumerate(targets):
        proj = os.path.normpath(os.path.join(cwd, arg or '.'))
        target = os.path.join(proj, '.ergo')
        before = snapshot_store(proj) if os.path.isdir(proj) else None
        # the model must be asked about the fs as it is NOW (earlier inits changed it)
        dnow, fnow = scan(top)
        rc, out, err = run((['--dir', dflag] if dflag else []) + ['init'] + ([arg] if arg else []), cwd)
        probe = [os.path.join(target, x) for x in ('plans.jsonl', 'events.jsonl', 'lock')] + [target, proj]
        if rc == 0:
            obs = 'Some [' + ';'.join('(%s, %s)' % ('true' if os.path.isdir(p) else 'false', 'true' if os.path.isfile(p) else 'false') for p in probe) + ']'
        else:
            obs = 'None'
        init_rows.append('(%d%%N, fs_of [%s] [%s], %s, [%s], %s)' % (
            j, ';'.join(em.s(x) for x in dnow), ';'.join(em.s(x) for x in fnow), em.s(target),
            ';'.join(em.s(p) for p in probe), obs))
        if rc == 0 and before is not None and proj in stores:
            after = snapshot_store(proj)
            gone = [x for x in before[0] if x not in after[0]]
            new = [x[0] for x in after[0] if x not in before[0]]
            if gone:
                problems.append('init in %s (%s): changed or removed %s' % (proj, stores[proj], gone))
            if [n for n in new if n != '.ergo/lock' and not (stores[proj] == 'empty' and n == '.ergo/plans.jsonl')]:
                problems.append('init in %s (%s): unexpectedly created %s' % (proj, stores[proj], new))
            if before[1] != after[1]:
                problems.append('init in %s (%s): list --all changed: %r -> %r' % (proj, stores[proj], before[1], after[1]))
            # second init: nothing at all changes
            run((['--dir', dflag] if dflag else []) + ['init'] + ([arg] if arg else []), cwd)
            again = snapshot_store(proj)
            if again != after:
                problems.append('second init in %s changed something' % proj)
    body3 = ['Definition irows : list (N * fs * string * list string * option (list (bool * bool))) := [\n' + ';\n'.join(init_rows) + '].',
             '''Definition ibad (r : N * fs * string * list string * option (list (bool * bool))) : list N :=
  let '(i, f, t, ps, obs) := r in
  let got := match init f t with Some g => Some (map (fun p => (is_dir g p, is_file g p)) ps) | None => None end in
  if bool_decide (got = obs) then [] else [i].
Definition init_bad := Eval vm_compute in flat_map ibad irows.
Print init_bad.''']

    full = '\n'.join([HEADER] + em.defs + body + body2 + body3) + '\n'
    import concurrent.futures as _cf

    def used_defs(text):
        return list(em.defs)      # path pieces: few and cheap
    jobs = [(full, 'DiscoveryCases')]
    for k in range(1, NSH):
        if shard_rows[k]:
            rtxt = 'Definition rows : list (N * string * string * dres) := [\n' + ';\n'.join(shard_rows[k]) + '].'
            jobs.append(('\n'.join([HEADER] + used_defs(fdef + rtxt) + [fdef, rtxt, BAD]) + '\n', 'DiscoveryCases_w%d' % k))
    with _cf.ThreadPoolExecutor(max_workers=NSH) as ex:
        outs = list(ex.map(lambda j: coq_eval(*j), jobs))
    res = outs[0]
    for o in outs[1:]:
        res['where_bad'] = res.get('where_bad', []) + o.get('where_bad', [])
    kinds = {}
    for _, _, o in queries:
        kinds[o[0]] = kinds.get(o[0], 0) + 1
    print('tree: %d dirs, %d files, %d stores %s' % (len(tree_dirs), len(files), len(stores),
          json.dumps({k: list(stores.values()).count(k) for k in set(stores.values())}, sort_keys=True)))
    print('where queries: %d, observed outcomes %s' % (len(queries), json.dumps(kinds, sort_keys=True)))
    print('where disagreements: %d' % len(res['where_bad']))
    for i in res['where_bad'][:40]:
        pwd, d, obs = queries[i]
        print('  #%d PWD=%s --dir %r: real tool %r   reproduce: (cd %s && PWD=%s %s %s--json where)' % (
            i, pwd, d, obs, pwd, pwd, ERGO, ('--dir %s ' % d) if d is not None else ''))
    print('log-choice checks: %d, disagreements: %d %s' % (len(store_rows), len(res['log_bad']),
          [sorted(stores.items())[i] for i in res['log_bad']]))
    print('init checks: %d, model disagreements: %d %s' % (len(init_rows), len(res['init_bad']), [targets[i] for i in res['init_bad']]))
    print('init/property problems on the real tool: %d' % len(problems))
    for p in problems:
        print('  ' + p)
    others = [(q, o) for q in queries for o in [q[2]] if o[0] == 'Other']
    if others:
        print('unclassified real-tool errors: %d, e.g. %r' % (len(others), others[0]))
    bad = len(res['where_bad']) + len(res['log_bad']) + len(res['init_bad']) + len(problems)
    sys.exit(1 if bad else 0)


if __name__ == '__main__':
    main()
