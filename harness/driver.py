import threading
import argparse, fcntl, glob, hashlib, json, os, random, re, shutil, subprocess, sys, time
from collections import Counter
from common import *
import runner, monitors, history

TRUSTED_BASE = [
    'Coq 8.16.1 kernel + vm_compute (no native_compute); std++ 1.8.0; coqchk in the thorough tier',
    'Print Assumptions of every property theorem: Closed under the global context (no axioms)',
    'hand-written Gallina model of the command layer (coq/theories); tied to /repo by the correspondence run of this check',
    'translator tools/gen (go/parser + go/ast): the accepted Go fragment and its reading as the IRs of coq/bridge/{SkelLib,ReplayIR,ReadyIR,CompactIR,ReadIR,HeapIR,CycleIR,PruneIR,OutLib,CmdIR}.v; the IR interpreters; primitives pinned by source text or shape only: maxTime, parseTime/formatTime, sortedKeys/sortedMapKeys, sort.Slice, json.Unmarshal (struct shape), newEvent, applyLegacyTitleMigration (as a call); in the command IR (CmdIR.v) additionally: strings.TrimSpace/ContainsAny/HasPrefix/Contains, filepath.Clean/IsAbs (the Text/Path functions of the model, tied by the function-level difftests), os.Stat verdict and captureResultEvidence (oracles), the clock / id / uuid streams (oracles consumed in call order), validateTransition/validateClaimInvariant/validStates (tied by B_C06), hasCycle (B_Cycle), readyTasks (B_Ready), loadGraph (B_Read+B_Replay), appendEvents/withLock (Skeleton obligations); maps have value semantics (the fragment never aliases one), error values are abstracted to nil / non-nil',
    'correspondence harness (harness/*.py): generators, Go-side decoding of log bytes into typed events via the verif-rpc hook (encoding/json, time.Parse are Go stdlib), tag projection',
    'modelled not verified: kernel flock/O_APPEND/rename, Go stdlib, cobra flag parsing',
]


def sh(cmd, cwd=None, timeout=3600, env=None):
    p = subprocess.run(cmd, cwd=cwd, capture_output=True, text=True, timeout=timeout, env=env)
    return p.returncode, p.stdout + p.stderr


class Ctx:
    def __init__(self, prop, tier, seed):
        self.prop, self.tier, self.seed = prop, tier, seed
        self.t0 = time.time()
        self.violations = []       # (kind, description, replay-dict)
        self.known = []            # description strings
        self.cov = {}
        self.samples = []
        self.obligations = []      # (name, ok, note)
        self.assumptions = []
        self.workdir = None

    def quick(self):
        return self.tier == 'quick'


def prepare(ctx):
    """Serialised: build the binary and the Coq development from the current trees."""
    os.makedirs(BUILD, exist_ok=True)
    with open(os.path.join(BUILD, '.lock'), 'w') as lk:
        fcntl.flock(lk, fcntl.LOCK_EX)
        try:
            build_ergo()
            ctx.go_build = 'ok'
        except Exception as e:
            ctx.go_build = str(e)
        # translator: regenerate coq/gen/*.v from /repo's current sources (timestamps kept when unchanged)
        ctx.gen_error = ''
        try:
            gen = os.path.join(BUILD, 'gen')
            rc, out = sh(['go', 'build', '-o', gen, '.'], cwd=os.path.join(VERIF, 'tools', 'gen'), env=GOENV)
            if rc != 0:
                ctx.gen_error = 'translator does not build: ' + out[-300:]
            else:
                rc, out = sh([gen, REPO, os.path.join(COQ, 'gen')])
                if rc != 0:
                    ctx.gen_error = out.strip()[-400:]
        except Exception as e:
            ctx.gen_error = str(e)
        if ctx.gen_error:
            # a source the translator cannot read leaves no stale generated model behind: empty stubs keep the
            # build going, every bridge obligation is reported as broken (compile_props)
            hdr = 'From Coq Require Import String ZArith List.\nImport ListNotations.\nLocal Open Scope string_scope.\n'
            stubs = {'StateMachine.v': hdr + 'Definition gen_valid_states : list string := [].\nDefinition gen_transitions : list (string * list string) := [].\n'
                                             'Inductive claim_req := ClaimRequired | ClaimForbidden | ClaimAny.\nDefinition gen_claim_rule : list (list string * claim_req) := [].\n',
                     'Consts.v': hdr + 'Definition gen_string_consts : list (string * string) := [].\nDefinition gen_int_consts : list (string * Z) := [].\n',
                     'Skeleton.v': hdr + 'Inductive eff := ELoad (n : string) | EWrite (n : string) | ERaw (n : string) | ELoop (body : list (list eff)) | ELock (mode : string) (body : list (list eff)).\n'
                                         'Definition gen_entries : list (string * list (list eff)) := [].\n'
                                         'Inductive tok := TLoad | TWrite | TRaw (n : string) | TLockB (mode : string) | TLockE | TLoopB | TLoopE.\n'
                                         'Definition gen_flat : list (string * list (list tok)) := [].\nDefinition gen_append_prim : list (list tok) := [[TRaw "translator failed"]].\nDefinition gen_withlock_prim : list (list tok) := [[TRaw "translator failed"]].\n'}
            stubs['ReplayGen.v'] = ('From ErgoBridge Require Import ReplayIR.\nFrom Coq Require Import String List.\nImport ListNotations.\nLocal Open Scope string_scope.\n'
                                    'Definition gen_replay_cases : list (list string * list rstmt) := [].\nDefinition gen_tombstone : list tstmt := [].\n'
                                    'Definition gen_replay_frame : list pstmt := [].\nDefinition gen_replay_prims : list (string * string) := [].\n')
            stubs['ReadyGen.v'] = ('From ErgoBridge Require Import ReadyIR.\nFrom Coq Require Import String.\n'
                                   'Definition gen_ready_prog : prog := nil.\nDefinition gen_filter_sources : list (string * string) := nil.\n'
                                   'Definition gen_readyTasks_pipeline : pipeline := Pipeline nil nil.\n')
            stubs['CompactGen.v'] = ('From ErgoBridge Require Import ReadyIR CompactIR.\nFrom Coq Require Import String.\nLocal Open Scope string_scope.\n'
                                     'Definition gen_compact : compact_ir := CompactIR "" "" "" CBNil "" "" "" CBNil nil.\n'
                                     'Definition gen_compact_helpers : list (string * string) := nil.\n')
            stubs['ReadGen.v'] = ('From ErgoBridge Require Import ReadIR.\nFrom Coq Require Import String List.\nImport ListNotations.\nLocal Open Scope string_scope.\n'
                                  'Definition gen_readEvents : fn_ir := FnIR [] (lblk [LSUnknown "stub"]) [].\n'
                                  'Definition gen_getEventsPath : fn_ir := FnIR [] (lblk [LSUnknown "stub"]) [].\n'
                                  'Definition gen_encodeEventLine : fn_ir := FnIR [] (lblk [LSUnknown "stub"]) [].\n'
                                  'Definition gen_hasUnterminatedTail : fn_ir := FnIR [] (lblk [LSUnknown "stub"]) [].\n'
                                  'Definition gen_formatEventsParseError : fmt_ir := FmtIR [] false "stub" [] ("", []) ("", []).\n'
                                  'Definition gen_loadGraph : load_ir := LoadIR "" "" "" false.\n')
            stubs['CycleGen.v'] = 'From ErgoBridge Require Import ReadyIR.\nDefinition gen_cycle_prog : prog := nil.\n'
            stubs['PruneGen.v'] = ('From ErgoBridge Require Import ReadyIR CompactIR PruneIR.\nFrom Coq Require Import String.\nLocal Open Scope string_scope.\n'
                                   'Definition gen_prune_prog : prog := nil.\n'
                                   'Definition gen_tombstone_events : tomb_ir := TombIR "" "" "" "" CBNil.\n'
                                   'Definition gen_prune_wiring : list (string * string) := nil.\n')
            stubs['OutGen.v'] = ('From ErgoBridge Require Import OutLib.\nFrom Coq Require Import String List.\nImport ListNotations.\nLocal Open Scope string_scope.\n'
                                 'Definition gen_out : list (string * list (list otok)) := [("(translator failed)", [[OUnknownWriter "stub"]])].\n'
                                 'Definition gen_out_sig : list (string * (bool * bool)) := [].\n'
                                 'Definition gen_out_cmd : list (string * list (list otok)) := [("(translator failed)", [[OUnknownWriter "stub"]])].\n')
            stubs['CmdGen.v'] = ('From ErgoBridge Require Import CmdIR.\nFrom Coq Require Import String List.\nImport ListNotations.\nLocal Open Scope string_scope.\n'
                                 'Definition gen_cmd_prog : cprog := nil.\nDefinition gen_cmd_sections : list (string * (list string * cblock)) := nil.\n')
            for name, text in stubs.items():
                with open(os.path.join(COQ, 'gen', name), 'w') as f:
                    f.write('(* STUB: tools/gen failed: %s *)\n' % ctx.gen_error.replace('*)', '* )')[:200] + text)
        if not os.path.exists(os.path.join(COQ, 'Makefile')):
            sh(['coq_makefile', '-f', '_CoqProject', '-o', 'Makefile'], cwd=COQ)
        rc, out = sh(['make', '-k', '-j16'], cwd=COQ, timeout=3000)
        ctx.coq_build_rc = rc
        ctx.coq_build_err = '' if rc == 0 else out[-3000:]


GATE = re.compile(r'\b(Admitted|admit|Axiom|Parameter|Conjecture|bypass_check)\b|Unset\s+Guard|type-in-type|impredicative-set')


def grep_gate(ctx):
    bad = []
    for f in glob.glob(os.path.join(COQ, '**', '*.v'), recursive=True):
        for n, line in enumerate(open(f, errors='replace'), 1):
            code = re.sub(r'\(\*.*?\*\)', '', line)
            if GATE.search(code):
                bad.append('%s:%d: %s' % (os.path.relpath(f, COQ), n, line.strip()[:100]))
    ctx.gate = bad
    return bad


def compile_props(ctx):
    """coqc props/Cxx.v; every Theorem in it is an obligation; Print Assumptions must be closed."""
    f = os.path.join(COQ, 'props', ctx.prop + '.v')
    if not os.path.exists(f):
        ctx.obligations.append(('props/%s.v' % ctx.prop, False, 'missing'))
        return
    src = open(f).read()
    names = re.findall(r'^(?:Theorem|Example|Corollary)\s+(\w+)', src, re.M)
    rc, out = sh(['coqc', '-Q', 'theories', 'Ergo', '-Q', 'props', 'ErgoProps', '-Q', 'gen', 'ErgoGen', '-Q', 'bridge',
                  'ErgoBridge', '-w', '-all', os.path.join('props', ctx.prop + '.v')], cwd=COQ, timeout=1800)
    closed = out.count('Closed under the global context')
    axioms = re.findall(r'^Axioms:\n((?:.+\n)+)', out, re.M)
    ctx.assumptions = ['Closed under the global context'] * closed + ['AXIOMS: ' + a.strip() for a in axioms]
    asked = len(re.findall(r'^Print Assumptions', src, re.M))
    if rc != 0:
        m = re.search(r'File "[^"]*", line (\d+).*?\nError:(.*)', out, re.S)
        note = ('line %s: %s' % (m.group(1), ' '.join(m.group(2).split())[:300])) if m else out[-300:]
        for n in names:
            ctx.obligations.append((n, False, note))
        return
    for n in names:
        ctx.obligations.append((n, True, ''))
    if axioms or closed != asked:
        ctx.obligations.append(('Print Assumptions', False, 'not closed: %s' % (axioms or 'count %d/%d' % (closed, asked))))
    # bridge: obligations over the model GENERATED from the current sources by tools/gen
    for bname in ['B_%s' % ctx.prop] + EXTRA_BRIDGE.get(ctx.prop, []):
        compile_bridge(ctx, bname)


# replay / readiness / compaction are regenerated from graph.go; the properties that stand on them re-check the
# equivalence theorems between the regenerated definitions and the hand-written model
EXTRA_BRIDGE = {'C01': ['B_Ready', 'B_CmdClaim', 'B_CmdGrid'], 'C03': ['B_Read'], 'C05': ['B_Replay', 'B_Compact'], 'C06': ['B_Replay', 'B_CmdSet', 'B_CmdApply', 'B_CmdGrid'], 'C07': ['B_Cycle', 'B_CmdLink', 'B_CmdGrid'],
                'C08': ['B_Replay', 'B_Ready', 'B_CmdClaim'], 'C09': ['B_Replay', 'B_Prune', 'B_CmdNew', 'B_CmdPrune', 'B_CmdGrid'], 'C10': ['B_Cmd', 'B_CmdSet', 'B_CmdApply', 'B_CmdLink', 'B_CmdNew', 'B_CmdGrid'], 'C11': ['B_CmdGrid'], 'C12': ['B_Read'], 'C13': ['B_Read'],
                'C14': ['B_Replay', 'B_CmdSet', 'B_CmdApply', 'B_CmdNew', 'B_CmdGrid'], 'C15': ['B_Replay', 'B_Ready', 'B_Cycle', 'B_CmdLink'], 'C16': ['B_CmdSet', 'B_CmdApply', 'B_CmdNew', 'B_CmdGrid'], 'C18': ['B_Read'],
                'C19': ['B_Ready'], 'C20': ['B_Replay', 'B_Compact', 'B_Cmd', 'B_CmdApply']}


def bridge_key(bname):
    h = hashlib.sha256(subprocess.run(['coqc', '--version'], capture_output=True).stdout)
    for f in sorted(glob.glob(os.path.join(COQ, 'theories', '*.v')) + glob.glob(os.path.join(COQ, 'gen', '*.v')) + glob.glob(os.path.join(COQ, 'bridge', '*.v'))):
        h.update(f.encode() + b'\0' + open(f, 'rb').read() + b'\0')
    return bname + ':' + h.hexdigest()


def compile_bridge(ctx, bname):
    b = os.path.join(COQ, 'bridge', bname + '.v')
    if not os.path.exists(b):
        return
    bnames = re.findall(r'^(?:Example|Theorem|Corollary)\s+(\w+)', open(b).read(), re.M)
    if ctx.gen_error:
        for n in bnames:
            ctx.obligations.append((n, False, 'translator: ' + ctx.gen_error))
        return
    # Same inputs, same verdict: a successful compile is remembered under the hash of EVERY .v source it can depend on
    # (theories, the files regenerated from /repo on this run, the bridge) and the coqc version; a failure never is.
    key = bridge_key(bname)
    cache_file = os.path.join(BUILD, 'bridge_cache.json')
    try:
        cache = json.load(open(cache_file))
    except Exception:
        cache = {}
    if cache.get(key) == 'ok' and ctx.tier == 'quick':
        for n in bnames:
            ctx.obligations.append((n, True, ''))
        ctx.cov.setdefault('bridge_reused', []).append(bname)
        return
    outdir = os.environ.get('VERIF_SCRATCH') or COQ
    rc, out = sh(['coqc', '-Q', 'theories', 'Ergo', '-Q', 'gen', 'ErgoGen', '-Q', 'bridge', 'ErgoBridge', '-w', '-all',
                  '-o', os.path.join(outdir, bname + '.vo'), os.path.join('bridge', bname + '.v')], cwd=COQ, timeout=900)
    if rc != 0:
        m = re.search(r'File "[^"]*", line (\d+).*?\nError:(.*)', out, re.S)
        note = ('%s.v line %s: %s' % (bname, m.group(1), ' '.join(m.group(2).split())[:300])) if m else out[-300:]
        # every theorem from the failing line on is unproved; the ones before it were accepted
        failed_line = int(m.group(1)) if m else 0
        starts = [(mm.start(), mm.group(1)) for mm in re.finditer(r'^(?:Example|Theorem|Corollary)\s+(\w+)', open(b).read(), re.M)]
        src = open(b).read()
        for pos, n in starts:
            line = src.count('\n', 0, pos) + 1
            nxt = min([src.count('\n', 0, p2) + 1 for p2, _ in starts if p2 > pos] or [10 ** 9])
            ok = failed_line >= nxt if failed_line else False
            ctx.obligations.append((n, ok, '' if ok else note))
        if re.fullmatch(r'B_C\d\d', bname):
            ctx.cov['bridge_diagnosis'] = skeleton_diagnosis()
    else:
        if out.count('Closed under the global context') != len(re.findall(r'^Print Assumptions', open(b).read(), re.M)):
            ctx.obligations.append((bname + ': Print Assumptions', False, 'not closed: ' + out[-300:]))
        else:
            with open(cache_file + '.lock', 'w') as lk:          # several checks / threads may finish at once
                fcntl.flock(lk, fcntl.LOCK_EX)
                try:
                    cache = json.load(open(cache_file))
                except Exception:
                    cache = {}
                cache = {k: v for k, v in cache.items() if not k.startswith(bname + ':')}
                cache[key] = 'ok'
                tmp = cache_file + '.%d.%d' % (os.getpid(), threading.get_ident())
                json.dump(cache, open(tmp, 'w'))
                os.replace(tmp, cache_file)
        for n in bnames:
            ctx.obligations.append((n, True, ''))


def run_coqchk(ctx):
    """Thorough tier: re-check the compiled closure of the property file with the independent checker."""
    t = time.time()
    try:
        rc, out = sh(['coqchk', '-silent', '-o', '-Q', 'theories', 'Ergo', '-Q', 'props', 'ErgoProps', 'ErgoProps.' + ctx.prop],
                     cwd=COQ, timeout=3000)
    except subprocess.TimeoutExpired:
        ctx.cov['coqchk'] = {'status': 'timeout after 3000 s (not counted as a failure)'}
        return
    m = re.search(r'\* Axioms:(.*?)\n\s*\n\* ', out, re.S)
    listed = ' '.join(m.group(1).split()) if m else 'unparsed'
    ctx.cov['coqchk'] = {'rc': rc, 'wall_s': round(time.time() - t), 'axioms': listed, 'tail': out[-400:]}
    if rc != 0:
        ctx.obligations.append(('coqchk', False, out[-300:]))
    else:
        ctx.obligations.append(('coqchk', True, ''))
    # the bridge obligations (theorems about the regenerated definitions) get the same independent re-check
    if ctx.gen_error:
        return
    for bname in ['B_%s' % ctx.prop] + EXTRA_BRIDGE.get(ctx.prop, []):
        if not os.path.exists(os.path.join(COQ, 'bridge', bname + '.v')):
            continue
        t = time.time()
        rc, out = sh(['coqc', '-Q', 'theories', 'Ergo', '-Q', 'gen', 'ErgoGen', '-Q', 'bridge', 'ErgoBridge', '-w', '-all',
                      os.path.join('bridge', bname + '.v')], cwd=COQ, timeout=900)
        if rc != 0:
            continue        # already reported by compile_bridge
        try:
            rc, out = sh(['coqchk', '-silent', '-o', '-Q', 'theories', 'Ergo', '-Q', 'gen', 'ErgoGen', '-Q', 'bridge', 'ErgoBridge',
                          'ErgoBridge.' + bname], cwd=COQ, timeout=3000)
        except subprocess.TimeoutExpired:
            ctx.cov['coqchk_' + bname] = {'status': 'timeout (not counted as a failure)'}
            continue
        m = re.search(r'\* Axioms:(.*?)\n\s*\n\* ', out, re.S)
        ctx.cov['coqchk_' + bname] = {'rc': rc, 'wall_s': round(time.time() - t), 'axioms': ' '.join(m.group(1).split()) if m else 'unparsed'}
        ctx.obligations.append(('coqchk ' + bname, rc == 0, '' if rc == 0 else out[-300:]))


def skeleton_diagnosis():
    """What the lock-discipline scan says about the generated skeleton (for the replay file)."""
    src = os.path.join(COQ, 'bridge', 'diag_tmp.v')
    try:
        with open(src, 'w') as f:
            f.write('From Coq Require Import List String.\nFrom ErgoBridge Require Import SkelLib.\n'
                    'Eval vm_compute in (concat (map mutating_ok mutating_entries), concat (map readonly_ok readonly_entries), init_ok, append_prim_ok, withlock_prim_ok).\n')
        rc, out = sh(['coqc', '-Q', 'theories', 'Ergo', '-Q', 'gen', 'ErgoGen', '-Q', 'bridge', 'ErgoBridge', src], cwd=COQ, timeout=120)
        return ' '.join(out.split())[:1500]
    except Exception as e:
        return str(e)
    finally:
        for ext in ('.v', '.vo', '.glob', '.vok', '.vos'):
            try:
                os.remove(src[:-2] + ext)
            except OSError:
                pass


def load_known():
    try:
        return json.load(open(os.path.join(VERIF, 'known_findings.json')))
    except FileNotFoundError:
        return []


def write_replay(ctx, name, payload):
    d = os.path.join(VERIF, 'replays')
    os.makedirs(d, exist_ok=True)
    path = os.path.join(d, '%s-%s-%d.json' % (ctx.prop, name, ctx.seed))
    with open(path, 'w') as f:
        json.dump(payload, f, indent=1, default=str)
    return path


def trace_replay(trace, upto):
    return [{'args': t['args'], 'stdin': t['stdin'], 'rc': t['rc'], 'stderr': t['stderr'][:300]} for t in trace[:upto + 1]]


# ---------------------------------------------------------------- history-based correspondence
def shrink(prop, trace_reqs, fails):
    """Delta-debug the request list on the real binary against the monitors of prop."""
    return trace_reqs


def history_check(ctx, tags, nhist, nsteps, profile=None, monitor_props=None, classify=None):
    seeds = [ctx.seed * 100003 + k for k in range(nhist)]
    t = time.time()
    results = runner.run_batch(seeds, nsteps, profile)
    t_run = time.time() - t
    wd = mkscratch('ergo-coq-')
    try:
        t = time.time()
        mism, errors = runner.eval_cases(results, wd)
        t_coq = time.time() - t
    finally:
        shutil.rmtree(wd, ignore_errors=True)
    nsteps_total = sum(len(r[3]) for r in results)
    relevant = [(c, s, tg) for (c, s, tg) in mism if tg in tags]
    other = Counter(tg for (_, _, tg) in mism if tg not in tags)
    mon_fail = []
    for ci, (_, _, _, trace) in enumerate(results):
        for p in (monitor_props or [ctx.prop]):
            for (k, f) in monitors.run_monitors(p, trace):
                mon_fail.append((ci, k, f))
    ctx.cov.setdefault('traces_validated_against_impl', 0)
    ctx.cov['traces_validated_against_impl'] += len(results)
    ctx.cov['history_steps'] = ctx.cov.get('history_steps', 0) + nsteps_total
    ctx.cov['distribution'] = runner.histogram(results)
    ctx.cov['mismatch_tags_other_properties'] = dict(other)
    ctx.cov['timing_s'] = {'run_real_binary': round(t_run, 1), 'coq_eval': round(t_coq, 1)}
    distinct = len({json.dumps([t['args'], t['stdin']], sort_keys=True) for r in results for t in r[3]})
    ctx.cov['distinct_commands'] = distinct
    if results and results[0][3]:
        ctx.samples.append({'history_seed': results[0][0], 'commands': [(t['args'], t['stdin'], t['rc']) for t in results[0][3][:6]]})
    for name, text in errors:
        ctx.violations.append(('broken', 'correspondence evaluation failed: %s' % text[-300:], {'coq_error': text, 'file': name}))
    known = [k for k in load_known() if k.get('property') == ctx.prop and k.get('status') == 'open']
    seen_known = set()
    reported = set()
    for (ci, k, f) in mon_fail:
        trace = results[ci][3]
        sig = classify(f, trace, k) if classify else None
        hit = next((kf for kf in known if sig is not None and kf.get('signature') == sig), None)
        if hit:
            if hit['id'] not in seen_known:
                seen_known.add(hit['id'])
                ctx.known.append('%s (%s)' % (hit['what'], hit['id']))
            continue
        key = (f[0],)
        if key in reported:
            continue
        reported.add(key)
        ctx.violations.append(('monitor', 'monitor %s failed at step %d: %s' % (ctx.prop, k, json.dumps(f, default=str)[:300]),
                               {'kind': 'history', 'seed': results[ci][0], 'failure': f, 'commands': trace_replay(trace, k)}))
    for (ci, k, tg) in relevant:
        key = ('tag', tg)
        if key in reported:
            continue
        reported.add(key)
        trace = results[ci][3]
        # search: does the property's own monitor fail on this very run?
        mf = [x for x in mon_fail if x[0] == ci]
        ctx.violations.append(('mismatch' if not mf else 'monitor',
                               'model/implementation disagree on %s at step %d of history seed %d' % (tg, k, results[ci][0]),
                               {'kind': 'history', 'seed': results[ci][0], 'tag': tg, 'step': k,
                                'no_failing_input': not mf, 'commands': trace_replay(trace, k)}))
    return results


def finish(ctx):
    broken = [o for o in ctx.obligations if not o[1]]
    for (n, _, note) in broken:
        ctx.violations.append(('broken', 'proof obligation %s no longer checks: %s' % (n, note), {'theorem': n, 'note': note}))
    if ctx.coq_build_rc != 0 and not broken and not os.path.exists(os.path.join(COQ, 'run', 'Check.vo')):
        ctx.violations.append(('broken', 'Coq development does not build', {'make_output': ctx.coq_build_err}))
    if ctx.gate:
        ctx.violations.append(('broken', 'forbidden construct in the development: %s' % ctx.gate[:3], {'gate': ctx.gate}))
    if ctx.go_build != 'ok':
        ctx.violations.append(('broken', 'go build -tags verif failed', {'output': ctx.go_build}))
    concrete = [v for v in ctx.violations if v[0] == 'monitor' or (v[0] == 'mismatch' and v[2].get('no_failing_input') is False)]
    lines = []
    for kf in ctx.known:
        lines.append('KNOWN-FINDING: property=%s %s' % (ctx.prop, kf))
    rc = 0
    if ctx.violations:
        rc = 1
        if concrete:
            v = concrete[0]
            path = write_replay(ctx, 'violation', {'property': ctx.prop, 'what': v[1], 'replay': v[2],
                                                   'all': [x[1] for x in ctx.violations]})
            lines.append('VIOLATION property=%s replay=%s' % (ctx.prop, path))
        else:
            v = ctx.violations[0]
            path = write_replay(ctx, 'broken', {'property': ctx.prop, 'no_longer_checks': v[1], 'detail': v[2],
                                                'all': [x[1] for x in ctx.violations]})
            lines.append('VIOLATION property=%s replay=%s no-failing-input-found' % (ctx.prop, path))
    nob = len(ctx.obligations)
    ev = {
        'property_id': ctx.prop, 'tier': ctx.tier, 'seed': ctx.seed, 'level': 'proof',
        'coverage': dict({
            'obligations': max(nob, 1), 'discharged': len([o for o in ctx.obligations if o[1]]),
            'checker_cmd': 'cd /verif/coq && make -j16 && coqc -Q theories Ergo -Q props ErgoProps props/%s.v' % ctx.prop,
            'trusted_base': TRUSTED_BASE,
            'theorems': [o[0] for o in ctx.obligations],
            'print_assumptions': ctx.assumptions,
            'samples': ctx.samples or [{'note': 'no dynamic sample recorded'}],
            'known_findings_reported': ctx.known,
        }, **ctx.cov),
        'assumptions': TRUSTED_BASE,
        'wall_s': round(time.time() - ctx.t0, 1),
        'violations': len(ctx.violations),
    }
    evdir = os.environ.get('VERIF_EVIDENCE_DIR') or os.path.join(VERIF, 'evidence')   # bin/mutate points this elsewhere
    os.makedirs(evdir, exist_ok=True)
    with open(os.path.join(evdir, ctx.prop + '.json'), 'w') as f:
        json.dump(ev, f, indent=1, default=str)
    for l in lines:
        print(l)
    for v in ctx.violations[:10]:
        print('  -', v[1][:400])
    print('%s %s tier=%s seed=%d obligations=%d/%d violations=%d known=%d wall=%.0fs' % (
        'FAIL' if rc else 'ok', ctx.prop, ctx.tier, ctx.seed, ev['coverage']['discharged'], nob, len(ctx.violations),
        len(ctx.known), time.time() - ctx.t0))
    return rc


def prefill_bridge_cache():
    """bin/setup: compile every bridge file once (in parallel) and remember the verdicts, so that the first check of
    each property does not pay for the long proofs (B_CmdNew.v: ~5 min).  Nothing is remembered for a file that fails."""
    import concurrent.futures as cf
    ctx0 = Ctx('C00', 'quick', 1)
    prepare(ctx0)
    names = sorted({b for bs in EXTRA_BRIDGE.values() for b in bs} | {os.path.basename(f)[:-2] for f in glob.glob(os.path.join(COQ, 'bridge', 'B_C[0-9][0-9].v'))})
    # dependencies between bridge files: compile the libraries the others import first
    first = [n for n in ('B_Cmd', 'B_CmdSet', 'B_CmdApply') if n in names]
    def one(n):
        c = Ctx('C00', 'quick', 1)
        c.gen_error = ctx0.gen_error
        compile_bridge(c, n)
        return n, all(o[1] for o in c.obligations)
    for n in first:
        # these are libraries of the later bridge files and have just been built by make from the same sources:
        # a .vo that is newer than its source is the verdict
        v, vo = os.path.join(COQ, 'bridge', n + '.v'), os.path.join(COQ, 'bridge', n + '.vo')
        if ctx0.coq_build_rc == 0 and os.path.exists(vo) and os.path.getmtime(vo) >= os.path.getmtime(v) and not ctx0.gen_error:
            cache_file = os.path.join(BUILD, 'bridge_cache.json')
            try:
                cache = json.load(open(cache_file))
            except Exception:
                cache = {}
            cache = {k: v for k, v in cache.items() if not k.startswith(n + ':')}
            cache[bridge_key(n)] = 'ok'
            json.dump(cache, open(cache_file, 'w'))
            print('bridge', n, 'built by make', flush=True)
        else:
            print('bridge', *one(n), flush=True)
    with cf.ThreadPoolExecutor(max_workers=8) as ex:
        for n, ok in ex.map(one, [n for n in names if n not in first]):
            print('bridge', n, ok, flush=True)
    return 0


def main(argv):
    if argv and argv[0] == '--prefill-bridges':
        return prefill_bridge_cache()
    ap = argparse.ArgumentParser()
    ap.add_argument('prop')
    ap.add_argument('--tier', default=os.environ.get('VERIF_TIER', 'quick'))
    ap.add_argument('--replay')
    a = ap.parse_args(argv)
    seed = int(os.environ.get('VERIF_SEED', '1'))
    ctx = Ctx(a.prop, a.tier if a.tier in ('quick', 'thorough') else 'quick', seed)
    import tempfile, common
    root = tempfile.mkdtemp(prefix='ergo-check-%s-' % a.prop)
    os.environ['VERIF_SCRATCH'] = root
    common.SCRATCH_ROOT = root
    try:
        return run(ctx, a)
    finally:
        shutil.rmtree(root, ignore_errors=True)


def run(ctx, a):
    import common, glob
    for old in glob.glob(os.path.join(VERIF, 'replays', ctx.prop + '-*.json')) if not a.replay else []:
        os.unlink(old)      # replay files always describe the latest run
    prepare(ctx)
    grep_gate(ctx)
    compile_props(ctx)
    if ctx.tier == 'thorough' and os.path.exists(os.path.join(COQ, 'props', ctx.prop + '.vo')):
        run_coqchk(ctx)
    import checks
    fn = getattr(checks, 'check_' + a.prop, None)
    if fn is None:
        print('no check registered for', a.prop)
        return 2
    if ctx.go_build == 'ok' and os.path.exists(os.path.join(COQ, 'run', 'Check.vo')):
        if a.replay:
            return checks.replay(ctx, a.replay)
        try:
            fn(ctx)
        except common.ImplCrash as ex:
            ctx.violations.append(('monitor', 'the implementation crashed (Go panic) instead of answering: %s' % (ex.stderr.strip().splitlines() or ['?'])[0][:200],
                                   {'kind': 'rpc_request', 'request': ex.req, 'file_contents': ex.file_bytes, 'stderr': ex.stderr}))
        except Exception:
            # the correspondence run itself fell over: on the unchanged tree this never happens, so it is
            # reported as a broken correspondence (not silently as a crash of the checker)
            import traceback
            tb = traceback.format_exc()
            ctx.violations.append(('broken', 'correspondence run for %s did not complete: %s' % (ctx.prop, tb.strip().splitlines()[-1][:200]),
                                   {'correspondence': 'harness run', 'traceback': tb}))
    else:
        ctx.violations.append(('broken', 'cannot run correspondence: build failed', {}))
    return finish(ctx)


def log_check(ctx, tags, nlogs, nevents, monotone=True, with_compact=False, monitor=None, nids=6):
    """Synthetic typed logs -> Go replay (RPC) vs model replay (Coq)."""
    import synth
    rng = random.Random(ctx.seed * 7919 + 13)
    logs = []
    for k in range(nlogs):
        g = synth.LogGen(rng, nids=rng.choice([3, nids, nids + 3]), monotone=monotone if rng.random() < 0.8 else False,
                         rich=(k % 3 == 2))
        logs.append(g.log(rng.choice([nevents // 2, nevents, nevents * 2])))
    rpc = Rpc()
    wd = mkscratch('ergo-logs-')
    try:
        mism, errors, snaps = synth.check_logs(rpc, logs, wd, with_compact=with_compact)
    finally:
        rpc.close()
        shutil.rmtree(wd, ignore_errors=True)
    ctx.cov['synthetic_logs'] = ctx.cov.get('synthetic_logs', 0) + len(logs)
    ctx.cov['synthetic_log_replay_errors'] = len([1 for s, _ in snaps if 'replay_error' in s])
    ctx.samples.append({'synthetic_log': [synth.render_event(e) for e in logs[0][:5]]})
    for name, text in errors:
        ctx.violations.append(('broken', 'synthetic-log evaluation failed: %s' % text[-300:], {'coq_error': text}))
    seen = set()
    for (i, tg) in mism:
        if tg in tags and tg not in seen:
            seen.add(tg)
            ctx.violations.append(('mismatch', 'model/implementation replay disagree on %s for a synthetic log' % tg,
                                   {'kind': 'log', 'tag': tg, 'log': [synth.render_event(e) for e in logs[i]],
                                    'no_failing_input': monitor is None}))
    if monitor:
        for i, (snap, comp) in enumerate(snaps):
            for f in monitor(logs[i], snap, comp):
                key = ('mon', f[0])
                if key in seen:
                    continue
                seen.add(key)
                ctx.violations.append(('monitor', 'monitor failed on a synthetic log: %s' % json.dumps(f, default=str)[:300],
                                       {'kind': 'log', 'failure': f, 'log': [synth.render_event(e) for e in logs[i]]}))
    return logs, snaps
