"""CLI histories: model-guided generation of command sequences, execution on the real binary,
recording of every observable, and emission as Coq [case] terms."""
import json, os, random, stat, hashlib
from common import *

STATES = ['todo', 'doing', 'done', 'blocked', 'canceled', 'error']
AGENTS = ['alice', 'bob@host', 'zed']
ODD_AGENTS = ['bob ', ' zed', '  ', 'al ice', '\tt']      # identities are exact strings: padded / blank-looking ones are stored verbatim
TEXTS = ['Fix login', 'Write docs', 'a', 'Deploy v2', 'Refactor "core"', 'back\\slash', 'tab\there', 'multi\nline',
         'héllo wörld', '日本語のタイトル', 'emoji \U0001F600 ok', '<b>&amp;</b>',
         'u2028 sep', '  padded  ', 'é combining', '# heading', 'x' * 90, 'ctl\x01\x1f', ' nbsp ',
         "it's", 'quote"s', '{"json":1}', '   ', '',
         # texts without a single visible glyph are still texts (zero-width / format / control / private-use only)
         '\u200b', '\u2060\ufeff', '\x01\x02', '\ue000', '\U000e0001\u200d']
BODIES = ['', 'Some details.', 'line1\nline2\n', '# Title\n\nfirst real line\nrest', '\n\n', 'bödy \U0001F680',
          'tab\t\tend', ' lead', 'x' * 300, '   ']


def pick_text(rng, valid=True):
    if valid:
        while True:
            t = rng.choice(TEXTS)
            if t.strip() != '':
                return t
    return rng.choice(TEXTS)


class Req(dict):
    pass


def raw_coq(fields):
    g = lambda k: cq_opt_str(fields.get(k))
    return '(Raw %s %s %s %s %s %s %s)' % (g('title'), g('body'), g('epic'), g('state'), g('claim'), g('result_path'),
                                           g('result_summary'))


MODE_COQ = {'json': 'MJson', 'flags': 'MFlags', 'stdin': 'MBodyStdin'}


def req_coq(r):
    k = r['k']
    ag = cq_str(r.get('agent') or '')
    if k == 'new':
        return '(QNew %s %s %s %s)' % (cq_bool(r['epic']), MODE_COQ[r['mode']], raw_coq(r['fields']), ag)
    if k == 'set':
        return '(QSet %s %s %s %s)' % (cq_str(r['id']), MODE_COQ[r['mode']], raw_coq(r['fields']), ag)
    if k == 'claim':
        if r.get('id') is not None:
            return '(QCmd (CClaimId %s %s))' % (cq_str(r['id']), ag)
        return '(QCmd (CClaimOldest %s %s))' % (cq_str(r.get('in_epic') or ''), ag)
    if k == 'seq':
        return '(QCmd (CSeq true %s))' % cq_list([cq_str(x) for x in r['ids']])
    if k == 'seqrm':
        return '(QCmd (CSeq false %s))' % cq_list([cq_str(r['a']), cq_str(r['b'])])
    if k == 'prune':
        return '(QCmd (CPrune %s %s))' % (cq_bool(r['yes']), ag)
    if k == 'compact':
        return '(QCmd CCompact)'
    if k == 'plan':
        d = r['doc']
        tasks = ['(PTask %s %s %s)' % (cq_str(t.get('title') or ''), cq_opt_str(t.get('body')),
                                       cq_list([cq_str(a) for a in t.get('after', [])])) for t in d.get('tasks', [])]
        return '(QCmd (CPlan (Plan %s %s %s)))' % (cq_str(d.get('title') or ''), cq_opt_str(d.get('body')), cq_list(tasks))
    if k == 'malformed':
        return 'QMalformed'
    raise ValueError(k)


def req_cli(r, use_json=True):
    """-> (args, stdin bytes or None)"""
    g = []
    if r.get('agent'):
        g += ['--agent', r['agent']]
    if use_json:
        g += ['--json']
    k = r['k']
    if k in ('new', 'set'):
        base = ['new', 'epic' if r['epic'] else 'task'] if k == 'new' else ['set', r['id']]
        f = r['fields']
        if r['mode'] == 'json':
            return g + base, json.dumps(f, ensure_ascii=False).encode('utf-8', 'surrogatepass')
        flags = []
        names = {'title': '--title', 'body': '--body', 'epic': '--epic', 'state': '--state', 'claim': '--claim',
                 'result_path': '--result-path', 'result_summary': '--result-summary'}
        for key, fl in names.items():
            if key == 'body' and r['mode'] == 'stdin':
                continue
            if f.get(key) is not None:
                flags += [fl + '=' + f[key]]
        if r['mode'] == 'stdin':
            return g + base + ['--body-stdin'] + flags, (f.get('body') or '').encode('utf-8')
        return g + base + flags, None
    if k == 'claim':
        a = ['claim']
        if r.get('id') is not None:
            a.append(r['id'])
        if r.get('in_epic'):
            a += ['--epic', r['in_epic']]
        return g + a, None
    if k == 'seq':
        return g + ['sequence'] + r['ids'], None
    if k == 'seqrm':
        return g + ['sequence', 'rm', r['a'], r['b']], None
    if k == 'prune':
        return g + ['prune'] + (['--yes'] if r['yes'] else []), None
    if k == 'compact':
        return g + ['compact'], None
    if k == 'plan':
        return g + ['plan'], json.dumps(r['doc'], ensure_ascii=False).encode('utf-8')
    if k == 'malformed':
        return g + r['args'], r.get('stdin')
    raise ValueError(k)


def first_json(out):
    try:
        return json.loads(out.decode('utf-8', 'replace'))
    except Exception:
        return None


def reply_coq(r, rc, out):
    if rc != 0:
        return 'RNone'
    v = first_json(out)
    k = r['k']
    if k == 'new' and isinstance(v, dict):
        return '(RCreated %s %s)' % (cq_str(v.get('id', '')), cq_str(v.get('state', '')))
    if k == 'claim' and isinstance(v, dict):
        if v.get('status') == 'no_ready':
            return 'RNoReady'
        return '(RClaimed %s)' % cq_str(v.get('id', ''))
    if k == 'prune' and isinstance(v, dict):
        return '(RPruned %s)' % cq_list([cq_str(x) for x in (v.get('pruned_ids') or [])])
    if k == 'plan' and isinstance(v, dict):
        return '(RPlanned %s %s %s)' % (cq_str(v['epic']['id']), cq_list([cq_str(t['id']) for t in v['tasks']]),
                                        cq_list(['(%s, %s)' % (cq_str(e['from_id']), cq_str(e['to_id'])) for e in v['edges']]))
    return 'RNone'


def fkind_of(proj, relpath):
    if relpath is None:
        return 'FMissing'
    try:
        st = os.stat(os.path.join(proj, relpath))
    except OSError:
        return 'FMissing'
    if stat.S_ISDIR(st.st_mode):
        return 'FDir'
    if stat.S_ISREG(st.st_mode):
        return 'FRegular'
    return 'FOther'


def env_coq(r, appended, proj, forced_ids=None):
    news = [e for e in appended if e['t'] in ('new_task', 'new_epic') and not e.get('bad')]
    ids = forced_ids if forced_ids is not None else [e['id'] for e in news]
    uuids = [e['uuid'] for e in news]
    res = [e for e in appended if e['t'] == 'result']
    stamped = [e for e in appended if e['t'] in ('state', 'claim', 'title', 'body', 'epic', 'tombstone') and e.get('at')]
    now = [0, 0]
    nows = []
    if r['k'] == 'plan' and news:
        now = news[0]['at']
        nows = [e['at'] for e in news[1:]]
    elif news:
        now = news[0]['at']
    elif stamped:
        now = stamped[0]['at']
    now_res = res[0]['at'] if res else [0, 0]
    rp = (r.get('fields') or {}).get('result_path')
    fk = fkind_of(proj, rp)
    sha, mtime, git = ('', '', '')
    if res:
        sha, mtime, git = res[0]['sha'], res[0]['mtime'], res[0]['git']
    return '(Env %s %s %s %s %s %s %s %s %s)' % (cq_list([cq_str(x) for x in ids]), cq_list([cq_str(x) for x in uuids]),
                                                cq_z(now), cq_z(now_res), cq_list([cq_z(x) for x in nows]), fk,
                                                cq_str(sha), cq_str(mtime), cq_str(git))


class History:
    """Runs requests on a fresh store, recording a Coq case and raw observations for monitors."""

    def __init__(self, rpc, rng=None):
        self.rpc = rpc
        self.rng = rng or random.Random(0)
        self.store = Store()
        self.steps = []          # coq terms
        self.trace = []          # python dicts for monitors / replay files
        self.snap = self.snapshot()
        self.init_events = self.snap['events']
        self.pruned = []
        self.nfile = 0

    def snapshot(self):
        resp = self.rpc.call(op='snapshot', dir=self.store.ergodir)
        if 'err' in resp:
            return {'read_error': resp['err'], 'events': [], 'tasks': [], 'tombstones': [], 'ready_order': [],
                    'prune_targets': [], 'replay_error': resp['err']}
        return resp['ok']

    def do(self, r, use_json=True, env=None, forced_ids=None):
        args, stdin = req_cli(r, use_json)
        before = self.snap
        log_before = self.store.read_log()
        try:
            rc, out, err = self.store.run(args, stdin=stdin, env=env, timeout=20)
        except subprocess.TimeoutExpired:
            rc, out, err = 124, b'', b'TIMEOUT'
        after = self.snapshot()
        log_after = self.store.read_log()
        n0 = len(before['events'])
        evs = after['events']
        if r['k'] in ('compact',):
            appended = []
        elif r['k'] == 'plan':
            appended = evs[n0:] if evs[:n0] == before['events'] else []
        else:
            appended = evs[n0:] if evs[:n0] == before['events'] else []
        step = 'Step %s %s %s %s %s %s' % (req_coq(r), env_coq(r, appended, self.store.dir, forced_ids),
                                           cq_bool(rc == 0), cq_events(evs), cq_snapshot(after),
                                           reply_coq(r, rc, out))
        self.steps.append('(' + step + ')')
        self.trace.append({'req': dict(r), 'args': args, 'stdin': (stdin.decode('utf-8', 'replace') if stdin is not None else None),
                           'rc': rc, 'stdout': out.decode('utf-8', 'replace'), 'stderr': err.decode('utf-8', 'replace'),
                           'before': before, 'after': after, 'log_grew_by': len(log_after) - len(log_before),
                           'log_prefix_kept': log_after.startswith(log_before), 'appended': appended})
        self.snap = after
        self.pruned = after.get('tombstones', [])
        return rc, out, err

    def prelude_epic_chain(self):
        """Scripted start: epic E2 waits for epic E1; E1 has an open and a finished child; tasks of E2 with
        their own finished / removed / open / no dependencies - the shapes on which inherited blocking and a
        task's own dependencies interact."""
        rng = self.rng

        def new(is_epic, **f):
            r = Req(k="new", epic=is_epic, mode="json", fields=dict(f), agent=None)
            rc, out, _ = self.do(r)
            return json.loads(out)['id'] if rc == 0 else None
        e1, e2 = new(True, title='chain E1'), new(True, title='chain E2')
        a = new(False, title='E1 open child', epic=e1)
        b = new(False, title='E1 finished child', epic=e1, state=rng.choice(['done', 'canceled']))
        t1 = new(False, title='E2 after finished', epic=e2)
        t2 = new(False, title='E2 edge removed', epic=e2)
        t3 = new(False, title='E2 plain', epic=e2)
        free = new(False, title='loose finished', state='done')
        if None in (e1, e2, a, b, t1, t2, t3, free):
            return
        self.do(Req(k='seq', ids=[e1, e2]))
        self.do(Req(k='seq', ids=[b, t1]))
        self.do(Req(k='seq', ids=[free, t2]))
        self.do(Req(k='seqrm', a=free, b=t2))
        if rng.random() < 0.5:
            self.do(Req(k='seq', ids=[free, t1]))
        self.do(Req(k='claim', id=None, in_epic=e2, agent='zed'))
        self.do(Req(k='claim', id=None, in_epic=None, agent='zed'))
        if rng.random() < 0.5:
            self.do(Req(k='set', epic=False, id=a, mode='json', fields={'state': rng.choice(['done', 'canceled'])}, agent=None))
            self.do(Req(k='claim', id=None, in_epic=e2, agent='bob@host'))

    def coq_case(self):
        return '(Case %s %s)' % (cq_events(self.init_events), cq_list(self.steps))

    def close(self):
        self.store.close()

    # ------------------------------------------------------------ generation
    def live(self, epic=None):
        return [t['id'] for t in self.snap['tasks'] if epic is None or t['is_epic'] == epic]

    def some_id(self, kind='any'):
        rng = self.rng
        x = rng.random()
        tasks = self.live(False)
        epics = self.live(True)
        if kind == 'task':
            pool = tasks
        elif kind == 'epic':
            pool = epics
        else:
            pool = tasks + epics
        if x < 0.04 and pool:
            i = rng.choice(pool)                       # a live id, mis-spelled: ids are exact, case-sensitive strings
            return rng.choice([i.lower(), ' ' + i, i + ' ', i[:-1], i + 'X'])
        if x < 0.78 and pool:
            return rng.choice(pool)
        if x < 0.86 and self.pruned:
            return rng.choice(self.pruned)
        if x < 0.93:
            return 'ZZZZZZ'
        other = epics if kind == 'task' else tasks
        if other:
            return rng.choice(other)
        return 'QQQQQQ'

    def epic_arg(self):
        """An epic argument: mostly a live epic, else a task id / unknown / pruned id, or a live epic's id in
        another spelling (case, padding) — ids are exact strings, so those must be refused."""
        rng = self.rng
        epics = self.live(True)
        if epics and rng.random() < 0.12:
            i = rng.choice(epics)
            return rng.choice([i.lower(), ' ' + i, i + ' ', ' ' + i + ' ', i.lower() + ' '])
        return self.some_id('epic')

    def make_result_fields(self):
        rng = self.rng
        self.nfile += 1
        proj = self.store.dir
        kind = rng.choice(['good', 'good', 'good', 'unclean', 'missing', 'dir', 'abs', 'dotdot', 'ergo', 'inner'])
        os.makedirs(os.path.join(proj, 'out'), exist_ok=True)
        name = 'out/r%d.txt' % self.nfile
        with open(os.path.join(proj, name), 'w') as f:
            f.write('result %d %s\n' % (self.nfile, rng.random()))
        path = {'good': name, 'unclean': './out//' + os.path.basename(name), 'missing': 'out/nope%d.txt' % self.nfile,
                'dir': 'out', 'abs': os.path.join(proj, name), 'dotdot': '../' + name, 'ergo': '.ergo/plans.jsonl',
                'inner': 'out/../' + name}[kind]
        summ = rng.choice(['done it', '  trimmed  ', 'x' * 120, 'x' * 121, 'two\nlines', '', 'résumé ok'])
        if rng.random() < 0.7:
            summ = 'summary %d' % self.nfile
        return path, summ

    def gen_fields(self, for_new, is_epic, mode):
        rng = self.rng
        f = {}
        if for_new:
            if rng.random() < 0.94:
                f['title'] = pick_text(rng, valid=rng.random() < 0.93)
            if rng.random() < 0.5:
                f['body'] = rng.choice(BODIES)
            if not is_epic:
                if rng.random() < 0.4:
                    f['epic'] = self.epic_arg()
                if rng.random() < 0.22:
                    f['state'] = rng.choice(STATES + ['bogus'] if rng.random() < 0.08 else STATES)
                if rng.random() < 0.2:
                    f['claim'] = rng.choice(AGENTS + ([''] if mode == 'json' else [])) if rng.random() >= 2.5 * (self.profile or {}).get('odd_agent_p', 0.06) else rng.choice(ODD_AGENTS)
                if mode == 'json' and rng.random() < 0.06:
                    f['result_path'], f['result_summary'] = self.make_result_fields()
        else:
            keys = ['title', 'body', 'epic', 'state', 'claim', 'result']
            n = rng.choice([1, 1, 1, 2, 2, 3, 4])
            chosen = rng.sample(keys, n)
            if rng.random() < (self.profile or {}).get('result_p', 0) and 'result' not in chosen:
                chosen.append('result')
            for key in chosen:
                if key == 'title':
                    f['title'] = pick_text(rng, valid=rng.random() < 0.9)
                elif key == 'body':
                    f['body'] = rng.choice(BODIES)
                elif key == 'epic':
                    f['epic'] = '' if (mode == 'json' and rng.random() < 0.25) else self.epic_arg()
                elif key == 'state':
                    f['state'] = rng.choice(STATES + ['bogus'] if rng.random() < 0.05 else (self.profile or {}).get('states', STATES))
                elif key == 'claim':
                    f['claim'] = rng.choice(AGENTS + (['', ''] if mode == 'json' else [])) if rng.random() >= 2 * (self.profile or {}).get('odd_agent_p', 0.06) else rng.choice(ODD_AGENTS)
                elif key == 'result':
                    p, s = self.make_result_fields()
                    if rng.random() < 0.93:
                        f['result_path'] = p
                    if rng.random() < 0.93:
                        f['result_summary'] = s
        return f

    def gen_plan(self):
        rng = self.rng
        if rng.random() < 0.12:
            # titles built from one another with a separator: any "a<sep>b" keyed bookkeeping of (task, after)
            # pairs or of titles is ambiguous on these  (m , v1<sep>v2)  vs  (m<sep>v1 , v2)
            sep = rng.choice(['->', '|', ':', ',', ' ', '/', '=>', '\t', '#', '\u2192'])
            v1, v2, m = rng.sample(['v1', 'v2', 'migrate', 'db', 'x', 'Deploy'], 3)
            tasks = [{'title': v2}, {'title': v1 + sep + v2}, {'title': m, 'after': [v1 + sep + v2]},
                     {'title': m + sep + v1, 'after': [v2]}]
            if rng.random() < 0.5:
                tasks.append({'title': m + sep + v1 + sep + v2, 'after': [m, m + sep + v1]})
            return {'title': 'separator plan ' + repr(sep), 'tasks': tasks}
        n = rng.choice([1, 2, 3, 3, 4, 6])
        titles = []
        for i in range(n):
            t = pick_text(rng) + ' #%d' % i
            titles.append(t)
        tasks = []
        for i, t in enumerate(titles):
            task = {'title': t}
            if rng.random() < 0.4:
                task['body'] = rng.choice([b for b in BODIES if b.strip()])
            after = []
            for j in range(n):
                x = rng.random()
                if j < i and x < 0.35:
                    after.append(titles[j])
                elif j > i and x < 0.04:
                    after.append(titles[j])        # may create a cycle / forward ref
            if rng.random() < 0.04:
                after.append(t)                    # self
            if rng.random() < 0.04:
                after.append('no such title')
            if i > 0 and rng.random() < 0.06:
                t0 = titles[rng.randrange(i)]
                after.append(rng.choice([t0 + ' ', ' ' + t0, t0.upper(), t0.lower(), t0[:-1]]))   # near-miss reference
            if after and rng.random() < 0.1:
                after.append(after[0])             # duplicate
            if after:
                task['after'] = after
            tasks.append(task)
        doc = {'title': pick_text(rng), 'tasks': tasks}
        if rng.random() < 0.3:
            doc['body'] = 'plan body'
        x = rng.random()
        if x < 0.04:
            doc['tasks'] = []
        elif x < 0.08 and n >= 2:
            doc['tasks'][1]['title'] = doc['tasks'][0]['title']
        elif x < 0.11:
            doc['title'] = '  '
        return doc

    WEIGHTS = {'new': 24, 'set': 30, 'claim': 12, 'seq': 13, 'seqrm': 3, 'plan': 5, 'prune': 6, 'compact': 4,
               'malformed': 3}
    profile = None

    def gen_request(self):
        rng = self.rng
        w = dict(self.WEIGHTS)
        if self.profile:
            w.update(self.profile.get('weights', {}))
        agent = rng.choice(AGENTS) if rng.random() < (self.profile or {}).get('agent_p', 0.8) else None
        if agent is not None and rng.random() < (self.profile or {}).get('odd_agent_p', 0.06):
            agent = rng.choice(ODD_AGENTS)
        if not self.snap['tasks']:
            kind = 'new'
        else:
            kinds = list(w)
            kind = rng.choices(kinds, [w[k] for k in kinds])[0]
        if kind == 'new':
            is_epic = rng.random() < 0.27
            mode = rng.choice(['json', 'json', 'flags', 'stdin'])
            return Req(k='new', epic=is_epic, mode=mode, fields=self.gen_fields(True, is_epic, mode), agent=agent)
        if kind == 'set':
            mode = rng.choice(['json', 'json', 'json', 'flags', 'stdin'])
            f = self.gen_fields(False, False, mode)
            if mode == 'stdin' and 'body' not in f:
                f['body'] = rng.choice(BODIES)
            return Req(k='set', epic=False, id=self.some_id('any' if rng.random() < 0.15 else 'task'), mode=mode, fields=f,
                       agent=agent)
        if kind == 'claim':
            if rng.random() < 0.5:
                return Req(k='claim', id=self.some_id('task'), agent=agent)
            return Req(k='claim', id=None, in_epic=(self.some_id('epic') if rng.random() < 0.3 else None), agent=agent)
        if kind == 'seq':
            n = rng.choice([2, 2, 2, 3, 3, 4, 1])
            kk = 'epic' if rng.random() < 0.25 else 'task'
            pool = self.live(kk == 'epic')
            edges = [(t['id'], d) for t in self.snap['tasks'] for d in t['deps']]
            if edges and rng.random() < 0.22:
                # try to close a cycle: follow existing deps from some item for a few hops, then ask for the reverse
                adj = {}
                for a, b in edges:
                    adj.setdefault(a, []).append(b)
                cur = start = rng.choice(edges)[0]
                for _ in range(rng.choice([1, 2, 3])):
                    if cur in adj:
                        cur = rng.choice(adj[cur])
                if cur != start:
                    if rng.random() < 0.4:
                        # the other direction: start already depends on cur (directly or through other items); the
                        # explicit edge is redundant for readiness but must still be recorded as asked and reported
                        return Req(k='seq', ids=[cur, start])
                    return Req(k='seq', ids=[start, cur])      # cur would depend on start, but start already reaches cur
            if len(pool) >= n and rng.random() < 0.7:
                ids = rng.sample(pool, n)                      # distinct live items of one kind (may still close a cycle)
                if n >= 2 and rng.random() < 0.12:
                    ids.append(ids[rng.randrange(len(ids) - 1)])   # a chain that closes on itself inside ONE command
                if rng.random() < 0.15:
                    ids[rng.randrange(n)] = self.some_id(kk)   # one adversarial id
            else:
                ids = [self.some_id(kk) for _ in range(n)]
            return Req(k='seq', ids=ids)
        if kind == 'seqrm':
            edges = [(t['id'], d) for t in self.snap['tasks'] for d in t['deps']]
            if edges and rng.random() < 0.7:
                frm, to = rng.choice(edges)
                return Req(k='seqrm', a=to, b=frm)
            return Req(k='seqrm', a=self.some_id(), b=self.some_id())
        if kind == 'plan':
            return Req(k='plan', doc=self.gen_plan())
        if kind == 'prune':
            return Req(k='prune', yes=rng.random() < 0.7, agent=agent)
        if kind == 'compact':
            return Req(k='compact')
        which = rng.choice(['badjson', 'unknownkey', 'twovalues', 'emptystdin', 'noargs', 'trailing', 'trailing'])
        tgt = ['new', 'task'] if rng.random() < 0.5 else ['set', self.some_id('task')]
        if which == 'badjson':
            return Req(k='malformed', args=tgt, stdin=b'{"title": "x"')
        if which == 'unknownkey':
            return Req(k='malformed', args=tgt, stdin=b'{"title":"x","titel":"y"}')
        if which == 'twovalues':
            return Req(k='malformed', args=tgt, stdin=b'{"title":"x"} {"title":"y"}')
        if which == 'trailing':
            return Req(k='malformed', args=tgt, stdin=rng.choice([b'{"title":"x"}}', b'{"title":"x"}]', b'{"title":"x"} }{"title":"y"}', b'{"title":"x"}\n]']))
        if which == 'emptystdin':
            return Req(k='malformed', args=tgt, stdin=b'')
        return Req(k='malformed', args=['sequence', self.some_id()], stdin=None)


def run_history(rpc, seed, nsteps):
    h = History(rpc, random.Random(seed))
    for _ in range(nsteps):
        h.do(h.gen_request())
    return h
