#!/usr/bin/env python3
"""Differential test: Coq model (Ergo.Utf8 / Ergo.Codec) vs Go encoding/json.

Generates byte strings (valid UTF-8 from all planes, and invalid byte strings)
and JSON string literals, asks the instrumented ergo binary (`ergo verif-rpc`,
ops jsonstr / jsonunstr) what Go does, writes cases.v, and evaluates the model
on every case with one `Eval vm_compute` per table that returns the indexes on
which model and Go disagree.  Exit status 0 iff there are no disagreements.

Requires the theories to be compiled first (`make` in the --coq directory).

usage: difftest.py [--coq DIR] [--ergo BIN] [--seed N] [--n N] [--keep]

Known, deliberate domain restriction of the decoder comparison: the model
describes one string *token*; json.Unmarshal additionally skips JSON
whitespace around the token and accepts the token `null` for a string target.
Decoder inputs that start/end with whitespace or equal `null` are not generated.
"""
import argparse, base64, json, os, random, re, subprocess, sys, time

ap = argparse.ArgumentParser()
ap.add_argument("--coq", default=os.path.join(os.path.dirname(os.path.abspath(__file__)), "coq"))
ap.add_argument("--ergo", default="/verif/build/ergo")
ap.add_argument("--seed", type=int, default=20260929)
ap.add_argument("--n", type=int, default=2600, help="number of random valid strings")
ap.add_argument("--keep", action="store_true", help="keep cases.v")
args = ap.parse_args()
rnd = random.Random(args.seed)

# ---------------------------------------------------------------- Go side
def rpc(reqs):
    inp = "".join(json.dumps(r) + "\n" for r in reqs)
    p = subprocess.run([args.ergo, "verif-rpc"], input=inp.encode(), stdout=subprocess.PIPE, check=True)
    outs = [json.loads(l) for l in p.stdout.decode().splitlines() if l.strip()]
    assert len(outs) == len(reqs), (len(outs), len(reqs))
    for o in outs:
        assert "ok" in o, o
    return [o["ok"] for o in outs]

def b64(b): return base64.b64encode(b).decode()
def chunks(l, n=400): return [l[i:i + n] for i in range(0, len(l), n)]

def go_encode(strs, html):
    res = rpc([{"op": "jsonstr", "strs": [b64(s) for s in c], "html": html} for c in chunks(strs)])
    return [base64.b64decode(x) for r in res for x in r]

def go_decode(lits):
    res = rpc([{"op": "jsonunstr", "strs": [b64(s) for s in c]} for c in chunks(lits)])
    return [None if x is None else base64.b64decode(x) for r in res for x in r]

# ---------------------------------------------------------------- generators
BOUND = [0x00, 0x1F, 0x20, 0x7E, 0x7F, 0x80, 0x7FF, 0x800, 0xFFF, 0x1000, 0xCFFF, 0xD000, 0xD7FF,
         0xE000, 0xFFFD, 0xFFFE, 0xFFFF, 0x10000, 0x3FFFF, 0x40000, 0xFFFFF, 0x100000, 0x10FFFF,
         0x2027, 0x2028, 0x2029, 0x202A, 0x1F600, 0xFEFF, 0xA0, 0x85]
SPECIAL = [ord(c) for c in "\"\\/<>&'`=u"] + [8, 9, 10, 12, 13, 0x7F]

def rand_cp():
    k = rnd.random()
    if k < 0.22: return rnd.randrange(0x20, 0x7F)
    if k < 0.32: return rnd.randrange(0x00, 0x20)
    if k < 0.44: return rnd.choice(SPECIAL)
    if k < 0.54: return rnd.choice(BOUND)
    if k < 0.66: return rnd.randrange(0x80, 0x800)
    if k < 0.74: return rnd.choice([0x2028, 0x2029])
    if k < 0.88:
        while True:
            c = rnd.randrange(0x800, 0x10000)
            if not 0xD800 <= c <= 0xDFFF: return c
    return rnd.randrange(0x10000, 0x110000)

def u8(cp): return chr(cp).encode("utf-8")
def rand_valid(maxlen=12):
    return b"".join(u8(rand_cp()) for _ in range(rnd.randrange(0, maxlen + 1)))

BAD_PIECES = [
    b"\x80", b"\xbf", b"\x80\x80", b"\xc0\x80", b"\xc1\xbf", b"\xc2", b"\xdf", b"\xe0\x80\x80", b"\xe0\x9f\xbf",
    b"\xe0\xa0", b"\xe1\x80", b"\xe2\x80", b"\xe2", b"\xef\xbf", b"\xed\xa0\x80", b"\xed\xbf\xbf",
    b"\xed\xa0\x80\xed\xb0\x80", b"\xed\x9f", b"\xf0\x80\x80\x80", b"\xf0\x8f\xbf\xbf", b"\xf0\x90\x80", b"\xf0\x90",
    b"\xf0", b"\xf4\x8f\xbf", b"\xf4\x90\x80\x80", b"\xf5\x80\x80\x80", b"\xf7\xbf\xbf\xbf", b"\xf8\x88\x80\x80\x80",
    b"\xfc\x84\x80\x80\x80\x80", b"\xfe", b"\xff", b"\xc2\x41", b"\xe2\x80\x41", b"\xe2\x41\x80", b"\xf0\x9f\x98\x41",
    b"\xf0\x9f\x41\x80", b"\xf0\x41\x80\x80", b"\xe2\x80\xc2\xa0", b"\xf0\x9f\xe2\x80\xa8", b"\xc2\xc2\xa0",
    b"\xe2\x80\x22", b"\xe2\x80\x5c", b"\xc2\x0a", b"\xef\xbf\xbd", b"\xe2\x80\xa8", b"\xe2\x80",
]
def rand_invalid():
    k = rnd.random()
    if k < 0.25:
        return bytes(rnd.randrange(256) for _ in range(rnd.randrange(1, 9)))
    if k < 0.45:   # high bytes only
        return bytes(rnd.randrange(0x80, 0x100) for _ in range(rnd.randrange(1, 7)))
    if k < 0.65:   # truncated valid sequence inside valid text
        c = u8(rnd.choice([rnd.randrange(0x80, 0x800), rnd.randrange(0x800, 0xD800), rnd.randrange(0x10000, 0x110000)]))
        return rand_valid(4) + c[:rnd.randrange(1, len(c))] + rand_valid(4)
    return rand_valid(4) + rnd.choice(BAD_PIECES) + rand_valid(4) + (rnd.choice(BAD_PIECES) if rnd.random() < 0.3 else b"")

def is_valid(bs):
    try: bs.decode("utf-8"); return True
    except UnicodeDecodeError: return False

enc_inputs = []
enc_inputs += [bytes([c]) for c in range(128)]                     # every ASCII byte alone
enc_inputs += [bytes([c]) for c in range(128, 256)]                # every high byte alone (invalid)
enc_inputs += [u8(c) for c in BOUND]
enc_inputs += [b"", b"hello", "héllo wörld 世界 \U0001F600".encode(), b"<b>&amp;</b>",
               "a b c".encode(), b"tab\there\nnl\rcr\x08bs\x0cff\x00nul\x1f\x7f", b"q\"uo\\te/'"]
enc_inputs += BAD_PIECES
enc_inputs += [bytes([a, c]) for a in (0xC1, 0xC2, 0xDF, 0xE0, 0xED, 0xF0, 0xF4) for c in (0x7F, 0x80, 0x8F, 0x90, 0x9F, 0xA0, 0xBF, 0xC0)]
enc_inputs += [bytes([a, c, 0x80]) for a in (0xE0, 0xE1, 0xED, 0xEE, 0xEF) for c in (0x7F, 0x80, 0x9F, 0xA0, 0xBF, 0xC0)]
enc_inputs += [bytes([a, c, 0x80, 0xBF]) for a in (0xF0, 0xF1, 0xF3, 0xF4, 0xF5) for c in (0x7F, 0x80, 0x8F, 0x90, 0xBF, 0xC0)]
enc_inputs += [rand_valid() for _ in range(args.n)]
enc_inputs += [rand_valid(40) for _ in range(60)]
enc_inputs += [rand_invalid() for _ in range(900)]
n_valid = sum(is_valid(s) for s in enc_inputs)

go_t = go_encode(enc_inputs, True)
go_f = go_encode(enc_inputs, False)

# decoder literals
def q(b): return b'"' + b + b'"'
HEX = "0123456789abcdefABCDEF"
def rhex4(): return "".join(rnd.choice(HEX) for _ in range(4)).encode()
def rand_surr(lo, hi): return ("\\u%04x" % rnd.randrange(lo, hi)).encode() if rnd.random() < .5 else ("\\u%04X" % rnd.randrange(lo, hi)).encode()
def rand_piece():
    k = rnd.random()
    if k < 0.20: return rand_valid(3).replace(b'"', b"").replace(b"\\", b"")
    if k < 0.32: return b"\\" + rnd.choice(b'"\\/bfnrt').to_bytes(1, "big")
    if k < 0.42: return b"\\u" + rhex4()
    if k < 0.52: return rand_surr(0xD800, 0xDC00) + rand_surr(0xDC00, 0xE000)        # valid pair
    if k < 0.58: return rand_surr(0xD800, 0xDC00)                                      # lone high
    if k < 0.64: return rand_surr(0xDC00, 0xE000)                                      # lone low
    if k < 0.68: return rand_surr(0xDC00, 0xE000) + rand_surr(0xD800, 0xDC00)        # reversed
    if k < 0.72: return rand_surr(0xD800, 0xDC00) + rand_surr(0xD800, 0xDC00)        # high high
    if k < 0.76: return rand_surr(0xD800, 0xDC00) + b"\\u" + rhex4()
    if k < 0.80: return rand_surr(0xD800, 0xDC00) + b"\\" + rnd.choice(b'n"t\\xu').to_bytes(1, "big")
    if k < 0.84: return rnd.choice(BAD_PIECES)
    if k < 0.87: return bytes([rnd.randrange(0, 0x20)])                               # raw control
    if k < 0.90: return b"\\" + bytes([rnd.randrange(256)])                           # arbitrary escape
    if k < 0.93: return b"\\u" + rhex4()[:rnd.randrange(0, 4)]                        # short \u
    if k < 0.95: return b"\\u" + bytes(rnd.choice(b"0123gG:@`/ -") for _ in range(4)) # bad hex
    if k < 0.97: return b'"'
    return bytes([rnd.randrange(256)])

dec_inputs = []
dec_inputs += [q(b"\\" + bytes([c])) for c in range(256)]                       # every \x escape
dec_inputs += [q(b"\\" + bytes([c]) + b"0041") for c in range(256)]
dec_inputs += [q(bytes([c])) for c in range(256)]                               # every raw byte
dec_inputs += [bytes([c]) for c in range(256) if c not in b" \t\r\n"]           # every 1-byte input
dec_inputs += [b"", b'"', b'""', b'"a', b'a"', b"abc", b'"a"b"', b'"a""', b'""a', b'"\\"', b'"\\\\"', b'"\\\\\\"',
               b'"\\u"', b'"\\u1"', b'"\\u12"', b'"\\u123"', b'"\\u1234"', b'"\\u12345"', b'"\\uD83D\\uDE00"',
               b'"\\ud83d\\ude00"', b'"\\ud83d"', b'"\\ude00"', b'"\\ud83d\\u"', b'"\\ud83d\\ude0"', b'"\\ud83d\\n"',
               b'"\\ud83dx"', b'"\\ud83d\\ud83d\\ude00"', b'"\\ude00\\ud83d\\ude00"', b'"\\udbff\\udfff"',
               b'"\\ud800\\udc00"', b'"\\ud7ff\\udc00"', b'"\\ue000"', b'"\\udbff\\ue000"', b'"\\udc00\\udc00"',
               b'"\\ud800\\udbff"', b'"\\uFFFD"', b'"\\ufffe"', b'"\\u0000"', b'"\\u0022"', b'"\\u005c"', b'"\\u2028"',
               b'123', b'true', b'{}', b'[]', b'["a"]', b'nul', b'nulll', b'"a"x', b'x"a"', b"'a'", b'"\\\'"',
               b'"\\ud800\\ud', b'"\\ud800\\', b'"\\ud800', b'"\\ud83d\\uDE0G"', b'"\\ud83d\\Ude00"', b'"\\U0041"',
               b'"\\ud83d\\\\ude00"', b'"\\ud83d\\/"', b'"\\ud83d\\ude00\\ude00"', b'"a\x7fb"', b'"\xef\xbf\xbd"']
dec_inputs += [q(s) for s in BAD_PIECES]
dec_inputs += [q(b"a" + s + b"\\n" + s) for s in BAD_PIECES]
stride = max(1, len(enc_inputs) // 900)
dec_inputs += go_t[::stride] + go_f[1::stride]                                  # Go's own output
dec_inputs += [q(s) for s in enc_inputs[::stride * 2]]                          # unescaped text in quotes
for _ in range(1500):
    body = b"".join(rand_piece() for _ in range(rnd.randrange(0, 7)))
    k = rnd.random()
    lit = q(body) if k < 0.85 else (b'"' + body if k < 0.9 else (body + b'"' if k < 0.95 else body))
    dec_inputs.append(lit)
for _ in range(400):                                                             # mutations of Go output
    l = bytearray(rnd.choice(go_t))
    for _ in range(rnd.randrange(1, 3)):
        p = rnd.randrange(len(l) + 1); k = rnd.random()
        if k < 0.4 and p < len(l): l[p] = rnd.randrange(256)
        elif k < 0.7: l.insert(p, rnd.randrange(256))
        elif p < len(l): del l[p]
    dec_inputs.append(bytes(l))
WS = b" \t\r\n"
dec_inputs = [l for l in dec_inputs if not (l and (l[0] in WS or l[-1] in WS)) and l != b"null"]
go_d = go_decode(dec_inputs)

# Go-side sanity: round trip holds exactly on valid input
rt = go_decode(go_t); rf = go_decode(go_f)
go_rt_bad = [i for i, s in enumerate(enc_inputs) if is_valid(s) and (rt[i] != s or rf[i] != s)]
go_rt_inv = [i for i, s in enumerate(enc_inputs) if not is_valid(s) and (rt[i] == s or rf[i] == s)]

# ---------------------------------------------------------------- Coq side
def H(b): return 'H "%s"' % b.hex()
HEADER = """(* generated by difftest.py *)
From Coq Require Import NArith Ascii String List Bool.
From Ergo Require Import Utf8 Codec.
Import ListNotations.
Local Open Scope string_scope.
Local Open Scope N_scope.
Definition hv (a : ascii) : N := let c := N_of_ascii a in if c <? 58 then c - 48 else c - 87.
Fixpoint H (s : string) : string :=
  match s with String a (String b r) => String (ascii_of_N (hv a * 16 + hv b)) (H r) | _ => "" end.
Definition oeq (a b : option string) : bool :=
  match a, b with Some x, Some y => String.eqb x y | None, None => true | _, _ => false end.
"""
TAIL = """
Definition enc_bad := flat_map (fun '(i, v, e, t, f) =>
  if String.eqb (json_encode_string true e) t && String.eqb (json_encode_string false e) f
     && Bool.eqb (valid_utf8 e) v then [] else [i]) enc_cases.
Definition dec_bad := flat_map (fun '(i, d, r) => if oeq (json_decode_string d) r then [] else [i]) dec_cases.
Definition rt_bad := flat_map (fun '(i, v, e, t, f) =>
  if Bool.eqb v (oeq (json_decode_string (json_encode_string true e)) (Some e)
                 && oeq (json_decode_string (json_encode_string false e)) (Some e)) then [] else [i]) enc_cases.
Eval vm_compute in ("ENC_BAD", enc_bad).
Eval vm_compute in ("DEC_BAD", dec_bad).
Eval vm_compute in ("RT_BAD", rt_bad).
"""


def shard_text(eidx, didx):
    lines = [HEADER]
    for i in eidx:
        s, t, f = enc_inputs[i], go_t[i], go_f[i]
        lines.append("Definition e%d := %s. Definition t%d := %s. Definition f%d := %s." % (i, H(s), i, H(t), i, H(f)))
    lines.append("Definition enc_cases : list (N * bool * string * string * string) := [")
    lines.append(";\n".join("(%d, %s, e%d, t%d, f%d)" % (i, "true" if is_valid(enc_inputs[i]) else "false", i, i, i) for i in eidx))
    lines.append("].")
    for i in didx:
        l, d = dec_inputs[i], go_d[i]
        lines.append("Definition d%d := %s. Definition r%d := %s." % (i, H(l), i, "@None string" if d is None else "Some (%s)" % H(d)))
    lines.append("Definition dec_cases : list (N * string * option string) := [")
    lines.append(";\n".join("(%d, d%d, r%d)" % (i, i, i) for i in didx))
    lines.append("].")
    lines.append(TAIL)
    return "\n".join(lines)


import concurrent.futures as _cf, tempfile, shutil
NSH = 8
work = tempfile.mkdtemp(prefix='codec-', dir=os.environ.get('VERIF_SCRATCH') or None)
t0 = time.time()


def run_shard(k):
    name = os.path.join(work, "cases%d.v" % k)
    open(name, "w").write(shard_text(list(range(len(enc_inputs)))[k::NSH], list(range(len(dec_inputs)))[k::NSH]))
    p = subprocess.run(["coqc", "-Q", os.path.join(args.coq, "theories"), "Ergo", "-w", "-all", name],
                       stdout=subprocess.PIPE, stderr=subprocess.STDOUT, timeout=1800)
    return p.returncode, p.stdout.decode()


try:
    with _cf.ThreadPoolExecutor(max_workers=NSH) as ex:
        results = list(ex.map(run_shard, range(NSH)))
finally:
    if not args.keep:
        shutil.rmtree(work, ignore_errors=True)
dt = time.time() - t0
for rc, o in results:
    if rc != 0:
        print(o[-3000:]); sys.exit("coqc failed")
outs = [o for _, o in results]


def bad(tag):
    res = []
    for out in outs:
        m = re.search(r'\("%s",\s*(\[[^\]]*\])\)' % tag, out)
        assert m, out[-2000:]
        res += [int(x) for x in re.findall(r"\d+", m.group(1))]
    return sorted(res)


eb, db, rb = bad("ENC_BAD"), bad("DEC_BAD"), bad("RT_BAD")
print("encoder cases: %d (%d valid UTF-8, %d invalid), each with html=true and html=false, plus valid_utf8 vs Python"
      % (len(enc_inputs), n_valid, len(enc_inputs) - n_valid))
print("decoder cases: %d (%d accepted by Go, %d rejected)" % (len(dec_inputs), sum(d is not None for d in go_d), sum(d is None for d in go_d)))
print("coqc time: %.1fs" % dt)
print("Go round trip failing on valid input: %s; succeeding on invalid input: %s" % (go_rt_bad, go_rt_inv))
print("model/Go encoder disagreements: %s" % eb)
for i in eb[:10]: print("   in=%s go_html=%s go_raw=%s" % (enc_inputs[i].hex(), go_t[i], go_f[i]))
print("model/Go decoder disagreements: %s" % db)
for i in db[:10]: print("   lit=%r go=%r" % (dec_inputs[i], go_d[i]))
print("model round-trip <-> validity disagreements: %s" % rb)
sys.exit(1 if (eb or db or rb or go_rt_bad or go_rt_inv) else 0)
