"""Shared plumbing: build the instrumented binary, scratch stores, RPC client, Coq term emission."""
import base64, json, os, random, shutil, subprocess, sys, tempfile, time, re

# the registered checks run from /verif against /repo; the two variables exist so that mutation runs can use
# private copies of both (bin/mutate-iso) without touching the real trees
REPO = os.environ.get('VERIF_REPO', '/repo')
VERIF = os.environ.get('VERIF_HOME', '/verif')
BUILD = os.path.join(VERIF, 'build')
ERGO = os.path.join(BUILD, 'ergo')
COQ = os.path.join(VERIF, 'coq')
GOENV = dict(os.environ, GOFLAGS='-mod=mod', GOPROXY='off')
GOENV.pop('GOSUMDB', None)
if GOENV.get('GOTOOLCHAIN') == 'local':
    GOENV.pop('GOTOOLCHAIN')

SCRATCH_ROOT = os.environ.get('VERIF_SCRATCH', '/tmp')


def build_ergo(force=False):
    """go build -tags verif from /repo's current working tree (always rebuilt; go caches)."""
    os.makedirs(BUILD, exist_ok=True)
    p = subprocess.run(['go', 'build', '-tags', 'verif', '-o', ERGO, './cmd/ergo'], cwd=REPO, env=GOENV,
                       capture_output=True, text=True)
    if p.returncode != 0:
        raise RuntimeError('go build failed:\n' + p.stdout + p.stderr)
    return ERGO


def mkscratch(prefix='ergo-verif-'):
    return tempfile.mkdtemp(prefix=prefix, dir=SCRATCH_ROOT)


class ImplCrash(Exception):
    """The implementation (its library code reached through verif-rpc) died on an input: a Go panic.
    Carries the request (and the log file it pointed at) so the report is replayable."""

    def __init__(self, req, stderr, file_bytes=None):
        Exception.__init__(self, 'implementation crashed on request %s' % json.dumps(req)[:200])
        self.req, self.stderr, self.file_bytes = req, stderr, file_bytes


class Rpc:
    def __init__(self):
        self.errf = tempfile.TemporaryFile()
        self.p = subprocess.Popen([ERGO, 'verif-rpc'], stdin=subprocess.PIPE, stdout=subprocess.PIPE, stderr=self.errf, cwd='/')

    def call(self, **req):
        try:
            self.p.stdin.write((json.dumps(req) + '\n').encode())
            self.p.stdin.flush()
            line = self.p.stdout.readline()
        except BrokenPipeError:
            line = b''
        if not line:
            self.p.wait()
            self.errf.seek(0)
            err = self.errf.read().decode('utf-8', 'replace')
            fb = None
            cands = [req.get('path')] + [os.path.join(req.get('dir') or '/nonexistent', n) for n in ('plans.jsonl', 'events.jsonl')]
            for c in cands:
                if isinstance(c, str) and os.path.isfile(c):
                    fb = open(c, 'rb').read()[:200000].decode('utf-8', 'replace')
                    break
            raise ImplCrash(req, err[:3000], fb)
        return json.loads(line)

    def close(self):
        try:
            self.p.stdin.close()
            self.p.wait(timeout=5)
        except Exception:
            self.p.kill()


class Store:
    """A scratch project directory with an initialised .ergo."""

    def __init__(self, init=True):
        self.root = mkscratch()
        self.dir = os.path.join(self.root, 'proj')
        os.makedirs(self.dir)
        if init:
            rc, _, err = self.run(['init'])
            assert rc == 0, err

    @property
    def ergodir(self):
        return os.path.join(self.dir, '.ergo')

    @property
    def log(self):
        return os.path.join(self.ergodir, 'plans.jsonl')

    def run(self, args, stdin=None, env=None, cwd=None, timeout=30):
        """stdin None => /dev/null (a char device: 'not piped'); bytes => piped."""
        e = dict(os.environ)
        e.pop('ERGO_VERIF_CTL', None)
        if env:
            e.update(env)
        if stdin is None:
            p = subprocess.run([ERGO] + args, cwd=cwd or self.dir, stdin=subprocess.DEVNULL, capture_output=True,
                               env=e, timeout=timeout)
        else:
            p = subprocess.run([ERGO] + args, cwd=cwd or self.dir, input=stdin, capture_output=True, env=e,
                               timeout=timeout)
        return p.returncode, p.stdout, p.stderr

    def read_log(self):
        try:
            with open(self.log, 'rb') as f:
                return f.read()
        except FileNotFoundError:
            return b''

    def close(self):
        shutil.rmtree(self.root, ignore_errors=True)


# ---------------------------------------------------------------- Coq emission

class Interner:
    """Literal elaboration costs ~1 ms per string / number in Coq 8.16, so every distinct literal is
    defined once per file and referred to by name."""

    def __init__(self):
        self.names = {}
        self.defs = {}

    def name(self, kind, literal):
        key = (kind, literal)
        n = self.names.get(key)
        if n is None:
            n = 'k%s%d' % (kind, len(self.names))
            self.names[key] = n
            ty = {'s': 'string', 'z': 'Z'}[kind]
            self.defs[n] = 'Definition %s : %s := %s.' % (n, ty, literal)
        return n

    def defs_for(self, text):
        used = set(re.findall(r'\bk[sz]\d+\b', text))
        return '\n'.join(self.defs[n] for n in sorted(used, key=lambda x: int(x[2:]))) + '\n'


INTERN = Interner()


def cq_str_literal(s):
    b = s.encode('utf-8', 'surrogatepass') if isinstance(s, str) else bytes(s)
    if all(32 <= c < 127 and c != 34 for c in b):
        return '"' + b.decode('ascii') + '"'
    return '(S [' + ';'.join(str(c) for c in b) + ']%N)'


def cq_str(s):
    """A Coq term of type string for the Python str / bytes s (bytes of its UTF-8 encoding)."""
    if s == '' or s == b'':
        return '""'
    return INTERN.name('s', cq_str_literal(s))


def cq_time(t):
    if t is None:
        return 'None'
    return '(Some (%s))' % cq_z(t)


def ns(t):
    """[sec, nsec] -> integer nanoseconds"""
    return t[0] * 1000000000 + t[1]


def cq_z(t):
    n = ns(t) if isinstance(t, (list, tuple)) else int(t)
    return INTERN.name('z', '(%d)%%Z' % n)


def cq_bool(b):
    return 'true' if b else 'false'


def cq_list(items):
    return '[' + '; '.join(items) + ']'


def cq_opt_str(o):
    return 'None' if o is None else '(Some %s)' % cq_str(o)


def cq_event(ev):
    t = ev['t']
    if ev.get('bad'):
        return 'EBad'
    at = cq_time(ev.get('at'))
    s = lambda k: cq_str(ev.get(k, ''))
    if t in ('new_task', 'new_epic'):
        return '(ENew %s %s %s %s %s %s %s %s)' % (cq_bool(t == 'new_epic'), s('id'), s('uuid'), s('epic'), s('state'),
                                                   s('title'), s('body'), at)
    if t == 'state':
        return '(EState %s %s %s)' % (s('id'), s('state'), at)
    if t == 'claim':
        return '(EClaim %s %s %s)' % (s('id'), s('agent'), at)
    if t == 'unclaim':
        return '(EUnclaim %s)' % s('id')
    if t == 'link':
        return '(ELink %s %s %s)' % (s('from'), s('to'), s('ltype'))
    if t == 'unlink':
        return '(EUnlink %s %s %s)' % (s('from'), s('to'), s('ltype'))
    if t == 'title':
        return '(ETitle %s %s %s)' % (s('id'), s('title'), at)
    if t == 'body':
        return '(EBody %s %s %s)' % (s('id'), s('body'), at)
    if t == 'epic':
        return '(EEpic %s %s %s)' % (s('id'), s('epic'), at)
    if t == 'tombstone':
        return '(ETomb %s %s %s)' % (s('id'), s('agent'), at)
    if t == 'result':
        return '(EResult %s %s %s %s %s %s %s)' % (s('id'), s('summary'), s('path'), s('sha'), s('mtime'), s('git'), at)
    return 'EOther'


def cq_events(evs):
    return cq_list([cq_event(e) for e in evs])


def cq_result(r):
    return '(Result %s %s %s %s %s %s)' % (cq_str(r['summary']), cq_str(r['path']), cq_str(r['sha']),
                                           cq_str(r['mtime']), cq_str(r['git']), cq_z(r['at']))


def parse_rfc3339_ns(s, rpc=None):
    raise NotImplementedError


def cq_snapshot(snap):
    """snap: the 'ok' value of the snapshot RPC."""
    if snap is None or 'replay_error' in snap:
        return 'SnapErr'
    tasks = []
    for t in snap['tasks']:
        m = t.get('meta') or {}
        ca = None
        if t['claimed_by'] != '' and m and ns(m['last_claim']) != -62135596800 * 10**9:
            ca = m['last_claim']
        # cross-check with Go's own claimed_at string: empty iff ca is None
        if (t.get('claimed_at', '') == '') != (ca is None):
            ca = 'MISMATCH'
        tasks.append('(OTask %s %s %s %s %s %s %s %s %s %s %s %s %s %s %s %s)' % (
            cq_str(t['id']), cq_str(t['uuid']), cq_str(t['epic']), cq_bool(t['is_epic']), cq_str(t['state']),
            cq_str(t['title']), cq_str(t['body']), cq_str(t['claimed_by']), cq_z(t['created']), cq_z(t['updated']),
            'None' if ca is None else ('(Some (0)%Z)' if ca == 'MISMATCH' else '(Some %s)' % cq_z(ca)),
            cq_list([cq_str(x) for x in t['deps']]), cq_list([cq_str(x) for x in t['rdeps']]),
            cq_list([cq_result(r) for r in t['results']]), cq_bool(t['ready']), cq_bool(t['blocked'])))
    return '(SnapOk (OSnap %s %s %s %s))' % (cq_list(tasks), cq_list([cq_str(x) for x in snap['tombstones']]),
                                             cq_list([cq_str(x) for x in snap['ready_order']]),
                                             cq_list([cq_str(x) for x in snap['prune_targets']]))


CASES_HEADER = '''From Ergo Require Import Base Text Events Replay Ready Compact Path Cmd Input View.
From ErgoRun Require Import Check.
Local Open Scope string_scope.
Local Open Scope list_scope.
'''


def run_coq_cases(case_terms, workdir, tag='cases', shard=150, jobs=16, defn='run_cases', extra_import=''):
    """Evaluate [defn cases] in Coq for all case terms; returns list of (case_index, step, tag) mismatches."""
    files = []
    for k in range(0, len(case_terms), shard):
        part = case_terms[k:k + shard]
        name = os.path.join(workdir, '%s_%d.v' % (tag, k // shard))
        with open(name, 'w') as f:
            f.write(CASES_HEADER + extra_import)
            f.write(INTERN.defs_for(' '.join(part)))
            f.write('Definition cases : list case := [\n' + ';\n'.join(part) + '\n].\n')
            f.write('Definition M := Eval vm_compute in %s cases.\nPrint M.\n' % defn)
        files.append((k, name))
    procs = []
    results = []
    errors = []

    def reap(entry):
        k, name, p = entry
        out, _ = p.communicate()
        text = out.decode('utf-8', 'replace')
        if p.returncode != 0:
            errors.append((name, text[-2000:]))
            return
        flat = ' '.join(text.split())
        if not re.search(r'M\s*=\s*\[\s*\]', flat):
            for m in re.finditer(r'\((\d+),\s*(\d+),\s*"([A-Za-z]+)"\)', flat):
                results.append((k + int(m.group(1)), int(m.group(2)), m.group(3)))
            if not re.search(r'\(\d+,\s*\d+,\s*"', flat):
                errors.append((name, 'unparsable output: ' + flat[:500]))

    pending = list(files)
    running = []
    while pending or running:
        while pending and len(running) < jobs:
            k, name = pending.pop(0)
            p = subprocess.Popen(['coqc', '-Q', os.path.join(COQ, 'theories'), 'Ergo', '-Q', os.path.join(COQ, 'run'),
                                  'ErgoRun', '-w', '-all', name], cwd=workdir, stdout=subprocess.PIPE,
                                 stderr=subprocess.STDOUT)
            running.append((k, name, p))
        entry = running.pop(0)
        reap(entry)
    return results, errors
