"""Per-property dynamic checks (correspondence + monitors + targeted generators)."""
import json, os, random, subprocess, sys
from common import *
import driver, history, monitors, runner

ALL_OBS = {'LiveSet', 'Uuid', 'Epic', 'Kind', 'State', 'Title', 'Body', 'ClaimedBy', 'Created', 'Updated', 'ClaimedAt', 'Deps',
           'RDeps', 'Results', 'ReadyFlag', 'BlockedFlag', 'Tombs', 'ClaimOrder', 'PruneTargets', 'ReplayErr'}


def sizes(ctx, quick, thorough):
    return quick if ctx.quick() else thorough


def check_C06(ctx):
    tags = {'Exit', 'Events', 'State', 'ClaimedBy', 'Reply'}
    n, steps = sizes(ctx, (48, 25), (600, 30))
    prof = {'weights': {'set': 45, 'claim': 18, 'new': 25}}
    driver.history_check(ctx, tags, n, steps, profile=prof)


def check_C07(ctx):
    tags = {'Exit', 'Events', 'Deps', 'RDeps'}
    n, steps = sizes(ctx, (48, 25), (600, 35))
    prof = {'weights': {'seq': 40, 'seqrm': 10, 'plan': 8, 'prune': 8, 'new': 25, 'set': 12}}
    driver.history_check(ctx, tags, n, steps, profile=prof)
    driver.log_check(ctx, {'Deps', 'RDeps', 'ReplayErr', 'LiveSet'}, *sizes(ctx, (120, 25), (1500, 30)))


def mon_gone(log, snap, comp):
    """C09 on arbitrary logs: an id with a tombstone anywhere is absent from the replayed store."""
    out = []
    if 'replay_error' in snap:
        return out
    tomb = {e['id'] for e in log if e['t'] == 'tombstone' and e.get('at')}
    live = {t['id'] for t in snap['tasks']}
    for p in tomb & live:
        out.append(('tombstoned_id_alive', p))
    for t in snap['tasks']:
        for d in t['deps'] + t['rdeps']:
            if d in tomb:
                out.append(('edge_to_tombstoned', t['id'], d))
    return out


def check_C09(ctx):
    tags = {'Exit', 'Events', 'LiveSet', 'Tombs', 'PruneTargets', 'Reply', 'Deps', 'RDeps'}
    n, steps = sizes(ctx, (48, 30), (500, 40))
    prof = {'weights': {'prune': 16, 'set': 40, 'compact': 5, 'new': 20, 'seq': 10, 'claim': 8},
            'states': ['done', 'canceled', 'done', 'todo', 'doing', 'blocked']}
    driver.history_check(ctx, tags, n, steps, profile=prof, classify=None)
    driver.log_check(ctx, {'LiveSet', 'Tombs', 'Deps', 'RDeps', 'ReplayErr', 'PruneTargets'}, *sizes(ctx, (150, 30), (2000, 35)),
                     monitor=mon_gone)
    known_post_compact_reuse(ctx)


def known_post_compact_reuse(ctx):
    """Known finding: after compact the tombstone is gone (documented post-compact behaviour), so a
    candidate id equal to a pruned id is issued again.  Re-demonstrated on the real binary with the id hook."""
    st = Store()
    try:
        rc, out, _ = st.run(['--json', 'new', 'task'], stdin=b'{"title":"t"}', env={'ERGO_VERIF_IDS': 'AAAAAA'})
        st.run(['set', 'AAAAAA'], stdin=b'{"state":"done"}')
        st.run(['prune', '--yes'])
        # before compact the pruned id must be refused as a candidate
        rc1, out1, _ = st.run(['--json', 'new', 'task'], stdin=b'{"title":"u"}', env={'ERGO_VERIF_IDS': 'AAAAAA,BBBBBB'})
        got1 = (json.loads(out1) if rc1 == 0 else {}).get('id')
        if got1 == 'AAAAAA':
            ctx.violations.append(('monitor', 'pruned id reissued before compaction',
                                   {'kind': 'forced-ids', 'ids': 'AAAAAA,BBBBBB', 'got': got1}))
        st.run(['compact'])
        rc2, out2, _ = st.run(['--json', 'new', 'task'], stdin=b'{"title":"v"}', env={'ERGO_VERIF_IDS': 'AAAAAA,CCCCCC'})
        got2 = (json.loads(out2) if rc2 == 0 else {}).get('id')
        ctx.cov['post_compact_reuse_demo'] = {'before_compact_got': got1, 'after_compact_got': got2}
        kf = [k for k in driver.load_known() if k.get('id') == 'F-C09-post-compact-reuse' and k.get('status') == 'open']
        if got2 == 'AAAAAA':
            if kf:
                ctx.known.append('%s (%s)' % (kf[0]['what'], kf[0]['id']))
            else:
                ctx.violations.append(('monitor', 'pruned id reissued after compaction', {'kind': 'forced-ids', 'got': got2}))
        else:
            ctx.cov['known_finding_not_reproduced'] = 'F-C09-post-compact-reuse'
    finally:
        st.close()


def check_C10(ctx):
    tags = {'Exit', 'Events'}
    n, steps = sizes(ctx, (48, 30), (600, 40))
    prof = {'weights': {'malformed': 10, 'set': 40, 'seq': 20, 'new': 25, 'plan': 8, 'claim': 12}, 'agent_p': 0.5}
    driver.history_check(ctx, tags, n, steps, profile=prof)


def check_C11(ctx):
    tags = {'Exit', 'Events', 'Reply', 'LiveSet', 'Title', 'Body', 'Epic', 'Deps', 'RDeps', 'State', 'Created'}
    n, steps = sizes(ctx, (48, 16), (500, 24))
    prof = {'weights': {'plan': 45, 'new': 15, 'set': 12, 'prune': 6, 'compact': 3, 'seq': 6, 'claim': 4, 'malformed': 4}}
    driver.history_check(ctx, tags, n, steps, profile=prof)
    plan_malformed(ctx)


def plan_malformed(ctx):
    """Parse-level rejections are encoding/json behaviour: differential only (nothing written, exit 1)."""
    docs = [b'', b'{', b'{"title":"x","tasks":[{"title":"a"}]} {"title":"y"}', b'{"title":"x","tasks":[{"title":"a","afterr":[]}]}',
            b'{"title":"x","bogus":1,"tasks":[{"title":"a"}]}', b'[]', b'"str"', b'{"title":"x","tasks":"no"}',
            b'{"title":"x","tasks":[{"title":"a","after":"b"}]}', b'{"title":null,"tasks":[{"title":"a"}]}',
            b'{"title":"x","tasks":[]}', b'{"title":"x"}', b'{"title":"x","tasks":[{"title":"a","after":["a"]}]}',
            b'{"title":"x","tasks":[{"title":"a","after":["b"]},{"title":"b","after":["a"]}]}',
            b'{"title":"x","tasks":[{"title":"a"},{"title":"a"}]}', b'{"title":"x","body":"  ","tasks":[{"title":"a"}]}']
    st = Store()
    bad = []
    try:
        st.run(['new', 'task'], stdin=b'{"title":"pre"}')
        before = st.read_log()
        for d in docs:
            rc, out, err = st.run(['--json', 'plan'], stdin=d)
            if rc == 0 or st.read_log() != before:
                bad.append(d.decode())
        ctx.cov['plan_malformed_docs'] = len(docs)
        for d in bad:
            ctx.violations.append(('monitor', 'invalid plan payload accepted or wrote to the log', {'kind': 'plan-doc', 'doc': d}))
    finally:
        st.close()


def check_C14(ctx):
    tags = {'Exit', 'Events', 'Epic', 'LiveSet'}
    n, steps = sizes(ctx, (48, 25), (600, 35))
    prof = {'weights': {'new': 35, 'set': 35, 'prune': 10, 'plan': 5, 'compact': 3, 'claim': 5, 'seq': 5},
            'states': ['done', 'canceled', 'todo', 'doing']}
    driver.history_check(ctx, tags, n, steps, profile=prof)


def check_C17(ctx):
    tags = {'Title', 'Body', 'Events', 'Exit'}
    n, steps = sizes(ctx, (32, 20), (300, 30))
    prof = {'weights': {'new': 40, 'set': 40, 'plan': 10, 'compact': 5}}
    driver.history_check(ctx, tags, n, steps, profile=prof)
    codec_difftest(ctx)
    long_text_roundtrip(ctx)


def codec_difftest(ctx):
    nvalid = 400 if ctx.quick() else 2600
    p = subprocess.run([sys.executable, os.path.join(VERIF, 'harness', 'difftest_codec.py'), '--coq', COQ, '--ergo', ERGO,
                        '--seed', str(ctx.seed), '--n', str(nvalid)], capture_output=True, text=True, timeout=3000)
    ctx.cov['codec_difftest'] = {'rc': p.returncode, 'tail': p.stdout[-600:]}
    if p.returncode != 0:
        ctx.violations.append(('mismatch', 'JSON string codec model disagrees with encoding/json (see detail)',
                               {'kind': 'codec', 'output': (p.stdout + p.stderr)[-3000:], 'no_failing_input': False}))


def long_text_roundtrip(ctx):
    """Character-for-character round trip of large / awkward texts through every input mode."""
    rng = random.Random(ctx.seed)
    alphabet = ['a', ' ', '\n', '"', '\\', '\t', '\x01', '\x1f', '<', '>', '&', 'é', '日', '\U0001F600', ' ', ' ',
                '́', '\x7f', ' ', '{', '}', "'", '\r']
    sizes_ = [1, 2, 17, 1000, 70000] if ctx.quick() else [1, 2, 17, 1000, 70000, 400000]
    st = Store()
    bad = []
    n = 0
    try:
        for size in sizes_:
            for mode in ('json', 'stdin', 'flags'):
                body = 'x' + ''.join(rng.choice(alphabet) for _ in range(size)) + 'y'
                title = 'T' + ''.join(rng.choice([c for c in alphabet if c != '\n' or True]) for _ in range(min(size, 200))) + 'Z'
                if mode == 'flags' and size > 60000:
                    continue      # argv limit of a single argument (128 KiB) — not an ergo limit
                if mode == 'flags' or mode == 'stdin':
                    if '\x00' in title:
                        continue
                r = history.Req(k='new', epic=False, mode=mode, fields={'title': title, 'body': body}, agent=None)
                args, stdin = history.req_cli(r)
                rc, out, err = st.run(args, stdin=stdin)
                n += 1
                if rc != 0:
                    bad.append(('create_failed', mode, size, err.decode()[:200]))
                    continue
                i = json.loads(out)['id']
                rc, out, _ = st.run(['--json', 'show', i])
                got = json.loads(out)
                exp_title = title if mode == 'json' else title.strip(monitors.GO_WS)
                if got['title'] != exp_title or got['body'] != body:
                    bad.append(('roundtrip', mode, size))
                # set + compact
                body2 = body[::-1]
                rc, _, err = st.run(['set', i], stdin=json.dumps({'body': body2}, ensure_ascii=False).encode())
                st.run(['compact'])
                rc, out, _ = st.run(['--json', 'show', i])
                if json.loads(out)['body'] != body2:
                    bad.append(('roundtrip_after_set_compact', mode, size))
        ctx.cov['long_text_cases'] = n
        for b in bad:
            ctx.violations.append(('monitor', 'text did not come back as it went in: %s' % (b,), {'kind': 'text', 'case': b}))
    finally:
        st.close()


def replay(ctx, path):
    data = json.load(open(path))
    print(json.dumps(data, indent=1)[:6000])
    return 0
