"""Per-property dynamic checks (correspondence + monitors + targeted generators)."""
import json, os, random, re, subprocess, sys, time
from common import *
import driver, history, monitors, runner

ALL_OBS = {'LiveSet', 'Uuid', 'Epic', 'Kind', 'State', 'Title', 'Body', 'ClaimedBy', 'Created', 'Updated', 'ClaimedAt', 'Deps',
           'RDeps', 'Results', 'ReadyFlag', 'BlockedFlag', 'Tombs', 'ClaimOrder', 'PruneTargets', 'ReplayErr'}


def sizes(ctx, quick, thorough):
    return quick if ctx.quick() else thorough


def run_script(ctx, name, args, key, env=None, timeout=3000):
    e = dict(os.environ, COQDIR=COQ, ERGO=ERGO)
    if env:
        e.update(env)
    p = subprocess.run([sys.executable, os.path.join(VERIF, 'harness', name)] + [str(a) for a in args], capture_output=True,
                       text=True, timeout=timeout, env=e)
    ctx.cov[key] = {'rc': p.returncode, 'tail': p.stdout[-800:]}
    return p


def _sched_worker(args):
    seed, kw = args
    import common, sched
    common.INTERN.__init__()
    rpc = Rpc()
    try:
        kw = dict(kw)
        order = kw.pop('order', None)
        r = sched.SchedRun(rpc, random.Random(seed), **kw)
        try:
            if order is not None:
                r.run_order(order)
            else:
                r.run()
            term = r.coq_case()
            defs = common.INTERN.defs_for(term)
            info = r.describe()
            info['seed'] = seed
            info['states_seen'] = r.states_seen
            info['kill_views'] = r.kill_views
            info['final_state'] = r.final_state
            info['final_events_n'] = len(r.final_events or [])
            info['init_events'] = r.init_events
            outs = []
            for p in r.procs:
                outs.append({'kind': p.kind, 'rc': p.rc, 'state': p.state, 'stdout': p.out.decode('utf-8', 'replace')[:4000000],
                             'appended': p.appended, 'req': dict(p.req) if p.req else None})
            info['outs'] = outs
            resp = rpc.call(op='snapshot', dir=r.store.ergodir)
            info['final_snapshot'] = resp.get('ok') if 'ok' in resp and 'tasks' in resp.get('ok', {}) else None
            # post-run health: the store must still be readable, writable and rewritable
            rc1, out1, err1 = r.store.run(['--json', 'list', '--all'])
            rc2, out2, err2 = r.store.run(['--json', 'new', 'task'], stdin=b'{"title":"after the storm"}')
            rc3, out3, err3 = r.store.run(['--json', 'list', '--all'])
            rc4, out4, err4 = r.store.run(['--json', 'compact'])
            rc5, out5, err5 = r.store.run(['--json', 'plan'], stdin=b'{"title":"after","tasks":[{"title":"a1"}]}')
            rc6, out6, err6 = r.store.run(['--json', 'list', '--all'])
            info['post'] = {'list_rc': rc1, 'new_rc': rc2, 'list2_rc': rc3, 'compact_rc': rc4, 'plan_rc': rc5, 'list3_rc': rc6,
                            'err': (err1 + err2 + err3 + err4 + err5 + err6).decode('utf-8', 'replace')[:300],
                            'new_visible': rc2 == 0 and rc3 == 0 and json.loads(out2)['id'] in [t['id'] for t in json.loads(out3)]}
            return term, defs, info, None
        finally:
            r.close()
    except Exception as e:
        import traceback
        return None, None, {'seed': seed}, traceback.format_exc()[-1500:]
    finally:
        rpc.close()


def interleavings(a, b):
    """All merges of a steps of process 0 with b steps of process 1."""
    if a == 0:
        return [[1] * b]
    if b == 0:
        return [[0] * a]
    return [[0] + r for r in interleavings(a - 1, b)] + [[1] + r for r in interleavings(a, b - 1)]


def sched_check(ctx, n, kw, monitor, tags=('SchedOutcome', 'SchedFinalLog', 'SchedTail'), orders=None):
    import multiprocessing, common
    if orders is not None:
        jobs = [(ctx.seed * 7001 + (k % n), dict(kw, order=o)) for k, o in enumerate(orders)]
    else:
        jobs = [(ctx.seed * 7001 + k, kw) for k in range(n)]
    with multiprocessing.Pool(10) as pool:
        res = pool.map(_sched_worker, jobs, chunksize=1)
    ok = [(t, d, i) for (t, d, i, e) in res if e is None]
    errs = [(i, e) for (t, d, i, e) in res if e is not None]
    wd = mkscratch('ergo-sched-')
    mism, coqerrs = [], []
    try:
        shard = 8
        procs = []
        for k in range(0, len(ok), shard):
            part = ok[k:k + shard]
            name = os.path.join(wd, 'sched_%d.v' % (k // shard))
            with open(name, 'w') as f:
                f.write(CASES_HEADER + 'From Ergo Require Import Sched Concurrent.\nFrom ErgoRun Require Import SchedCheck.\n')
                terms = []
                for j, (term, defs, _) in enumerate(part):
                    pre = 'c%d_' % j
                    f.write(re.sub(r'\bk([sz]\d+)\b', lambda m: pre + 'k' + m.group(1), defs))
                    terms.append(re.sub(r'\bk([sz]\d+)\b', lambda m: pre + 'k' + m.group(1), term))
                f.write('Definition cases : list schedcase := [\n' + ';\n'.join(terms) + '\n].\n')
                f.write('Definition M := Eval vm_compute in run_schedcases cases.\nPrint M.\n')
            procs.append((k, name, subprocess.Popen(['coqc', '-Q', os.path.join(COQ, 'theories'), 'Ergo', '-Q', os.path.join(COQ, 'run'),
                                                     'ErgoRun', '-w', '-all', name], cwd=wd, stdout=subprocess.PIPE, stderr=subprocess.STDOUT)))
        for k, name, p in procs:
            out, _ = p.communicate()
            text = out.decode('utf-8', 'replace')
            flat = ' '.join(text.split())
            if p.returncode != 0:
                coqerrs.append(text[-800:])
            elif not re.search(r'M\s*=\s*\[\s*\]', flat):
                for m in re.finditer(r'\((\d+),\s*"([A-Za-z]+)"\)', flat):
                    mism.append((k + int(m.group(1)), m.group(2)))
    finally:
        shutil.rmtree(wd, ignore_errors=True)
    acts = {}
    outcomes = {}
    for _, _, info in ok:
        for (_, a) in info['schedule']:
            key = a.split()[0].strip('(')
            acts[key] = acts.get(key, 0) + 1
        for o in info['outs']:
            key = '%s:%s' % (o['kind'], o['state'] if o['state'] in ('dead', 'done_early') else ('rc%s' % o['rc']))
            outcomes[key] = outcomes.get(key, 0) + 1
    ctx.cov['schedules'] = ctx.cov.get('schedules', 0) + len(ok)
    ctx.cov['traces_validated_against_impl'] = ctx.cov.get('traces_validated_against_impl', 0) + len(ok)
    for k2, v in acts.items():
        ctx.cov.setdefault('schedule_actions', {})[k2] = ctx.cov.get('schedule_actions', {}).get(k2, 0) + v
    for k2, v in outcomes.items():
        ctx.cov.setdefault('process_outcomes', {})[k2] = ctx.cov.get('process_outcomes', {}).get(k2, 0) + v
    ctx.cov['schedule_lengths'] = sorted({len(i['schedule']) for _, _, i in ok})[:12]
    if ok:
        ctx.samples.append({'schedule_seed': ok[0][2]['seed'], 'processes': [(o['kind'], (o['req'] or {}).get('k')) for o in ok[0][2]['outs']],
                            'schedule': ok[0][2]['schedule'][:25]})
    for i, e in errs[:2]:
        ctx.violations.append(('broken', 'schedule run failed (controller): %s' % e[-300:], {'kind': 'schedule', 'seed': i['seed'], 'error': e}))
    for e in coqerrs[:1]:
        ctx.violations.append(('broken', 'schedule case evaluation failed: %s' % e[-300:], {'coq_error': e}))
    seen = set()
    for (i, tg) in mism:
        if tg in tags and tg not in seen:
            seen.add(tg)
            info = ok[i][2]
            mf = monitor(info) if monitor else []
            ctx.violations.append(('monitor' if mf else 'mismatch', 'model/implementation disagree on %s for schedule seed %d' % (tg, info['seed']),
                                   {'kind': 'schedule', 'tag': tg, 'seed': info['seed'], 'processes': info['processes'], 'schedule': info['schedule'],
                                    'monitor': mf, 'no_failing_input': not mf}))
    if monitor:
        for _, _, info in ok:
            for f in monitor(info):
                if f[0] in seen:
                    continue
                seen.add(f[0])
                ctx.violations.append(('monitor', 'schedule monitor: %s' % json.dumps(f, default=str)[:300],
                                       {'kind': 'schedule', 'seed': info['seed'], 'failure': f, 'processes': info['processes'], 'schedule': info['schedule']}))
    return ok


def mon_sched_common(info):
    out = []
    for pv in info.get('protocol', []):
        out.append(({'second_write_in_section': 'multi_write_section', 'second_section_in_command': 'multi_section_command'}.get(pv[0], pv[0]), pv[1]))
    fs = info.get('final_snapshot')
    if any(info['post'].get(k, 0) != 0 for k in ('list_rc', 'new_rc', 'list2_rc', 'compact_rc', 'plan_rc', 'list3_rc')) or not info['post']['new_visible']:
        out.append(('store_unusable_after_run', info['post']))
    if fs is None:
        out.append(('final_store_unreadable',))
        return out
    # acknowledged appends are still there (unless a compaction ran)
    compacted = any((o['req'] or {}).get('k') == 'compact' and o['state'] in ('done', 'dead', 'unlock') for o in info['outs'])
    if not compacted:
        finals = fs['events']
        init = info.get('init_events') or []
        if finals[:len(init)] != init:
            out.append(('recorded_history_lost', len(init), len(finals)))
        for o in info['outs']:
            if o['kind'] == 'w' and o['rc'] == 0 and o['appended']:
                for e in o['appended']:
                    if e not in finals:
                        out.append(('acknowledged_event_lost', o['req'].get('k')))
                        break
    # a failed or busy command contributed nothing
    for o in info['outs']:
        if o['kind'] == 'w' and o['rc'] not in (0, None) and o['state'] == 'done' and o['appended']:
            out.append(('failed_command_wrote', o['req'].get('k')))
    return out


def mon_rewrite_health(info):
    out = mon_sched_common(info)
    return out


def mon_C01_sched(info):
    out = mon_sched_common(info)
    won = {}
    for o in info['outs']:
        if o['kind'] == 'w' and o['rc'] == 0 and (o['req'] or {}).get('k') == 'claim' and o['req'].get('id') is None:
            try:
                v = json.loads(o['stdout'])
            except Exception:
                continue
            if v.get('status') == 'no_ready':
                continue
            won.setdefault(v['id'], []).append(o['req']['agent'])
    fs = info.get('final_snapshot') or {'tasks': []}
    others = any((o['req'] or {}).get('k') not in ('claim', None) for o in info['outs'] if o['kind'] == 'w')
    for i, agents in won.items():
        if len(agents) > 1 and not others:
            out.append(('task_won_twice', i, agents))
        t = monitors.tasks_by_id(fs).get(i)
        if t is not None and not others and (t['state'] != 'doing' or t['claimed_by'] not in agents):
            out.append(('winner_does_not_hold_task', i, t['state'], t['claimed_by']))
    return out


def mon_C01_finish(info):
    """a claim must never land on a task that was done / canceled when the claim took effect: at the end
    no task is doing-and-claimed unless a claimer was told it won it; the table forbids done->doing."""
    out = mon_sched_common(info)
    fs = info.get('final_snapshot')
    if fs:
        for f in monitors.mon_C06({'after': fs}):
            out.append(f)
        finished = {o['req']['id'] for o in info['outs'] if o['kind'] == 'w' and o['rc'] == 0 and (o['req'] or {}).get('k') == 'set'}
        won = set()
        for o in info['outs']:
            if o['kind'] == 'w' and o['rc'] == 0 and (o['req'] or {}).get('k') == 'claim':
                try:
                    v = json.loads(o['stdout'])
                    if v.get('status') != 'no_ready':
                        won.add(v['id'])
                except Exception:
                    pass
        # claim then finish is legal (doing -> done); finish then claim is not (done -> doing is not in the table, and a
        # finished task is not ready): if both succeeded, the task must have ended in its finished state
        ts = monitors.tasks_by_id(fs)
        for i in finished & won:
            if i in ts and ts[i]['state'] in ('doing', 'todo'):
                out.append(('claim_landed_on_finished_task', i, ts[i]['state'], ts[i]['claimed_by']))
    return out


def missing_lock_stress(ctx):
    """Free-running (uncontrolled) claimers released together on a store whose lock file is missing: the
    lock file is recreated on demand and must still exclude (search only: a race, not a schedule)."""
    import threading
    rounds = 6 if ctx.quick() else 40
    bad = None
    for r in range(rounds):
        st = Store()
        try:
            for k in range(6):
                st.run(['new', 'task'], stdin=json.dumps({'title': 't%d' % k}).encode())
            os.remove(os.path.join(st.ergodir, 'lock'))
            gate = threading.Barrier(8)
            outs = [None] * 8

            def claim(j):
                gate.wait()
                outs[j] = st.run(['--agent', 'a%d' % j, '--json', 'claim'])
            th = [threading.Thread(target=claim, args=(j,)) for j in range(8)]
            [t.start() for t in th]
            [t.join() for t in th]
            won = {}
            for j, (rc, out, err) in enumerate(outs):
                if rc == 0:
                    try:
                        v = json.loads(out)
                        if v.get('status') != 'no_ready':
                            won.setdefault(v['id'], []).append('a%d' % j)
                    except Exception:
                        pass
            dbl = {i: a for i, a in won.items() if len(a) > 1}
            if dbl:
                bad = dbl
                break
        finally:
            st.close()
    ctx.cov['missing_lock_stress_rounds'] = rounds
    if bad:
        ctx.violations.append(('monitor', 'with the lock file missing, one task was handed to several simultaneous claimers: %s' % bad,
                               {'kind': 'stress', 'how': 'rm .ergo/lock; start 8 `ergo claim` processes at once', 'winners': bad}))


def missing_lock_schedule(ctx):
    """The same question as a SCHEDULE (deterministic): two claimers both find .ergo/lock missing (parked between the
    Stat and the creation), the first then goes on into its critical section and is parked before its append, the second
    is released: it must end in `lock busy` (or wait its turn) — never be handed the task the first is about to take."""
    import sched
    st = Store()
    try:
        ids = []
        for k in range(3):
            rc, out, _ = st.run(['--json', 'new', 'task'], stdin=json.dumps({'title': 't%d' % k}).encode())
            ids.append(json.loads(out)['id'])
        os.remove(os.path.join(st.ergodir, 'lock'))
        ctl = sched.Controller(st)
        try:
            a = ctl.launch('ca', {'k': 'claim'}, ['--agent', 'first', '--json', 'claim'], None, 'ensure.create,append.before')
            b = ctl.launch('cb', {'k': 'claim'}, ['--agent', 'second', '--json', 'claim'], None, 'ensure.create,append.before')
            reached = (a.at, b.at)
            ctl.release(a)                      # a: creates the lock file, locks, loads, parks before its append
            a_in_section = a.at
            while b.at is not None:             # b: runs to completion (lock busy expected)
                ctl.release(b)
            while a.at is not None:
                ctl.release(a)
            won = {}
            for name, p in (('first', a), ('second', b)):
                if p.rc == 0:
                    try:
                        v = json.loads(p.out)
                        if v.get('status') != 'no_ready':
                            won.setdefault(v['id'], []).append(name)
                    except Exception:
                        pass
            ctx.cov['missing_lock_schedule'] = {'both_saw_lock_missing_at': list(reached), 'first_parked_at': a_in_section, 'rc': [a.rc, b.rc]}
            dbl = {i: w for i, w in won.items() if len(w) > 1}
            if dbl:
                ctx.violations.append(('monitor', 'with the lock file missing, one task was handed to two claimers whose critical sections overlapped: %s' % dbl,
                                       {'kind': 'schedule', 'commands': ['rm .ergo/lock', 'claim (first) parked at ensure.create', 'claim (second) parked at ensure.create',
                                                                         'first released up to append.before', 'second released to completion', 'first released'],
                                        'winners': dbl, 'rc': [a.rc, b.rc]}))
        finally:
            ctl.close()
    finally:
        st.close()


def mon_C01_claimers_only(info):
    """claimers + compaction only: nobody puts a task back to todo, so no id may be won twice and every
    winner must still hold its task at the end."""
    out = mon_sched_common(info)
    won = {}
    for o in info['outs']:
        if o['kind'] == 'w' and o['rc'] == 0 and (o['req'] or {}).get('k') == 'claim':
            try:
                v = json.loads(o['stdout'])
            except Exception:
                continue
            if v.get('status') != 'no_ready':
                won.setdefault(v['id'], []).append(o['req']['agent'])
    fs = info.get('final_snapshot') or {'tasks': []}
    for i, agents in won.items():
        if len(agents) > 1:
            out.append(('task_won_twice', i, agents))
        t = monitors.tasks_by_id(fs).get(i)
        if t is not None and (t['state'] != 'doing' or t['claimed_by'] not in agents):
            out.append(('winner_does_not_hold_task', i, t['state'], t['claimed_by']))
    return out


def mon_C04_sched(info):
    out = mon_sched_common(info)
    fs = info.get('final_snapshot')
    if fs:
        tr = {'after': fs}
        for f in monitors.mon_C06(tr):
            out.append(('half_applied:' + f[0],) + tuple(f[1:]))
        # a killed process' events: all or none
        finals = fs['events']
        for o in info['outs']:
            if o['kind'] == 'w' and o['state'] == 'dead' and o['appended']:
                present = [e in finals for e in o['appended']]
                if any(present) and not all(present):
                    out.append(('partially_applied', (o['req'] or {}).get('k'), present))
    # killed between system calls before its commit point (the single write / the rename): nothing a reader sees may change
    for (cmd, was, before, after) in info.get('kill_views', []):
        if was in ('start', 'locked', 'append', 'tmp', 'rename') and before is not None and after != before:
            out.append(('view_changed_by_a_kill_before_commit', cmd, was, 'items %d -> %s' % (len(before), 'unreadable' if after is None else len(after))))
    return out


def mon_C13_sched(info):
    out = mon_sched_common(info)
    for o in info['outs']:
        if o['kind'] in ('rdecode', 'rlist') and o['state'] != 'dead':
            if o['rc'] != 0:
                out.append(('reader_failed', o['kind'], o['rc']))
                continue
            if o['kind'] == 'rdecode':
                try:
                    if 'ok' not in json.loads(o['stdout']):
                        out.append(('reader_error', o['stdout'][:200]))
                except Exception:
                    out.append(('reader_garbage', o['stdout'][:100]))
            else:
                try:
                    items = json.loads(o['stdout'])
                except Exception:
                    out.append(('reader_garbage', o['stdout'][:100]))
                    continue
                got = sorted((t['id'], t['state'], t.get('claimed_by', ''), t['title']) for t in items)
                seen = [sorted(x for x in st if True) for st in info['states_seen'] if st is not None]
                # list --all shows tasks only (no epics); project the recorded states accordingly by id set
                ids = {g[0] for g in got}
                ok = any(sorted(x for x in st if x[0] in ids) == got and len([x for x in st]) >= len(got) for st in seen)
                if not ok and got:
                    out.append(('reader_saw_state_never_passed_through', got[:3]))
    return out


def write_syscall_probe(ctx, prop):
    """Every appending command must reach the log with exactly ONE write(2): counted with strace on the
    real binary for multi-event commands with small and large (4 KiB, 70 KiB, 300 KiB) payloads.  If a
    command needs more than one, it is killed at its second write and the half-applied state is shown."""
    import shutil as _sh
    if not _sh.which('strace'):
        ctx.cov['write_syscall_probe'] = 'strace not available'
        return
    rpc = Rpc()
    bad = []
    n = 0
    try:
        for size in (10, 5000, 70000, 300000):
            st = Store()
            try:
                body = 'b' * size
                rc, out, _ = st.run(['--json', 'new', 'task'], stdin=b'{"title":"seed"}')
                tid = json.loads(out)['id']
                for k in range(6):
                    st.run(['new', 'task'], stdin=json.dumps({'title': 'd%d' % k, 'state': 'done'}).encode())
                # ... and an epic whose children are all finished, so that prune removes tasks AND an epic
                rc, out, _ = st.run(['--json', 'new', 'epic'], stdin=b'{"title":"finished epic"}')
                eid = json.loads(out)['id']
                for k in range(2):
                    st.run(['new', 'task'], stdin=json.dumps({'title': 'child%d' % k, 'state': 'canceled' if k else 'done', 'epic': eid}).encode())
                cmds = [('new+claim', ['--agent', 'a', '--json', 'new', 'task'], json.dumps({'title': 't', 'body': body, 'claim': 'a', 'state': 'doing'}).encode()),
                        ('set title+body+state', ['--agent', 'a', 'set', tid], json.dumps({'title': 'nt', 'body': body, 'state': 'blocked'}).encode()),
                        ('claim', ['--agent', 'a', 'claim'], None),
                        ('sequence x3', None, None),
                        ('prune', ['prune', '--yes'], None)]
                for name, args, stdin in cmds:
                    if args is None:
                        ids = [t['id'] for t in rpc.call(op='snapshot', dir=st.ergodir)['ok']['tasks'] if t['state'] == 'todo'][:3]
                        if len(ids) < 3:
                            continue
                        args = ['sequence'] + ids
                    tracef = os.path.join(st.root, 'trace.txt')
                    pre = rpc.call(op='snapshot', dir=st.ergodir)['ok']
                    cmd = ['strace', '-f', '-qq', '-o', tracef, '-e', 'trace=write,pwrite64,writev', '-P', st.log, ERGO] + args
                    p = subprocess.run(cmd, cwd=st.dir, input=stdin, stdin=None if stdin is not None else subprocess.DEVNULL, capture_output=True, timeout=120)
                    writes = count_write_calls(tracef)
                    n += 1
                    if p.returncode == 0 and writes > 1:
                        bad.append((name, size, writes))
            finally:
                st.close()
        # the REWRITING commands (plan, compact, the repair of a log without its final newline) must never write
        # the live log in place, whatever the store looks like (empty after init, only a torn line, populated):
        # their bytes go to a temporary file that is renamed over the log
        inplace = []
        big_plan = json.dumps({'title': 'big plan', 'tasks': [{'title': 'plan task %02d %s' % (k, 'x' * 400), 'after': (['plan task %02d %s' % (k - 1, 'x' * 400)] if k else [])}
                                                              for k in range(24)]}).encode()
        for shape in ('empty', 'torn_only', 'populated'):
            for name, args, stdin in (('plan', ['--json', 'plan'], big_plan), ('compact', ['compact'], None)):
                st = Store()
                try:
                    if shape == 'torn_only':
                        with open(st.log, 'wb') as f:
                            f.write(b'{"type":"new_task","ts":"2026-01-01T00:00:00Z","data":{"id":"AAAAAA"')
                    elif shape == 'populated':
                        for k in range(3):
                            st.run(['new', 'task'], stdin=json.dumps({'title': 't%d' % k}).encode())
                    tracef = os.path.join(st.root, 'trace.txt')
                    cmd = ['strace', '-f', '-qq', '-o', tracef, '-e', 'trace=write,pwrite64,writev', '-P', st.log, ERGO] + args
                    p = subprocess.run(cmd, cwd=st.dir, input=stdin, stdin=None if stdin is not None else subprocess.DEVNULL, capture_output=True, timeout=120)
                    w = count_write_calls(tracef)
                    n += 1
                    if p.returncode == 0 and w > 0:
                        inplace.append((name, shape, w))
                finally:
                    st.close()
        ctx.cov['write_syscall_probe'] = {'commands_traced': n, 'multi_write_commands': bad[:5], 'rewrites_writing_in_place': inplace[:5]}
        for b in inplace[:2]:
            ctx.violations.append(('monitor', '`%s` on a store whose log is %s writes the live log in place (%d write(2) calls on .ergo/plans.jsonl) instead of renaming a complete temporary file over it: a kill between them leaves a prefix of the command' % b,
                                   {'kind': 'syscalls', 'command': b[0], 'store': b[1], 'writes': b[2],
                                    'how': 'strace -f -e trace=write -P .ergo/plans.jsonl ergo ' + b[0]}))
        for b in bad[:2]:
            ctx.violations.append(('monitor', 'command %s (payload %d bytes) reaches the log in %d write(2) calls: a kill between them leaves it half applied' % b,
                                   {'kind': 'syscalls', 'command': b[0], 'payload_bytes': b[1], 'writes': b[2],
                                    'how': 'strace -f -e trace=write -P .ergo/plans.jsonl ergo <command>'}))
    finally:
        rpc.close()


def count_write_calls(tracef):
    """Number of write-family system calls the traced command ISSUED on the log, from `strace -f -o` output.
    A call split by strace into `<unfinished ...>` / `<... resumed>` lines is one call; a short write (the
    kernel took fewer bytes than asked) followed by a call for exactly the remainder is one logical write of
    the code (the continuation loop of os.File.Write), not two writes of the command."""
    if not os.path.exists(tracef):
        return -1
    calls = []          # (pid, requested, returned)
    pending = {}
    for l in open(tracef, errors='replace'):
        m = re.match(r'^(\d+)\s+(?:write|pwrite64|writev)\(', l)
        pid = m.group(1) if m else None
        if m:
            req = re.search(r',\s*(\d+)(?:,\s*\d+)?\s*(?:\)|<unfinished)', l)
            reqn = int(req.group(1)) if req else None
            ret = re.search(r'\)\s*=\s*(-?\d+)', l)
            if ret:
                calls.append((pid, reqn, int(ret.group(1))))
            else:
                pending[pid] = reqn
            continue
        m = re.match(r'^(\d+)\s+<\.\.\.\s+(?:write|pwrite64|writev) resumed>.*=\s*(-?\d+)', l)
        if m and m.group(1) in pending:
            calls.append((m.group(1), pending.pop(m.group(1)), int(m.group(2))))
    for pid, reqn in pending.items():
        calls.append((pid, reqn, None))
    n, k = 0, 0
    while k < len(calls):
        n += 1
        pid, req, ret = calls[k]
        k += 1
        # merge the continuation(s) of a short write
        while req is not None and ret is not None and 0 <= ret < req and k < len(calls) and calls[k][1] == req - ret:
            pid, req, ret = calls[k]
            k += 1
    return n


def cycle_difftest(ctx):
    """hasCycle on random graphs (any states, tombstones, dangling edges) vs the model's has_cycle."""
    import synth, common
    rng = random.Random(ctx.seed * 313 + 7)
    rpc = Rpc()
    wd = mkscratch('ergo-cycle-')
    cases = []
    try:
        common.INTERN.__init__()
        path = os.path.join(wd, 'log.jsonl')
        nlogs = 40 if ctx.quick() else 600
        for _ in range(nlogs):
            g = synth.LogGen(rng, nids=rng.choice([4, 6, 8]))
            log = g.log(rng.choice([20, 35]))
            synth.write_log(path, log)
            resp = rpc.call(op='snapshot', path=path)
            if 'ok' not in resp or 'replay_error' in resp['ok']:
                continue
            evs = resp['ok']['events']
            for _ in range(6):
                a, b = rng.choice(g.ids), rng.choice(g.ids)
                r = rpc.call(op='cycle', path=path, **{'from': a, 'to': b})
                if 'ok' in r:
                    cases.append('(%s, %s, %s, %s)' % (cq_events(evs), cq_str(a), cq_str(b), cq_bool(r['ok'])))
        mism = []
        shard = 120
        procs = []
        for k in range(0, len(cases), shard):
            part = cases[k:k + shard]
            name = os.path.join(wd, 'cyc_%d.v' % (k // shard))
            with open(name, 'w') as f:
                f.write(CASES_HEADER)
                f.write(common.INTERN.defs_for(' '.join(part)))
                f.write('Definition cases : list (list event * string * string * bool) := [\n' + ';\n'.join(part) + '\n].\n')
                f.write('Definition M := Eval vm_compute in (fun c : list event * string * string * bool => let \'(l, a, b, o) := c in '
                        'match replay l with Ok g => Bool.eqb (has_cycle g a b) o | Err _ => false end) <$> cases.\nPrint M.\n')
            procs.append((k, subprocess.Popen(['coqc', '-Q', os.path.join(COQ, 'theories'), 'Ergo', '-Q', os.path.join(COQ, 'run'), 'ErgoRun', '-w', '-all', name],
                                              cwd=wd, stdout=subprocess.PIPE, stderr=subprocess.STDOUT)))
        nfalse = 0
        for k, p in procs:
            out, _ = p.communicate()
            text = out.decode('utf-8', 'replace')
            if p.returncode != 0:
                ctx.violations.append(('broken', 'cycle difftest evaluation failed: ' + text[-300:], {'coq_error': text[-1500:]}))
            nfalse += len(re.findall(r'\bfalse\b', text))
        ctx.cov['cycle_difftest_cases'] = len(cases)
        if nfalse:
            ctx.violations.append(('mismatch', 'hasCycle disagrees with the model on %d of %d random graphs' % (nfalse, len(cases)),
                                   {'kind': 'function', 'op': 'cycle', 'no_failing_input': True}))
    finally:
        rpc.close()
        shutil.rmtree(wd, ignore_errors=True)


def check_C01(ctx):
    n = 60 if ctx.quick() else 800
    sched_check(ctx, n, {'nwriters': 4, 'nreaders': 0, 'claimers': True, 'pre_steps': 10}, mon_C01_sched)
    sched_check(ctx, n // 2, {'nwriters': 4, 'nreaders': 0, 'pre_steps': 8}, mon_C01_sched)
    # claimers racing with somebody finishing / cancelling the oldest ready task
    sched_check(ctx, n // 2, {'nwriters': 2, 'nreaders': 0, 'claimers': True, 'pre_steps': 10, 'fixed': ['finish', 'finish']}, mon_C01_finish)
    missing_lock_stress(ctx)
    missing_lock_schedule(ctx)
    legacy_claim_races(ctx)
    # claimers racing with a log rewrite (compact) on a log with squeezable history
    sched_check(ctx, n // 2, {'nwriters': 3, 'nreaders': 0, 'claimers': True, 'pre_steps': 30, 'fixed': ['compact'],
                              'pre_profile': {'weights': {'set': 60, 'new': 30, 'claim': 0, 'compact': 0, 'malformed': 0, 'prune': 0},
                                              'states': ['todo', 'todo', 'blocked', 'todo']}}, mon_C01_claimers_only)


def init_race(ctx):
    """`init` (which takes no lock) racing with the first acknowledged write on a store without a log
    file: park init right before it creates the file, let a `new task` commit, resume init."""
    import sched
    rpc = Rpc()
    lost = 0
    n = 0
    try:
        for variant in ('plans', 'lock', 'legacy'):
            st = Store()
            try:
                if variant == 'plans':
                    os.remove(st.log)
                elif variant == 'lock':
                    os.remove(os.path.join(st.ergodir, 'lock'))
                else:
                    st.run(['new', 'task'], stdin=b'{"title":"old item"}')
                    os.rename(st.log, os.path.join(st.ergodir, 'events.jsonl'))      # a legacy-only store
                ctl = sched.Controller(st)
                try:
                    if variant == 'legacy':
                        # the writer has resolved the log path and is about to take the lock; init runs to completion meanwhile
                        p = ctl.launch('w', {'k': 'new'}, ['--json', 'new', 'task'], b'{"title":"first write"}', 'lock.attempt')
                        st.run(['init'])
                        while p.at is not None:
                            ctl.release(p)
                        ack = p.rc == 0
                    else:
                        p = ctl.launch('w', {'k': 'init'}, ['init'], None, 'ensure.create')
                        rc, out, err = st.run(['--json', 'new', 'task'], stdin=b'{"title":"first write"}')
                        ack = rc == 0
                        while p.at is not None:
                            ctl.release(p)
                    n += 1
                    rc2, out2, _ = st.run(['--json', 'list', '--all'])
                    shown = [t['title'] for t in json.loads(out2)] if rc2 == 0 else None
                    if ack and (shown is None or 'first write' not in shown):
                        lost += 1
                        ctx.violations.append(('monitor', 'init racing with the first write lost an acknowledged event (variant %s)' % variant,
                                               {'kind': 'schedule', 'commands': ['init parked at ensure.create', 'new task {"title":"first write"} (exit 0)', 'init resumed', 'list --all'], 'shown': shown}))
                finally:
                    ctl.close()
            finally:
                st.close()
        ctx.cov['init_race_runs'] = n
    finally:
        rpc.close()


def check_C02(ctx):
    legacy_store_races(ctx)
    n = 90 if ctx.quick() else 1200
    sched_check(ctx, n, {'nwriters': 4, 'nreaders': 1}, mon_sched_common)
    init_race(ctx)
    write_syscall_probe(ctx, 'C02')
    if not ctx.quick():
        # exhaustive: every interleaving of the sync points of two writers (5 steps each) on 3 store shapes
        orders = interleavings(5, 5)
        sched_check(ctx, 3, {'nwriters': 2, 'nreaders': 0}, mon_sched_common, orders=orders * 3)
        ctx.cov['exhaustive'] = True
        ctx.cov['exhaustive_space'] = 'all %d interleavings of two writers x 5 sync-point steps, on 3 store/command shapes' % len(orders)


def check_C03(ctx):
    n = 90 if ctx.quick() else 1200
    sched_check(ctx, n, {'nwriters': 4, 'nreaders': 1, 'kills': 0.12, 'tears': 0.7}, mon_sched_common)
    sched_check(ctx, n // 3, {'nwriters': 3, 'nreaders': 0, 'kills': 0.08, 'tears': 0.6, 'pre_tear': True}, mon_sched_common)
    sched_check(ctx, n // 3, {'nwriters': 3, 'nreaders': 1, 'kills': 0.05, 'tears': 0.3, 'strip_newline': True, 'pre_steps': 8}, mon_sched_common)
    # a kill during a rewrite (compact / plan / repair) must not block later rewrites
    sched_check(ctx, n // 3, {'nwriters': 1, 'nreaders': 0, 'kills': 0.3, 'tears': 0.3, 'fixed': ['compact', 'plan', 'compact'], 'pre_steps': 8}, mon_rewrite_health)
    big_torn_tails(ctx)


def big_torn_tails(ctx):
    """Torn tails of every size (a crashed writer's unterminated last line: garbage, or a long JSON prefix): reads
    work, the next mutation succeeds and is visible, and everything acknowledged before is still there."""
    n = 0
    for size in (7, 500, 5000, 65530, 65537, 70000, 150000, 1200000):
        for shape in ('json_prefix', 'garbage'):
            st = Store()
            try:
                ids = []
                for k in range(3):
                    rc, out, _ = st.run(['--json', 'new', 'task'], stdin=json.dumps({'title': 'kept %d' % k}).encode())
                    ids.append(json.loads(out)['id'])
                tail = ('{"type":"new_task","ts":"2026-01-01T00:00:00Z","data":{"id":"TORN00","uuid":"u","epic_id":"","state":"todo","title":"torn","body":"' + 'x' * size) if shape == 'json_prefix' else 'g' * size
                with open(st.log, 'ab') as f:
                    f.write(tail.encode())
                n += 1
                problems = []
                rc0, out0, err0 = st.run(['--json', 'list', '--all'])
                if rc0 != 0 or sorted(t['id'] for t in json.loads(out0)) != sorted(ids):
                    problems.append(('read after the crash', rc0, err0.decode()[:120]))
                for later, stdin in ((['--json', 'new', 'task'], b'{"title":"after the crash"}'), (['set', ids[0]], b'{"state":"done"}'), (['--agent', 'a', 'claim'], None)):
                    rc, out, err = st.run(later, stdin=stdin)
                    rc1, out1, err1 = st.run(['--json', 'list', '--all'])
                    if rc != 0 or rc1 != 0:
                        problems.append((' '.join(later), rc, err.decode()[:120], rc1, err1.decode()[:120]))
                        break
                    got = [t['id'] for t in json.loads(out1)]
                    if not set(ids) <= set(got) or 'TORN00' in got:
                        problems.append((' '.join(later), 'acknowledged items missing or torn item visible', got))
                        break
                if problems:
                    ctx.violations.append(('monitor', 'after a torn tail of %d bytes (%s) the store does not recover: %s' % (size, shape, problems[:2]),
                                           {'kind': 'cli', 'commands': ['new task x3', 'append %d bytes of %s without newline to plans.jsonl' % (size, shape), 'list --all', 'new task', 'set', 'claim', 'list --all'],
                                            'problems': problems}))
                    return
            finally:
                st.close()
    ctx.cov['big_torn_tails'] = n


def busy_after_commit(ctx):
    """Somebody else grabs the lock the moment a command releases it: the command has committed, so it must
    still succeed (or, if it fails, have written nothing)."""
    import sched, fcntl
    n = 0
    for name in ('set --json', 'claim id', 'claim oldest', 'new --json', 'sequence --json', 'prune --yes --json', 'compact --json'):
        st = Store()
        try:
            ids = []
            for k in range(3):
                rc, out, _ = st.run(['--json', 'new', 'task'], stdin=json.dumps({'title': 't%d' % k, 'state': 'done' if k == 2 else 'todo'}).encode())
                ids.append(json.loads(out)['id'])
            cmd = {'set --json': (['--agent', 'a', '--json', 'set', ids[0]], b'{"title":"changed","state":"doing"}'),
                   'claim id': (['--agent', 'a', '--json', 'claim', ids[0]], None), 'claim oldest': (['--agent', 'a', '--json', 'claim'], None),
                   'new --json': (['--json', 'new', 'task'], b'{"title":"fresh"}'), 'sequence --json': (['--json', 'sequence', ids[0], ids[1]], None),
                   'prune --yes --json': (['--json', 'prune', '--yes'], None), 'compact --json': (['--json', 'compact'], None)}[name]
            before = st.read_log()
            ctl = sched.Controller(st)
            lockf = None
            try:
                p = ctl.launch('w', {'k': name}, cmd[0], cmd[1], 'lock.released')
                if p.at is not None:
                    lockf = open(os.path.join(st.ergodir, 'lock'), 'a')
                    fcntl.flock(lockf, fcntl.LOCK_EX)          # the contender owns the lock from here on
                    while p.at is not None:
                        ctl.release(p)
            finally:
                ctl.close()
                if lockf:
                    lockf.close()
            n += 1
            after = st.read_log()
            if p.rc != 0 and after != before:
                ctx.violations.append(('monitor', '`%s` exited %s (%s) although its events are in the log' % (name, p.rc, (p.err or b'').decode()[:100].strip()),
                                       {'kind': 'schedule', 'commands': ['new task x3', '%s parked at lock.released' % name, 'another process takes .ergo/lock', 'resume'],
                                        'log_grew_by': len(after) - len(before), 'stderr': (p.err or b'').decode()[:300]}))
        finally:
            st.close()
    ctx.cov['busy_after_commit'] = n


def check_C04(ctx):
    n = 90 if ctx.quick() else 1200
    sched_check(ctx, n, {'nwriters': 4, 'nreaders': 0, 'kills': 0.22, 'tears': 0.0}, mon_C04_sched)
    # rewrites (compact on a store with pruned items, plan, prune) killed at every step of the tmp + rename protocol
    sched_check(ctx, n // 2, {'nwriters': 0, 'nreaders': 0, 'kills': 0.45, 'tears': 0.0, 'fixed': ['compact', 'plan', 'prune', 'compact'], 'pre_steps': 14,
                              'pre_profile': {'weights': {'new': 40, 'set': 40, 'prune': 12, 'compact': 0, 'malformed': 0, 'plan': 0},
                                              'states': ['done', 'canceled', 'todo', 'doing']}}, mon_C04_sched)
    write_syscall_probe(ctx, 'C04')


def check_C13(ctx):
    legacy_store_races(ctx)
    n = 90 if ctx.quick() else 1200
    sched_check(ctx, n, {'nwriters': 3, 'nreaders': 3}, mon_C13_sched)
    sched_check(ctx, n // 2, {'nwriters': 1, 'nreaders': 3, 'fixed': ['compact', 'plan'], 'pre_steps': 10}, mon_C13_sched)
    # readers on a log whose tail a crashed writer left torn, while writers repair / rewrite it under them
    sched_check(ctx, n // 2, {'nwriters': 1, 'nreaders': 3, 'fixed': ['new', 'compact'], 'pre_steps': 8, 'pre_tear': True}, mon_C13_sched)
    write_syscall_probe(ctx, 'C13')
    if not ctx.quick():
        orders = interleavings(5, 3)
        sched_check(ctx, 4, {'nwriters': 1, 'nreaders': 1}, mon_C13_sched, orders=orders * 4)
        ctx.cov['exhaustive'] = True
        ctx.cov['exhaustive_space'] = 'every reader start time (3 reader steps) relative to every step of one writer (5 steps): %d interleavings x 4 shapes' % len(orders)


def stale_stamp_schedules(ctx):
    """A command parked just before it takes the lock while another process updates the same item: whatever
    the parked command then writes must not carry a stamp older than what is already in the log - otherwise
    compaction (which keeps one stamp per field) moves updated_at / claimed_at backwards."""
    import sched
    n = 0
    victims = [('claim oldest', ['--agent', 'zed', '--json', 'claim'], None),
               ('claim id', None, None),
               ('set title', None, b'{"title":"renamed while parked"}'),
               ('set state', None, b'{"state":"doing"}')]
    for name, vargs, vstdin in victims:
        st = Store()
        try:
            rc, out, _ = st.run(['--json', 'new', 'task'], stdin=b'{"title":"B","state":"blocked"}')
            b = json.loads(out)['id']
            args = vargs if vargs is not None else (['--agent', 'zed', '--json', 'claim', b] if name == 'claim id' else ['--agent', 'zed', 'set', b])
            ctl = sched.Controller(st)
            try:
                p = ctl.launch('w', {'k': name}, args, vstdin, 'lock.attempt')
                time.sleep(0.01)
                st.run(['set', b], stdin=b'{"state":"todo"}')
                time.sleep(0.01)
                while p.at is not None:
                    ctl.release(p)
            finally:
                ctl.close()
            n += 1
            keys = ('state', 'claimed_by', 'claimed_at', 'title', 'body', 'created_at', 'updated_at')
            before = json.loads(st.run(['--json', 'show', b])[1])
            st.run(['compact'])
            after = json.loads(st.run(['--json', 'show', b])[1])
            diff = [(k, before.get(k), after.get(k)) for k in keys if before.get(k) != after.get(k)]
            if diff:
                ctx.violations.append(('monitor', 'compact changed what `show` reports after `%s` raced with another update: %s' % (name, diff),
                                       {'kind': 'schedule', 'commands': ['new task B (blocked)', '%s parked at lock.attempt' % name, 'set B state=todo', 'resume', 'show B', 'compact', 'show B'],
                                        'differences': diff}))
        finally:
            st.close()
    ctx.cov['stale_stamp_schedules'] = n


def check_C05(ctx):
    legacy_untitled_twins(ctx)
    stale_stamp_schedules(ctx)
    tags = {'Events', 'Exit'} | ALL_OBS
    n, steps = sizes(ctx, (40, 30), (400, 45))
    prof = {'weights': {'compact': 14, 'new': 22, 'set': 34, 'claim': 10, 'seq': 10, 'prune': 7, 'plan': 5, 'seqrm': 2}}
    driver.history_check(ctx, tags, n, steps, profile=prof)
    # synthetic logs: legacy untitled creates, reordered, hand-merged, equal stamps; Go's compactEvents vs the model's,
    # and obs before/after by a direct monitor
    driver.log_check(ctx, {'CompactEvents', 'ReplayErr'} | ALL_OBS, *sizes(ctx, (150, 24), (2500, 30)), monotone=True,
                     with_compact=True, monitor=mon_compact_logs)
    compact_twin_runs(ctx)


def stamps_usable(log):
    """The hypothesis of C05_compact_preserves, recomputed on a typed log: per item the update stamps are
    non-zero and non-decreasing, claims are not zero-stamped, no epic is re-parented."""
    last, epics = {}, set()
    for e in log:
        t = e['t']
        if e.get('at') is None and t not in ('link', 'unlink', 'unclaim', 'mystery'):
            return False
        if t == 'new_epic':
            epics.add(e['id'])
        if t == 'epic' and e['id'] in epics:
            return False
        if t in ('new_task', 'new_epic', 'state', 'title', 'body', 'epic', 'result'):
            i = e['id']
            cur = (e['at'][0], e['at'][1])
            if i in last and cur < last[i] and t not in ('new_task', 'new_epic'):
                return False
            last[i] = max(last.get(i, cur), cur)
    return True


def mon_compact_logs(log, snap, comp):
    if comp is None or 'replay_error' in snap or 'replay_error' in comp:
        return []
    if not stamps_usable(log):
        return []
    a, b = monitors.obs_of(snap), monitors.obs_of(comp)
    if a != b:
        diff = [(x['id'], k) for x, y in zip(a[0], b[0]) for k in monitors.OBS_KEYS if x[k] != y[k]]
        return [('compact_changed_obs', diff[:6])]
    return []


def compact_twin_runs(ctx):
    """Commands issued after compaction behave exactly as they would have without it: fork the store
    before `compact`, apply the same later commands (same forced ids) to both, compare exit codes and obs."""
    rpc = Rpc()
    bad = []
    forks = 0
    try:
        for k in range(6 if ctx.quick() else 60):
            rng = random.Random(ctx.seed * 977 + k)
            h = history.History(rpc, rng)
            h.profile = {'weights': {'compact': 0, 'prune': 9, 'set': 35}}
            for _ in range(rng.choice([10, 18, 25])):
                h.do(h.gen_request())
            twin_root = mkscratch('ergo-twin-')
            twin = os.path.join(twin_root, 'proj')
            shutil.copytree(h.store.dir, twin, symlinks=True)
            h.do(history.Req(k='compact'))
            forks += 1
            h.profile = {'weights': {'compact': 2, 'prune': 6, 'set': 35}}
            for _ in range(12):
                r = h.gen_request()
                if r['k'] == 'compact':
                    continue
                h.do(r)
                tr = h.trace[-1]
                ids = [e['id'] for e in tr['appended'] if e['t'] in ('new_task', 'new_epic')]
                args, stdin = history.req_cli(r)
                # result files the generator created for this request exist in the twin too
                for name in os.listdir(h.store.dir):
                    if name != '.ergo' and os.path.isdir(os.path.join(h.store.dir, name)):
                        shutil.copytree(os.path.join(h.store.dir, name), os.path.join(twin, name), symlinks=True, dirs_exist_ok=True)
                env = dict(os.environ)
                if ids:
                    env['ERGO_VERIF_IDS'] = ','.join(ids)
                env.pop('ERGO_VERIF_CTL', None)
                p = subprocess.run([ERGO] + args, cwd=twin, input=stdin, stdin=None if stdin is not None else subprocess.DEVNULL,
                                   capture_output=True, env=env, timeout=30)
                if (p.returncode == 0) != (tr['rc'] == 0):
                    bad.append(('exit_differs', args, tr['rc'], p.returncode, tr['stderr'][:120], p.stderr.decode()[:120]))
                    break
            a = h.snap
            b = rpc.call(op='snapshot', dir=os.path.join(twin, '.ergo')).get('ok', {})
            keys = ['id', 'epic', 'is_epic', 'state', 'title', 'body', 'claimed_by', 'deps', 'rdeps', 'ready', 'blocked']
            pa = [{x: t[x] for x in keys} for t in a.get('tasks', [])]
            pb = [{x: t[x] for x in keys} for t in b.get('tasks', [])]
            if (pa, a.get('ready_order')) != (pb, b.get('ready_order')) and not bad:
                bad.append(('state_differs_after_later_commands', [t['args'] for t in h.trace[-12:]]))
            shutil.rmtree(twin_root, ignore_errors=True)
            h.close()
        ctx.cov['compact_twin_forks'] = forks
        for b in bad[:2]:
            ctx.violations.append(('monitor', 'behaviour after compaction differs from behaviour without it: %s' % (b[:4],),
                                   {'kind': 'twin', 'case': b}))
    finally:
        rpc.close()


def legacy_untitled_twins(ctx):
    """Legacy logs (items created without a title: the title is derived from the body on every load):
    later commands on a compacted copy vs on the untouched copy."""
    import driver
    shown = {}
    n = 0
    bodies = ['# Old heading\ndetails\nmore', 'Title line\nDetails line', '\n\n', 'only line']
    later = [('set body', ['set', 'LLLLLL'], b'{"body":"New text"}'), ('set title', ['set', 'LLLLLL'], b'{"title":"Given"}'),
             ('claim', ['--agent', 'a', 'claim', 'LLLLLL'], None), ('set state', ['set', 'LLLLLL'], b'{"state":"done"}')]
    for body in bodies:
        for lname, largs, lstdin in later:
            res = []
            for compact_first in (False, True):
                st = Store()
                try:
                    ev = {'type': 'new_task', 'ts': '2024-01-01T00:00:00Z', 'data': {'id': 'LLLLLL', 'uuid': 'u1', 'epic_id': '', 'state': 'todo',
                                                                                    'title': '', 'body': body, 'created_at': '2024-01-01T00:00:00Z'}}
                    with open(st.log, 'w') as f:
                        f.write(json.dumps(ev) + '\n')
                    if compact_first:
                        st.run(['compact'])
                    rc, _, err = st.run(largs, stdin=lstdin)
                    rc2, out, _ = st.run(['--json', 'show', 'LLLLLL'])
                    d = json.loads(out) if rc2 == 0 else {}
                    res.append((rc == 0, d.get('title'), d.get('body'), d.get('state'), d.get('claimed_by')))
                finally:
                    st.close()
            n += 1
            if res[0] != res[1]:
                shown[(body, lname)] = res
    ctx.cov['legacy_untitled_twins'] = n
    kf = [k for k in driver.load_known() if k.get('id') == 'F5' and k.get('status') == 'open']
    for (body, lname), res in shown.items():
        # the recorded finding: a TITLE or BODY edit on an untitled legacy item (derivation happens on every load, compaction freezes it)
        if kf and lname in ('set body', 'set title') and res[0][0] and res[1][0] and res[0][3:] == res[1][3:]:
            msg = '%s (F5)' % kf[0]['what'][:200]
            if msg not in ctx.known:
                ctx.known.append(msg)
            continue
        ctx.violations.append(('monitor', 'legacy untitled item: `%s` after compact behaves differently from without it: %s' % (lname, res),
                               {'kind': 'twin', 'log': 'new_task LLLLLL title "" body %r' % body, 'later': lname, 'without_compact': res[0], 'after_compact': res[1]}))


def waits_for_edges(snap):
    ts = monitors.tasks_by_id(snap)
    plain, inherited = [], []
    for t in snap.get('tasks', []):
        for d in t['deps']:
            plain.append((t['id'], d))
        if not t['is_epic'] and t['epic'] in ts:
            for d in ts[t['epic']]['deps']:
                if d in ts and ts[d]['is_epic']:
                    for c in snap['tasks']:
                        if not c['is_epic'] and c['epic'] == d:
                            inherited.append((t['id'], c['id']))
    return plain, inherited


def classify_C15(f, trace, k):
    if f[0] != 'no_progress':
        return None
    plain, inherited = waits_for_edges(trace[k]['after'])
    if monitors.has_cycle_edges(plain + inherited) and not monitors.has_cycle_edges(plain) and inherited:
        return {'monitor': 'progress', 'needs': 'waits_for_cycle_with_epic_edge'}
    return None


def check_C15(ctx):
    tags = {'ReadyFlag', 'ClaimOrder', 'Reply'}
    n, steps = sizes(ctx, (48, 30), (500, 40))
    prof = {'weights': {'new': 30, 'seq': 34, 'set': 14, 'plan': 8, 'claim': 6, 'prune': 4, 'seqrm': 3, 'compact': 1},
            'states': ['todo', 'todo', 'done', 'canceled']}
    driver.history_check(ctx, tags | {'Exit', 'Events'}, n, steps, profile=prof, classify=classify_C15)
    cycle_difftest(ctx)
    # the known finding F1 is re-demonstrated on the real binary on every run
    st = Store()
    try:
        def new(kind, title, epic=None):
            f = {'title': title}
            if epic:
                f['epic'] = epic
            rc, out, _ = st.run(['--json', 'new', kind], stdin=json.dumps(f).encode())
            return json.loads(out)['id']
        e1, e2 = new('epic', 'E1'), new('epic', 'E2')
        a, b = new('task', 'A', e1), new('task', 'B', e2)
        r1 = st.run(['sequence', b, a])[0]
        r2 = st.run(['sequence', e1, e2])[0]
        rc, out, _ = st.run(['--agent', 'x', '--json', 'claim'])
        stuck = rc == 0 and json.loads(out).get('status') == 'no_ready'
        ctx.cov['F1_witness'] = {'sequence_rcs': [r1, r2], 'claim_says_no_ready': stuck}
        kf = [k for k in driver.load_known() if k.get('id') == 'F1' and k.get('status') == 'open']
        if stuck and r1 == 0 and r2 == 0:
            if kf:
                ctx.known.append('%s (F1)' % kf[0]['what'])
            else:
                ctx.violations.append(('monitor', 'two-level waits-for cycle accepted: claim says no_ready with all tasks todo',
                                       {'kind': 'cli', 'commands': 'new epic E1; new epic E2; new task A in E1; new task B in E2; sequence B A; sequence E1 E2; claim'}))
        else:
            ctx.cov['known_finding_not_reproduced'] = 'F1'
    finally:
        st.close()


def check_C16(ctx):
    tags = {'Reply', 'Exit'}
    n, steps = sizes(ctx, (48, 25), (500, 35))
    driver.history_check(ctx, tags, n, steps)
    # replies vs the following read on identities that are easy to normalise by accident (padded, blank-looking)
    driver.history_check(ctx, tags, n // 2, steps, profile={'weights': {'new': 30, 'set': 30, 'claim': 30, 'seq': 4, 'prune': 2, 'plan': 2, 'compact': 2},
                                                            'odd_agent_p': 0.3, 'agent_p': 0.9})
    json_surface(ctx)
    sequence_replies_on_ordered_items(ctx)


def sequence_replies_on_ordered_items(ctx):
    """`--json sequence` replies vs the store on items that are ALREADY ordered (directly, through other items, or
    by an edge recorded twice): every edge a successful reply reports must be among the dependencies `show` reports
    afterwards, and must still be there after an intermediate edge is removed."""
    rng = random.Random(ctx.seed * 97 + 5)
    bad = []
    runs = 0
    for rnd in range(2 if ctx.quick() else 12):
        st = Store()
        try:
            ids = []
            for k in range(rng.choice([4, 5])):
                rc, out, _ = st.run(['--json', 'new', 'task'], stdin=json.dumps({'title': 'item %d' % k}).encode())
                ids.append(json.loads(out)['id'])
            st.run(['sequence'] + ids)                      # ids[0] <- ids[1] <- ... a chain
            pairs = [(i, j) for i in range(len(ids)) for j in range(i + 1, len(ids))]
            rng.shuffle(pairs)
            for (i, j) in pairs[:4]:
                rc, out, err = st.run(['--json', 'sequence', ids[i], ids[j]])
                runs += 1
                if rc != 0:
                    continue
                rep = json.loads(out)
                deps = lambda x: json.loads(st.run(['--json', 'show', x])[1]).get('deps') or []
                for e in rep.get('edges', []):
                    if e['to_id'] not in deps(e['from_id']):
                        bad.append(('reported_edge_not_in_store', [ids[i], ids[j]], e, deps(e['from_id'])))
                if j - i >= 2 and not bad:
                    # remove one intermediate edge: the explicitly requested ordering must survive
                    st.run(['sequence', 'rm', ids[j - 1], ids[j]])
                    if ids[i] not in deps(ids[j]):
                        bad.append(('explicit_edge_lost_after_unrelated_rm', [ids[i], ids[j]], deps(ids[j])))
                    st.run(['sequence', ids[j - 1], ids[j]])
        finally:
            st.close()
    ctx.cov['sequence_replies_on_ordered_items'] = {'sequence_commands': runs, 'bad': len(bad)}
    for b in bad[:2]:
        ctx.violations.append(('monitor', '`--json sequence` reported an edge that the store does not hold: %s' % (b,),
                               {'kind': 'cli', 'what': b[0], 'sequence_args': b[1], 'detail': [str(x) for x in b[2:]],
                                'how': 'new task x4-5; sequence <all>; --json sequence <an already ordered pair>; --json show'}))


def json_surface(ctx):
    """Every command with --json in several states: exactly one JSON value on success; on failure non-zero
    exit, stderr explanation, at most one JSON error object on stdout."""
    rpc = Rpc()
    bad, known_hits = [], []
    n = 0
    try:
        h = history.History(rpc, random.Random(ctx.seed + 5))
        for _ in range(15):
            h.do(h.gen_request())
        st = h.store
        ids = [t['id'] for t in h.snap['tasks']] or ['ZZZZZZ']
        cmds = [(['--json', 'list'], None), (['--json', 'list', '--all'], None), (['--json', 'list', '--ready'], None),
                (['--json', 'list', '--epics'], None), (['--json', 'list', '--ready', '--all'], None),
                (['--json', 'show', ids[0]], None), (['--json', 'show', 'ZZZZZZ'], None), (['--json', 'show', ids[0], '--short'], None),
                (['--json', 'where'], None), (['--json', 'init'], None), (['--json', 'prune'], None), (['--json', 'compact'], None),
                (['--json', 'claim'], None), (['--json', '--agent', 'a', 'claim', 'ZZZZZZ'], None),
                (['--json', 'sequence', ids[0]], None), (['--json', 'sequence', 'rm', ids[0], ids[-1]], None),
                (['--json', 'set', ids[0]], b'{"state":"bogus"}'), (['--json', 'set', ids[0]], b'not json'),
                (['--json', 'new', 'task'], b'{"titel":"x"}'), (['--json', 'new', 'task'], b'{"title":"ok"}'),
                (['--json', 'new', 'epic'], b'{"title":"ok","state":"done"}'), (['--json', 'plan'], b'{"title":"p","tasks":[]}'),
                (['--json', 'plan'], b'{"title":"p","tasks":[{"title":"a"}]}'), (['--json', 'set', ids[0], '--state', 'todo', '--body', 'x', '--body-stdin'], b'y'),
                (['--json', 'nosuchcommand'], None), (['--json', 'list', '--nosuchflag'], None)]
        special = [(['--json', 'quickstart'], None), (['--json', 'version'], None), (['--json', '--help'], None), (['--json', '--version'], None)]
        for args, stdin in cmds + special:
            rc, out, err = st.run(args, stdin=stdin)
            n += 1
            tr = {'args': args, 'rc': rc, 'stdout': out.decode('utf-8', 'replace'), 'stderr': err.decode('utf-8', 'replace'),
                  'req': {'k': 'probe'}, 'after': {}, 'before': {}}
            fs = monitors.mon_C16(tr)
            if fs:
                if (args, stdin) in special:
                    known_hits.append(args)
                else:
                    bad.append((args, fs[0][0], tr['stdout'][:120]))
        h.close()
        ctx.cov['json_surface_commands'] = n
        kf = [k for k in driver.load_known() if k.get('id') == 'F2' and k.get('status') == 'open']
        if known_hits:
            if kf:
                ctx.known.append('%s (F2)' % kf[0]['what'])
            else:
                bad.append((known_hits[0], 'success_not_single_json', ''))
        for b in bad[:3]:
            ctx.violations.append(('monitor', '--json contract broken by %s: %s' % (b[0], b[1]), {'kind': 'cli', 'args': b[0], 'stdout': b[2]}))
    finally:
        rpc.close()


def legacy_store_races(ctx):
    """A legacy-only store (events.jsonl): a writer that has resolved the log path and is about to take
    the lock, while compact / prune / init run to completion: its acknowledged write must stay visible to
    every later command, however the directory is spelled."""
    import sched
    n = 0
    for other in (['compact'], ['prune', '--yes'], ['init'], ['--json', 'new', 'task']):
        st = Store()
        try:
            st.run(['new', 'task'], stdin=b'{"title":"old item","state":"done"}')
            st.run(['new', 'task'], stdin=b'{"title":"old two"}')
            os.rename(st.log, os.path.join(st.ergodir, 'events.jsonl'))
            ctl = sched.Controller(st)
            try:
                p = ctl.launch('w', {'k': 'new'}, ['--json', 'new', 'task'], b'{"title":"written during the race"}', 'lock.attempt')
                st.run(other, stdin=b'{"title":"other"}' if other[-1] == 'task' else None)
                while p.at is not None:
                    ctl.release(p)
                n += 1
                if p.rc == 0:
                    for spelling in (None, '.', st.dir, '.ergo'):
                        args = (['--dir', spelling] if spelling else []) + ['--json', 'list', '--all']
                        rc, out, err = st.run(args)
                        titles = [t['title'] for t in json.loads(out)] if rc == 0 else None
                        if titles is None or 'written during the race' not in titles:
                            ctx.violations.append(('monitor', 'legacy store: a write acknowledged while `%s` ran is invisible afterwards (--dir %s)' % (' '.join(other), spelling),
                                                   {'kind': 'schedule', 'commands': ['store with only events.jsonl', 'new task parked at lock.attempt', ' '.join(other), 'resume', 'list --all'],
                                                    'files': sorted(os.listdir(st.ergodir)), 'shown': titles}))
                            break
            finally:
                ctl.close()
        finally:
            st.close()
    # readers: the log path is resolved, then - before the file is opened - another command runs to completion
    for other in (['compact'], ['prune', '--yes'], ['--json', 'new', 'task']):
        for legacy in (True, False):
            st = Store()
            try:
                for k in range(4):
                    st.run(['new', 'task'], stdin=json.dumps({'title': 'item %d' % k, 'state': 'done' if k == 0 else 'todo'}).encode())
                st.run(['prune', '--yes'])
                if legacy:
                    os.rename(st.log, os.path.join(st.ergodir, 'events.jsonl'))
                shown0 = sorted(t['title'] for t in json.loads(st.run(['--json', 'list', '--all'])[1]))
                ctl = sched.Controller(st)
                try:
                    p = ctl.launch('rlist', None, ['--json', 'list', '--all'], None, 'read.resolved')
                    st.run(other, stdin=b'{"title":"other"}' if other[-1] == 'task' else None)
                    while p.at is not None:
                        ctl.release(p)
                    n += 1
                    shown1 = sorted(t['title'] for t in json.loads(st.run(['--json', 'list', '--all'])[1]))
                    try:
                        got = sorted(t['title'] for t in json.loads(p.out)) if p.rc == 0 else None
                    except Exception:
                        got = None
                    if got not in (shown0, shown1):
                        ctx.violations.append(('monitor', 'a reader that had resolved the log path while `%s` ran showed a state the store never passed through (%s store): rc=%s, %s items instead of %d' % (
                            ' '.join(other), 'legacy' if legacy else 'plans.jsonl', p.rc, 'no' if got is None else len(got), len(shown0)),
                                               {'kind': 'schedule', 'commands': ['store with 3 live items (%s)' % ('events.jsonl only' if legacy else 'plans.jsonl'), 'list --all parked at read.resolved', ' '.join(other), 'resume reader'],
                                                'reader_rc': p.rc, 'reader_saw': got, 'before': shown0, 'after': shown1}))
                finally:
                    ctl.close()
            finally:
                st.close()
    ctx.cov['legacy_store_races'] = n


def legacy_claim_races(ctx):
    """C01 on a legacy-only store: a claimer that has resolved the log path and is about to take the lock, while
    compact / prune / another writer run to completion; then a second claimer.  The first must have been handed the
    oldest ready task, the store must show it doing and claimed by that agent, and the second claimer must get a
    different task."""
    import sched
    n = 0
    for other in (['compact'], ['prune', '--yes'], ['--json', 'new', 'task'], ['init']):
        st = Store()
        try:
            st.run(['new', 'task'], stdin=b'{"title":"finished","state":"done"}')
            ids = []
            for k in range(3):
                rc, out, _ = st.run(['--json', 'new', 'task'], stdin=json.dumps({'title': 'ready %d' % k}).encode())
                ids.append(json.loads(out)['id'])
            os.rename(st.log, os.path.join(st.ergodir, 'events.jsonl'))
            ctl = sched.Controller(st)
            try:
                p = ctl.launch('c1', {'k': 'claim'}, ['--agent', 'first', '--json', 'claim'], None, 'lock.attempt')
                st.run(other, stdin=b'{"title":"other"}' if other[-1] == 'task' else None)
                while p.at is not None:
                    ctl.release(p)
                n += 1
                if p.rc != 0:
                    continue
                won1 = json.loads(p.out).get('id')
                rc2, out2, _ = st.run(['--agent', 'second', '--json', 'claim'])
                won2 = json.loads(out2).get('id') if rc2 == 0 else None
                shown = {t['id']: (t['state'], t.get('claimed_by', '')) for t in json.loads(st.run(['--json', 'list', '--all'])[1])}
                problems = []
                if won1 != ids[0]:
                    problems.append('first claimer got %s, the oldest ready task was %s' % (won1, ids[0]))
                if won1 is not None and won1 == won2:
                    problems.append('task %s was handed to both claimers' % won1)
                if won1 in shown and shown[won1] != ('doing', 'first') and won1 != won2:
                    problems.append('after the claim the store shows %s as %s' % (won1, shown[won1]))
                if problems:
                    ctx.violations.append(('monitor', 'legacy store, claim parked before the lock while `%s` ran: %s' % (' '.join(other), '; '.join(problems)),
                                           {'kind': 'schedule', 'commands': ['store with only events.jsonl, 3 ready tasks', '--agent first claim parked at lock.attempt', ' '.join(other),
                                                                             'resume', '--agent second claim', 'list --all'],
                                            'first_won': won1, 'second_won': won2, 'files': sorted(os.listdir(st.ergodir)), 'shown': {k: list(v) for k, v in shown.items()}}))
                    return
            finally:
                ctl.close()
        finally:
            st.close()
    ctx.cov['legacy_claim_races'] = n


def check_C18(ctx):
    legacy_store_races(ctx)
    p = run_script(ctx, 'difftest_path.py', [1500 if ctx.quick() else 8000, ctx.seed], 'path_difftest')
    if p.returncode != 0:
        ctx.violations.append(('mismatch', 'path model (Clean/Dir/Base/Join) disagrees with Go', {'kind': 'path', 'output': (p.stdout + p.stderr)[-3000:]}))
    wd = mkscratch('ergo-disc-')
    try:
        for k in range(1 if ctx.quick() else 4):
            p = run_script(ctx, 'difftest_discovery.py', [ctx.seed + k], 'discovery_difftest_%d' % k, env={'SCRATCH': os.path.join(wd, 'dt%d' % k)})
            if p.returncode != 0:
                ctx.violations.append(('mismatch', 'store discovery / log choice / init: model and real tool disagree',
                                       {'kind': 'discovery', 'output': (p.stdout + p.stderr)[-3000:], 'no_failing_input': False}))
                break
    finally:
        shutil.rmtree(wd, ignore_errors=True)


def check_C19(ctx):
    a = ['--nfmt', 500, '--nstores', 40, '--nsynth', 20] if ctx.quick() else ['--nfmt', 3200, '--nstores', 300, '--nsynth', 120]
    wd = mkscratch('ergo-tree-')
    try:
        p = run_script(ctx, 'difftest_tree.py', a + ['--seed', ctx.seed, '--only', '12'], 'tree_difftest', env={'TREE_WORK': os.path.join(wd, 'work')})
    finally:
        shutil.rmtree(wd, ignore_errors=True)
    if p.returncode != 0:
        ctx.violations.append(('mismatch', 'tree/layout model disagrees with the real list output',
                               {'kind': 'tree', 'output': (p.stdout + p.stderr)[-3000:], 'no_failing_input': True}))
    row_properties(ctx)
    rows_complete_after_histories(ctx)


def row_properties(ctx):
    """The property's row statements checked directly on real rows (RPC tree at many widths) over text classes;
    classes outside the theorem's domain (ESC, multi-rune grapheme clusters) are the known findings F3 / F4."""
    import base64
    rpc = Rpc()
    bad = {}
    n = 0
    texts = {'ascii': 'Fix the login page', 'cjk': '日本語のタイトルを書く', 'combining': 'école',
             'emoji': 'ship \U0001F680 now', 'long': 'x' * 300, 'zw': 'a​b‍c', 'esc': 'ab\x1b[31mcd', 'newline': 'two\nlines',
             'zwj_family': '\U0001F468‍\U0001F469‍\U0001F467' * 4, 'flags': '\U0001F1E9\U0001F1EA' * 6,
             'devanagari': 'का' * 20}
    try:
        for name, text in texts.items():
            st = Store()
            st.run(['new', 'epic'], stdin=json.dumps({'title': text}, ensure_ascii=False).encode())
            rc, out, _ = st.run(['--json', 'list', '--epics'])
            eid = json.loads(out)[0]['id']
            st.run(['--agent', text[:12].replace('\n', ' '), 'new', 'task'], stdin=json.dumps({'title': text, 'epic': eid, 'claim': text[:12]}, ensure_ascii=False).encode())
            rc, out, _ = st.run(['--json', 'new', 'task'], stdin=json.dumps({'title': text + ' blocker'}, ensure_ascii=False).encode())
            b1 = json.loads(out)['id']
            rc, out, _ = st.run(['--json', 'new', 'task'], stdin=json.dumps({'title': 'waits ' + text}, ensure_ascii=False).encode())
            b2 = json.loads(out)['id']
            st.run(['sequence', b1, b2])
            for w in [14, 20, 33, 80, 131, 240]:
                resp = rpc.call(op='tree', dir=st.ergodir, all=True, width=w, repo=st.dir)
                rows = [base64.b64decode(r) for r in resp['ok']['rows']]
                vis = rpc.call(op='runewidth', strs=[base64.b64encode(r).decode() for r in rows])['ok']
                for r, v in zip(rows, vis):
                    n += 1
                    try:
                        r.decode('utf-8')
                    except UnicodeDecodeError:
                        bad.setdefault(name, []).append(('invalid_utf8', w))
                    persum = sum(v['runes'])
                    if v['visible'] != w - 2 or persum > w - 2 or not re.search(rb'[A-Z2-7]{6}$', r):
                        bad.setdefault(name, []).append(('layout', w, v['visible'], persum))
            st.close()
        ctx.cov['rows_checked'] = n
        known = {k['id']: k for k in driver.load_known() if k.get('property') == 'C19' and k.get('status') == 'open'}
        for name, fails in bad.items():
            kid = {'esc': 'F3', 'newline': 'F3', 'zwj_family': 'F4', 'flags': 'F4', 'devanagari': 'F4'}.get(name)
            if kid and kid in known:
                msg = '%s (%s)' % (known[kid]['what'], kid)
                if msg not in ctx.known:
                    ctx.known.append(msg)
            else:
                ctx.violations.append(('monitor', 'row property fails for %s text: %s' % (name, fails[:3]), {'kind': 'rows', 'text': texts[name], 'fails': fails[:5]}))
    finally:
        rpc.close()


def rows_complete_after_histories(ctx):
    """After command histories rich in re-parenting with odd epic spellings, prunes and plans: every item `--json list`
    reports has exactly one row in `list --all` (id column), the default view shows every active item once, and the
    summary line counts what the store holds."""
    rpc = Rpc()
    n = 0
    try:
        for k in range(10 if ctx.quick() else 120):
            h = history.History(rpc, random.Random(ctx.seed * 409 + k))
            h.profile = {'weights': {'new': 30, 'set': 45, 'claim': 6, 'seq': 6, 'prune': 4, 'plan': 4, 'compact': 2, 'seqrm': 1, 'malformed': 0},
                         'states': ['todo', 'doing', 'done', 'canceled', 'blocked', 'error', 'todo']}
            for _ in range(30):
                r = h.gen_request()
                if r['k'] == 'set' and h.rng.random() < 0.5:
                    r['fields'] = dict(r['fields'], epic=h.epic_arg())      # re-parent a lot, with every spelling
                    r['mode'] = 'json'
                h.do(r)
            rc, out, _ = h.store.run(['--json', 'list', '--all'])
            rc2, out2, _ = h.store.run(['--json', 'list', '--epics'])
            if rc != 0 or rc2 != 0:
                h.close()
                continue
            items = json.loads(out) + json.loads(out2)
            ids = sorted({t['id'] for t in items})
            rc, text, _ = h.store.run(['list', '--all'])
            rows = text.decode('utf-8', 'replace').splitlines()
            n += 1
            per = {i: len([r for r in rows if re.search(r'(^|[^A-Z2-7])' + i + r'\s*$', r)]) for i in ids}
            wrong = {i: c for i, c in per.items() if c != 1}
            if wrong:
                dangling = [(t['id'], t.get('epic_id')) for t in items if t.get('epic_id') and t.get('epic_id') not in ids]
                ctx.violations.append(('monitor', 'items without exactly one row in `list --all`: %s (items whose epic_id names no item: %s)' % (wrong, dangling[:3]),
                                       {'kind': 'cli', 'commands': trace_cmds(h.trace), 'rows': rows[:60], 'json_ids': ids}))
                h.close()
                break
            active = sorted(t['id'] for t in json.loads(out) if t['state'] in ('todo', 'doing', 'blocked', 'error'))
            rc, text, _ = h.store.run(['list'])
            rows = text.decode('utf-8', 'replace').splitlines()
            miss = [i for i in active if len([r for r in rows if re.search(r'(^|[^A-Z2-7])' + i + r'\s*$', r)]) != 1]
            if miss:
                ctx.violations.append(('monitor', 'active items without exactly one row in the default `list`: %s' % miss[:5],
                                       {'kind': 'cli', 'commands': trace_cmds(h.trace), 'rows': rows[:60]}))
                h.close()
                break
            h.close()
        ctx.cov['rows_complete_histories'] = n
    finally:
        rpc.close()


def trace_cmds(trace):
    return [{'args': t['args'], 'stdin': t['stdin'], 'rc': t['rc']} for t in trace]


def check_C20(ctx):
    tags = {'Results', 'Exit', 'Events'}
    n, steps = sizes(ctx, (40, 25), (400, 35))
    prof = {'weights': {'set': 60, 'new': 20, 'compact': 6, 'prune': 4, 'claim': 5}, 'result_p': 0.6}
    driver.history_check(ctx, tags, n, steps, profile=prof)
    p = run_script(ctx, 'difftest_path.py', [1500 if ctx.quick() else 8000, ctx.seed + 1], 'path_difftest')
    if p.returncode != 0:
        ctx.violations.append(('mismatch', 'path model disagrees with Go', {'kind': 'path', 'output': (p.stdout + p.stderr)[-3000:]}))
    result_files(ctx)


def result_files(ctx):
    """Real files, directories, FIFOs, symlinks, missing files, unicode names; sha and file_url recomputed."""
    import hashlib, urllib.parse
    st = Store()
    bad = []
    try:
        rc, out, _ = st.run(['--json', 'new', 'task'], stdin=b'{"title":"t"}')
        i = json.loads(out)['id']
        proj = st.dir
        os.makedirs(os.path.join(proj, 'out/sub'))
        open(os.path.join(proj, 'out/a.txt'), 'w').write('alpha')
        open(os.path.join(proj, 'out/ü ñ.txt'), 'w').write('unicode name')
        os.mkfifo(os.path.join(proj, 'out/fifo'))
        os.symlink('a.txt', os.path.join(proj, 'out/link.txt'))
        os.symlink('/etc/hostname', os.path.join(proj, 'out/abs_link'))
        cases = [('out/a.txt', True), ('./out//a.txt', True), ('out/sub/../a.txt', True), ('out/ü ñ.txt', True), ('out/link.txt', True),
                 ('out', False), ('out/fifo', False), ('out/missing', False), ('../x', False), ('/etc/hostname', False),
                 (os.path.join(proj, 'out/a.txt'), False), ('.ergo/plans.jsonl', False), ('.ergo', False), ('out/../../x', False),
                 ('out/../.ergo/lock', False), ('', False), ('.', False)]
        nres = 0
        for path, ok in cases:
            try:
                rc, out, err = st.run(['set', i], stdin=json.dumps({'result_path': path, 'result_summary': 's %d' % nres}, ensure_ascii=False).encode(), timeout=10)
            except subprocess.TimeoutExpired:
                bad.append(('hang', path))
                continue
            if (rc == 0) != ok:
                bad.append(('verdict', path, rc, err.decode()[:100]))
            if rc == 0:
                nres += 1
                rc2, out2, _ = st.run(['--json', 'show', i])
                res = json.loads(out2)['results']
                r0 = res[0]
                clean = os.path.normpath(path)
                data = open(os.path.join(proj, clean), 'rb').read()
                if r0['path'] != clean or r0['sha256_at_attach'] != hashlib.sha256(data).hexdigest():
                    bad.append(('evidence', path, r0['path']))
                url = 'file://' + urllib.parse.quote(os.path.join(os.path.realpath(proj) if False else proj, clean))
                if urllib.parse.unquote(r0['file_url']) != 'file://' + os.path.join(proj, clean):
                    bad.append(('file_url', path, r0['file_url']))
                if len(res) != nres or [x['summary'] for x in res] != ['s %d' % k for k in reversed(range(len(cases))) if 's %d' % k in [y['summary'] for y in res]]:
                    pass
        # same path, content changed, mtime preserved (cp -p, rsync -t, tar): the recorded hash must be that of the NEW content
        pth = os.path.join(proj, 'out/a.txt')
        stt = os.stat(pth)
        open(pth, 'w').write('alpha, second version')
        os.utime(pth, ns=(stt.st_atime_ns, stt.st_mtime_ns))
        rc, _, _ = st.run(['set', i], stdin=json.dumps({'result_path': 'out/a.txt', 'result_summary': 'again'}).encode())
        if rc == 0:
            nres += 1
            r0 = json.loads(st.run(['--json', 'show', i])[1])['results'][0]
            if r0['sha256_at_attach'] != hashlib.sha256(open(pth, 'rb').read()).hexdigest():
                bad.append(('stale_sha_after_mtime_preserving_rewrite', r0['sha256_at_attach'][:12]))
        # results survive later commands and compaction, newest first
        st.run(['set', i], stdin=b'{"state":"done","title":"renamed"}')
        st.run(['compact'])
        rc2, out2, _ = st.run(['--json', 'show', i])
        res = json.loads(out2)['results']
        if len(res) != nres or [r['created_at'] for r in res] != sorted([r['created_at'] for r in res], reverse=True):
            bad.append(('results_lost_or_reordered', len(res), nres))
        # a result on an epic / pruned task is refused
        rc, out, _ = st.run(['--json', 'new', 'epic'], stdin=b'{"title":"e"}')
        e = json.loads(out)['id']
        if st.run(['set', e], stdin=b'{"result_path":"out/a.txt","result_summary":"x"}')[0] == 0:
            bad.append(('result_on_epic',))
        st.run(['prune', '--yes'])
        if st.run(['set', i], stdin=b'{"result_path":"out/a.txt","result_summary":"x"}')[0] == 0:
            bad.append(('result_on_pruned',))
        ctx.cov['result_path_cases'] = len(cases)
        for b in bad[:3]:
            ctx.violations.append(('monitor', 'result attachment: %s' % (b,), {'kind': 'results', 'case': b}))
    finally:
        st.close()


def check_C06(ctx):
    tags = {'Exit', 'Events', 'State', 'ClaimedBy', 'Reply'}
    n, steps = sizes(ctx, (48, 25), (600, 30))
    prof = {'weights': {'set': 45, 'claim': 18, 'new': 25}}
    driver.history_check(ctx, tags, n, steps, profile=prof)
    sched_check(ctx, 30 if ctx.quick() else 400, {'nwriters': 2, 'nreaders': 0, 'claimers': True, 'pre_steps': 10, 'fixed': ['finish', 'finish']}, mon_C01_finish)


def check_C07(ctx):
    tags = {'Exit', 'Events', 'Deps', 'RDeps'}
    n, steps = sizes(ctx, (48, 25), (600, 35))
    prof = {'weights': {'seq': 40, 'seqrm': 10, 'plan': 8, 'prune': 8, 'new': 25, 'set': 12}}
    driver.history_check(ctx, tags, n, steps, profile=prof)
    driver.log_check(ctx, {'Deps', 'RDeps', 'ReplayErr', 'LiveSet'}, *sizes(ctx, (120, 25), (1500, 30)))
    cycle_difftest(ctx)
    # every pair of concurrent opposite edge insertions (and a prune racing with them)
    sched_check(ctx, 40 if ctx.quick() else 400, {'nwriters': 0, 'nreaders': 0, 'fixed': ['seq_ab', 'seq_ba'], 'pre_steps': 10,
                                                   'pre_profile': {'weights': {'new': 70, 'set': 20, 'seq': 0, 'plan': 0, 'compact': 0, 'malformed': 0}}}, mon_C07_sched)
    sched_check(ctx, 20 if ctx.quick() else 200, {'nwriters': 1, 'nreaders': 0, 'fixed': ['seq_ab', 'seq_ba', 'prune'], 'pre_steps': 14}, mon_C07_sched)


def mon_C07_sched(info):
    out = mon_sched_common(info)
    fs = info.get('final_snapshot')
    if fs:
        for f in monitors.mon_C07({'after': fs, 'req': {'k': 'none'}, 'before': fs}):
            out.append(f)
    return out


def mon_C09_sched(info):
    """prune --yes racing with a re-open: whatever was pruned had to be done/canceled when the prune's
    section ran; with one-section commands a re-opened task is either pruned BEFORE the re-open (which
    then fails) or not pruned at all."""
    out = mon_sched_common(info)
    reopened_ok = [o['req']['id'] for o in info['outs'] if o['kind'] == 'w' and o['rc'] == 0 and (o['req'] or {}).get('k') == 'set'
                   and (o['req'].get('fields') or {}).get('state') == 'todo']
    fs = info.get('final_snapshot')
    if fs:
        for i in reopened_ok:
            if i in fs.get('tombstones', []) or i not in monitors.tasks_by_id(fs):
                out.append(('reopened_task_pruned', i))
    return out


def mon_gone(log, snap, comp):
    """C09 on arbitrary logs: an id with a tombstone anywhere is absent from the replayed store."""
    out = []
    if 'replay_error' in snap:
        return out
    tomb = {e['id'] for e in log if e['t'] == 'tombstone' and e.get('at')}
    live = {t['id'] for t in snap['tasks']}
    for p in tomb & live:
        out.append(('tombstoned_id_alive', p))
    for t in snap['tasks']:
        for d in t['deps'] + t['rdeps']:
            if d in tomb:
                out.append(('edge_to_tombstoned', t['id'], d))
    return out


def check_C09(ctx):
    tags = {'Exit', 'Events', 'LiveSet', 'Tombs', 'PruneTargets', 'Reply', 'Deps', 'RDeps'}
    n, steps = sizes(ctx, (48, 30), (500, 40))
    prof = {'weights': {'prune': 16, 'set': 40, 'compact': 5, 'new': 20, 'seq': 10, 'claim': 8},
            'states': ['done', 'canceled', 'done', 'todo', 'doing', 'blocked']}
    driver.history_check(ctx, tags, n, steps, profile=prof, classify=None)
    driver.log_check(ctx, {'LiveSet', 'Tombs', 'Deps', 'RDeps', 'ReplayErr', 'PruneTargets'}, *sizes(ctx, (150, 30), (2000, 35)),
                     monitor=mon_gone)
    known_post_compact_reuse(ctx)
    pruned_stays_pruned_on_odd_logs(ctx)
    sched_check(ctx, 40 if ctx.quick() else 400, {'nwriters': 0, 'nreaders': 0, 'fixed': ['prune', 'reopen', 'reopen'], 'pre_steps': 16,
                                                   'pre_profile': {'weights': {'new': 45, 'set': 45, 'prune': 0, 'compact': 0, 'malformed': 0, 'plan': 0, 'seq': 5},
                                                                   'states': ['done', 'canceled', 'done', 'todo']}}, mon_C09_sched)


def pruned_stays_pruned_on_odd_logs(ctx):
    """Hand-merged / hand-saved logs: the tombstone is the LAST line and lost its newline, or sits before later
    events about the pruned id.  Whatever later commands run, the id stays absent and refused."""
    n = 0
    for later in (['new', 'task'], ['set', 'KEEPER'], ['--agent', 'a', 'claim'], ['sequence', 'KEEPER', 'OTHERX'], ['prune', '--yes'], ['compact']):
        for strip_nl in (True, False):
            st = Store()
            try:
                for i, state in (('PRUNED', 'done'), ('KEEPER', 'todo'), ('OTHERX', 'todo')):
                    st.run(['new', 'task'], stdin=json.dumps({'title': i, 'state': state}).encode(), env={'ERGO_VERIF_IDS': i})
                st.run(['prune', '--yes'])
                data = st.read_log()
                if not data.endswith(b'\n') or b'tombstone' not in data.splitlines()[-1]:
                    continue
                if strip_nl:
                    with open(st.log, 'wb') as f:
                        f.write(data[:-1])
                stdin = b'{"title":"later"}' if later[0] in ('new', 'set') else None
                rc, _, err = st.run(later, stdin=stdin)
                n += 1
                rc1, out1, _ = st.run(['--json', 'list', '--all'])
                ids = [t['id'] for t in json.loads(out1)] if rc1 == 0 else None
                rc2, _, _ = st.run(['--json', 'show', 'PRUNED'])
                rc3, _, _ = st.run(['set', 'PRUNED'], stdin=b'{"title":"back"}')
                if ids is None or 'PRUNED' in ids or rc2 == 0 or rc3 == 0:
                    ctx.violations.append(('monitor', 'a pruned id came back after `%s` on a log whose last line is the tombstone%s' % (' '.join(later), ' without its newline' if strip_nl else ''),
                                           {'kind': 'cli', 'commands': ['new task x3 (ids PRUNED KEEPER OTHERX)', 'prune --yes', 'strip final newline' if strip_nl else '-', ' '.join(later), 'list --all / show PRUNED / set PRUNED'],
                                            'listed': ids, 'show_rc': rc2, 'set_rc': rc3}))
                    return
            finally:
                st.close()
    ctx.cov['pruned_stays_pruned_on_odd_logs'] = n


def known_post_compact_reuse(ctx):
    """Known finding: after compact the tombstone is gone (documented post-compact behaviour), so a
    candidate id equal to a pruned id is issued again.  Re-demonstrated on the real binary with the id hook."""
    st = Store()
    try:
        rc, out, _ = st.run(['--json', 'new', 'task'], stdin=b'{"title":"t"}', env={'ERGO_VERIF_IDS': 'AAAAAA'})
        st.run(['set', 'AAAAAA'], stdin=b'{"state":"done"}')
        st.run(['prune', '--yes'])
        # before compact the pruned id must be refused as a candidate
        rc1, out1, _ = st.run(['--json', 'new', 'task'], stdin=b'{"title":"u"}', env={'ERGO_VERIF_IDS': 'AAAAAA,BBBBBB'})
        got1 = (json.loads(out1) if rc1 == 0 else {}).get('id')
        if got1 == 'AAAAAA':
            ctx.violations.append(('monitor', 'pruned id reissued before compaction',
                                   {'kind': 'forced-ids', 'ids': 'AAAAAA,BBBBBB', 'got': got1}))
        st.run(['compact'])
        rc2, out2, _ = st.run(['--json', 'new', 'task'], stdin=b'{"title":"v"}', env={'ERGO_VERIF_IDS': 'AAAAAA,CCCCCC'})
        got2 = (json.loads(out2) if rc2 == 0 else {}).get('id')
        ctx.cov['post_compact_reuse_demo'] = {'before_compact_got': got1, 'after_compact_got': got2}
        kf = [k for k in driver.load_known() if k.get('id') == 'F-C09-post-compact-reuse' and k.get('status') == 'open']
        if got2 == 'AAAAAA':
            if kf:
                ctx.known.append('%s (%s)' % (kf[0]['what'], kf[0]['id']))
            else:
                ctx.violations.append(('monitor', 'pruned id reissued after compaction', {'kind': 'forced-ids', 'got': got2}))
        else:
            ctx.cov['known_finding_not_reproduced'] = 'F-C09-post-compact-reuse'
    finally:
        st.close()


def check_C08(ctx):
    tags = {'ReadyFlag', 'BlockedFlag', 'ClaimOrder', 'Reply', 'Exit', 'Events'}
    n, steps = sizes(ctx, (48, 30), (500, 40))
    prof = {'weights': {'new': 28, 'set': 30, 'claim': 20, 'seq': 22, 'prune': 6, 'plan': 4, 'seqrm': 3},
            'states': ['done', 'canceled', 'todo', 'todo', 'doing', 'blocked', 'error'], 'prelude': 'epic_chain'}
    driver.history_check(ctx, tags, n, steps, profile=prof)
    driver.log_check(ctx, {'ReadyFlag', 'BlockedFlag', 'ClaimOrder', 'ReplayErr', 'LiveSet'}, *sizes(ctx, (250, 30), (4000, 36)),
                     monitor=mon_ready_logs, nids=7)
    list_ready_cli(ctx)


def mon_ready_logs(log, snap, comp):
    if 'replay_error' in snap:
        return []
    tr = {'after': snap, 'req': {'k': 'none'}, 'before': snap}
    return monitors.mon_C08(tr)


def list_ready_cli(ctx):
    """`list --ready --json` and `claim` on real stores vs the manual's sentence recomputed independently."""
    rpc = Rpc()
    bad = []
    n = 0
    try:
        for k in range(8 if ctx.quick() else 60):
            h = history.History(rpc, random.Random(ctx.seed * 31 + k))
            h.profile = {'weights': {'new': 30, 'set': 30, 'seq': 25, 'claim': 5, 'prune': 4},
                         'states': ['done', 'canceled', 'todo', 'todo', 'doing', 'blocked']}
            for _ in range(30):
                h.do(h.gen_request())
            rd = monitors.ready_by_manual(h.snap)
            exp = sorted([i for i, v in rd.items() if v and not monitors.tasks_by_id(h.snap)[i]['is_epic']])
            rc, out, _ = h.store.run(['--json', 'list', '--ready'])
            got = sorted(t['id'] for t in json.loads(out)) if rc == 0 else None
            n += 1
            if got != exp:
                bad.append(('list_ready', got, exp, [t['args'] for t in h.trace]))
            for e in [t['id'] for t in h.snap['tasks'] if t['is_epic']][:2]:
                rc, out, _ = h.store.run(['--json', 'list', '--ready', '--epic', e])
                got = sorted(t['id'] for t in json.loads(out)) if rc == 0 else None
                expe = sorted(i for i in exp if monitors.tasks_by_id(h.snap)[i]['epic'] == e)
                n += 1
                if got != expe:
                    bad.append(('list_ready_epic', e, got, expe))
            h.close()
        ctx.cov['list_ready_cli_cases'] = n
        for b in bad[:3]:
            ctx.violations.append(('monitor', 'list --ready differs from the manual: %s' % (b[:3],), {'kind': 'cli', 'case': b}))
    finally:
        rpc.close()


def check_C10(ctx):
    tags = {'Exit', 'Events'}
    n, steps = sizes(ctx, (48, 30), (600, 40))
    prof = {'weights': {'malformed': 10, 'set': 40, 'seq': 20, 'new': 25, 'plan': 8, 'claim': 12}, 'agent_p': 0.5}
    driver.history_check(ctx, tags, n, steps, profile=prof)
    failing_multi_field(ctx)
    busy_after_commit(ctx)


def failing_multi_field(ctx):
    """Multi-field requests whose LAST-processed field is what fails (bad state, over-long body, bad result
    path, unknown epic): none of the earlier fields may be applied."""
    st = Store()
    bad = []
    try:
        rc, out, _ = st.run(['--json', 'new', 'task'], stdin=b'{"title":"orig","body":"orig body"}')
        tid = json.loads(out)['id']
        big = 'y' * (10 * 1024 * 1024 + 100)
        reqs = [{'title': 'changed', 'body': big}, {'title': 'changed', 'state': 'error', 'claim': ''}, {'title': 'changed', 'state': 'nonsense'},
                {'body': 'changed', 'epic': 'ZZZZZZ'}, {'title': 'changed', 'result_path': 'nope.txt', 'result_summary': 's'},
                {'claim': 'bob', 'body': big}, {'state': 'done', 'body': big}]
        # a refused over-long event BEHIND events that are large but legal (64 KiB … 6 MiB): nothing of the command
        # may have been flushed by then, whatever buffering the writer uses
        for mid in (64 * 1024, 1024 * 1024 + 7, 2 * 1024 * 1024, 6 * 1024 * 1024):
            reqs.append({'title': 'changed', 'body': 'm' * mid, 'claim': big})
            reqs.append({'title': 't' * mid, 'body': big})
        for f in reqs:
            before = st.read_log()
            rc, out, err = st.run(['set', tid], stdin=json.dumps(f).encode(), timeout=120)
            if rc != 0 and st.read_log() != before:
                bad.append(('set', sorted(f), err.decode()[:100]))
        for f in [{'title': 'n', 'state': 'doing', 'claim': 'a', 'body': big}, {'title': 'n', 'claim': 'a', 'epic': 'ZZZZZZ'}, {'title': 'n', 'state': 'error'}]:
            before = st.read_log()
            rc, out, err = st.run(['new', 'task'], stdin=json.dumps(f).encode(), timeout=120)
            if rc != 0 and st.read_log() != before:
                bad.append(('new', sorted(f), err.decode()[:100]))
        ctx.cov['failing_multi_field_requests'] = len(reqs) + 3
        for b in bad[:2]:
            ctx.violations.append(('monitor', 'a failed %s with fields %s still wrote to the log (%s)' % b, {'kind': 'cli', 'case': b}))
    finally:
        st.close()


def check_C11(ctx):
    tags = {'Exit', 'Events', 'Reply', 'LiveSet', 'Title', 'Body', 'Epic', 'Deps', 'RDeps', 'State', 'Created'}
    n, steps = sizes(ctx, (48, 16), (500, 24))
    prof = {'weights': {'plan': 45, 'new': 15, 'set': 12, 'prune': 6, 'compact': 3, 'seq': 6, 'claim': 4, 'malformed': 4}}
    driver.history_check(ctx, tags, n, steps, profile=prof)
    plan_malformed(ctx)
    unterminated_valid_tail(ctx, kinds=('plan',))     # "nothing that existed before is altered", on a log without its final newline


def plan_malformed(ctx):
    """Parse-level rejections are encoding/json behaviour: differential only (nothing written, exit 1)."""
    docs = [b'', b'{', b'{"title":"x","tasks":[{"title":"a"}]} {"title":"y"}', b'{"title":"x","tasks":[{"title":"a","afterr":[]}]}',
            b'{"title":"x","bogus":1,"tasks":[{"title":"a"}]}', b'[]', b'"str"', b'{"title":"x","tasks":"no"}',
            b'{"title":"x","tasks":[{"title":"a","after":"b"}]}', b'{"title":null,"tasks":[{"title":"a"}]}',
            b'{"title":"x","tasks":[]}', b'{"title":"x"}', b'{"title":"x","tasks":[{"title":"a","after":["a"]}]}',
            b'{"title":"x","tasks":[{"title":"a","after":["b"]},{"title":"b","after":["a"]}]}',
            b'{"title":"x","tasks":[{"title":"a"},{"title":"a"}]}', b'{"title":"x","body":"  ","tasks":[{"title":"a"}]}',
            b'{"title":"x","tasks":[{"title":"a"}]}}', b'{"title":"x","tasks":[{"title":"a"}]}]', b'{"title":"x","tasks":[{"title":"a"}]} }{"title":"y","tasks":[{"title":"b"}]}',
            b'{"title":"x","tasks":[{"title":"a"}]}\n]\n', b'{"title":"x","tasks":[{"title":"a"}]} 1', b'{"title":"x","tasks":[{"title":"a"}]} null', b'{"title":"x","tasks":[{"title":"a"}]} "s"']
    # a second value / junk far behind the first one (whatever buffer or size cap the reader uses, the whole of stdin counts)
    one = b'{"title":"x","tasks":[{"title":"a"},{"title":"b","after":["a"]}]}'
    for pad in (4096, 65536, 1 << 20, 10485760 - len(one) - 1, 10485760 - len(one), 10485760, 10485760 + 4096, 2 * 10485760 + 17):
        docs.append(one + b' ' * pad + b'{"title":"y","tasks":[{"title":"c"}]}')
        docs.append(one + b'\n' * pad + b']')
    st = Store()
    bad = []
    try:
        st.run(['new', 'task'], stdin=b'{"title":"pre"}')
        before = st.read_log()
        for d in docs:
            rc, out, err = st.run(['--json', 'plan'], stdin=d, timeout=120)
            if rc == 0 or st.read_log() != before:
                bad.append(d.decode() if len(d) < 2000 else '%s ... (%d bytes of whitespace) ... %s' % (d[:80].decode(), len(d) - 120, d[-40:].decode()))
                before = st.read_log()
        # the same reader serves new / set
        for args in (['--json', 'new', 'task'], ['--json', 'set', 'NOSUCH']):
            for pad in (65536, 10485760, 10485760 + 4096):
                d = b'{"title":"padded"}' + b' ' * pad + b'{"title":"second"}'
                rc, out, err = st.run(args, stdin=d, timeout=120)
                if rc == 0 or st.read_log() != before:
                    bad.append('%s: {"title":"padded"} + %d spaces + {"title":"second"}' % (' '.join(args), pad))
                    before = st.read_log()
        ctx.cov['plan_malformed_docs'] = len(docs) + 6
        for d in bad:
            ctx.violations.append(('monitor', 'invalid payload (several JSON values / trailing junk) accepted or wrote to the log: %s' % d[:160], {'kind': 'plan-doc', 'doc': d}))
    finally:
        st.close()


def dir_digest(d):
    import hashlib
    h = hashlib.sha256()
    for root, dirs, files in sorted(os.walk(d)):
        for f in sorted(files):
            if f == 'lock':
                continue
            p = os.path.join(root, f)
            h.update(p.encode())
            with open(p, 'rb') as fh:
                h.update(fh.read())
    return h.hexdigest()


def check_C12(ctx):
    """Arbitrary bytes as the log: model of readEvents vs Go; byte-identical output; reads are pure;
    history only grows (Events tag on histories)."""
    import synth, common, re as _re
    driver.history_check(ctx, {'Events'}, *sizes(ctx, (24, 20), (300, 30)))
    rng = random.Random(ctx.seed * 17 + 5)
    rpc = Rpc()
    wd = mkscratch('ergo-bytes-')
    cases, meta = [], []
    nondet, impure, slow, noline = [], [], [], []
    try:
        # seed material: a real log produced by the CLI
        h = history.History(rpc, random.Random(ctx.seed))
        for _ in range(25):
            h.do(h.gen_request())
        base = h.store.read_log()
        h.close()
        lines = base.split(b'\n')
        variants = []
        nvar = 150 if ctx.quick() else 2500
        for k in range(nvar):
            kind = rng.choice(['trunc', 'trunc', 'flip', 'conflict', 'blank', 'crlf', 'unknown', 'wrongtype', 'reorder', 'dupe',
                               'nonl_valid', 'garbage_mid', 'asis'])
            b = bytearray(base)
            if kind == 'trunc' and len(b) > 2:
                b = b[:rng.randrange(1, len(b))]
            elif kind == 'flip' and len(b) > 2:
                for _ in range(rng.choice([1, 1, 3])):
                    i = rng.randrange(len(b))
                    b[i] ^= 1 << rng.randrange(8)
            elif kind == 'conflict':
                ls = list(lines)
                i = rng.randrange(len(ls))
                ls[i:i] = [b'<<<<<<< HEAD', ls[i], b'=======', ls[i], b'>>>>>>> other']
                b = bytearray(b'\n'.join(ls))
            elif kind == 'blank':
                ls = list(lines)
                ls.insert(rng.randrange(len(ls)), rng.choice([b'', b'   ', b'\t']))
                b = bytearray(b'\n'.join(ls))
            elif kind == 'crlf':
                b = bytearray(base.replace(b'\n', b'\r\n'))
            elif kind == 'unknown':
                ls = list(lines)
                ls.insert(rng.randrange(len(ls)), b'{"type":"future_event","ts":"2026-01-01T00:00:00Z","data":{"x":1}}')
                b = bytearray(b'\n'.join(ls))
            elif kind == 'wrongtype':
                ls = list(lines)
                ls.insert(rng.randrange(len(ls)), rng.choice([b'{"type":"state","ts":"x","data":{"id":5}}', b'{"type":7}', b'[1,2]',
                                                              b'{"type":"claim","ts":"","data":"str"}', b'null', b'17']))
                b = bytearray(b'\n'.join(ls))
            elif kind == 'reorder':
                ls = [l for l in lines if l]
                rng.shuffle(ls)
                b = bytearray(b'\n'.join(ls) + b'\n')
            elif kind == 'dupe':
                ls = [l for l in lines if l]
                ls.insert(rng.randrange(len(ls) + 1), rng.choice(ls))
                b = bytearray(b'\n'.join(ls) + b'\n')
            elif kind == 'nonl_valid':
                b = bytearray(base.rstrip(b'\n'))
            elif kind == 'garbage_mid':
                ls = list(lines)
                ls.insert(rng.randrange(len(ls)), b'this is not json')
                b = bytearray(b'\n'.join(ls))
            variants.append((kind, bytes(b)))
        if not ctx.quick():
            variants.append(('huge', base + b'{"type":"title","ts":"","data":{"id":"X","title":"' + b'a' * (11 * 1024 * 1024) + b'"}}\n' + base))
            variants.append(('huge_tail', base + b'x' * (11 * 1024 * 1024)))
        # a damaged update line that is short in characters but long in bytes (CJK / emoji text), in the middle of the log
        for txt in ('日本語のタイトルです' * 8, '\U0001F600' * 45, 'é' * 120):
            ls = list(lines)
            ls.insert(max(1, len(ls) // 2), ('{"type":"title","ts":"2026-01-01T00:00:00Z","data":{"id":"ABCDEF","title":"' + txt).encode())
            variants.append(('mb_bad_line', b'\n'.join(ls)))
        variants.append(('huge_small', b'{"type":"zz","ts":"","data":{}}\n' + b'y' * (10 * 1024 * 1024 + 5) + b'\n'))
        common.INTERN.__init__()
        st = Store()
        kinds = {}
        for kind, data in variants:
            with open(st.log, 'wb') as f:
                f.write(data)
            resp = rpc.call(op='lines', dir=st.ergodir)
            if 'ok' not in resp:
                continue
            o = resp['ok']
            cls = o['lines']
            # events per good line, in order, come from Go's own decoding
            if 'events' in o:
                obs = '(FOk %s)' % cq_events(o['events'])
            else:
                m = _re.search(r':(\d+): (invalid JSON|git conflict markers)', o['read_err'])
                if m:
                    obs = '(FBadLine %d)' % int(m.group(1))
                elif 'too long' in o['read_err']:
                    obs = 'FTooLong'
                else:
                    obs = 'FOtherErr'
            # the typed event of each good line: decode that line alone through the RPC would cost a call per
            # line; instead use EOther placeholders when the read failed (the events list is then not compared)
            if 'events' in o:
                evs = list(o['events'])
                terms = []
                for c in cls:
                    if c == 'good':
                        terms.append('(LGood %s)' % cq_event(evs.pop(0)) if evs else 'LBad')
                    else:
                        terms.append({'bad': 'LBad', 'blank': 'LBlank', 'huge': 'LHuge'}[c])
            else:
                terms = [{'good': '(LGood EOther)', 'bad': 'LBad', 'blank': 'LBlank', 'huge': 'LHuge'}[c] for c in cls]
            # a tolerated torn tail: Go dropped the bad last line, so the events list has one fewer entry: handled by model
            cases.append('(FileCase %s %s %s)' % (cq_list(terms), cq_bool(o['ends_nl']), obs))
            meta.append((kind, len(data)))
            kinds[kind] = kinds.get(kind, 0) + 1
            # CLI level: determinism, purity, promptness, error message
            if rng.random() < (0.25 if ctx.quick() else 0.1) or kind.startswith('huge') or kind == 'mb_bad_line':
                before = dir_digest(st.ergodir)
                import time as _t
                t0 = _t.time()
                outs = [st.run(['--json', 'list', '--all'], timeout=60) for _ in range(2)]
                dt = _t.time() - t0
                if outs[0] != outs[1]:
                    nondet.append(kind)
                if dir_digest(st.ergodir) != before:
                    impure.append(kind)
                if dt > 20:
                    slow.append((kind, dt))
                rc, out, err = outs[0]
                if rc != 0 and 'read_err' in o and 'invalid JSON' in o['read_err'] and not _re.search(rb'plans\.jsonl:\d+:', err):
                    noline.append(kind)
                if rc not in (0, 1):
                    ctx.violations.append(('monitor', 'command crashed on file content kind=%s rc=%d' % (kind, rc),
                                           {'kind': 'bytes', 'variant': kind, 'stderr': err.decode('utf-8', 'replace')[-500:]}))
        st.close()
        # evaluate in Coq
        mism, errors = [], []
        shard = 60
        procs = []
        for k in range(0, len(cases), shard):
            part = cases[k:k + shard]
            name = os.path.join(wd, 'files_%d.v' % (k // shard))
            with open(name, 'w') as f:
                f.write(CASES_HEADER + 'From Ergo Require Import Storage.\n')
                f.write(common.INTERN.defs_for(' '.join(part)))
                f.write('Definition cases : list filecase := [\n' + ';\n'.join(part) + '\n].\n')
                f.write('Definition M := Eval vm_compute in run_filecases cases.\nPrint M.\n')
            procs.append((k, name, subprocess.Popen(['coqc', '-Q', os.path.join(COQ, 'theories'), 'Ergo', '-Q', os.path.join(COQ, 'run'),
                                                     'ErgoRun', '-w', '-all', name], cwd=wd, stdout=subprocess.PIPE, stderr=subprocess.STDOUT)))
        for k, name, p in procs:
            out, _ = p.communicate()
            text = out.decode('utf-8', 'replace')
            flat = ' '.join(text.split())
            if p.returncode != 0:
                errors.append(text[-800:])
            elif not _re.search(r'M\s*=\s*\[\s*\]', flat):
                for m in _re.finditer(r'\((\d+),\s*"([A-Za-z]+)"\)', flat):
                    mism.append((k + int(m.group(1)), m.group(2)))
        ctx.cov['byte_variants'] = len(cases)
        ctx.cov['byte_variant_kinds'] = kinds
        ctx.samples.append({'byte_variant': meta[0] if meta else None})
        for e in errors:
            ctx.violations.append(('broken', 'file-case evaluation failed: ' + e[-300:], {'coq_error': e}))
        seen = set()
        for (i, tg) in mism:
            if tg not in seen:
                seen.add(tg)
                ctx.violations.append(('mismatch', 'readEvents model disagrees with Go on %s (variant %s)' % (tg, meta[i][0]),
                                       {'kind': 'bytes', 'tag': tg, 'variant': meta[i], 'no_failing_input': True}))
        for k in nondet[:1]:
            ctx.violations.append(('monitor', 'same log, different output (variant %s)' % k, {'kind': 'bytes', 'variant': k}))
        for k in impure[:1]:
            ctx.violations.append(('monitor', 'read-only command changed the store (variant %s)' % k, {'kind': 'bytes', 'variant': k}))
        for k in slow[:1]:
            ctx.violations.append(('monitor', 'command did not terminate promptly: %s' % (k,), {'kind': 'bytes', 'variant': k}))
        for k in noline[:1]:
            ctx.violations.append(('monitor', 'invalid-JSON error does not name file and line (variant %s)' % k, {'kind': 'bytes', 'variant': k}))
    finally:
        rpc.close()
        shutil.rmtree(wd, ignore_errors=True)
    reads_pure(ctx)
    epics_order_deterministic(ctx)
    oversized_event(ctx)
    unterminated_valid_tail(ctx)


def unterminated_valid_tail(ctx, kinds=('new', 'plan', 'set')):
    """A log whose last line is a complete event lacking only its newline (editor, merge tool, write cut
    before the newline): reads show that event, and the next mutation — whichever write path it takes
    (append: new / set; rewrite: plan) — must keep it (history only grows)."""
    rpc = Rpc()
    try:
        k = 0
        for k in range(3 if ctx.quick() else 20):
            for kind in kinds:
                h = history.History(rpc, random.Random(ctx.seed * 53 + k))
                for _ in range(8):
                    h.do(h.gen_request())
                data = h.store.read_log()
                tasks = [t['id'] for t in h.snap['tasks'] if not t['is_epic']]
                if not data.endswith(b'\n') or data.count(b'\n') < 2 or (kind == 'set' and not tasks):
                    h.close()
                    continue
                with open(h.store.log, 'wb') as f:
                    f.write(data[:-1])
                before = rpc.call(op='decode', dir=h.store.ergodir).get('ok')
                if kind == 'new':
                    rc, out, err = h.store.run(['new', 'task'], stdin=b'{"title":"after unterminated tail"}')
                    grow = 1
                elif kind == 'set':
                    rc, out, err = h.store.run(['set', tasks[0]], stdin=b'{"body":"after unterminated tail"}')
                    grow = 1
                else:
                    rc, out, err = h.store.run(['--json', 'plan'], stdin=b'{"title":"p","tasks":[{"title":"a"},{"title":"b","after":["a"]}]}')
                    grow = 4
                after = rpc.call(op='decode', dir=h.store.ergodir).get('ok')
                if before is None or after is None or after[:len(before)] != before or (rc == 0 and len(after) != len(before) + grow):
                    ctx.violations.append(('monitor', 'a mutation (%s) after a complete-but-unterminated last line dropped or altered recorded history' % kind,
                                           {'kind': 'cli', 'command': kind, 'events_before': len(before or []), 'events_after': len(after or []), 'rc': rc,
                                            'how': 'strip the final newline of plans.jsonl; ergo ' + kind}))
                    h.close()
                    return
                h.close()
        ctx.cov['unterminated_valid_tail_runs'] = (k + 1) * len(kinds)
    finally:
        rpc.close()


def oversized_event(ctx):
    """A command whose event would exceed the reader's 10 MiB line limit must either be refused with
    nothing written, or stay readable: afterwards every command still works."""
    st = Store()
    try:
        st.run(['new', 'task'], stdin=b'{"title":"small"}')
        big = 'x' * (10 * 1024 * 1024 + 4096)
        before = st.read_log()
        rc, out, err = st.run(['--json', 'new', 'task'], stdin=json.dumps({'title': 'big', 'body': big}).encode(), timeout=120)
        rc2, out2, err2 = st.run(['--json', 'list', '--all'], timeout=120)
        ctx.cov['oversized_event'] = {'create_rc': rc, 'list_rc_after': rc2}
        if rc2 != 0:
            ctx.violations.append(('monitor', 'an accepted over-long event makes every later read fail: %s' % err2.decode()[:160],
                                   {'kind': 'cli', 'commands': 'new task with a body of 10 MiB + 4 KiB; list --all'}))
        elif rc != 0 and st.read_log() != before:
            ctx.violations.append(('monitor', 'a refused over-long event still changed the log', {'kind': 'cli'}))
    finally:
        st.close()


def reads_pure(ctx):
    """list / show / where / prune (dry) / quickstart never change the log; a missing lock is recreated empty."""
    rpc = Rpc()
    try:
        h = history.History(rpc, random.Random(ctx.seed + 99))
        for _ in range(20):
            h.do(h.gen_request())
        st = h.store
        ids = [t['id'] for t in h.snap['tasks']][:3]
        before = dir_digest(st.ergodir)
        cmds = [['list'], ['list', '--all'], ['list', '--ready'], ['list', '--epics'], ['--json', 'list'], ['where'], ['--json', 'where'],
                ['prune'], ['--json', 'prune'], ['quickstart']] + [['show', i] for i in ids] + [['--json', 'show', i] for i in ids]
        n = 0
        for c in cmds:
            st.run(c)
            n += 1
            if dir_digest(st.ergodir) != before:
                ctx.violations.append(('monitor', 'read-only command %s changed the store' % c, {'kind': 'cli', 'args': c}))
                break
        os.remove(os.path.join(st.ergodir, 'lock'))
        st.run(['prune'])
        lock = os.path.join(st.ergodir, 'lock')
        if not (os.path.exists(lock) and os.path.getsize(lock) == 0) or dir_digest(st.ergodir) != before:
            ctx.violations.append(('monitor', 'missing lock not recreated empty / log changed', {'kind': 'cli'}))
        ctx.cov['read_only_commands_checked'] = n
        h.close()
    finally:
        rpc.close()


def epics_order_deterministic(ctx):
    """list --epics with equal creation stamps: same output on every run (map iteration must not leak)."""
    import synth
    st = Store()
    try:
        evs = [{'t': 'new_epic', 'id': 'E%05d' % k, 'uuid': 'u%d' % k, 'epic': '', 'state': 'todo', 'title': 'e%d' % k, 'body': '',
                'at': [synth.EPOCH0, 0]} for k in range(12)]
        synth.write_log(st.log, evs)
        outs = {st.run(['--json', 'list', '--epics'])[1] for _ in range(6)}
        outs2 = {st.run(['list', '--epics'])[1] for _ in range(4)}
        ctx.cov['epics_order_runs'] = 10
        if len(outs) != 1 or len(outs2) != 1:
            ctx.violations.append(('monitor', 'list --epics output differs between runs on the same log',
                                   {'kind': 'log', 'log': [synth.render_event(e) for e in evs]}))
    finally:
        st.close()
    # the same instant written in several time zones (hand-merged / imported logs): still one order, every run
    st = Store()
    try:
        zones = [None, 330, 60, -480, 0, 330]
        evs = [{'t': 'new_epic' if k % 2 else 'new_task', 'id': 'Z%05d' % k, 'uuid': 'u%d' % k, 'epic': '', 'state': 'todo', 'title': 'z%d' % k, 'body': '',
                'at': [synth.EPOCH0 + 777, 0], 'zone': zones[k % len(zones)]} for k in range(14)]
        synth.write_log(st.log, evs)
        cmds = [['--json', 'list', '--epics'], ['list', '--epics'], ['--json', 'list', '--ready'], ['list', '--all']]
        for c in cmds:
            outs = {st.run(c)[1] for _ in range(8)}
            if len(outs) != 1:
                ctx.violations.append(('monitor', '`%s` output differs between runs on the same log (equal instants written with numeric offsets)' % ' '.join(c),
                                       {'kind': 'log', 'log': [synth.render_event(e) for e in evs], 'distinct_outputs': len(outs)}))
                break
        ctx.cov['epics_order_runs'] = 10 + 8 * len(cmds)
    finally:
        st.close()


def check_C14(ctx):
    tags = {'Exit', 'Events', 'Epic', 'LiveSet'}
    n, steps = sizes(ctx, (48, 25), (600, 35))
    prof = {'weights': {'new': 35, 'set': 35, 'prune': 10, 'plan': 5, 'compact': 3, 'claim': 5, 'seq': 5},
            'states': ['done', 'canceled', 'todo', 'doing']}
    driver.history_check(ctx, tags, n, steps, profile=prof)


def check_C17(ctx):
    tags = {'Title', 'Body', 'Events', 'Exit'}
    n, steps = sizes(ctx, (32, 20), (300, 30))
    prof = {'weights': {'new': 40, 'set': 40, 'plan': 10, 'compact': 5}}
    driver.history_check(ctx, tags, n, steps, profile=prof)
    codec_difftest(ctx)
    long_text_roundtrip(ctx)


def codec_difftest(ctx):
    nvalid = 400 if ctx.quick() else 2600
    p = subprocess.run([sys.executable, os.path.join(VERIF, 'harness', 'difftest_codec.py'), '--coq', COQ, '--ergo', ERGO,
                        '--seed', str(ctx.seed), '--n', str(nvalid)], capture_output=True, text=True, timeout=3000)
    ctx.cov['codec_difftest'] = {'rc': p.returncode, 'tail': p.stdout[-600:]}
    if p.returncode != 0:
        ctx.violations.append(('mismatch', 'JSON string codec model disagrees with encoding/json (see detail)',
                               {'kind': 'codec', 'output': (p.stdout + p.stderr)[-3000:], 'no_failing_input': False}))


def long_text_roundtrip(ctx):
    """Character-for-character round trip of large / awkward texts through every input mode."""
    rng = random.Random(ctx.seed)
    alphabet = ['a', ' ', '\n', '"', '\\', '\t', '\x01', '\x1f', '<', '>', '&', 'é', '日', '\U0001F600', ' ', ' ',
                '́', '\x7f', ' ', '{', '}', "'", '\r']
    sizes_ = [1, 2, 17, 1000, 70000] if ctx.quick() else [1, 2, 17, 1000, 70000, 400000]
    bad = []
    counts = []

    def phase_sizes():
      st = Store()
      n = 0
      try:
        for size in sizes_:
            for mode in ('json', 'stdin', 'flags'):
                body = 'x' + ''.join(rng.choice(alphabet) for _ in range(size)) + 'y'
                title = 'T' + ''.join(rng.choice([c for c in alphabet if c != '\n' or True]) for _ in range(min(size, 200))) + 'Z'
                if mode == 'flags' and size > 60000:
                    continue      # argv limit of a single argument (128 KiB) — not an ergo limit
                if mode == 'flags' or mode == 'stdin':
                    if '\x00' in title:
                        continue
                r = history.Req(k='new', epic=False, mode=mode, fields={'title': title, 'body': body}, agent=None)
                args, stdin = history.req_cli(r)
                rc, out, err = st.run(args, stdin=stdin)
                n += 1
                if rc != 0:
                    bad.append(('create_failed', mode, size, err.decode()[:200]))
                    continue
                i = json.loads(out)['id']
                rc, out, _ = st.run(['--json', 'show', i])
                got = json.loads(out)
                exp_title = title if mode == 'json' else title.strip(monitors.GO_WS)
                if got['title'] != exp_title or got['body'] != body:
                    bad.append(('roundtrip', mode, size))
                # set + compact
                body2 = body[::-1]
                rc, _, err = st.run(['set', i], stdin=json.dumps({'body': body2}, ensure_ascii=False).encode())
                st.run(['compact'])
                rc, out, _ = st.run(['--json', 'show', i])
                if json.loads(out)['body'] != body2:
                    bad.append(('roundtrip_after_set_compact', mode, size))
      finally:
        st.close()
        counts.append(n)

    def phase_boundary(ch):
      # multi-byte characters placed across every power-of-two buffer boundary (4 KiB ... 128 KiB), all input modes
      st = Store()
      n = 0
      try:
        if True:
            for off in range(len(ch.encode())):
                body = 'a' * off + ch * (140000 // len(ch.encode()))
                for mode in ('stdin', 'json'):
                    r = history.Req(k='new', epic=False, mode=mode, fields={'title': 'boundary', 'body': body}, agent=None)
                    args, stdin = history.req_cli(r)
                    rc, out, err = st.run(args, stdin=stdin)
                    n += 1
                    if rc != 0:
                        bad.append(('create_failed', mode, 'boundary'))
                        continue
                    i = json.loads(out)['id']
                    got = json.loads(st.run(['--json', 'show', i])[1])['body']
                    if got != body:
                        k = next((j for j in range(min(len(got), len(body))) if got[j] != body[j]), -1)
                        bad.append(('roundtrip_boundary', mode, repr(ch), 'first difference at char %d' % k))
                    rc, _, _ = st.run(['set', i, '--body-stdin'], stdin=('b' + body).encode())
                    got = json.loads(st.run(['--json', 'show', i])[1])['body']
                    if rc == 0 and got != 'b' + body:
                        bad.append(('roundtrip_boundary_set', mode, repr(ch)))
      finally:
        st.close()
        counts.append(n)

    def phase_edges():
      # whitespace-edged texts through every mode x {create, set} x {task, epic}: bodies are never trimmed, titles only by flags / set
      st = Store()
      n = 0
      try:
        edges = [' lead', 'trail ', '\ttab lead', 'final newline\n', '\n\nblank lines first', '  two  ', 'nbsp\u00a0', '\u3000ideographic lead', 'x\r\n']
        for txt in edges:
            for kind in ('task', 'epic'):
                for cmode in ('json', 'flags', 'stdin'):
                    r = history.Req(k='new', epic=(kind == 'epic'), mode=cmode, fields={'title': 'T', 'body': txt}, agent=None)
                    args, stdin = history.req_cli(r)
                    rc, out, err = st.run(args, stdin=stdin)
                    n += 1
                    if rc != 0:
                        continue
                    i = json.loads(out)['id']
                    shown = json.loads(st.run(['--json', 'show', i])[1])
                    got = (shown.get('epic') or shown)['body'] if isinstance(shown, dict) and 'epic' in shown and isinstance(shown['epic'], dict) else shown['body']
                    if got != txt:
                        bad.append(('body_edge_create', kind, cmode, repr(txt), repr(got)))
                    for smode in ('json', 'flags', 'stdin'):
                        txt2 = txt + '!' if not txt.endswith(('\n', ' ')) else '!' + txt
                        txt2 = txt[::-1] if txt[::-1].strip() else txt
                        r2 = history.Req(k='set', epic=False, id=i, mode=smode, fields={'body': txt2}, agent=None)
                        args, stdin = history.req_cli(r2)
                        rc, out, err = st.run(args, stdin=stdin)
                        n += 1
                        if rc != 0:
                            continue
                        shown = json.loads(st.run(['--json', 'show', i])[1])
                        got = shown['epic']['body'] if 'epic' in shown and isinstance(shown['epic'], dict) else shown['body']
                        if got != txt2:
                            bad.append(('body_edge_set', kind, smode, repr(txt2), repr(got)))
      finally:
        st.close()
        counts.append(n)

    import concurrent.futures as _cf
    with _cf.ThreadPoolExecutor(max_workers=6) as ex:
        futs = [ex.submit(phase_sizes), ex.submit(phase_edges)] + [ex.submit(phase_boundary, ch) for ch in ('€', 'é', '\U0001F600')]
        for f in futs:
            f.result()
    ctx.cov['long_text_cases'] = sum(counts)
    for b in sorted(bad, key=repr):
        ctx.violations.append(('monitor', 'text did not come back as it went in: %s' % (b,), {'kind': 'text', 'case': b}))


def replay(ctx, path):
    data = json.load(open(path))
    print(json.dumps(data, indent=1)[:6000])
    return 0
