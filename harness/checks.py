"""Per-property dynamic checks (correspondence + monitors + targeted generators)."""
import json, os, random
from common import *
import driver, history, monitors, runner


def sizes(ctx, quick, thorough):
    return quick if ctx.quick() else thorough


def check_C06(ctx):
    tags = {'Exit', 'Events', 'State', 'ClaimedBy', 'Reply'}
    n, steps = sizes(ctx, (48, 25), (600, 30))
    driver.history_check(ctx, tags, n, steps)


def replay(ctx, path):
    data = json.load(open(path))
    print(json.dumps(data, indent=1)[:4000])
    return 0
