#!/usr/bin/env python3
"""Differential test of the Coq model of ergo's human `list` output (Layout.v / Tree.v) against the Go code.

 part 1: formatTreeLine / truncateToWidth / abbreviate through verif-rpc  vs  Layout.v
 part 2: random stores (CLI histories + synthetic logs): `tree` rows and real `ergo list` stdout  vs  Tree.v
 part 3: probes of the REAL tool against the C19 row properties on text outside the model's width domain
         (grapheme clusters with two non-zero-width runes) -- findings, not model comparison.

Outputs of Go are compared with the model inside Coq (vm_compute) through a 61-bit hash of the bytes.
usage: difftest_tree.py [--nfmt 3200] [--nstores 300] [--nsynth 120] [--jobs 16] [--seed 1]
"""
import sys, os, base64, json, random, subprocess, re, argparse, shutil, time, multiprocessing

sys.path.insert(0, os.path.dirname(os.path.abspath(__file__)))
import common
from common import Rpc, Store, cq_str, cq_bool, cq_list, cq_events, INTERN

HERE = os.path.dirname(os.path.abspath(__file__))
COQDIR = os.environ.get('COQDIR', common.COQ)
WORK = os.environ.get('TREE_WORK') or os.path.join(common.mkscratch('ergo-tree-'), 'work')
if not os.path.exists(common.ERGO):
    alt = os.path.join(HERE, 'ergo')
    if not os.path.exists(alt):
        subprocess.run(['go', 'build', '-tags', 'verif', '-o', alt, './cmd/ergo'], cwd=common.REPO, env=common.GOENV, check=True)
    common.ERGO = alt

HMOD = 2305843009213693951
GLYPHS = '…├└│✓○◐·✗⚠Ⓔ⧗→@?'


def b64(s):
    if isinstance(s, str):
        s = s.encode('utf-8', 'surrogatepass')
    return base64.b64encode(s).decode()


def unb64(s):
    return base64.b64decode(s)


def hbytes(b, h=0):
    for c in b:
        h = (h * 257 + c + 1) % HMOD
    return h


def go_runes(b):
    """code points as Go's range sees them (only the SET matters here; invalid bytes give U+FFFD)"""
    return [ord(c) for c in b.decode('utf-8', 'replace')] + [0xFFFD]


def strip_ansi(s):
    out, esc = [], False
    for ch in s:
        if ch == '\x1b':
            esc = True
            continue
        if esc:
            if ch == 'm':
                esc = False
            continue
        out.append(ch)
    return ''.join(out)


class Widths:
    """rune-width oracle values fetched from go-runewidth through the RPC"""

    def __init__(self, rpc):
        self.rpc = rpc
        self.tab = {}

    def need(self, cps):
        new = sorted(set(cps) - set(self.tab))
        new = [c for c in new if not (0xD800 <= c <= 0xDFFF)]
        for k in range(0, len(new), 500):
            part = new[k:k + 500]
            res = self.rpc.call(op='runewidth', strs=[b64(chr(c)) for c in part])['ok']
            for c, r in zip(part, res):
                assert len(r['runes']) == 1, (c, r)
                self.tab[c] = r['runes'][0]

    def coq(self):
        items = ';'.join('(%d%%N,%d%%nat)' % (c, w) for c, w in sorted(self.tab.items()))
        return ('Definition rwtab : list (N * nat) := [%s].\n'
                'Definition rwm : Nmap nat := Eval vm_compute in list_to_map rwtab.\n'
                'Definition rw : N -> nat := mk_rw rwm.\n' % items)

    def sum_consistent(self, texts):
        """Is go-runewidth's StringWidth (grapheme based) equal to the sum of RuneWidth on every rune-prefix of
        the text placed between spaces / before an ellipsis?  That is the domain on which the model's
        visible_len (sum of rune widths) is the Go visibleLen."""
        ok = {}
        for t in texts:
            s = t if isinstance(t, str) else t.decode('utf-8', 'replace')
            s = strip_ansi(s)
            probes = []
            for k in range(len(s) + 1):
                probes.append(' ' + s[:k] + ' ')
                probes.append(' ' + s[:k] + '…')
            good = True
            for k in range(0, len(probes), 400):
                res = self.rpc.call(op='runewidth', strs=[b64(p) for p in probes[k:k + 400]])['ok']
                if any(r['string'] != sum(r['runes']) for r in res):
                    good = False
                    break
            ok[t] = good
        return ok


HEADER = '''From Ergo Require Import Base Text Events Replay Ready Compact Utf8Lite Layout Tree.
From ErgoRun Require Import Check TreeCheck.
From stdpp Require Import nmap.
Local Open Scope string_scope.
Local Open Scope list_scope.
'''


def run_coq(files, jobs):
    """files: list of (tag, path).  Returns {tag: flattened stdout} ; raises on coqc error."""
    out = {}
    pending = list(files)
    running = []
    errs = []
    while pending or running:
        while pending and len(running) < jobs:
            tag, path = pending.pop(0)
            p = subprocess.Popen(['timeout', '1800', 'coqc', '-Q', os.path.join(COQDIR, 'theories'), 'Ergo', '-Q',
                                  os.path.join(COQDIR, 'run'), 'ErgoRun', '-w', '-all', path],
                                 cwd=os.path.dirname(path), stdout=subprocess.PIPE, stderr=subprocess.STDOUT)
            running.append((tag, path, p))
        tag, path, p = running.pop(0)
        o, _ = p.communicate()
        text = o.decode('utf-8', 'replace')
        if p.returncode != 0:
            errs.append((path, text[-1500:]))
        out[tag] = ' '.join(text.split())
    if errs:
        for path, t in errs:
            print('COQC ERROR', path, '\n', t)
        raise SystemExit(2)
    return out


def cqz(n):
    return '(%d)%%Z' % n


def cqn(n):
    return '%d%%N' % n


# ------------------------------------------------------------------------------------------------ part 1

TITLES = {
    'ascii': 'Fix login', 'ascii_long': 'The quick brown fox jumps over the lazy dog, again and again and again',
    'cjk': '日本語のタイトル', 'cjk_long': '日本語のタイトル' * 12, 'mixed': 'a日本b語c-ｱｲｳ wide', 'combining': 'élément combiné',
    'combining_heavy': 'á̂̃' * 12, 'emoji': 'emoji \U0001F600 ok \U0001F680\U0001F680\U0001F680', 'emoji_long': '\U0001F600' * 60,
    'empty': '', 'very_long': 'x' * 500, 'very_long_mixed': ('ab日本' * 130), 'zero_width': '​​', 'zw_only_long': '́' * 40,
    'esc': '\x1b[31mred\x1b[0m text after', 'esc_open': 'ab\x1bcd no terminator', 'invalid': b'ab\xff\xfecd', 'cut_seq': b'abc\xe6\x97',
    'ctl': 'ctl\x01\x1f', 'spaces': '   ', 'nbsp': 'a b', 'tab': 'tab\there', 'one': 'x', 'wide_one': '日', 'quote': 'q"uo\'te\\',
    'latin1': 'héllo wörld', 'overlong': b'\xc0\xafx', 'surrogate': b'\xed\xa0\x80y', 'four': '\U00020000\U00020001 ext-B',
}
ANNS = [[], ['@alice'], ['@bob@host'], ['@日本エージェント'], ['@alice', '@zed'], ['@é', '@' + 'n' * 60], ['@\U0001F600']]
BLOCKERS = ['', '⧗ Fix login', '⧗ 日本語のタイトル, Write docs', '⧗ 3 blockers', '⧗ ' + 'x' * 19 + '…, ' + 'y' * 19 + '…', '⧗ é',
            '⧗ 日本語のタイトル日本語のタイトル日本…']
PREFIXES = [('', '├', True), ('', '└', True), ('│ ', '├', True), ('  ', '└', True), ('', '', False), ('│ │ ', '└', True)]
ICONS = ['✓', '○', '◐', '·', '✗', '⚠', '?', '']
IDS = ['ABCDEF', 'ABCDEF', 'ABCDEF', 'Z2Z2Z2', 'AB', 'ABCDEFGHIJ', '']


def part1(rpc, wd, n_fmt, jobs, rng):
    texts = list(TITLES.values())
    for a in ANNS:
        texts += a
    texts += BLOCKERS
    cons = wd.sum_consistent(texts)
    bad = [t for t, ok in cons.items() if not ok]
    assert not bad, ('part-1 corpus leaves the sum-of-rune-widths domain', bad)
    cps = set(range(32, 127))
    for t in texts + [p for p, _, _ in PREFIXES] + [c for _, c, _ in PREFIXES] + ICONS + list(GLYPHS) + IDS:
        cps |= set(go_runes(t.encode('utf-8', 'surrogatepass') if isinstance(t, str) else t))
    wd.need(cps)

    cases = []  # coq terms
    widths = list(range(1, 241))
    keys = list(TITLES)
    k = 0
    while k < n_fmt:
        w = widths[k % 240] if k < 960 else rng.choice(widths)
        title = TITLES[keys[k % len(keys)]] if k < 4 * len(keys) else TITLES[rng.choice(keys)]
        anns = rng.choice(ANNS)
        blocker = rng.choice(BLOCKERS) if rng.random() < 0.5 else ''
        pfx, conn, show = rng.choice(PREFIXES)
        epic = rng.random() < 0.25
        icon = 'Ⓔ' if epic and rng.random() < 0.9 else rng.choice(ICONS)
        iid = rng.choice(IDS)
        line = dict(prefix=b64(pfx), connector=b64(conn), show_connector=show, icon=b64(icon), id=b64(iid), title=b64(title),
                    annotations=[b64(a) for a in anns], blocker=b64(blocker), is_epic=epic, state='todo', is_ready=True)
        r = rpc.call(op='fmtline', width=w, line=line)
        o = r['ok']
        got = unb64(o['line'])
        cases.append(('LFmt %s %s %s %s %s %s %s %s %s %s %s %s' % (
            cqz(w), cq_str(pfx), cq_str(conn), cq_bool(show), cq_str(icon), cq_str(iid), cq_str(title),
            cq_list([cq_str(a) for a in anns]), cq_str(blocker), cq_bool(epic), cqn(hbytes(got)), cqz(o['visible'])),
                      ('fmtline', w, title, anns, blocker, pfx, conn, show, icon, iid, epic, got)))
        k += 1
    n_tr = 0
    for w in list(range(-1, 60)) + [80, 120, 240]:
        strs = list(TITLES.values()) + ['  @alice  @zed', '⧗ 日本語のタイトル, Write docs']
        res = rpc.call(op='truncate', width=w, strs=[b64(s) for s in strs])['ok']
        for s, o in zip(strs, res):
            cases.append(('LTrunc %s %s %s' % (cqz(w), cq_str(s), cqn(hbytes(unb64(o)))), ('truncate', w, s, unb64(o))))
            n_tr += 1
    n_ab = 0
    for w in list(range(-1, 30)) + [40, 100, 600]:
        strs = list(TITLES.values())
        res = rpc.call(op='abbreviate', width=w, strs=[b64(s) for s in strs])['ok']
        for s, o in zip(strs, res):
            cases.append(('LAbbr %s %s %s' % (cqz(w), cq_str(s), cqn(hbytes(unb64(o)))), ('abbreviate', w, s, unb64(o))))
            n_ab += 1
    print('part 1: %d fmtline + %d truncate + %d abbreviate cases, %d distinct runes measured' % (n_fmt, n_tr, n_ab, len(wd.tab)))

    d = os.path.join(WORK, 'p1')
    os.makedirs(d, exist_ok=True)
    shard = max(1, (len(cases) + jobs - 1) // jobs)
    files = []
    for i in range(0, len(cases), shard):
        part = [c for c, _ in cases[i:i + shard]]
        body = ';\n'.join('(' + c + ')' for c in part)
        path = os.path.join(d, 'lay_%d.v' % (i // shard))
        with open(path, 'w') as f:
            f.write(HEADER + INTERN.defs_for(body) + wd.coq())
            f.write('Definition cases : list lcase := [\n' + body + '\n].\n')
            f.write('Definition M := Eval vm_compute in run_lcases rw cases.\nPrint M.\n')
        files.append((i, path))
    outs = run_coq(files, jobs)
    fails = []
    for base, text in outs.items():
        m = re.search(r'M = \[(.*?)\]', text)
        assert m, text[:400]
        for x in re.findall(r'\d+', m.group(1)):
            fails.append(base + int(x))
    for i in sorted(fails)[:20]:
        print('  MISMATCH', cases[i][1])
    print('part 1: %d disagreements' % len(fails))
    return len(fails)


# ------------------------------------------------------------------------------------------------ part 2

WIDTHS = [14, 20, 40, 80, 120, 200]
SYN_TITLES = ['Fix login', 'Write docs', '日本語のタイトル', 'é combining', 'emoji \U0001F600 ok', 'x' * 90, 'a', 'Refactor "core"',
              'héllo wörld', '日本語' * 15, 'tab\there', 'q', 'Deploy v2 to the staging cluster and verify', 'ｱｲｳ half', 'ctl\x01']
STATES = ['todo', 'todo', 'todo', 'doing', 'done', 'blocked', 'canceled', 'error']


def synth_log(rng, path):
    """A hand-made event log: more dependencies, blockers, results and odd shapes than CLI histories reach
    (dep cycles, cross-epic deps, epic->epic deps, >2 blockers)."""
    ids = []
    lines = []
    t0 = 1790000000

    def ts(k):
        return time.strftime('%Y-%m-%dT%H:%M:%S', time.gmtime(t0 + k)) + '.%09dZ' % rng.choice([0, 5, 123456789])

    def ev(typ, data, k):
        lines.append(json.dumps({'type': typ, 'ts': ts(k), 'data': data}, ensure_ascii=False))

    alphabet = 'ABCDEFGHJKLMNPQRSTUVWXYZ234567'
    nep = rng.choice([0, 1, 2, 2, 3])
    nt = rng.randint(2, 12)
    epics, tasks = [], []
    k = 0
    for i in range(nep):
        i_ = ''.join(rng.choice(alphabet) for _ in range(6))
        epics.append(i_)
        ev('new_epic', {'id': i_, 'uuid': 'u-' + i_, 'epic_id': '', 'state': 'todo', 'title': rng.choice(SYN_TITLES), 'body': '',
                        'created_at': ts(k)}, k)
        k += rng.choice([0, 1])
    for i in range(nt):
        i_ = ''.join(rng.choice(alphabet) for _ in range(6))
        if i_ in epics or i_ in tasks:
            continue
        tasks.append(i_)
        e = rng.choice(epics) if epics and rng.random() < 0.6 else ''
        ev('new_task', {'id': i_, 'uuid': 'u-' + i_, 'epic_id': e, 'state': rng.choice(STATES), 'title': rng.choice(SYN_TITLES),
                        'body': '', 'created_at': ts(k)}, k)
        k += rng.choice([0, 1])
    for i_ in tasks:
        if rng.random() < 0.25:
            ev('claim', {'id': i_, 'agent_id': rng.choice(['alice', 'bob@host', '日本']), 'ts': ts(k)}, k)
        if rng.random() < 0.15:
            ev('state', {'id': i_, 'state': rng.choice(STATES), 'ts': ts(k)}, k)
        if rng.random() < 0.3:
            ev('result', {'task_id': i_, 'summary': 's', 'path': 'out/%s.txt' % i_.lower(), 'sha256_at_attach': 'ab' * 32, 'ts': ts(k)}, k)
    nl = rng.randint(0, 2 * len(tasks))
    cyc = rng.random() < 0.15
    for _ in range(nl):
        a, b = rng.sample(tasks, 2) if len(tasks) >= 2 else (tasks[0], tasks[0])
        if not cyc and tasks.index(a) < tasks.index(b):
            a, b = b, a
        ev('link', {'from_id': a, 'to_id': b, 'type': 'depends'}, k)
    for _ in range(rng.choice([0, 0, 1, 2])):
        if len(epics) >= 2:
            a, b = rng.sample(epics, 2)
            if not cyc and epics.index(a) < epics.index(b):
                a, b = b, a
            ev('link', {'from_id': a, 'to_id': b, 'type': 'depends'}, k)
    if rng.random() < 0.2 and tasks:
        ev('tombstone', {'id': rng.choice(tasks + epics), 'agent_id': 'zed', 'ts': ts(k)}, k)
    with open(path, 'w') as f:
        f.write('\n'.join(lines) + '\n')


def collect_store(rpc, store, rng):
    """-> dict with events, repo, tree queries, cli queries (or None if the store does not replay)"""
    snap = rpc.call(op='snapshot', dir=store.ergodir)
    if 'ok' not in snap or 'replay_error' in snap['ok']:
        return None
    snap = snap['ok']
    epics = [t['id'] for t in snap['tasks'] if t['is_epic']]
    rng.shuffle(epics)
    epics = epics[:2]
    combos = [(False, False, ''), (True, False, ''), (False, True, '')]
    for e in epics:
        combos += [(False, False, e), (False, True, e)]
    if epics:
        combos.append((True, False, epics[0]))
    tq = []
    for (a, r, e) in combos:
        for w in WIDTHS:
            res = rpc.call(op='tree', dir=store.ergodir, all=a, ready=r, epic=e, width=w, repo=store.dir)
            if 'ok' not in res:
                return {'error': 'tree rpc: %r' % (res,)}
            tq.append((a, r, e, w, hbytes(unb64(res['ok']['raw'])), unb64(res['ok']['raw']).decode('utf-8', 'replace')))
    cq = []
    modes = [('MDefault', []), ('MAll', ['--all']), ('MReady', ['--ready']), ('MEpics', ['--epics'])]
    for e in epics:
        modes += [('(MEpic %s)', ['--epic', e]), ('(MEpicReady %s)', ['--epic', e, '--ready'])]
    for m, flags in modes:
        rc, out, err = store.run(['list'] + flags)
        if rc != 0:
            return {'error': 'cli rc=%d %r' % (rc, err[:200])}
        cq.append((m, flags, hbytes(out), out.decode('utf-8', 'replace')))
    strings = [store.dir]
    for ev in snap['events']:
        for v in ev.values():
            if isinstance(v, str):
                strings.append(v)
    return {'events': snap['events'], 'repo': store.dir, 'tq': tq, 'cq': cq, 'strings': strings,
            'ntasks': len(snap['tasks'])}


def worker(job):
    kind, seed = job
    from history import run_history
    rng = random.Random(seed * 7919 + 13)
    rpc = Rpc()
    try:
        if kind == 'hist':
            h = run_history(rpc, seed, rng.randint(15, 30))
            store = h.store
        else:
            store = Store()
            synth_log(rng, store.log)
        res = collect_store(rpc, store, rng)
        store.close()
        return (kind, seed, res)
    finally:
        rpc.close()


def part2(rpc, wd, nstores, nsynth, jobs, seed0):
    jobs_l = [('hist', seed0 * 100000 + i) for i in range(nstores)] + [('synth', seed0 * 100000 + 50000 + i) for i in range(nsynth)]
    with multiprocessing.Pool(jobs) as pool:
        results = pool.map(worker, jobs_l, chunksize=2)
    stores = []
    skipped = 0
    for kind, seed, res in results:
        if res is None:
            skipped += 1
            continue
        if 'error' in res:
            print('  store', kind, seed, 'ERROR', res['error'])
            skipped += 1
            continue
        stores.append((kind, seed, res))
    # domain check + widths
    texts = set()
    for _, _, res in stores:
        for ev in res['events']:
            for key in ('title', 'agent'):
                if isinstance(ev.get(key), str):
                    texts.add(ev[key])
    cons = wd.sum_consistent(sorted(texts))
    out_dom = [t for t, ok in cons.items() if not ok]
    if out_dom:
        print('  texts outside the sum-of-rune-widths domain (stores using them are still compared):', out_dom)
    cps = set(range(32, 127))
    for _, _, res in stores:
        for s in res['strings']:
            cps |= set(go_runes(s.encode('utf-8', 'surrogatepass')))
    for g in GLYPHS:
        cps.add(ord(g))
    wd.need(cps)
    ntq = sum(len(r['tq']) for _, _, r in stores)
    ncq = sum(len(r['cq']) for _, _, r in stores)
    print('part 2: %d stores (%d history, %d synthetic; %d skipped), %d tree queries, %d CLI outputs, items per store %s' % (
        len(stores), sum(1 for k, _, _ in stores if k == 'hist'), sum(1 for k, _, _ in stores if k == 'synth'), skipped, ntq, ncq,
        sorted(set(r['ntasks'] for _, _, r in stores))))
    d = os.path.join(WORK, 'p2')
    os.makedirs(d, exist_ok=True)
    terms = []
    for kind, seed, res in stores:
        tqs = cq_list(['(TQ %s %s %s %s %s)' % (cq_bool(a), cq_bool(r), cq_str(e), cqz(w), cqn(h)) for (a, r, e, w, h, _) in res['tq']])
        cqs = cq_list(['(CQ %s %s)' % ((m % cq_str(fl[1])) if '%s' in m else m, cqn(h)) for (m, fl, h, _) in res['cq']])
        terms.append('(SCase %s %s %s %s)' % (cq_events(res['events']), cq_str(res['repo']), tqs, cqs))
    shard = max(1, (len(terms) + jobs - 1) // jobs)
    files = []
    for i in range(0, len(terms), shard):
        body = ';\n'.join(terms[i:i + shard])
        path = os.path.join(d, 'tree_%d.v' % (i // shard))
        with open(path, 'w') as f:
            f.write(HEADER + INTERN.defs_for(body) + wd.coq())
            f.write('Definition cases : list scase := [\n' + body + '\n].\n')
            f.write('Definition M := Eval vm_compute in run_scases rw cases.\nPrint M.\n')
        files.append((i, path))
    outs = run_coq(files, jobs)
    nfail = 0
    for base, text in sorted(outs.items()):
        m = re.search(r'M = (.*?) : list', text)
        assert m, text[:400]
        body = m.group(1)
        if body.strip() == '[]':
            continue
        for mm in re.finditer(r'\((\d+), \[([\d; ]*)\], \[([\d; ]*)\]\)', body):
            k = base + int(mm.group(1))
            kind, seed, res = stores[k]
            tf = [int(x) for x in re.findall(r'\d+', mm.group(2))]
            cf = [int(x) for x in re.findall(r'\d+', mm.group(3))]
            nfail += len(tf) + len(cf)
            print('  MISMATCH store', kind, seed, 'tree queries', [res['tq'][i][:4] for i in tf if i < 999][:6], 'cli',
                  [res['cq'][i][1] for i in cf if i < 999], 'replay-failed' if 999 in tf else '')
            for i in tf[:1]:
                if i < 999:
                    print(res['tq'][i][5])
            for i in cf[:1]:
                if i < 999:
                    print(res['cq'][i][3])
    print('part 2: %d disagreements' % nfail)
    return nfail


# ------------------------------------------------------------------------------------------------ part 3

def part3(rpc, wd):
    """The real tool vs the row properties, on text where StringWidth != sum of RuneWidth."""
    probes = {'zwj family x10': '\U0001F468‍\U0001F469‍\U0001F467' * 10, 'devanagari x30': 'का' * 30, 'skin tone': 'thumb \U0001F44D\U0001F3FD ok',
              'flags': '\U0001F1E9\U0001F1EA\U0001F1EB\U0001F1F7' * 8, 'ends in prepend U+0D4E': 'xൎ', 'starts with modifier': '\U0001F3FBx'}
    print('part 3: real formatTreeLine on grapheme clusters with >1 non-zero-width rune (width 40, id ABCDEF):')
    findings = 0
    for name, t in probes.items():
        line = dict(prefix=b64(''), connector=b64('├'), show_connector=True, icon=b64('○'), id=b64('ABCDEF'), title=b64(t),
                    annotations=[], blocker=b64(''), is_epic=False, state='todo', is_ready=True)
        o = rpc.call(op='fmtline', width=40, line=line)['ok']
        rwz = rpc.call(op='runewidth', strs=[o['line']])['ok'][0]
        per_rune = sum(rwz['runes'])
        flag = []
        if o['visible'] != 38:
            flag.append('visibleLen(row)=%d != 38 (id column shifted by the tool\'s own measure)' % o['visible'])
        if per_rune > 38:
            flag.append('sum of rune widths=%d > 38 (row overflows a terminal that places runes one by one)' % per_rune)
        findings += bool(flag)
        print('  %-26s visibleLen=%d sum(RuneWidth)=%d %s' % (name, o['visible'], per_rune, '; '.join(flag)))
    return findings


def main():
    ap = argparse.ArgumentParser()
    ap.add_argument('--nfmt', type=int, default=3200)
    ap.add_argument('--nstores', type=int, default=300)
    ap.add_argument('--nsynth', type=int, default=120)
    ap.add_argument('--jobs', type=int, default=16)
    ap.add_argument('--seed', type=int, default=1)
    ap.add_argument('--only', default='123')
    a = ap.parse_args()
    shutil.rmtree(WORK, ignore_errors=True)
    os.makedirs(WORK)
    rng = random.Random(a.seed)
    rpc = Rpc()
    wd = Widths(rpc)
    wd.need([ord(c) for c in GLYPHS])
    print('glyph widths:', {c: wd.tab[ord(c)] for c in GLYPHS})
    bad = 0
    if '1' in a.only:
        bad += part1(rpc, wd, a.nfmt, a.jobs, rng)
    if '2' in a.only:
        bad += part2(rpc, wd, a.nstores, a.nsynth, a.jobs, a.seed)
    if '3' in a.only:
        part3(rpc, wd)
    rpc.close()
    print('TOTAL disagreements model vs Go:', bad)
    sys.exit(1 if bad else 0)


if __name__ == '__main__':
    main()
