(** C20 — Result attachments are confined, faithful and never lost. *)
From Ergo Require Import Base Text Events Replay Ready Compact Path PathFacts Cmd Input Graphs Invariants Facts Reach CompactCore.
Local Open Scope string_scope.
Local Open Scope list_scope.

(** Confinement: an accepted path is relative, cleaned, has no ".." component, does not start in
    .ergo, and every lexical resolution of it from a root stays strictly below the root and outside
    root/.ergo (or is "." itself, which the file-system check then refuses as a directory). *)
Theorem C20_confined : forall p c, lexical_result_path p = Some c ->
  c = clean p /\ is_abs p = false /\ is_abs c = false /\ ~ In ".." (comps c) /\ head (comps c) <> Some ".ergo" /\
  (c = "." \/ exists n ns, c = join_slash (n :: ns) /\ comps c = n :: ns /\ split_slash c = n :: ns
                            /\ Forall nc (n :: ns) /\ n <> ".ergo").
Proof. exact lexical_confined. Qed.
Print Assumptions C20_confined.

Theorem C20_resolution_stays_inside : forall p c (root : list string), lexical_result_path p = Some c ->
  resolve root p = resolve root c /\
  (c = "." /\ resolve root c = root \/ exists n ns, resolve root c = root ++ n :: ns /\ n <> ".ergo" /\ Forall nc (n :: ns)).
Proof. exact lexical_resolve. Qed.
Print Assumptions C20_resolution_stays_inside.

Theorem C20_rejects : forall p,
  (is_abs p = true -> lexical_result_path p = None) /\
  (In ".." (comps (clean p)) -> lexical_result_path p = None) /\
  (head (comps (clean p)) = Some ".ergo" -> lexical_result_path p = None) /\
  (clean p = ".ergo" -> lexical_result_path p = None) /\
  (String.prefix ".ergo/" (clean p) = true -> lexical_result_path p = None) /\
  (String.prefix ".." (clean p) = true -> lexical_result_path p = None).
Proof. exact lexical_rejects. Qed.
Print Assumptions C20_rejects.

Theorem C20_clean_normal_form : forall p, clean (clean p) = clean p.
Proof. exact clean_idempotent. Qed.
Print Assumptions C20_clean_normal_form.

(** Only a live plain task, only an existing regular file, recorded evidence = what the file-system
    oracle said at that moment. *)
Theorem C20_attach_conditions : forall e g i s p ev,
  build_result_event e g i s p = Some ev ->
  tombed g i = false /\ (exists t, g_tasks g !! i = Some t /\ t_is_epic t = false) /\
  e_fkind e = FRegular /\
  exists s' c, valid_summary s = Some s' /\ lexical_result_path p = Some c /\
               ev = EResult i s' c (e_sha e) (e_mtime e) (e_git e) (Some (e_now_result e)).
Proof.
  intros e g i s p ev. unfold build_result_event.
  destruct (tombed g i); [discriminate|]. destruct (g_tasks g !! i) as [t|]; [|discriminate].
  destruct (t_is_epic t) eqn:Hk; [discriminate|].
  destruct (valid_summary s) as [s'|]; [|discriminate]. destruct (lexical_result_path p) as [c|]; [|discriminate].
  destruct (e_fkind e); try discriminate. intros [= <-]. repeat split; eauto.
Qed.
Print Assumptions C20_attach_conditions.

(** Results accumulate newest first and no event other than a result event touches them; update
    events never drop, duplicate or reorder them. *)
Theorem C20_results_only_grow : forall e t,
  t_results (ev_fun e t) = t_results t \/ exists r, t_results (ev_fun e t) = r :: t_results t.
Proof.
  intros e t.
  destruct e as [| j s [ts|] | j a [ts|] | j | | | j ti [ts|] | j b [ts|] | j ep [ts|] | | j su pa sha mt gi [ts|] | |];
    cbn; eauto.
Qed.
Print Assumptions C20_results_only_grow.

(** Compaction re-creates the result list exactly (order, evidence, stamps). *)
Theorem C20_compact_keeps_results : forall t, t_results (rebuild t) = t_results t.
Proof. exact rebuild_results. Qed.
Print Assumptions C20_compact_keeps_results.
