(** C13 — Readers never fail or see garbage while writers are active. *)
From Ergo Require Import Base Text Events Replay Ready Compact Cmd Input Sched Serial Concurrent.
Local Open Scope string_scope.
Local Open Scope list_scope.

(** For every reader start time relative to every step (lock, write, temp-file write, rename) of
    every concurrent writer: the reader succeeds, and what it read is the serial state after a
    prefix of the committed history — a state the store actually passed through — that contains
    everything committed before it opened the log. *)
Theorem C13_reader_prefix_state : forall (procs : list proc) (log0 : list event) (s1 s2 : sched) (r : pid) res,
  crash_free s1 -> crash_free s2 ->
  let w1 := run_schedule (init_world (File log0 TClean) (pst_of <$> procs)) s1 in
  let w2 := run_schedule (init_world (File log0 TClean) (pst_of <$> procs)) (s1 ++ (r, AStep) :: s2) in
  w_procs w1 !! r = Some RStart -> w_procs w2 !! r = Some (RDone res) ->
  exists h', res = Some (serial log0 h') /\ committed h' /\ h' `prefix_of` w_hist w2 /\
             (forall h0, h0 `prefix_of` w_hist w1 -> committed h0 -> h0 `prefix_of` h').
Proof.
  intros procs log0 s1 s2 r res H1 H2.
  apply (reader_prefix_state (File log0 TClean) (pst_of <$> procs) s1 s2 r res (init_ok_procs procs) eq_refl H1 H2).
Qed.
Print Assumptions C13_reader_prefix_state.

Theorem C13_reader_never_fails : forall (procs : list proc) (log0 : list event) (s : sched) (r : pid) res,
  crash_free s ->
  let w := run_schedule (init_world (File log0 TClean) (pst_of <$> procs)) s in
  w_procs w !! r = Some (RDone res) ->
  exists h', res = Some (serial log0 h') /\ committed h' /\ h' `prefix_of` w_hist w.
Proof.
  intros procs log0 s r res H.
  apply (reader_result (File log0 TClean) (pst_of <$> procs) s r res (init_ok_procs procs) eq_refl H).
Qed.
Print Assumptions C13_reader_never_fails.

(** Even with writers being killed between system calls a reader that has opened the log cannot fail;
    only a write torn between its newline probe and its scan can (outside the statement, recorded). *)
Theorem C13_fails_only_after_torn_write : forall (w1 : world event) (r : pid) i (s2 : sched) res,
  w_procs w1 !! r = Some (ROpened i) -> tear_free s2 ->
  w_procs (run_schedule w1 ((r, AStep) :: s2)) !! r = Some (RDone res) -> res <> None.
Proof. exact (@reader_may_fail_only_after_torn_crash event). Qed.
Print Assumptions C13_fails_only_after_torn_write.
