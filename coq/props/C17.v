(** C17 — Titles and bodies come back exactly as they went in. *)
From Ergo Require Import Base Text Utf8 Codec Events Replay Ready Compact Path Cmd Input Facts.
Local Open Scope string_scope.
Local Open Scope list_scope.

(** The log line codec (Go's encoding/json string encoder/decoder, modelled byte for byte and
    validated differentially on every run): every valid UTF-8 text round-trips, for both escapeHTML
    settings (events are written with it on, replies with it off). *)
Theorem C17_codec_roundtrip : forall html s, valid_utf8 s = true ->
  json_decode_string (json_encode_string html s) = Some s.
Proof. exact decode_encode. Qed.
Print Assumptions C17_codec_roundtrip.

Theorem C17_roundtrip_needs_valid : forall html s,
  json_decode_string (json_encode_string html s) = Some s <-> valid_utf8 s = true.
Proof. exact decode_encode_iff. Qed.
Print Assumptions C17_roundtrip_needs_valid.

(** An encoded text never contains a raw newline / carriage return: it cannot break the JSONL framing. *)
Theorem C17_no_raw_newline : forall html s, contains_nl_cr (json_encode_string html s) = false.
Proof. exact encode_no_nl_cr. Qed.
Print Assumptions C17_no_raw_newline.

(** The command layer stores text verbatim: JSON create keeps the title as given; flags trim it;
    [set] trims the title and keeps the body; nothing else touches text. *)
Theorem C17_json_create_verbatim : forall is_epic r agent c,
  normalize (QNew is_epic MJson r agent) = Some c ->
  exists epic u, c = CNew is_epic (opt_default "" (w_title r)) (opt_default "" (w_body r)) epic u agent.
Proof.
  intros is_epic r agent c. cbn [normalize]. destruct (json_valid true is_epic r); [|discriminate]. cbn [negb].
  destruct is_epic; intros [= <-]; eauto.
Qed.
Print Assumptions C17_json_create_verbatim.

Theorem C17_set_title_trimmed_body_verbatim : forall i t u agent now evs,
  build_set_events i t u agent now = Some evs ->
  (forall ti, u_title u = Some ti -> In (ETitle i (trim_space ti) (Some now)) evs) /\
  (forall b, u_body u = Some b -> In (EBody i b (Some now)) evs).
Proof.
  intros i t u agent now evs. unfold build_set_events.
  destruct (match u_claim u with Some c => Some (Some c) | None => _ end) as [claim|]; [|discriminate].
  destruct (u_title u) as [ti|] eqn:Hti.
  - destruct (String.eqb (trim_space ti) ""); [discriminate|].
    destruct (match u_epic u with Some e0 => _ | None => Some [] end); [|discriminate].
    intros H. split.
    + intros ti' [= <-]. repeat match type of H with
        | context [if ?c then _ else _] => destruct c
        | context [match ?x with _ => _ end] => destruct x
        end; try discriminate; injection H as <-; cbn; auto.
    + intros b Hb. rewrite Hb in H. repeat match type of H with
        | context [if ?c then _ else _] => destruct c
        | context [match ?x with _ => _ end] => destruct x
        end; try discriminate; injection H as <-; cbn; auto 10.
  - destruct (match u_epic u with Some e0 => _ | None => Some [] end); [|discriminate].
    intros H. split; [intros ti [=]|].
    intros b Hb. rewrite Hb in H. repeat match type of H with
        | context [if ?c then _ else _] => destruct c
        | context [match ?x with _ => _ end] => destruct x
        end; try discriminate; injection H as <-; cbn; auto 10.
Qed.
Print Assumptions C17_set_title_trimmed_body_verbatim.

(** Replay hands a non-blank title / its body back untouched (the legacy migration only fires on blank titles). *)
Theorem C17_replay_keeps_text : forall t, is_blank (t_title t) = false -> migrate t = t.
Proof. exact migrate_nonblank. Qed.
Print Assumptions C17_replay_keeps_text.

Theorem C17_trim_idempotent : forall s, trim_space (trim_space s) = trim_space s.
Proof. exact TextFacts.trim_space_idem. Qed.
Print Assumptions C17_trim_idempotent.
