(** C04 — Multi-event commands are all-or-nothing across process death. *)
From Ergo Require Import Base Text Events Replay Ready Compact Cmd Input Graphs Invariants Reach Sched Serial Concurrent.
Local Open Scope string_scope.
Local Open Scope list_scope.

(** Every command is one section with ONE write(2) of all its lines, or one rename.  For every
    schedule with kills at any point BETWEEN system calls: every inode keeps a clean tail and the
    log is the serial effect of the committed sections only — a crashed section contributed
    nothing at all, a committed one everything. *)
Theorem C04_kill_between_syscalls_atomic : forall (procs : list proc) (log0 : list event) (s : sched),
  tear_free s ->
  let w := run_schedule (init_world (File log0 TClean) (pst_of <$> procs)) s in
  all_clean w /\
  cur_file w = File (serial log0 (w_hist w)) TClean /\
  (w_lock w = None -> Forall not_decided (w_hist w)) /\
  (forall h1 e h2, w_hist w = h1 ++ e :: h2 ->
     (h2 <> [] \/ w_lock w = None -> not_decided e) /\
     exists t, (pst_of <$> procs) !! en_pid e = Some (PStart t) /\ en_dec e = t (serial log0 h1)).
Proof. intros procs log0 s H. apply (kill_between_syscalls_atomic (File log0 TClean) (pst_of <$> procs) s (init_ok_procs procs) eq_refl H). Qed.
Print Assumptions C04_kill_between_syscalls_atomic.

(** Hence after such kills the store is a store some sequence of WHOLE commands produces, and the
    reachable-store invariants hold: no task claimed-but-todo, none doing-but-unclaimed. *)
Theorem C04_no_half_applied_command : forall e log q,
  Reach log -> exists g, replay_raw (exec_req e log q).1 = Ok g /\ Invariants.Inv g /\ acyclic g.
Proof. intros e log q HR. apply (reach_good _ (reach_step log e q HR)). Qed.
Print Assumptions C04_no_half_applied_command.

(** claim = [claim; state] in ONE decision (so one write), prune = all tombstones in one. *)
Example C04_claim_is_one_decision :
  let log := [ENew false "AAAAAA" "u" "" "todo" "t" "" (Some 1%Z)] in
  let e := Env [] [] 5%Z 0%Z [] FMissing "" "" "" in
  (run_txn e (CClaimOldest "" "ann") log).1 = Cmd.Append [EClaim "AAAAAA" "ann" (Some 5%Z); EState "AAAAAA" "doing" (Some 5%Z)].
Proof. vm_compute. reflexivity. Qed.
