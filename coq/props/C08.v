(** C08 — ready/blocked mean what the manual says; claim takes the oldest ready task. *)
From Ergo Require Import Base Text Events Replay Ready Compact Cmd Graphs TextFacts Invariants ReadySpec View.
Local Open Scope string_scope.
Local Open Scope list_scope.

(** For EVERY graph (any states, claims, task deps, epic deps, membership, pruned ids):
    reported ready <-> todo, unclaimed, every existing dependency done/canceled (pruned ones are
    absent, hence ignored), every existing epic its epic depends on has only done/canceled children. *)
Theorem C08_ready_spec : forall g t, is_ready g t = true <-> Ready g t.
Proof. exact is_ready_spec. Qed.
Print Assumptions C08_ready_spec.

Theorem C08_blocked_spec : forall g t,
  is_blocked g t = (String.eqb (t_state t) "blocked"
                    || (String.eqb (t_state t) "todo" && String.eqb (t_claimed t) "" && negb (is_ready g t)))%bool.
Proof. exact is_blocked_spec. Qed.
Print Assumptions C08_blocked_spec.

(** [list --ready] / the claim candidates are exactly the ready plain tasks in scope. *)
Theorem C08_ready_list_exact : forall g epic t,
  t ∈ ready_tasks g epic <->
  (exists k, g_tasks g !! k = Some t) /\ in_scope epic t /\ t_is_epic t = false /\ Ready g t.
Proof. exact ready_tasks_spec. Qed.
Print Assumptions C08_ready_list_exact.

(** [claim]: hands out a ready task with the earliest creation time (ties by id) within --epic,
    never an epic; says "nothing ready" exactly when the ready set in scope is empty. *)
Theorem C08_claim_spec : forall e epic agent log g,
  agent <> "" -> replay log = Ok g ->
  match run_txn e (CClaimOldest epic agent) log with
  | (Append [], RNoReady) => forall t, ~ ((exists k, g_tasks g !! k = Some t) /\ in_scope epic t /\ t_is_epic t = false /\ Ready g t)
  | (Append evs, RClaimed i) =>
      exists t, t_id t = i /\ (exists k, g_tasks g !! k = Some t) /\ in_scope epic t /\ t_is_epic t = false /\ Ready g t
                /\ (forall t', (exists k, g_tasks g !! k = Some t') -> in_scope epic t' -> t_is_epic t' = false -> Ready g t' -> claim_le t t')
                /\ evs = [EClaim i agent (Some (e_now e)); EState i "doing" (Some (e_now e))]
  | _ => False
  end.
Proof. exact claim_oldest_spec. Qed.
Print Assumptions C08_claim_spec.

Example C08_nonvacuous :
  let log := [ENew true "E1" "" "" "todo" "e1" "" (Some 1%Z); ENew true "E2" "" "" "todo" "e2" "" (Some 2%Z);
              ENew false "A" "" "E1" "todo" "a" "" (Some 3%Z); ENew false "B" "" "E2" "todo" "b" "" (Some 4%Z);
              ELink "E2" "E1" depends] in
  match replay log with
  | Ok g => (t_id <$> ready_tasks g "") = ["A"] /\
            match g_tasks g !! "B" with Some b => is_blocked g b = true | None => False end
  | Err _ => False end.
Proof. vm_compute. split; reflexivity. Qed.
