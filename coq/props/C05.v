(** C05 — compact changes nothing a reader can see. *)
From Ergo Require Import Base Text Events Replay Ready Compact Cmd Input View TextFacts CompactCore CompactProof Reach ReachStamps AfterCompact.
Local Open Scope string_scope.
Local Open Scope list_scope.

(** For EVERY log (CLI-produced, legacy untitled, hand-merged, tail dropped) whose stamps are usable
    ([stamps_ok]: parsed stamps of state/title/body/epic updates are non-zero and non-decreasing per
    item, a non-empty claim is not stamped with the zero time, no epic is re-parented): replaying
    the compacted log gives every live item the same observable data — id, uuid, kind, state,
    claimant and claim time, title, body, epic, deps and rdeps, results in order with their
    evidence, created/updated stamps, ready/blocked flags — and the same claim order; pruned ids
    stay absent (no tombstones, same live set); the prune policy agrees; and the result is again
    well-formed, so the statement iterates. *)
Theorem C05_compact_preserves : forall es g,
  stamps_ok es -> replay_raw es = Ok g ->
  exists g', replay_raw (compact_events (finalize g)) = Ok g'
          /\ obs (finalize g') = obs (finalize g)
          /\ g_tombs g' = ∅
          /\ dom (g_tasks g') = dom (g_tasks g)
          /\ g_deps g' = g_deps g
          /\ prune_targets (finalize g') = prune_targets (finalize g)
          /\ (forall i, task_core <$> (g_tasks g' !! i) = task_core <$> (g_tasks g !! i))
          /\ graph_wf g'.
Proof. exact compact_preserves_log. Qed.
Print Assumptions C05_compact_preserves.

(** For every history ergo can produce — any commands, any input modes, any id stream and file system
    — when the wall clock never reads the zero time and never runs backwards between commands
    ([ReachM]: each command's clock reading is not before any stamp already in the log). *)
Theorem C05_every_cli_history : forall log g,
  ReachM log -> replay_raw log = Ok g ->
  exists g', replay_raw (compact_events (finalize g)) = Ok g' /\ obs (finalize g') = obs (finalize g) /\ g_tombs g' = ∅
          /\ dom (g_tasks g') = dom (g_tasks g) /\ g_deps g' = g_deps g
          /\ prune_targets (finalize g') = prune_targets (finalize g) /\ graph_wf g'.
Proof. exact reachm_compact_preserves. Qed.
Print Assumptions C05_every_cli_history.

(** Without ANY clock hypothesis everything but [updated_at] is preserved. *)
Theorem C05_all_but_updated_at : forall es g,
  stamps_ok0 es -> replay_raw es = Ok g ->
  exists g', replay_raw (compact_events (finalize g)) = Ok g'
          /\ obs_no_updated (finalize g') = obs_no_updated (finalize g)
          /\ g_tombs g' = ∅
          /\ dom (g_tasks g') = dom (g_tasks g)
          /\ g_deps g' = g_deps g
          /\ prune_targets (finalize g') = prune_targets (finalize g)
          /\ (forall i, task_core <$> (g_tasks g' !! i) = task_core <$> (g_tasks g !! i))
          /\ graph_wf0 g'.
Proof. exact compact_preserves_all_but_updated_log. Qed.
Print Assumptions C05_all_but_updated_at.

(** Compacting an already compacted log changes nothing. *)
Theorem C05_idempotent : forall es g,
  stamps_ok es -> replay_raw es = Ok g ->
  exists g1 g2,
    replay_raw (compact_events (finalize g)) = Ok g1
    /\ replay_raw (compact_events (finalize g1)) = Ok g2
    /\ obs (finalize g2) = obs (finalize g1)
    /\ obs (finalize g1) = obs (finalize g)
    /\ g_deps g2 = g_deps g /\ dom (g_tasks g2) = dom (g_tasks g) /\ graph_wf g2.
Proof. exact compact_idempotent. Qed.
Print Assumptions C05_idempotent.

(** The literal reading of the stamp hypothesis is sufficient. *)
Theorem C05_simple_stamps_suffice : forall es, stamps_simple es -> stamps_ok es.
Proof. exact stamps_simple_ok. Qed.
Print Assumptions C05_simple_stamps_suffice.

(** The clock hypothesis is necessary for [updated_at]: a wall clock that stepped backwards between
    two updates of the same kind makes compaction move [updated_at] (code keeps the LAST stamp per
    field, replay takes the MAX).  Recorded as a limit of the property, not a defect of the tree. *)
Theorem C05_updated_at_needs_monotone_refuted :
  exists es g, stamps_ok0 es /\ replay_raw es = Ok g /\
    exists g', replay_raw (compact_events (finalize g)) = Ok g' /\ obs (finalize g') <> obs (finalize g).
Proof. exact compact_updated_at_needs_monotone_refuted. Qed.
Print Assumptions C05_updated_at_needs_monotone_refuted.

(** * "Commands issued after compaction behave exactly as they would have without it."
    First command: same reply and same decision (for [plan], whose decision is a whole replacement log, the
    same appended events).  Any sequence of later commands (each with its own environment; later compactions
    and prunes included): the same replies and, after every step, the same observable store.
    Hypotheses: [ids_hyp]/[steps_ok] - candidate ids offered to new/plan are not ids pruned before the
    compaction (necessary: the recorded finding on post-compact id reuse, [after_compact_needs_fresh_ids_refuted]);
    [ReachC] - items carry a non-blank title, as everything the CLI creates does (necessary for legacy untitled
    items: [after_compact_needs_titles_refuted], recorded as known finding F5). *)

Theorem C05_first_command_after_compact : forall log g e c,
  ReachM log -> replay_raw log = Ok g -> ids_hyp (g_tombs g) e c ->
  let log' := compact_events (finalize g) in
  (run_txn e c log').2 = (run_txn e c log).2 /\
  match c with
  | CPlan _ => dec_rel log log' (run_txn e c log).1 (run_txn e c log').1
  | _ => (run_txn e c log').1 = (run_txn e c log).1
  end.
Proof. exact after_compact_same_decision. Qed.
Print Assumptions C05_first_command_after_compact.

Theorem C05_commands_after_compact : forall log g ss,
  ReachC log -> replay_raw log = Ok g -> steps_ok (g_tombs g) log ss ->
  trace (compact_log log) ss = trace log ss
  /\ obs_of (run_cmds (compact_log log) ss) = obs_of (run_cmds log ss).
Proof. exact C05_after_compact. Qed.
Print Assumptions C05_commands_after_compact.

Theorem C05_compact_twice_same_bytes : forall g,
  graph_wf g -> compact_events (finalize (compact_graph g)) = compact_events (finalize g).
Proof. exact compact_events_idem. Qed.
Print Assumptions C05_compact_twice_same_bytes.

Theorem C05_after_compact_needs_titles_refuted :
  exists log g ss,
    ReachM log /\ replay_raw log = Ok g /\ steps_ok (g_tombs g) log ss /\
    obs_of (run_cmds (compact_log log) ss) <> obs_of (run_cmds log ss).
Proof. exact after_compact_needs_titles_refuted. Qed.
Print Assumptions C05_after_compact_needs_titles_refuted.
