(** C16 — --json output is a single value and tells the truth. *)
From Ergo Require Import Base Text Events Replay Ready Compact Cmd Input Graphs Invariants Reach Replies.
Local Open Scope string_scope.
Local Open Scope list_scope.

(** In the model a command's reply is ONE value of type [reply] and it exists only on success;
    that the CLI prints exactly one JSON value for it (and at most one error object on failure) is
    checked on the real binary by a strict stream decoder on every run (differential part). *)
Theorem C16_reply_only_on_success : forall e c log r, run_txn e c log = (Abort, r) -> r = RNone.
Proof. exact reply_only_on_success. Qed.
Print Assumptions C16_reply_only_on_success.

(** new: the reported id is fresh and visible, the reported state / kind / title / body / epic are
    what an immediately following read shows. *)
Theorem C16_new_truthful : forall e k title body epic u agent log graw evs i st,
  Inv graw -> replay_raw log = Ok graw ->
  run_txn e (CNew k title body epic u agent) log = (Append evs, RCreated i st) ->
  g_tasks graw !! i = None /\ i ∉ g_tombs graw /\
  exists g', replay_raw (log ++ evs) = Ok g' /\
    exists t, g_tasks g' !! i = Some t /\ t_id t = i /\ t_state t = st /\ t_is_epic t = k /\
              t_title t = title /\ t_body t = body /\ t_epic t = (if k then "" else epic).
Proof. exact new_reply_truthful_run. Qed.
Print Assumptions C16_new_truthful.

(** claim (both forms): the reported task is doing and claimed by exactly the agent that was told it won. *)
Theorem C16_claim_truthful : forall e c log graw evs i,
  Inv graw -> replay_raw log = Ok graw -> run_txn e c log = (Append evs, RClaimed i) ->
  exists agent, agent <> "" /\ ((exists epic, c = CClaimOldest epic agent) \/ c = CClaimId i agent) /\
    exists g', replay_raw (log ++ evs) = Ok g' /\ claimed_by g' i agent.
Proof. exact claim_reply_truthful. Qed.
Print Assumptions C16_claim_truthful.

(** prune: the reported ids are exactly the ones that disappear (dry run: nothing is written). *)
Theorem C16_prune_truthful : forall e yes agent log graw evs ids,
  Inv graw -> acyclic graw -> replay_raw log = Ok graw ->
  run_txn e (CPrune yes agent) log = (Append evs, RPruned ids) ->
  ids = prune_targets (finalize graw) /\
  (if yes then
     exists g', replay_raw (log ++ evs) = Ok g' /\
       (forall j, j ∈ ids -> is_Some (g_tasks graw !! j) /\ g_tasks g' !! j = None /\ j ∈ g_tombs g') /\
       (forall j, j ∉ ids -> g_tasks g' !! j = g_tasks graw !! j /\ (j ∈ g_tombs g' <-> j ∈ g_tombs graw)) /\
       (forall a b, (a, b) ∈ g_deps g' <-> (a, b) ∈ g_deps graw /\ a ∉ ids /\ b ∉ ids)
   else evs = []).
Proof. exact prune_reply_truthful. Qed.
Print Assumptions C16_prune_truthful.

(** set: the target still exists with its id and kind, nothing else changed (the CLI then reads
    state / claimant for its reply from the store itself). *)
Theorem C16_set_truthful : forall e i u agent log graw evs r,
  Inv graw -> replay_raw log = Ok graw -> run_txn e (CSet i u agent) log = (Append evs, r) ->
  r = RNone /\ exists t0 g', g_tasks graw !! i = Some t0 /\ replay_raw (log ++ evs) = Ok g' /\
    (exists t, g_tasks g' !! i = Some t /\ t_id t = i /\ t_is_epic t = t_is_epic t0) /\
    (forall j, j <> i -> g_tasks g' !! j = g_tasks graw !! j) /\
    g_deps g' = g_deps graw /\ g_tombs g' = g_tombs graw.
Proof. exact set_reply_truthful. Qed.
Print Assumptions C16_set_truthful.
