(** C07 — The dependency graph stays acyclic, same-kind and between live items. *)
From Ergo Require Import Base Text Events Replay Ready Compact Path Cmd Input Graphs Invariants Facts PrunePlan Reach.
Local Open Scope string_scope.
Local Open Scope list_scope.

(** After any sequence of commands: no cycle, no self edge, only task-task / epic-epic edges, only
    between items that exist and are not pruned. *)
Theorem C07_graph_invariant : forall log, Reach log ->
  exists g, replay log = Ok g /\ acyclic g /\
    forall a b, (a, b) ∈ g_deps g ->
      a <> b /\ a ∉ g_tombs g /\ b ∉ g_tombs g /\
      exists ta tb, g_tasks g !! a = Some ta /\ g_tasks g !! b = Some tb /\ t_is_epic ta = t_is_epic tb.
Proof.
  intros log HR. destruct (reach_good log HR) as (g & Hr & HI & HA).
  exists (finalize g). split; [apply replay_of_raw; exact Hr|]. split; [exact HA|].
  intros a b Hab. cbn in Hab. destruct (inv_deps g HI a b Hab) as (Hne & ta & tb & Ha & Hb & Hk).
  split; [exact Hne|].
  split; [intros Hin; apply (inv_tombs g HI) in Hin; congruence|].
  split; [intros Hin; apply (inv_tombs g HI) in Hin; congruence|].
  exists (migrate ta), (migrate tb). rewrite !finalize_lookup, Ha, Hb. repeat split.
  destruct (migrate_fields ta) as (_ & -> & _). destruct (migrate_fields tb) as (_ & -> & _). exact Hk.
Qed.
Print Assumptions C07_graph_invariant.

(** The cycle test is exact: an edge from->to is refused iff it is a self edge or [to] already
    reaches [from]; accepting it keeps the graph acyclic, refusing it was necessary. *)
Theorem C07_cycle_check_exact : forall g from to,
  (has_cycle g from to = true <-> from = to \/ rtc (edge g) to from) /\
  (acyclic g -> has_cycle g from to = false -> acyclic (add_edge g from to)) /\
  (has_cycle g from to = true -> ~ acyclic (add_edge g from to)).
Proof.
  intros g from to. split; [apply has_cycle_spec|]. split; [apply add_edge_acyclic|apply add_edge_cyclic].
Qed.
Print Assumptions C07_cycle_check_exact.

(** [sequence A B C ...] validates each edge against the graph extended by the earlier ones. *)
Theorem C07_sequence_all_checked : forall g edges evs,
  seq_txn true g edges = Some evs ->
  evs = link_ev <$> edges /\ replay_from g evs = Ok (add_edges g edges) /\ (acyclic g -> acyclic (add_edges g edges)).
Proof. exact seq_txn_link_replay. Qed.
Print Assumptions C07_sequence_all_checked.

(** [sequence rm A B] removes exactly the edge B->A and nothing else. *)
Theorem C07_unlink_exact : forall g a b evs,
  seq_txn false g [(a, b)] = Some evs ->
  evs = [EUnlink a b depends] /\
  exists g', replay_from g evs = Ok g' /\ g_deps g' = g_deps g ∖ {[ (a, b) ]} /\ g_tasks g' = g_tasks g /\ g_tombs g' = g_tombs g.
Proof. exact seq_txn_unlink_single. Qed.
Print Assumptions C07_unlink_exact.

(** deps and rdeps shown for two items always mirror each other. *)
Theorem C07_mirror : forall g a b, b ∈ deps_of g a <-> a ∈ rdeps_of g b.
Proof. exact deps_rdeps_mirror. Qed.
Print Assumptions C07_mirror.

(** plan: the whole batch of [after] edges is acyclic and between the new tasks only. *)
Theorem C07_plan_edges : forall g edges evs,
  acyclic g -> plan_links g edges = Some evs -> acyclic (add_edges g edges).
Proof. intros g edges evs HA H. eapply plan_links_acyclic; eauto. Qed.
Print Assumptions C07_plan_edges.

Example C07_nonvacuous :
  let g := Graph (<["a" := new_task false "a" "" "" "todo" "A" "" 1%Z]> (<["b" := new_task false "b" "" "" "todo" "B" "" 2%Z]> ∅)) {[ ("a", "b") ]} ∅ in
  seq_txn true g [("b", "a")] = None /\ is_Some (seq_txn false g [("a", "b")]).
Proof. vm_compute. split; [reflexivity|eexists; reflexivity]. Qed.
