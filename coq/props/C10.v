(** C10 — A command that fails changes nothing. *)
From Ergo Require Import Base Text Events Replay Ready Compact Path Cmd Input.
Local Open Scope string_scope.
Local Open Scope list_scope.

(** Every command is one transaction whose decision is taken before anything is written:
    exit status non-zero <-> decision Abort <-> the log is byte-for-byte what it was. *)
Theorem C10_fail_no_effect : forall e log q,
  (exec_req e log q).2.1 = false -> (exec_req e log q).1 = log.
Proof.
  intros e log q. unfold exec_req. destruct (normalize q) as [c|]; [|done].
  unfold exec. destruct (run_txn e c log) as [d r]. destruct d; cbn; try discriminate. done.
Qed.
Print Assumptions C10_fail_no_effect.

(** A failed [sequence A B C] adds none of its edges: the events of a sequence exist only if EVERY edge passed. *)
Theorem C10_sequence_all_or_nothing : forall link g edges,
  seq_txn link g edges = None \/ exists evs, seq_txn link g edges = Some evs /\ length evs = length edges.
Proof.
  intros link g edges. revert g. induction edges as [|[a b] es IH]; intros g; cbn [seq_txn].
  - right. eexists; split; reflexivity.
  - destruct (link_ok link g a b); [|left; reflexivity].
    match goal with |- context [seq_txn link ?g' es] => destruct (IH g') as [->|(evs & -> & Hl)] end.
    + left. reflexivity.
    + right. eexists. split; [reflexivity|]. cbn. rewrite Hl. reflexivity.
Qed.
Print Assumptions C10_sequence_all_or_nothing.

(** Success always means the log is the old log plus the decided events (or the rewritten log). *)
Theorem C10_success_shape : forall e log c,
  (exec e log c).2.1 = true ->
  (exists es, (exec e log c).1 = log ++ es) \/ (exists es, run_txn e c log = (Replace es, (exec e log c).2.2)).
Proof.
  intros e log c. unfold exec. destruct (run_txn e c log) as [d r]. destruct d; cbn; try discriminate; eauto.
Qed.
Print Assumptions C10_success_shape.

Example C10_nonvacuous :
  let e := Env ["AAAAAA"] ["u"] 5%Z 0%Z [] FMissing "" "" "" in
  (exec_req e [] (QSet "ZZZZZZ" MJson (Raw None None None (Some "done") None None None) "")).2.1 = false.
Proof. vm_compute. reflexivity. Qed.
