(** C02 — Concurrent commands are serializable; acknowledged writes are never lost. *)
From Ergo Require Import Base Text Events Replay Ready Compact Cmd Input Sched Serial Concurrent.
Local Open Scope string_scope.
Local Open Scope list_scope.

(** For every multiset of commands (new, set, claim, claim <id>, sequence, sequence rm, plan,
    prune --yes, compact — each is ONE lock section) run by concurrent processes against every
    store and every interleaving of their steps: when the lock is free the log is exactly what
    running the sections of the history ONE AT A TIME gives, each section being the sequential
    execution of its command, in lock-acquisition order. *)
Theorem C02_concurrent_is_serial : forall (procs : list proc) (log0 : list event) (s : sched),
  crash_free s ->
  let w := run_schedule (init_world (File log0 TClean) (pst_of <$> procs)) s in
  w_lock w = None ->
  cur_file w = File (run_serially procs (en_pid <$> w_hist w) log0) TClean.
Proof. exact concurrent_is_serial. Qed.
Print Assumptions C02_concurrent_is_serial.

(** Exit status vs that order: success = in effect exactly once; failure = an aborted section that
    contributed nothing; lock busy = no section at all. *)
Theorem C02_outcomes : forall (procs : list proc) (log0 : list event) (s : sched) (p : pid) (o : outcome),
  let w := run_schedule (init_world (File log0 TClean) (pst_of <$> procs)) s in
  w_procs w !! p = Some (PDone o) ->
  match o with
  | OOk => exists d, entries_of p (w_hist w) = [Entry p d SCommitted] /\ d <> Sched.Abort
  | OFail => entries_of p (w_hist w) = [Entry p Sched.Abort SCommitted]
  | OBusy => entries_of p (w_hist w) = []
  end.
Proof. exact outcome_in_serial_order. Qed.
Print Assumptions C02_outcomes.

(** The serial order is consistent with real time: a command that had finished before another
    started precedes it. *)
Theorem C02_real_time_order : forall (procs : list proc) (log0 : list event) (s1 s2 : sched) (p q : pid) sp t,
  let w1 := run_schedule (init_world (File log0 TClean) (pst_of <$> procs)) s1 in
  let w2 := run_schedule (init_world (File log0 TClean) (pst_of <$> procs)) (s1 ++ s2) in
  w_procs w1 !! p = Some sp -> terminal sp = true -> w_procs w1 !! q = Some (PStart t) ->
  forall i j ep eq0, w_hist w2 !! i = Some ep -> en_pid ep = p -> w_hist w2 !! j = Some eq0 -> en_pid eq0 = q -> i < j.
Proof. intros procs log0 s1 s2 p q sp t. apply (real_time_order (File log0 TClean) (pst_of <$> procs) s1 s2 p q sp t (init_ok_procs procs)). Qed.
Print Assumptions C02_real_time_order.

(** The log stays a sequence of whole lines; writers never interleave bytes. *)
Theorem C02_whole_lines : forall (procs : list proc) (log0 : list event) (s : sched),
  crash_free s ->
  Forall (fun f => f_tail f = TClean) (w_inodes (run_schedule (init_world (File log0 TClean) (pst_of <$> procs)) s)).
Proof. intros procs log0 s H. apply (whole_lines (File log0 TClean) (pst_of <$> procs) s (init_ok_procs procs) eq_refl H). Qed.
Print Assumptions C02_whole_lines.

(** A command never blocks waiting for the lock: every non-terminal process can always step. *)
Theorem C02_never_waits : forall (w : world event) p sp,
  w_procs w !! p = Some sp -> terminal sp = false -> exists w', step_fn w p AStep = Some w'.
Proof. exact (@no_waiting event). Qed.
Print Assumptions C02_never_waits.

(** Acknowledged appends are never lost (until a compaction rewrites them into their effect). *)
Theorem C02_acknowledged_not_lost : forall (procs : list proc) (log0 : list event) (s : sched) h1 e es h2,
  let w := run_schedule (init_world (File log0 TClean) (pst_of <$> procs)) s in
  w_hist w = h1 ++ e :: h2 -> en_status e = SCommitted -> en_dec e = Sched.Append es -> Forall no_replace h2 ->
  exists a b, read_events (cur_file w) = a ++ es ++ b.
Proof. intros procs log0 s h1 e es h2. apply (committed_never_lost (File log0 TClean) (pst_of <$> procs) s h1 e es h2 (init_ok_procs procs)). Qed.
Print Assumptions C02_acknowledged_not_lost.
