(** C09 — prune removes exactly finished work; pruned ids are gone for good. *)
From Ergo Require Import Base Text Events Replay Ready Compact Path Cmd Input Graphs Invariants Facts PrunePlan Reach.
Local Open Scope string_scope.
Local Open Scope list_scope.

(** The policy: exactly the done/canceled tasks and the epics left without a remaining child. *)
Theorem C09_policy : forall g i, Inv g ->
  (i ∈ prune_targets g <->
   exists t, g_tasks g !! i = Some t /\
     (if t_is_epic t
      then forall k c, g_tasks g !! k = Some c -> t_is_epic c = false -> t_epic c = i -> t_epic c <> "" -> done_or_canceled (t_state c) = true
      else done_or_canceled (t_state t) = true)).
Proof. exact prune_targets_spec. Qed.
Print Assumptions C09_policy.

Theorem C09_never_active : forall g i t, Inv g -> i ∈ prune_targets g -> g_tasks g !! i = Some t -> t_is_epic t = false ->
  t_state t = "done" \/ t_state t = "canceled".
Proof. exact prune_never_active. Qed.
Print Assumptions C09_never_active.

(** The dry run reports exactly the set [--yes] removes, and writes nothing. *)
Theorem C09_dry_equals_apply : forall e agent log,
  (exists ids, run_txn e (CPrune false agent) log = (Append [], RPruned ids) /\
               run_txn e (CPrune true agent) log = (Append ((fun i => ETomb i agent (Some (e_now e))) <$> ids), RPruned ids))
  \/ (run_txn e (CPrune false agent) log = (Abort, RNone) /\ run_txn e (CPrune true agent) log = (Abort, RNone)).
Proof.
  intros e agent log. cbn [run_txn]. destruct (replay log) as [g|]; [left|right; done].
  eexists; split; reflexivity.
Qed.
Print Assumptions C09_dry_equals_apply.

(** What [prune --yes] does to the store, exactly. *)
Theorem C09_prune_effect : forall graw agent now,
  Inv graw -> acyclic graw ->
  let ids := prune_targets (finalize graw) in
  exists g', replay_from graw ((fun i => ETomb i agent (Some now)) <$> ids) = Ok g'
    /\ Inv g' /\ acyclic g'
    /\ (forall j, g_tasks g' !! j = if bool_decide (j ∈ ids) then None else g_tasks graw !! j)
    /\ (forall a b, (a, b) ∈ g_deps g' <-> (a, b) ∈ g_deps graw /\ a ∉ ids /\ b ∉ ids)
    /\ (forall j, j ∈ g_tombs g' <-> j ∈ ids \/ j ∈ g_tombs graw).
Proof. exact prune_inv. Qed.
Print Assumptions C09_prune_effect.

(** Gone for good: ANY log containing a tombstone of [p] — wherever its create / update / link events
    sit, before or after, hand-merged or not — replays to a store without [p] and without any edge
    mentioning [p]. *)
Theorem C09_gone : forall es1 ag ts es2 g p,
  replay (es1 ++ ETomb p ag (Some ts) :: es2) = Ok g ->
  g_tasks g !! p = None /\ (forall a b, (a, b) ∈ g_deps g -> a <> p /\ b <> p) /\ p ∈ g_tombs g.
Proof.
  intros es1 ag ts es2 g p. unfold replay.
  destruct (replay_raw (es1 ++ ETomb p ag (Some ts) :: es2)) as [g0|] eqn:H; [|discriminate].
  intros [= <-]. destruct (tombstoned_gone _ _ _ _ _ _ H) as [Hg Hin].
  destruct (gone_finalize p g0 Hg) as [H1 H2]. split; [exact H1|]. split; [exact H2|exact Hin].
Qed.
Print Assumptions C09_gone.

(** A pruned id cannot be updated, claimed, given a result or sequenced. *)
Theorem C09_refused : forall e p u agent g,
  p ∈ g_tombs g ->
  set_txn e p u agent g = None /\ (forall link x, link_ok link g p x = false /\ link_ok link g x p = false).
Proof.
  intros e p u agent g Hin. apply tombed_true in Hin. split.
  - destruct (set_txn e p u agent g) eqn:H; [|reflexivity]. apply set_txn_target in H as [Ht _]. congruence.
  - intros link x. unfold link_ok. rewrite Hin. rewrite orb_true_r. split; reflexivity.
Qed.
Print Assumptions C09_refused.

(** New ids are never live or pruned ids. *)
Theorem C09_never_reissued : forall e k title body epic u agent g evs i st,
  new_txn e k title body epic u agent g = Some (evs, RCreated i st) ->
  g_tasks g !! i = None /\ i ∉ g_tombs g.
Proof. exact new_txn_fresh. Qed.
Print Assumptions C09_never_reissued.

(** KNOWN FINDING (documented "post-compact behaviour"): compaction forgets tombstones, so after
    [compact] a candidate id equal to a pruned id is accepted again. *)
Definition c09_env (i : string) (now : Z) : env := Env [i] ["u"] now 0%Z [] FMissing "" "" "".
Theorem C09_reissue_after_compact_refuted :
  exists log e,
    let l1 := (exec e log (CPrune true "")).1 in
    let l2 := (exec e l1 CCompact).1 in
    (exec e l2 (CNew false "again" "" "" upd_none "")).2 = (true, RCreated "AAAAAA" "todo")
    /\ match replay l1 with Ok g => bool_decide ("AAAAAA" ∈ g_tombs g) | _ => false end = true.
Proof.
  exists [ENew false "AAAAAA" "u0" "" "todo" "t" "" (Some 1%Z); EState "AAAAAA" "done" (Some 2%Z)], (c09_env "AAAAAA" 5%Z).
  vm_compute. split; reflexivity.
Qed.
