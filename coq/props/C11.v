(** C11 — plan creates the whole described graph or nothing. *)
From Ergo Require Import Base Text Events Replay Ready Compact Path Cmd Input Graphs Invariants Facts PrunePlan Reach.
Local Open Scope string_scope.
Local Open Scope list_scope.

Theorem C11_plan_exact : forall e p log graw es r,
  Inv graw -> acyclic graw ->
  plan_txn e p log (finalize graw) = Some (es, r) ->
  exists eid tids edges new g',
    r = RPlanned eid tids edges /\ es = log ++ new /\
    replay_from graw new = Ok g' /\ Inv g' /\ acyclic g' /\
    length tids = length (p_tasks p) /\ NoDup (eid :: tids) /\
    (forall i, i ∈ eid :: tids -> g_tasks graw !! i = None /\ i ∉ g_tombs graw) /\
    (forall j, j ∉ eid :: tids -> g_tasks g' !! j = g_tasks graw !! j) /\
    g_tombs g' = g_tombs graw /\
    g_deps g' = list_to_set edges ∪ g_deps graw /\
    (exists te, g_tasks g' !! eid = Some te /\ t_is_epic te = true /\ t_title te = p_title p
                /\ t_body te = opt_default "" (p_body p) /\ t_state te = "todo" /\ t_claimed te = "" /\ t_epic te = "") /\
    (forall k pt i, p_tasks p !! k = Some pt -> tids !! k = Some i ->
        exists t, g_tasks g' !! i = Some t /\ t_is_epic t = false /\ t_title t = pt_title pt
                  /\ t_body t = opt_default "" (pt_body pt) /\ t_state t = "todo" /\ t_claimed t = "" /\ t_epic t = eid
                  /\ t_created t = opt_default (e_now e) (e_nows e !! k)) /\
    (forall a b, (a, b) ∈ edges <->
        exists k1 pt k2 pt2, p_tasks p !! k1 = Some pt /\ tids !! k1 = Some a /\ pt_title pt2 ∈ pt_after pt
                             /\ p_tasks p !! k2 = Some pt2 /\ tids !! k2 = Some b).
Proof. exact plan_inv. Qed.
Print Assumptions C11_plan_exact.

(** Any invalid payload is rejected before anything is written. *)
Theorem C11_reject_nothing_written : forall e p log,
  plan_valid p = false -> (exec e log (CPlan p)).1 = log /\ (exec e log (CPlan p)).2.1 = false.
Proof. intros e p log H. unfold exec. rewrite (plan_reject e p log H). split; reflexivity. Qed.
Print Assumptions C11_reject_nothing_written.

Theorem C11_valid_means : forall p,
  plan_valid p = true <->
  is_blank (p_title p) = false /\ (forall b, p_body p = Some b -> is_blank b = false) /\ p_tasks p <> [] /\
  (forall t, t ∈ p_tasks p ->
     is_blank (pt_title t) = false /\ (forall b, pt_body t = Some b -> is_blank b = false) /\
     (forall a, a ∈ pt_after t -> is_blank a = false /\ a <> pt_title t /\ exists t', t' ∈ p_tasks p /\ pt_title t' = a)) /\
  NoDup (pt_title <$> p_tasks p).
Proof. exact plan_valid_spec. Qed.
Print Assumptions C11_valid_means.

(** A cyclic [after] graph is rejected (titles are distinct, so the id-level check decides it). *)
Example C11_cycle_rejected :
  let p := Plan "E" None [PTask "a" None ["b"]; PTask "b" None ["a"]] in
  let e := Env ["EEEEEE"; "AAAAAA"; "BBBBBB"] ["u0"; "u1"; "u2"] 1%Z 0%Z [2%Z; 3%Z] FMissing "" "" "" in
  (exec e [] (CPlan p)).2.1 = false.
Proof. vm_compute. reflexivity. Qed.
