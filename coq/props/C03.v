(** C03 — A killed process never bricks the store or loses acknowledged work. *)
From Ergo Require Import Base Text Events Replay Ready Compact Cmd Input Sched Serial Concurrent.
Local Open Scope string_scope.
Local Open Scope list_scope.

(** Arbitrary schedules with kills at any point, writes cut at any line boundary, inside a line or
    just before its newline, from any initial tail: the readable content of the log is the serial
    effect of the committed sections plus, for each crashed append, some PREFIX of that section's own
    lines — nothing else is ever missing; every section decided on exactly that content. *)
Theorem C03_crash_safe : forall (procs : list proc) (f0 : file event) (s : sched),
  let w := run_schedule (init_world f0 (pst_of <$> procs)) s in
  exists cs : list (list event),
    Forall2 contrib_ok (w_hist w) cs /\
    read_events (cur_file w) = serialc (read_events f0) (w_hist w) cs /\
    (w_lock w = None -> Forall not_decided (w_hist w)) /\
    (forall h1 e h2, w_hist w = h1 ++ e :: h2 ->
       (h2 <> [] \/ w_lock w = None -> not_decided e) /\
       exists t, (pst_of <$> procs) !! en_pid e = Some (PStart t) /\
                 en_dec e = t (serialc (read_events f0) h1 (take (length h1) cs))).
Proof. intros procs f0 s. apply (crash_safe f0 (pst_of <$> procs) s (init_ok_procs procs)). Qed.
Print Assumptions C03_crash_safe.

(** Everything acknowledged before a crash is still in effect. *)
Theorem C03_committed_never_lost : forall (procs : list proc) (f0 : file event) (s : sched) h1 e es h2,
  let w := run_schedule (init_world f0 (pst_of <$> procs)) s in
  w_hist w = h1 ++ e :: h2 -> en_status e = SCommitted -> en_dec e = Sched.Append es -> Forall no_replace h2 ->
  exists a b, read_events (cur_file w) = a ++ es ++ b.
Proof. intros procs f0 s h1 e es h2. apply (committed_never_lost f0 (pst_of <$> procs) s h1 e es h2 (init_ok_procs procs)). Qed.
Print Assumptions C03_committed_never_lost.

(** Later mutations succeed, take effect and leave a clean, readable log — however many crashes and
    writes alternate (the statement holds in EVERY reachable world, so it iterates). *)
Theorem C03_later_writers_succeed : forall (procs : list proc) (f0 : file event) (s : sched) (p : pid) (t : txn event),
  let w := run_schedule (init_world f0 (pst_of <$> procs)) s in
  w_lock w = None -> w_procs w !! p = Some (PStart t) ->
  let d := t (read_events (cur_file w)) in
  let w' := run_schedule w (replicate 5 (p, AStep)) in
  cur_file w' = commit d (cur_file w) /\
  read_events (cur_file w') = effect d (read_events (cur_file w)) /\
  w_lock w' = None /\
  w_procs w' !! p = Some (PDone match d with Sched.Abort => OFail | _ => OOk end) /\
  w_hist w' = w_hist w ++ [Entry p d SCommitted] /\
  ((exists x es, d = Sched.Append (x :: es)) \/ (exists es, d = Sched.Replace es) -> f_tail (cur_file w') = TClean).
Proof. intros procs f0 s p t. apply (later_writers_succeed_reachable f0 (pst_of <$> procs) s p t (init_ok_procs procs)). Qed.
Print Assumptions C03_later_writers_succeed.

(** A dead lock holder never blocks anybody. *)
Theorem C03_kill_releases_lock : forall (w : world event) p w',
  w_lock w = Some p -> step_fn w p AKill = Some w' -> w_lock w' = None.
Proof. exact (@kill_releases_lock event). Qed.
Print Assumptions C03_kill_releases_lock.

(** A defective tail exists only as the residue of a crashed append that nobody has written after. *)
Theorem C03_torn_tail_only_after_crash : forall (procs : list proc) (log0 : list event) (s : sched),
  let w := run_schedule (init_world (File log0 TClean) (pst_of <$> procs)) s in
  f_tail (cur_file w) <> TClean ->
  exists h1 e es h2, w_hist w = h1 ++ e :: h2 /\ en_status e = SCrashed /\ en_dec e = Sched.Append es /\ Forall no_effect h2.
Proof. intros procs log0 s. apply (torn_tail_only_after_crash (File log0 TClean) (pst_of <$> procs) s (init_ok_procs procs) eq_refl). Qed.
Print Assumptions C03_torn_tail_only_after_crash.

(** readEvents never fails on such a file: [read_events] is total on every file the protocol can produce. *)
Example C03_read_total : forall f : file event, exists evs, read_events f = evs.
Proof. intros f. eexists. reflexivity. Qed.
