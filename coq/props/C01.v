(** C01 — A ready task is handed to at most one claimant. *)
From Ergo Require Import Base Text Events Replay Ready Compact Cmd Input ReadySpec Sched Serial Concurrent Replies.
Local Open Scope string_scope.
Local Open Scope list_scope.

(** For every number of concurrent processes (claimers and any other commands), every store and
    every interleaving of lock attempts, loads and writes: each oldest-ready claim that got the lock
    decided on the store as it was at that instant (the serial state of the sections before it):
    it appended exactly [claim; state=doing] for a ready task minimal for (created_at, id) within
    --epic, never an epic — or nothing when no task was ready.  Because the next section sees that
    task as doing (not ready), no task is handed out twice unless an intermediate committed section
    put it back to todo. *)
Theorem C01_claim_decides_on_serial_state : forall (procs : list proc) (log0 : list event) (s : sched),
  crash_free s ->
  let w := run_schedule (init_world (File log0 TClean) (pst_of <$> procs)) s in
  forall h1 e h2 en epic agent g,
    w_hist w = h1 ++ e :: h2 ->
    procs !! en_pid e = Some (Writer en (QCmd (CClaimOldest epic agent))) ->
    agent <> "" -> replay (serial log0 h1) = Ok g ->
    (en_dec e = Sched.Append [] /\
       forall t, ~ ((exists k, g_tasks g !! k = Some t) /\ in_scope epic t /\ t_is_epic t = false /\ Ready g t))
    \/ (exists i t, en_dec e = Sched.Append [EClaim i agent (Some (e_now en)); EState i "doing" (Some (e_now en))] /\
          t_id t = i /\ (exists k, g_tasks g !! k = Some t) /\ in_scope epic t /\ t_is_epic t = false /\ Ready g t /\
          (forall t', (exists k, g_tasks g !! k = Some t') -> in_scope epic t' -> t_is_epic t' = false -> Ready g t' -> claim_le t t')).
Proof. exact claim_decides_on_serial_state. Qed.
Print Assumptions C01_claim_decides_on_serial_state.

(** At most one process is ever inside a lock section; the lock is held iff someone is. *)
Theorem C01_mutual_exclusion : forall (procs : list proc) (log0 : list event) (s : sched),
  let w := run_schedule (init_world (File log0 TClean) (pst_of <$> procs)) s in
  (forall p q sp sq, w_procs w !! p = Some sp -> in_section sp = true ->
                     w_procs w !! q = Some sq -> in_section sq = true -> p = q) /\
  (forall p, w_lock w = Some p <-> exists sp, w_procs w !! p = Some sp /\ in_section sp = true).
Proof. intros procs log0 s. apply (mutual_exclusion (File log0 TClean) (pst_of <$> procs) s (init_ok_procs procs)). Qed.
Print Assumptions C01_mutual_exclusion.

(** "lock busy": fails fast, with no effect whatsoever. *)
Theorem C01_lock_busy_no_effect : forall (procs : list proc) (log0 : list event) (s : sched) (p : pid),
  w_procs (run_schedule (init_world (File log0 TClean) (pst_of <$> procs)) s) !! p = Some (PDone OBusy) ->
  Forall (fun e => en_pid e <> p) (w_hist (run_schedule (init_world (File log0 TClean) (pst_of <$> procs)) s)) /\
  (forall s1 s2 a w1', s = s1 ++ (p, a) :: s2 ->
     let w1 := run_schedule (init_world (File log0 TClean) (pst_of <$> procs)) s1 in
     step_fn w1 p a = Some w1' ->
     w_inodes w1' = w_inodes w1 /\ w_cur w1' = w_cur w1 /\ w_lock w1' = w_lock w1 /\ w_hist w1' = w_hist w1).
Proof. intros procs log0 s p. apply (lock_busy_no_effect (File log0 TClean) (pst_of <$> procs) s p (init_ok_procs procs)). Qed.
Print Assumptions C01_lock_busy_no_effect.

(** After a successful claim the task is doing and claimed by exactly the agent that won. *)
Theorem C01_winner_holds_task : forall e epic agent log graw evs i,
  Invariants.Inv graw -> replay_raw log = Ok graw ->
  run_txn e (CClaimOldest epic agent) log = (Cmd.Append evs, RClaimed i) ->
  agent <> "" /\ exists g', replay_raw (log ++ evs) = Ok g' /\ Replies.claimed_by g' i agent.
Proof. exact Replies.claim_oldest_reply_truthful. Qed.
Print Assumptions C01_winner_holds_task.
