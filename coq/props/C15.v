(** C15 — Accepted plans can always make progress. *)
From Ergo Require Import Base Text Events Replay Ready Compact Cmd Input Graphs Invariants ReadySpec Reach Progress.
Local Open Scope string_scope.
Local Open Scope list_scope.

(** If the effective waits-for relation (own dependencies plus those inherited from the epic's
    dependencies) is acyclic, then whenever some task is todo and nothing is doing / blocked / error,
    some task is ready.  ([g_tasks g !! "" = None]: no item has the empty id — true of every real
    store, ids are six characters; the model's id oracle could supply "".) *)
Theorem C15_progress_if_acyclic : forall g,
  Inv g -> g_tasks g !! "" = None -> (forall a, ~ tc (waits_for g) a a) -> quiet g ->
  (exists k t, g_tasks g !! k = Some t /\ t_is_epic t = false /\ t_state t = "todo") ->
  exists k t, g_tasks g !! k = Some t /\ t_is_epic t = false /\ Ready g t.
Proof. exact Progress.C15_progress_if_acyclic. Qed.
Print Assumptions C15_progress_if_acyclic.

(** ... and then [claim] cannot answer "no ready tasks". *)
Theorem C15_claim_succeeds : forall g e agent log,
  Inv g -> g_tasks g !! "" = None -> (forall a, ~ tc (waits_for g) a a) -> quiet g ->
  (exists k t, g_tasks g !! k = Some t /\ t_is_epic t = false /\ t_state t = "todo") ->
  agent <> "" -> replay log = Ok (finalize g) ->
  (run_txn e (CClaimOldest "" agent) log).2 <> RNoReady /\
  exists i, run_txn e (CClaimOldest "" agent) log =
    (Append [EClaim i agent (Some (e_now e)); EState i "doing" (Some (e_now e))], RClaimed i).
Proof. exact Progress.C15_claim_succeeds. Qed.
Print Assumptions C15_claim_succeeds.

(** PARTIAL (positive part that is true of the tree): every reachable store WITHOUT epic-level
    dependencies can make progress — there the waits-for relation is the task dependency relation,
    which ergo keeps acyclic (C07). *)
Theorem C15_partial_no_epic_deps : forall log g,
  Reach log -> replay_raw log = Ok g ->
  (forall a b, (a, b) ∈ g_deps g -> forall ta, g_tasks g !! a = Some ta -> t_is_epic ta = false) ->
  quiet g ->
  (exists k t, g_tasks g !! k = Some t /\ t_is_epic t = false /\ t_state t = "todo") ->
  exists k t, g_tasks g !! k = Some t /\ t_is_epic t = false /\ Ready g t.
Proof. exact C15_reachable_without_epic_deps. Qed.
Print Assumptions C15_partial_no_epic_deps.

(** KNOWN FINDING F1 (open): with epic-level dependencies the full statement is FALSE of the tree:
    six ordinary commands (two epics, a task in each, `sequence B A`, `sequence E1 E2`) reach a store
    in which both tasks are todo, nothing is held up, and `claim` answers "no ready tasks": the
    two-level waits-for relation has the cycle A -> B -> A although the dependency graph is acyclic. *)
Theorem C15_refuted : exists log g,
  Reach log /\ replay_raw log = Ok g /\ Inv g /\ acyclic g /\ g_tasks g !! "" = None /\ quiet g /\
  (forall k t, g_tasks g !! k = Some t -> t_is_epic t = false -> t_state t = "todo") /\
  (exists ta tb, g_tasks g !! "A" = Some ta /\ g_tasks g !! "B" = Some tb /\
                 t_is_epic ta = false /\ t_is_epic tb = false) /\
  ready_tasks (finalize g) "" = [] /\
  (forall k t, g_tasks g !! k = Some t -> t_is_epic t = false -> ~ Ready g t) /\
  (forall e agent, agent <> "" -> run_txn e (CClaimOldest "" agent) log = (Append [], RNoReady)) /\
  waits_for g "A" "B" /\ waits_for g "B" "A" /\ tc (waits_for g) "A" "A".
Proof. exact Progress.C15_refuted. Qed.
Print Assumptions C15_refuted.
