(** C12 — State is a total function of the log; reads are pure; history only grows. *)
From Ergo Require Import Base Text Events Replay Ready Compact Path Cmd Input Storage TextFacts View.
Local Open Scope string_scope.
Local Open Scope list_scope.

(** readEvents on ANY file content (lines classified blank / good / bad / over-long): total, and
    its only failures are the two classified ones. *)
Theorem C12_read_errors_classified : forall ls nl e,
  read_lines ls nl = Err e -> (exists k, e = RBadJSON k) \/ e = RTooLong.
Proof. exact read_errors_classified. Qed.
Print Assumptions C12_read_errors_classified.

Theorem C12_read_clean : forall ls nl, clean ls -> read_lines ls nl = Ok (goods ls).
Proof. exact read_clean. Qed.
Print Assumptions C12_read_clean.

(** A line that is not valid JSON is reported with its 1-based line number — the FIRST such line —
    unless it is the unterminated last line (crash residue), which is dropped. *)
Theorem C12_bad_line_named : forall pre post nl,
  clean pre -> (post <> [] \/ nl = true) -> (forall l r, post = l :: r -> is_huge l = false) ->
  read_lines (pre ++ LBad :: post) nl = Err (RBadJSON (Datatypes.S (length pre))).
Proof. exact read_bad_line. Qed.
Print Assumptions C12_bad_line_named.

Theorem C12_torn_tail_dropped : forall body, clean body -> read_lines (body ++ [LBad]) false = Ok (goods body).
Proof. exact read_torn_tail. Qed.
Print Assumptions C12_torn_tail_dropped.

Theorem C12_huge_line_reported : forall pre post nl, clean pre -> read_lines (pre ++ LHuge :: post) nl = Err RTooLong.
Proof. exact read_huge_line. Qed.
Print Assumptions C12_huge_line_reported.

(** Every mutation other than compact only extends the recorded history: all earlier events remain,
    in order, unchanged (append path by construction; plan rewrites old ++ new). *)
Theorem C12_history_grows : forall e log c,
  c <> CCompact -> exists es, (exec e log c).1 = log ++ es.
Proof.
  intros e log c Hc. unfold exec. destruct (run_txn e c log) as [d r] eqn:H.
  destruct d as [|es|es]; cbn [apply_decision fst].
  - exists []. rewrite app_nil_r. reflexivity.
  - eauto.
  - destruct c; try contradiction; cbn [run_txn] in H.
    all: try (destruct (replay log); [|discriminate]).
    all: repeat match type of H with
         | (if ?b then _ else _) = _ => destruct b
         | (match ?x with _ => _ end) = _ => destruct x eqn:?
         end; try discriminate.
    (* plan *)
    match goal with Hp : plan_txn _ _ _ _ = Some _ |- _ => unfold plan_txn in Hp;
      repeat match type of Hp with
      | (if ?b then _ else _) = _ => destruct b
      | (match ?x with _ => _ end) = _ => destruct x eqn:?
      end; try discriminate; injection Hp as <- _ end.
    injection H as <- _. eauto.
Qed.
Print Assumptions C12_history_grows.

(** What ergo shows is a function of the log only: sorted id lists do not depend on the order in
    which a map happened to be iterated. *)
Theorem C12_sorted_ids_canonical : forall l l' : list string, l ≡ₚ l' -> sort_strings l = sort_strings l'.
Proof.
  intros l l' Hp. unfold sort_strings.
  apply (StronglySorted_unique str_le).
  - apply StronglySorted_merge_sort; apply _.
  - apply StronglySorted_merge_sort; apply _.
  - rewrite !merge_sort_Permutation. exact Hp.
Qed.
Print Assumptions C12_sorted_ids_canonical.

Example C12_nonvacuous :
  read_lines [LGood EOther; LBlank; LBad; LGood EOther] true = Err (RBadJSON 3)
  /\ read_lines [LGood EOther; LBad] false = Ok [EOther].
Proof. vm_compute. split; reflexivity. Qed.
