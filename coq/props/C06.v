(** C06 — State machine and claim invariants hold on every path. *)
From Ergo Require Import Base Text Events Replay Ready Compact Path Cmd Input Graphs Invariants Reach.
Local Open Scope string_scope.
Local Open Scope list_scope.

(** What a reader sees of the claim rule. *)
Definition claim_rule (t : task) : Prop :=
  valid_state (t_state t) = true
  /\ ((t_state t = "doing" \/ t_state t = "error") -> t_claimed t <> "")
  /\ ((t_state t = "todo" \/ t_state t = "done" \/ t_state t = "canceled") -> t_claimed t = "").

Lemma claim_inv_rule st cl : valid_state st = true -> claim_inv st cl ->
  ((st = "doing" \/ st = "error") -> cl <> "") /\ ((st = "todo" \/ st = "done" \/ st = "canceled") -> cl = "").
Proof.
  intros Hv Hc. unfold claim_inv, validate_claim_invariant in Hc.
  split.
  - intros [->| ->]; cbn in Hc; apply negb_true_iff, String.eqb_neq in Hc; exact Hc.
  - intros [->|[->| ->]]; cbn in Hc; apply String.eqb_eq in Hc; exact Hc.
Qed.

Lemma C06_invariant_lemma log :
  Reach log ->
  exists g, replay log = Ok g /\
    forall i t, g_tasks g !! i = Some t ->
      (t_is_epic t = false -> claim_rule t) /\
      (t_is_epic t = true -> t_state t = "todo" /\ t_claimed t = "").
Proof.
  intros HR. destruct (reach_good log HR) as (g & Hr & HI & _).
  exists (finalize g). split; [apply replay_of_raw; exact Hr|].
  intros i t Hl. apply finalize_lookup_Some in Hl as (t0 & Hl0 & ->).
  destruct (migrate_fields t0) as (_ & Hk & Hs & Hc & _). unfold claim_rule. rewrite Hk, Hs, Hc.
  split.
  - intros Hne. destruct (inv_state g HI i t0 Hl0 Hne) as [Hv Hci]. split; [exact Hv|].
    apply claim_inv_rule; assumption.
  - intros He. destruct (inv_epic g HI i t0 Hl0 He) as (? & ? & _). split; assumption.
Qed.

(** After ANY sequence of commands (every command incl. prune, plan and compact, all input modes, any
    clock / id stream / file system) every task is in one of the six states, claimed iff the
    state demands it; epics have neither a state change nor a claimant. *)
Theorem C06_invariant : forall log,
  Reach log ->
  exists g, replay log = Ok g /\
    forall i t, g_tasks g !! i = Some t ->
      (t_is_epic t = false -> claim_rule t) /\
      (t_is_epic t = true -> t_state t = "todo" /\ t_claimed t = "").
Proof. exact C06_invariant_lemma. Qed.
Print Assumptions C06_invariant.

(** No request shape bypasses the transition table: whatever [set] / [claim <id>] / create-with-state
    accepts moves the task along a row of the table (or leaves the state alone) and lands in a
    (state, claimant) pair satisfying the claim rule. *)
Theorem C06_no_bypass : forall i t u agent now evs,
  build_set_events i t u agent now = Some evs ->
  let sc := fold_left (fun sc e => sc_step e sc) evs (t_state t, t_claimed t) in
  validate_transition (t_state t) sc.1 = true /\
  (t_is_epic t = false -> valid_state (t_state t) = true -> claim_inv (t_state t) (t_claimed t) ->
     valid_state sc.1 = true /\ claim_inv sc.1 sc.2).
Proof.
  intros i t u agent now evs H. apply build_set_events_spec in H. destruct H as [_ Hsc _ _ Htr].
  split; [exact Htr|exact Hsc].
Qed.
Print Assumptions C06_no_bypass.

(** A rejected request leaves the log — hence every task — untouched. *)
Theorem C06_reject_unchanged : forall e log q,
  (exec_req e log q).2.1 = false -> (exec_req e log q).1 = log.
Proof.
  intros e log q. unfold exec_req. destruct (normalize q) as [c|]; [|done].
  unfold exec. destruct (run_txn e c log) as [d r]. destruct d; cbn; try discriminate. done.
Qed.
Print Assumptions C06_reject_unchanged.

(** The table itself (transcribed; the bridge to the generated table is in bridge/). *)
Theorem C06_table : forall from to,
  validate_transition from to = true <->
  from = to \/ In (from, to)
    [("todo","doing");("todo","done");("todo","blocked");("todo","canceled");
     ("doing","todo");("doing","done");("doing","blocked");("doing","canceled");("doing","error");
     ("blocked","todo");("blocked","doing");("blocked","done");("blocked","canceled");
     ("done","todo");("canceled","todo");
     ("error","todo");("error","doing");("error","canceled")].
Proof.
  intros from to. unfold validate_transition, transitions.
  destruct (String.eqb from to) eqn:E; [apply String.eqb_eq in E; tauto|]. apply String.eqb_neq in E.
  repeat match goal with
  | |- context [String.eqb from ?s] => destruct (String.eqb_spec from s) as [->|]
  end; rewrite ?mem_str_In; cbn; split; intros H;
    repeat match goal with
    | H : _ \/ _ |- _ => destruct H
    | H : (_, _) = (_, _) |- _ => inversion H; clear H; subst
    | H : False |- _ => contradiction
    end; subst; try congruence; try discriminate; try contradiction;
    try (right; repeat (first [ left; reflexivity | right ]); fail); try (repeat (first [ left; reflexivity | right ]); fail).
Qed.
Print Assumptions C06_table.

(** Non-vacuity: a reachable store with a claimed doing task and an epic. *)
Definition ex_env : env := Env ["AAAAAA"] ["u1"] 100%Z 0%Z [] FMissing "" "" "".
Definition ex_log : list event :=
  let l1 := (exec_req ex_env [] (QNew false MJson (Raw (Some "T") None None (Some "doing") None None None) "alice")).1 in
  (exec_req (Env ["BBBBBB"] ["u2"] 200%Z 0%Z [] FMissing "" "" "") l1 (QNew true MFlags (Raw (Some "E") None None None None None None) "")).1.
Example C06_nonvacuous : Reach ex_log /\ length ex_log = 4%nat.
Proof.
  split; [|vm_compute; reflexivity].
  unfold ex_log. apply reach_step. apply reach_step. apply reach_init.
Qed.
