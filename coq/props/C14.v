(** C14 — Every task's epic reference names a live epic. *)
From Ergo Require Import Base Text Events Replay Ready Compact Path Cmd Input Graphs Invariants Facts PrunePlan Reach.
Local Open Scope string_scope.
Local Open Scope list_scope.

Theorem C14_epic_refs : forall log, Reach log ->
  exists g, replay log = Ok g /\
    forall i t, g_tasks g !! i = Some t ->
      (t_is_epic t = true -> t_epic t = "") /\
      (t_epic t <> "" -> t_epic t ∉ g_tombs g /\ exists e, g_tasks g !! (t_epic t) = Some e /\ t_is_epic e = true).
Proof.
  intros log HR. destruct (reach_good log HR) as (g & Hr & HI & _).
  exists (finalize g). split; [apply replay_of_raw; exact Hr|].
  intros i t Hl. apply finalize_lookup_Some in Hl as (t0 & Hl0 & ->).
  destruct (migrate_fields t0) as (_ & Hk & _ & _ & He & _). rewrite Hk, He. split.
  - intros Hep. destruct (inv_epic g HI i t0 Hl0 Hep) as (_ & _ & H & _). exact H.
  - intros Hne. destruct (inv_ref g HI i t0 Hl0 Hne) as (e & Hle & Hke). split.
    + intros Hin. apply (inv_tombs g HI) in Hin. congruence.
    + exists (migrate e). rewrite finalize_lookup, Hle. split; [reflexivity|].
      destruct (migrate_fields e) as (_ & -> & _). exact Hke.
Qed.
Print Assumptions C14_epic_refs.

(** Updating a task with an epic id that is unknown, pruned (no longer a task) or a plain task is rejected. *)
Theorem C14_set_rejects_bad_epic : forall e i u agent g evs ep t,
  set_txn e i u agent g = Some evs -> g_tasks g !! i = Some t -> u_epic u = Some ep -> ep <> "" ->
  t_is_epic t = false /\ exists et, g_tasks g !! ep = Some et /\ t_is_epic et = true.
Proof. exact set_txn_epic_ok. Qed.
Print Assumptions C14_set_rejects_bad_epic.

(** Creating a task under a non-epic / unknown id is rejected: an accepted create names a live epic. *)
Theorem C14_new_rejects_bad_epic : forall e title body epic u agent g evs r,
  new_txn e false title body epic u agent g = Some (evs, r) -> epic <> "" ->
  exists et, g_tasks g !! epic = Some et /\ t_is_epic et = true.
Proof.
  intros e title body epic u agent g evs r H Hne. unfold new_txn in H. cbn [negb andb] in H.
  apply String.eqb_neq in Hne. rewrite Hne in H. cbn [negb] in H.
  destruct (g_tasks g !! epic) as [et|]; [|discriminate]. destruct (t_is_epic et) eqn:Hk; [|discriminate]. eauto.
Qed.
Print Assumptions C14_new_rejects_bad_epic.

(** prune removes an epic only together with all of its children.  ([i <> ""]: an item's epic field "" means "no epic",
    so an epic whose id is the empty string - impossible through the CLI, possible in a hand-written log - has no
    children by definition; prune.go guards its child count with [task.EpicID != ""] and the model follows it.) *)
Theorem C14_prune_keeps_parents : forall g i t k c,
  Inv g -> i ∈ prune_targets g -> g_tasks g !! i = Some t -> t_is_epic t = true ->
  g_tasks g !! k = Some c -> t_is_epic c = false -> t_epic c = i -> i <> "" -> t_state c = "done" \/ t_state c = "canceled".
Proof. intros. eapply prune_epic_has_no_remaining_child; eauto. Qed.
Print Assumptions C14_prune_keeps_parents.
