(** C19 — The human list is a complete, well-formed picture of the same state. *)
From Ergo Require Import Base Text Events Replay Ready Compact Cmd Input Graphs Invariants Reach View Utf8Lite Layout Tree TreeProofs.
Local Open Scope string_scope.
Local Open Scope list_scope.

(** Reachable stores (with non-empty ids, as the id generator produces) satisfy the tree view's
    well-formedness conditions. *)
Lemma C19_reach_G_ok log : Reach log ->
  exists g, replay log = Ok g /\ ((forall t, g_tasks g !! "" = Some t -> False) -> G_ok g).
Proof.
  intros HR. destruct (reach_good log HR) as (g & Hr & HI & HA).
  exists (finalize g). split; [apply replay_of_raw; exact Hr|]. intros Hne.
  split.
  - intros i t Hl. apply finalize_lookup_Some in Hl as (t0 & Hl0 & ->).
    destruct (migrate_fields t0) as (-> & _). apply (inv_key g HI i t0 Hl0).
  - exact Hne.
  - intros a Ht. apply (HA a). exact Ht.
  - intros a b Hab. destruct (inv_deps g HI a b Hab) as (_ & ta & tb & Ha & Hb & Hk).
    exists (migrate ta), (migrate tb). rewrite !finalize_lookup, Ha, Hb. repeat split.
    destruct (migrate_fields ta) as (_ & -> & _). destruct (migrate_fields tb) as (_ & -> & _). exact Hk.
  - intros i t Hl. apply finalize_lookup_Some in Hl as (t0 & Hl0 & ->).
    destruct (migrate_fields t0) as (_ & Hk & _ & _ & He & _). rewrite Hk, He.
    destruct (t_is_epic t0) eqn:Hep.
    + destruct (inv_epic g HI i t0 Hl0 Hep) as (_ & _ & H & _). exact H.
    + destruct (String.eqb_spec (t_epic t0) "") as [E|E]; [left; exact E|right].
      destruct (inv_ref g HI i t0 Hl0 E) as (e & Hle & Hke).
      exists (migrate e). rewrite finalize_lookup, Hle. split; [reflexivity|].
      destruct (migrate_fields e) as (_ & -> & _). exact Hke.
Qed.

Theorem C19_reachable_well_formed : forall log, Reach log ->
  exists g, replay log = Ok g /\ ((forall t, g_tasks g !! "" = Some t -> False) -> G_ok g).
Proof. exact C19_reach_G_ok. Qed.
Print Assumptions C19_reachable_well_formed.

(** --all: every live item appears in exactly one row. *)
Theorem C19_all_complete : forall (rw : N -> nat) g, G_ok g -> forall (w : Z) (repo : string),
  row_item <$> item_rows (list_rows_s rw g w repo true false "") ≡ₚ (map_to_list (g_tasks g)).*1.
Proof. exact all_complete. Qed.
Print Assumptions C19_all_complete.

(** default view: every active task exactly once. *)
Theorem C19_default_active_once : forall (rw : N -> nat) g, G_ok g -> forall (w : Z) (repo : string),
  let ids := row_item <$> item_rows (list_rows_s rw g w repo false false "") in
  NoDup ids /\ (forall i t, g_tasks g !! i = Some t -> t_is_epic t = false ->
                  done_or_canceled (t_state t) = false -> i ∈ ids).
Proof. exact default_active_once. Qed.
Print Assumptions C19_default_active_once.

(** --ready: exactly the ready tasks (epic rows only as parents of ready children). *)
Theorem C19_ready_exact : forall (rw : N -> nat) g, G_ok g -> forall (w : Z) (repo : string),
  let ids := row_item <$> item_rows (list_rows_s rw g w repo false true "") in
  NoDup ids /\
  (forall i t, g_tasks g !! i = Some t -> t_is_epic t = false -> is_ready g t = true <-> i ∈ ids) /\
  (forall n, n ∈ list_roots g false true "" -> t_is_epic n.1 = true ->
             n.2 <> [] /\ Forall (fun k => is_ready g k = true /\ t_is_epic k = false) n.2).
Proof. exact ready_exact. Qed.
Print Assumptions C19_ready_exact.

(** Children sit under their own epic with tree glyphs; root rows have none. *)
Theorem C19_glyphs : forall (rw : N -> nat) g (w : Z) repo all ready epic r,
  r ∈ list_rows_s rw g w repo all ready epic ->
  (row_child r = true -> row_result r = false ->
     exists rest, row_text r = (if row_last r then g_corner else g_tee) +:+ " " +:+ rest) /\
  (row_child r = true -> row_result r = true ->
     exists rest, row_text r = (if row_last r then "  " else g_bar +:+ " ") +:+ "  " +:+ g_arrow +:+ " " +:+ rest) /\
  (row_child r = false -> String.prefix g_tee (row_text r) = false /\ String.prefix g_corner (row_text r) = false).
Proof. exact glyphs. Qed.
Print Assumptions C19_glyphs.

Theorem C19_children_under_own_epic : forall g, G_ok g -> forall all ready epic n k,
  n ∈ list_roots g all ready epic -> k ∈ n.2 ->
  t_is_epic n.1 = true /\ t_is_epic k = false /\ t_epic k = t_id n.1.
Proof. exact kids_under_own_epic. Qed.
Print Assumptions C19_children_under_own_epic.

(** Summary counts = tasks per bucket in the view's scope; an empty view prints its sentence. *)
Theorem C19_summary_counts : forall (rw : N -> nat) g (w : Z) repo m out,
  list_output rw g w repo m = Some out ->
  (exists pre scope bs sp, out = pre ++ summary g scope bs sp /\ scope_spec g m scope bs) \/ no_summary g m.
Proof. exact summary_counts. Qed.
Print Assumptions C19_summary_counts.

Theorem C19_bucket_counts_add_up : forall g ts,
  (count_bucket g BReady ts + count_bucket g BInProgress ts + count_bucket g BBlocked ts
   + count_bucket g BError ts + count_bucket g BDone ts + count_bucket g BCanceled ts
   = length (filter (fun t => t_is_epic t = false) ts))%nat.
Proof. exact count_sum. Qed.
Print Assumptions C19_bucket_counts_add_up.

Theorem C19_never_empty : forall (rw : N -> nat) g, G_ok g -> forall (w : Z) repo m out,
  list_output rw g w repo m = Some out ->
  (exists s rest, out = s :: rest /\ s ∈ sentences)
  \/ (let '(a, r, e) := flags_of m in
      m <> MEpics /\ exists x rest, out = row_text x :: rest /\ x ∈ list_rows_s rw g w repo a r e)
  \/ (m = MEpics /\ exists e rest,
        out = format_tree_line rw w "" "" false (state_icon e false) (t_id e) (t_title e) [] "" (t_is_epic e) :: rest
        /\ is_live g e /\ t_is_epic e = true).
Proof. exact empty_sentence. Qed.
Print Assumptions C19_never_empty.

(** Every row fits the terminal (exactly w-2 columns), ends with its id in the same right-hand
    column — for every width >= 14 and all titles / claimants that are valid UTF-8 without ESC,
    under the rune-width table's measured facts [RwOk]. *)
Theorem C19_row_layout : forall (rw : N -> nat), RwOk rw -> forall g, G_ok g ->
  forall (w : Z) repo all ready epic r,
  texts_plain g -> (14 <= w)%Z -> r ∈ list_rows_s rw g w repo all ready epic -> row_result r = false ->
  exists body, row_text r = body +:+ row_item r /\ vl rw body = (w - 8)%Z
               /\ vl rw (row_text r) = (w - 2)%Z /\ String.length (row_item r) = 6%nat.
Proof. exact row_layout. Qed.
Print Assumptions C19_row_layout.

(** Rows are valid UTF-8 whatever (valid) titles, claimants and blocker annotations contain. *)
Theorem C19_rows_valid_utf8 : forall (rw : N -> nat), RwOk rw -> forall g, G_ok g ->
  forall (w : Z) repo all ready epic s,
  texts_valid g repo -> s ∈ list_rows rw g w repo all ready epic -> Utf8Lite.valid_utf8 s.
Proof. exact rows_valid_utf8. Qed.
Print Assumptions C19_rows_valid_utf8.

(** The order of rows does not depend on map iteration order. *)
Theorem C19_topo_order_canonical : forall g ids ids', ids ≡ₚ ids' -> topo_sort g ids = topo_sort g ids'.
Proof. exact topo_sort_perm_irrel. Qed.
Print Assumptions C19_topo_order_canonical.
