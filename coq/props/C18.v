(** C18 — Every command finds the same store, and init never hides data. *)
From Ergo Require Import Base Text Path PathFacts Discovery.
Local Open Scope string_scope.
Local Open Scope list_scope.

(** For every file system (no symlinks), absolute cwd and --dir spelling: the result is the NEAREST
    enclosing .ergo directory of the denoted start directory; a nearer .ergo that is a plain file is
    an error; nothing found is the "no .ergo" error; the search always terminates. *)
Theorem C18_discovery_nearest : forall (f : fs) (cwd d : string),
  is_abs cwd = true ->
  let start := start_dir cwd d in
  let cs := comps start in
  start = abs_of cs /\ Forall nc cs /\
  (forall r, ergo_dir f cwd d = Found r <->
     exists anc, anc `prefix_of` cs /\ r = join (abs_of anc) data_dir /\ stat f r = SDir /\
       forall anc', anc' `prefix_of` cs -> length anc < length anc' -> stat f (join (abs_of anc') data_dir) = SNoEnt) /\
  (forall p, ergo_dir f cwd d = ENotDirectory p <->
     exists anc, anc `prefix_of` cs /\ p = join (abs_of anc) data_dir /\ stat f p = SFile /\
       forall anc', anc' `prefix_of` cs -> length anc < length anc' -> stat f (join (abs_of anc') data_dir) = SNoEnt) /\
  (ergo_dir f cwd d = ENoErgoDir <->
     forall anc, anc `prefix_of` cs -> stat f (join (abs_of anc) data_dir) = SNoEnt) /\
  ergo_dir f cwd d <> EFuel.
Proof. exact discovery_nearest. Qed.
Print Assumptions C18_discovery_nearest.

(** However the directory is spelled (absolute, relative, ".", "sub/..", trailing slash, the .ergo
    directory itself): same denoted directory => same store. *)
Theorem C18_spelling_irrelevant : forall (f : fs) cwd d cwd' d',
  start_dir cwd d = start_dir cwd' d' -> ergo_dir f cwd d = ergo_dir f cwd' d'.
Proof. exact discovery_spelling_irrelevant. Qed.
Print Assumptions C18_spelling_irrelevant.

Theorem C18_spellings : forall (P : list string) (sub : string),
  Forall nc P -> nc sub ->
  let cwd := abs_of P in
  start_dir cwd "" = cwd /\ start_dir cwd "." = cwd /\ start_dir cwd "./" = cwd /\ start_dir cwd cwd = cwd /\
  start_dir cwd (cwd +:+ "/") = cwd /\ start_dir cwd (sub +:+ "/..") = cwd /\
  start_dir cwd ("./" +:+ sub +:+ "/../" +:+ sub) = abs_of (P ++ [sub]) /\ start_dir cwd sub = abs_of (P ++ [sub]) /\
  start_dir cwd ".." = dir cwd /\ start_dir cwd data_dir = abs_of (P ++ [data_dir]).
Proof. exact start_dir_spellings. Qed.
Print Assumptions C18_spellings.

Theorem C18_from_inside_dot_ergo : forall (f : fs) (P deeper : list string),
  Forall nc P -> Forall nc deeper -> stat f (cand P) = SDir ->
  (forall k, k `prefix_of` deeper -> stat f (cand (P ++ data_dir :: k)) = SNoEnt) ->
  resolve_ergo_dir f (abs_of (P ++ data_dir :: deeper)) = Found (cand P) /\
  resolve_ergo_dir f (abs_of P) = Found (cand P).
Proof. exact discovery_from_inside_dot_ergo. Qed.
Print Assumptions C18_from_inside_dot_ergo.

(** One log file per store, chosen the same way by every command: plans.jsonl if it exists, else a
    legacy events.jsonl if that exists, else plans.jsonl. *)
Theorem C18_log_choice : forall (f : fs) (d : string), is_abs d = true ->
  let plans := join d plans_name in let old := join d old_name in
  plans <> old /\ (get_events_path f d = plans \/ get_events_path f d = old) /\
  (get_events_path f d = plans <-> exists_b f plans = true \/ exists_b f old = false) /\
  (get_events_path f d = old <-> exists_b f plans = false /\ exists_b f old = true).
Proof. exact log_choice_total. Qed.
Print Assumptions C18_log_choice.

(** init is idempotent, never removes anything, and never changes which log an existing store uses. *)
Theorem C18_init_idempotent : forall T, Forall nc T -> forall f f',
  init f (abs_of T) = Some f' -> init f' (abs_of T) = Some f'.
Proof. exact init_idempotent. Qed.
Print Assumptions C18_init_idempotent.
Theorem C18_init_hides_nothing : forall T, Forall nc T -> forall f f',
  init f (abs_of T) = Some f' ->
  (forall q, (is_dir f q = true -> is_dir f' q = true) /\ (is_file f q = true -> is_file f' q = true)) /\
  (exists_b f (join (abs_of T) plans_name) = true \/ exists_b f (join (abs_of T) old_name) = true ->
   get_events_path f' (abs_of T) = get_events_path f (abs_of T)).
Proof. intros T HT f f' H. split; [apply (init_monotone T HT f f' H)|apply (init_keeps_log T HT f f' H)]. Qed.
Print Assumptions C18_init_hides_nothing.
