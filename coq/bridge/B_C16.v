(** Bridge C16: the stdout discipline of every command, from the generated output skeleton (gen/OutGen.v).

    "With --json every successful command writes exactly one JSON value to stdout and nothing else; every
     failing command exits non-zero with an explanation on stderr and at most one JSON error object on stdout."

    Deviations on the current source are LISTED here, each with its reason, and the lists are checked to be
    exact (an entry that stops deviating, or a new deviation, both break this file):

    - [json_exceptions]  RunQuickstart takes no GlobalOptions at all and always prints the guide as plain text
                         (known finding F2: `ergo --json quickstart` prints text).
    - [cmd_text_units]   the two places of cmd/ergo that print to stdout themselves, both plain text whatever the
                         mode (known finding F2): `ergo version` / `--version` (printVersion, called from
                         versionCmd.Run) and the help function registered in cmd_root.go's init
                         (`ergo --json --help`, `ergo --json help`).  Everything else in cmd/ergo is silent on
                         stdout: the Run* entry point is the only writer, and exitErr explains failures on stderr.
                         [gen_out_cmd] also carries what runs at start-up in BOTH packages (init functions and
                         package-level initialisers that call something, the latter named "<file>:var <name>",
                         those of internal/ergo prefixed "internal/ergo/"): they must be silent as well.
    - [library_entries]  RunPrunePlan / RunPruneApply are exported helpers of RunPrune returning (PrunePlan, error),
                         not commands; they must not write to stdout at all. *)
From Coq Require Import String List Bool.
From ErgoBridge Require Import OutLib.
From ErgoGen Require Import OutGen.
Import ListNotations.
Local Open Scope string_scope.

Definition json_exceptions : list string := ["RunQuickstart"].
Definition library_entries : list string := ["RunPruneApply"; "RunPrunePlan"].
Definition cmd_text_units : list string := ["cmd_root.go:init"; "printVersion"; "versionCmd.Run"].

(** the commands: every exported Run* entry point except the listed helpers and exceptions *)
Definition commands : list oentry := without json_exceptions (without library_entries gen_out).

(** JSON mode: every successful path of every command writes exactly one JSON value and nothing else to
    stdout, not from a loop, nothing after it; every failing path writes at most one JSON error object. *)
Example C16_json_mode_prints_exactly_one_value :
  concat (map json_entry_ok commands) = [].
Proof. vm_compute. reflexivity. Qed.

(** text mode: no command (exceptions and helpers included) writes JSON to stdout. *)
Example C16_text_mode_prints_no_json :
  concat (map text_entry_ok gen_out) = [].
Proof. vm_compute. reflexivity. Qed.

(** both modes can succeed: every command has a --json path with its one value and a text path without JSON *)
Example C16_every_command_can_succeed_in_both_modes :
  forallb (fun e => has_json_success e && has_text_success e) commands = true.
Proof. vm_compute. reflexivity. Qed.

(** the helpers are silent *)
Example C16_library_entries_are_silent :
  concat (map silent_entry_ok (only library_entries gen_out)) = [].
Proof. vm_compute. reflexivity. Qed.

(** the partition is exact: the entry points that are not of the shape `func(.., GlobalOptions) error` are
    precisely the listed helpers and exceptions (a new Run* command with options is checked automatically, one
    without shows up here); and the listed exception really deviates (F2 still open). *)
Example C16_entry_points_are_partitioned :
  map fst (filter (fun s => negb (fst (snd s) && snd (snd s))) gen_out_sig) = ["RunPruneApply"; "RunPrunePlan"; "RunQuickstart"]
  /\ map fst gen_out_sig = map fst gen_out
  /\ forallb (fun n => mem n (map fst gen_out)) (json_exceptions ++ library_entries) = true.
Proof. vm_compute. repeat split; reflexivity. Qed.

Example C16_exceptions_are_exact :
  map fst (filter (fun e => negb (is_nil (json_entry_ok e))) (without library_entries gen_out)) = json_exceptions.
Proof. vm_compute. reflexivity. Qed.

(** cmd/ergo: apart from the listed text printers nothing there writes to stdout; the list is exact *)
Example C16_cmd_layer_is_silent_on_stdout :
  map fst (filter writes_stdout gen_out_cmd) = cmd_text_units.
Proof. vm_compute. reflexivity. Qed.

(** cmd/ergo runs at most one entry point per path, and only commands checked above (or the listed exception) *)
Example C16_cmd_layer_runs_checked_entry_points :
  forallb one_run_per_path gen_out_cmd = true
  /\ incl_names (all_runs gen_out_cmd) (map fst commands ++ json_exceptions) = true
  /\ incl_names (map fst commands) (all_runs gen_out_cmd) = true.
Proof. vm_compute. repeat split; reflexivity. Qed.

(** a failing command is explained on stderr and exits non-zero: main / execute hand every error to exitErr,
    which writes to stderr and leaves through os.Exit(1) *)
Example C16_failures_are_explained_on_stderr :
  forallb (fun n => negb (is_nil (only [n] gen_out_cmd))) ["main"; "execute"; "exitErr"] = true
  /\ forallb stderr_on_failure (only ["main"; "execute"; "exitErr"] gen_out_cmd) = true
  /\ existsb (fun p => match ended (oscan p) with Some false => true | _ => false end)
             (concat (map snd (only ["execute"] gen_out_cmd))) = true.
Proof. vm_compute. repeat split; reflexivity. Qed.
