(** Bridge: [writeLinkEvents] (storage.go; behind `sequence` and `sequence rm`), regenerated into the mini-Go IR
    (gen/CmdGen.v), is the model's [seq_txn] — FOR ALL graphs and ALL edge lists: every edge is checked
    (pruned / unknown endpoints, self edge, kinds, and for links a cycle) against the graph AS EXTENDED BY THE
    EDGES BEFORE IT in the same command, and either all edges are written in ONE [appendEvents], in order, or
    nothing is written.  ([hasCycle] itself is tied to the model's [has_cycle] by B_Cycle.v.) *)
From Ergo Require Import Base Text Events Replay Ready Path Cmd.
From ErgoBridge Require Import ReadyIR CmdIR B_Cmd B_CmdSet.
From ErgoGen Require Import CmdGen.
From Coq Require Import String ZArith List Lia.
Import ListNotations.
Local Open Scope string_scope.
Local Open Scope list_scope.

Ltac sb1 :=
  match goal with
  | |- context C [cexec_block ?call ?ρ ?σ (CBCons ?s ?r)] =>
      let t := constr:(match cexec_stmt call ρ σ s with ONormal ρ1 σ1 => cexec_block call ρ1 σ1 r | o => o end) in
      let G := context C [t] in change G
  end.
Ltac sb0 :=
  match goal with
  | |- context C [cexec_block ?call ?ρ ?σ CBNil] =>
      let G := context C [ONormal ρ σ] in change G
  end.
Ltac sb := first [sb1 | sb0].
Ltac go := repeat first [ sb; cir_step_simpl
                        | progress (rewrite ?B_Cmd.gen_isEpic_task, ?gen_prunedErr, ?gen_validateDepSelf, ?gen_validateDepKinds, ?as_list_slice_of); cir_step_simpl ].

(** ** The model, with the graph it ends in *)
Definition upd_deps (link : bool) (g : graph) (a b : string) : graph :=
  if link then Graph (g_tasks g) ({[ (a, b) ]} ∪ g_deps g) (g_tombs g)
  else Graph (g_tasks g) (g_deps g ∖ {[ (a, b) ]}) (g_tombs g).
Fixpoint seq_run (link : bool) (g : graph) (edges : list (string * string)) : option (graph * list event) :=
  match edges with
  | [] => Some (g, [])
  | (a, b) :: r =>
      if link_ok link g a b then
        match seq_run link (upd_deps link g a b) r with
        | Some (gf, evs) => Some (gf, (if link then ELink a b depends else EUnlink a b depends) :: evs)
        | None => None
        end
      else None
  end.
Lemma seq_run_txn link g edges : option_map snd (seq_run link g edges) = seq_txn link g edges.
Proof.
  revert g. induction edges as [|[a b] r IH]; intros g; cbn [seq_run seq_txn]; [reflexivity|].
  destruct (link_ok link g a b); [|reflexivity].
  specialize (IH (upd_deps link g a b)). unfold upd_deps in *.
  destruct link; destruct (seq_run _ _ r) as [[gf evs]|]; cbn [option_map snd] in *; rewrite <- IH; reflexivity.
Qed.

(** ** The generated body *)
Definition wle_body : cblock :=
  Eval vm_compute in match lookup "writeLinkEvents" gen_cmd_prog with Some fd => cf_body fd | None => CBNil end.
Lemma wle_lookup : lookup "writeLinkEvents" gen_cmd_prog = Some (CFn ["dir"; "opts"; "eventType"; "edges"] wle_body).
Proof. vm_compute. reflexivity. Qed.
Definition wle_lock : cblock := Eval vm_compute in match cnth 2 wle_body with CSLock _ _ b => b | _ => CBNil end.
Definition wle_loop : cblock := Eval vm_compute in match cnth 3 wle_lock with CSRange _ _ _ b => b | _ => CBNil end.

Definition edge_val (e : string * string) : cval := VStruct "sequenceEdge" [("FromID", VStr (fst e)); ("ToID", VStr (snd e))].
Definition ty_of (link : bool) : string := if link then "link" else "unlink".

Notation envL g E evp lp dir opts ty edges :=
  [("events", E); ("err", VNil); ("graph", VGraph g); ("eventsPath", VStr evp); ("lockPath", VStr lp);
   ("dir", VStr dir); ("opts", opts); ("eventType", VStr ty); ("edges", edges)] (only parsing).

Lemma no_from_diff (D : gset (string * string)) a b :
  existsb (λ e, String.eqb (fst e) a) (elements D) = false -> D ∖ {[ (a, b) ]} = D.
Proof.
  intros H. apply leibniz_equiv. intros x. rewrite elem_of_difference, elem_of_singleton.
  split; [tauto|]. intros Hx. split; [exact Hx|]. intros ->.
  assert (Hin : In (a, b) (elements D)). { apply elem_of_list_In, elem_of_elements. exact Hx. }
  assert (existsb (λ e, String.eqb (fst e) a) (elements D) = true) as Ht.
  { apply existsb_exists. exists (a, b). split; [exact Hin|]. cbn. apply String.eqb_refl. }
  congruence.
Qed.

Lemma body_step link n g E vs evp lp dir opts edgesv a b t ts ids uu ld fk sha mt git wr out :
  as_list E = Some vs ->
  let o := cexec_block (crun (S (S n)) gen_cmd_prog)
             (("edge", edge_val (a, b)) :: envL g E evp lp dir opts (ty_of link) edgesv)
             (CState (t :: ts) ids uu ld fk sha mt git wr out) wle_loop in
  if link_ok link g a b
  then exists top, o = ONormal (top ++ envL (upd_deps link g a b)
                                       (slice_of (vs ++ [VEvent (if link then ELink a b depends else EUnlink a b depends)]))
                                       evp lp dir opts (ty_of link) edgesv)
                               (CState ts ids uu ld fk sha mt git wr out)
  else exists ρ' σ', o = OReturn [VErr EGen] ρ' σ' /\ cs_writes σ' = wr /\ cs_out σ' = out.
Proof.
  intros HE o. subst o. unfold link_ok, edge_val. cbn [fst snd].
  let b := eval vm_compute in wle_loop in change wle_loop with b.
  go.
  destruct (tombed g a); cir_step_simpl.
  { go. cbn [orb]. eauto. }
  go. destruct (tombed g b); cir_step_simpl.
  { go. cbn [orb]. eauto. }
  cbn [orb]. go.
  destruct (g_tasks g !! a) as [ft|]; cir_step_simpl; [|eauto].
  go. destruct (g_tasks g !! b) as [tk|]; cir_step_simpl; [|eauto].
  go.
  destruct (String.eqb a b); cbn [negb err_of]; cir_step_simpl; [eauto|].
  go.
  destruct (Bool.eqb (t_is_epic ft) (t_is_epic tk)); cbn [negb err_of]; cir_step_simpl; [|eauto].
  go.
  destruct link; cbn [ty_of String.eqb Ascii.eqb Bool.eqb]; cir_step_simpl.
  - (* link *)
    go. destruct (has_cycle g a b); cbn [negb]; cir_step_simpl; [eauto|].
    go. cbn [String.eqb Ascii.eqb Bool.eqb]. cir_step_simpl.
    destruct (existsb (λ e : string * string, String.eqb (fst e) a) (elements (g_deps g))); cbn [negb]; cir_step_simpl.
    all: go; rewrite ?HE; cir_step_simpl; go; cbn [upd_deps]; rewrite ?slice_of_snoc.
    all: match goal with |- exists top, ONormal ?ρ _ = _ => exists (take 9 ρ) end; reflexivity.
  - (* unlink *)
    go. cbn [String.eqb Ascii.eqb Bool.eqb]. cir_step_simpl.
    destruct (existsb (λ e : string * string, String.eqb (fst e) a) (elements (g_deps g))) eqn:Hex; cbn [negb]; cir_step_simpl.
    all: go; rewrite ?HE; cir_step_simpl; go; cbn [upd_deps]; rewrite ?slice_of_snoc.
    2: rewrite (no_from_diff (g_deps g) a b Hex).
    2: destruct g as [gt gd gb]; cbn [g_tasks g_deps g_tombs].
    all: match goal with |- exists top, ONormal ?ρ _ = _ => exists (take 9 ρ) end; reflexivity.
Qed.

Lemma crestore_app (top l : cenv) : crestore (List.length l) (top ++ l) = l.
Proof.
  unfold crestore. rewrite app_length. replace (List.length top + List.length l - List.length l) with (List.length top) by lia.
  induction top as [|x top IH]; [reflexivity|exact IH].
Qed.

Lemma link_loop link n evp lp dir opts edgesv ids uu ld fk sha mt git wr out :
  forall edges its g E vs ts,
  as_list E = Some vs -> snd <$> its = edge_val <$> edges -> List.length edges <= List.length ts ->
  let o := cfor_each (λ ρ' σ', cexec_block (crun (S (S n)) gen_cmd_prog) ρ' σ' wle_loop) "_" "edge"
             (envL g E evp lp dir opts (ty_of link) edgesv) (CState ts ids uu ld fk sha mt git wr out) its in
  match seq_run link g edges with
  | Some (gf, evs) =>
      exists E', as_list E' = Some (vs ++ (VEvent <$> evs)) /\
      o = ONormal (envL gf E' evp lp dir opts (ty_of link) edgesv)
                  (CState (drop (List.length edges) ts) ids uu ld fk sha mt git wr out)
  | None => exists ρ' σ', o = OReturn [VErr EGen] ρ' σ' /\ cs_writes σ' = wr /\ cs_out σ' = out
  end.
Proof.
  induction edges as [|[a b] r IH]; intros its g E vs ts HE Hits Hlen o; subst o.
  - destruct its; [|discriminate]. cbn [seq_run cfor_each fmap list_fmap List.length drop]. exists E. rewrite app_nil_r. auto.
  - destruct its as [|[x y] its]; [discriminate|]. cbn [fmap list_fmap snd] in Hits. injection Hits as -> Hits.
    destruct ts as [|t ts]; [cbn in Hlen; lia|]. cbn [List.length] in Hlen.
    rewrite cfor_each_cons. cbv beta.
    change (cbind "edge" (edge_val (a, b)) (cbind "_" x (envL g E evp lp dir opts (ty_of link) edgesv)))
      with (("edge", edge_val (a, b)) :: envL g E evp lp dir opts (ty_of link) edgesv).
    pose proof (body_step link n g E vs evp lp dir opts edgesv a b t ts ids uu ld fk sha mt git wr out HE) as H.
    cbv zeta in H. cbn [seq_run]. destruct (link_ok link g a b).
    + destruct H as [top ->]. cbv iota.
      change (List.length (envL g E evp lp dir opts (ty_of link) edgesv))
        with (List.length (envL (upd_deps link g a b) (slice_of (vs ++ [VEvent (if link then ELink a b depends else EUnlink a b depends)])) evp lp dir opts (ty_of link) edgesv)).
      rewrite crestore_app.
      specialize (IH its (upd_deps link g a b) (slice_of (vs ++ [VEvent (if link then ELink a b depends else EUnlink a b depends)]))
                    (vs ++ [VEvent (if link then ELink a b depends else EUnlink a b depends)]) ts (as_list_slice_of _) Hits ltac:(lia)). cbv zeta in IH.
      destruct (seq_run link (upd_deps link g a b) r) as [[gf evs]|].
      * destruct IH as (E' & HE' & ->). exists E'. split; [|reflexivity].
        rewrite HE'. cbn [fmap list_fmap]. rewrite <- app_assoc. reflexivity.
      * exact IH.
    + destruct H as (ρ' & σ' & -> & Hw & Ho). cbv iota. eauto.
Qed.

Lemma cexec_lock_eq call ρ σ body :
  cexec_stmt call ρ σ (CSLock None "syscall.LOCK_EX" body)
  = match cexec_block call ρ σ body with
    | OReturn [r] ρ1 σ1 => OReturn [r] (crestore (List.length ρ) ρ1) σ1
    | _ => OStuck
    end.
Proof. reflexivity. Qed.
Lemma cexec_range_eq call ρ σ k v e body :
  cexec_stmt call ρ σ (CSRange k v e body)
  = match ceval call ρ σ e with
    | Some (x, σ1) =>
        match range_items x with
        | Some items => cfor_each (λ ρ' σ', cexec_block call ρ' σ' body) k v ρ σ1 items
        | None => OStuck
        end
    | None => OStuck
    end.
Proof. reflexivity. Qed.

Lemma snd_imap_idx (l : list cval) : forall (f : nat -> cval), snd <$> imap (λ i x, (f i, x)) l = l.
Proof. induction l as [|x l IH]; intros f; [reflexivity|]. cbn [imap fmap list_fmap snd]. f_equal. apply (IH (f ∘ S)). Qed.
Lemma as_events_fmap (evs : list event) : as_events (VEvent <$> evs) = Some evs.
Proof. induction evs as [|e evs IH]; cbn [fmap list_fmap as_events]; [reflexivity|]. cbn [fmap list_fmap] in IH. rewrite IH. reflexivity. Qed.

Definition obs (r : option (cval * cstate)) : option (cval * list (list event) * list cval) :=
  match r with Some (v, σ) => Some (v, cs_writes σ, cs_out σ) | None => None end.

Theorem gen_writeLinkEvents_matches_model link n g dir opts edges ts ids uu fk sha mt git :
  List.length edges <= List.length ts ->
  obs (crun (S (S (S n))) gen_cmd_prog "writeLinkEvents"
         [VStr dir; opts; VStr (ty_of link); VList (edge_val <$> edges)]
         (CState ts ids uu (Some g) fk sha mt git [] []))
  = Some (match seq_txn link g edges with
          | Some evs => (VNil, [evs], [])
          | None => (VErr EGen, [], [])
          end).
Proof.
  intros Hlen. rewrite <- seq_run_txn.
  rewrite crun_S, wle_lookup. unfold cexec_fn.
  cbn [cf_params cf_body cbind_params cbind name_eqb ascii_name_eqb bit_eqb andb].
  let b := eval vm_compute in wle_body in change wle_body with b.
  sb. cir_step_simpl. sb. cir_step_simpl. sb. rewrite cexec_lock_eq.
  sb. cir_step_simpl. sb. cir_step_simpl. sb. cir_step_simpl.
  sb. rewrite cexec_range_eq. cir_step_simpl.
  pose proof (link_loop link n ("log:" ++ dir) (dir ++ "/" ++ "lock") dir opts (VList (edge_val <$> edges)) ids uu (Some g)
                fk sha mt git [] [] edges (imap (λ (i : nat) (x : cval), (VInt (Z.of_nat i), x)) (edge_val <$> edges))
                g (VList []) [] ts eq_refl (snd_imap_idx _ _) Hlen) as HL.
  cbv zeta in HL. unfold wle_loop in HL.
  destruct (seq_run link g edges) as [[gf evs]|]; cbn [option_map snd].
  - destruct HL as (E' & HE' & ->). cbv iota.
    repeat (sb; cir_step_simpl). rewrite HE'. cbn [app]. rewrite as_events_fmap. cir_step_simpl.
    repeat (sb; cir_step_simpl). reflexivity.
  - destruct HL as (ρ' & σ' & -> & Hw & Ho). cbv iota. cbn. rewrite Hw, Ho. reflexivity.
Qed.

(** Non-vacuity: a chain closed on itself inside one command is refused as a whole; an open chain is written as a whole. *)
Example gen_writeLinkEvents_nonvacuous :
  let mk i := new_task false i ("u" ++ i) "" "todo" i "" 1%Z in
  let g := Graph (list_to_map [("A", mk "A"); ("B", mk "B"); ("C", mk "C")]) ∅ ∅ in
  seq_txn true g (seq_edges ["A"; "B"; "C"]) = Some [ELink "B" "A" depends; ELink "C" "B" depends]
  /\ seq_txn true g (seq_edges ["A"; "B"; "A"]) = None.
Proof. split; vm_compute; reflexivity. Qed.

Print Assumptions gen_writeLinkEvents_matches_model.
