(** Bridge (compaction): the IR GENERATED from compactEvents (gen/CompactGen.v), run by the
    interpreter of CompactIR.v, emits exactly the model's [compact_events] (theories/Compact.v). *)
From Ergo Require Import Base Text TextFacts Events Replay Compact CompactCore CompactProof.
From ErgoBridge Require Import ReadyIR CompactIR.
From ErgoGen Require Import CompactGen.
Local Open Scope string_scope.
Local Open Scope list_scope.

Ltac expose :=
  repeat match goal with
  | |- context [?p gen_compact] =>
      match p with
      | ci_task_body => idtac | ci_link_body => idtac | ci_fns => idtac | ci_task_var => idtac
      | ci_graph_var => idtac | ci_from_var => idtac | ci_to_var => idtac
      | ci_tasks_from => idtac | ci_links_from => idtac
      end;
      let b := eval vm_compute in (p gen_compact) in change (p gen_compact) with b
  end.

(** ** One task: the block of events emitted for it, for every task record. *)
Theorem gen_compact_task_matches_model : forall t : task,
  interp_compact_task gen_compact t = Some (compact_task t).
Proof.
  intros t. unfold interp_compact_task, compact_task. expose.
  cir_simpl. destruct (t_is_epic t) eqn:Hepic; cir_simpl.
  all: erewrite for_results_total with
         (h := λ r, EResult (t_id t) (r_summary r) (r_path r) (r_sha r) (r_mtime r) (r_git r) (Some (r_at r)));
       [| intros r; eexists; reflexivity ].
  all: cir_simpl; rewrite ?app_nil_r.
  all: unfold created_at, created_state, created_title, created_body, touched, pick_time.
  all: rewrite ?Hepic, ?if_negb; cbn [negb andb app]; reflexivity.
Qed.

(** ** One dependency edge *)
Theorem gen_compact_link_matches_model : forall from to : string,
  interp_compact_link gen_compact from to = Some [ELink from to depends].
Proof. intros. unfold interp_compact_link. expose. cir_simpl. reflexivity. Qed.

(** ** The whole function, in the order the Go loops run *)
Theorem gen_compact_matches_loops : forall g : graph,
  interp_compact gen_compact g
  = Some (List.concat (compact_task <$> go_sorted_tasks g)
          ++ ((λ p, ELink p.1 p.2 depends) <$> go_link_pairs g)).
Proof.
  intros g. unfold interp_compact.
  assert (tasks_from_ok gen_compact && links_from_ok gen_compact = true) as -> by (vm_compute; reflexivity).
  rewrite (concat_mapM_total _ compact_task) by apply gen_compact_task_matches_model.
  rewrite (concat_mapM_total _ (λ p, [ELink p.1 p.2 depends]))
    by (intros p; apply gen_compact_link_matches_model).
  do 2 f_equal. induction (go_link_pairs g) as [|p l IH]; [reflexivity|]. cbn. f_equal. exact IH.
Qed.

(** ** The loops' orders are the model's orders *)

(** sortedTasks sorts the map's values by their ID field, the model sorts the entries by key; they
    agree when every task is stored under its own id ([ids_ok], an invariant of replay: CompactProof). *)
Global Instance id_le_trans : Transitive id_le.
Proof. intros a b c. unfold id_le. apply str_le_trans. Qed.
Global Instance id_le_total : Total id_le.
Proof. intros a b. unfold id_le. apply str_le_total. Qed.

Lemma StronglySorted_fmap_on {A B} (R1 : relation A) (R2 : relation B) (f : A -> B) l :
  (forall a b, a ∈ l -> b ∈ l -> R1 a b -> R2 (f a) (f b)) ->
  StronglySorted R1 l -> StronglySorted R2 (f <$> l).
Proof.
  intros Hmono Hs. induction Hs as [|a l Hs IH Ha]; cbn; constructor.
  - apply IH. intros x y Hx Hy. apply Hmono; right; assumption.
  - apply Forall_fmap, list.Forall_forall. intros y Hy. cbn.
    apply Hmono; [left|right; exact Hy|]. rewrite list.Forall_forall in Ha. apply Ha, Hy.
Qed.

Lemma go_sorted_tasks_model g : ids_ok g -> go_sorted_tasks g = sorted_tasks g.
Proof.
  intros Hids. unfold go_sorted_tasks, sorted_tasks, go_tasks_values.
  set (M := map_to_list (g_tasks g)).
  assert (HM : forall p, p ∈ M -> t_id p.2 = p.1).
  { intros [k t] Hp. apply elem_of_map_to_list in Hp. cbn. apply (Hids _ _ Hp). }
  apply (StronglySorted_unique_key id_le t_id).
  - intros a b. unfold id_le. apply str_le_antisym.
  - rewrite merge_sort_Permutation. rewrite <- list_fmap_compose.
    assert (E : (t_id ∘ snd) <$> M = fst <$> M).
    { clearbody M. induction M as [|p M IH]; [reflexivity|]. cbn. f_equal.
      - apply HM. left.
      - apply IH. intros q Hq. apply HM. right. exact Hq. }
    rewrite E. apply NoDup_fst_map_to_list.
  - apply StronglySorted_merge_sort; apply _.
  - apply (StronglySorted_fmap_on key_le id_le).
    + intros a b Ha Hb. rewrite merge_sort_Permutation in Ha, Hb.
      unfold key_le, id_le. rewrite (HM a Ha), (HM b Hb). tauto.
    + apply StronglySorted_merge_sort; apply _.
  - rewrite !merge_sort_Permutation. reflexivity.
Qed.

(** The nested sorted loops over graph.Deps enumerate the edges in lexicographic order. *)
Global Instance pair_le_total : Total pair_le.
Proof.
  intros [a1 a2] [b1 b2]. unfold pair_le. cbn. rewrite (String.eqb_sym b1 a1).
  destruct (String.eqb_spec a1 b1); [apply str_le_total|apply str_le_total].
Qed.
Global Instance pair_le_antisym : AntiSymm (=) pair_le.
Proof.
  intros [a1 a2] [b1 b2]. unfold pair_le. cbn. rewrite (String.eqb_sym b1 a1).
  destruct (String.eqb_spec a1 b1) as [->|Hne]; intros H1 H2.
  - f_equal. apply str_le_antisym; assumption.
  - exfalso. apply Hne. apply str_le_antisym; assumption.
Qed.
Global Instance pair_le_trans : Transitive pair_le.
Proof.
  intros [a1 a2] [b1 b2] [c1 c2]. unfold pair_le. cbn.
  destruct (String.eqb_spec a1 b1) as [Eab|Hab], (String.eqb_spec b1 c1) as [Ebc|Hbc],
           (String.eqb_spec a1 c1) as [Eac|Hac]; intros H1 H2; subst; try congruence.
  - eapply str_le_trans; eassumption.
  - exfalso. apply Hab. apply str_le_antisym; assumption.
  - eapply str_le_trans; eassumption.
Qed.

Lemma StronglySorted_app_2 {A} (R : relation A) l1 l2 :
  StronglySorted R l1 -> StronglySorted R l2 ->
  (forall x y, x ∈ l1 -> y ∈ l2 -> R x y) -> StronglySorted R (l1 ++ l2).
Proof.
  intros H1 H2 H12. induction H1 as [|a l1 H1 IH Ha]; [exact H2|].
  cbn. constructor.
  - apply IH. intros x y Hx Hy. apply H12; [right; exact Hx|exact Hy].
  - apply Forall_app. split; [exact Ha|].
    apply list.Forall_forall. intros y Hy. apply H12; [left|exact Hy].
Qed.

Lemma pairs_bind_sorted (fs : list string) (tos : string -> list string) :
  StronglySorted str_le fs -> NoDup fs -> (forall f, StronglySorted str_le (tos f)) ->
  StronglySorted pair_le (f ← fs; (λ to, (f, to)) <$> tos f).
Proof.
  intros Hs Hnd Htos. induction Hs as [|f fs Hs IH Hf]; [constructor|].
  apply stdpp.list.NoDup_cons in Hnd as [Hnot Hnd].
  rewrite bind_cons. apply StronglySorted_app_2.
  - apply (StronglySorted_fmap_on str_le pair_le); [|apply Htos].
    intros a b _ _ Hab. unfold pair_le. cbn. rewrite String.eqb_refl. exact Hab.
  - apply IH, Hnd.
  - intros x y Hx Hy. apply elem_of_list_fmap in Hx as (a & -> & _).
    apply elem_of_list_bind in Hy as (f' & Hy & Hf').
    apply elem_of_list_fmap in Hy as (b & -> & _).
    unfold pair_le. cbn. destruct (String.eqb_spec f f') as [->|_]; [contradiction|].
    rewrite list.Forall_forall in Hf. apply Hf, Hf'.
Qed.

Lemma pairs_bind_NoDup (fs : list string) (tos : string -> list string) :
  NoDup fs -> (forall f, NoDup (tos f)) -> NoDup (f ← fs; (λ to, (f, to)) <$> tos f).
Proof.
  intros Hnd Htos. induction Hnd as [|f fs Hnot Hnd IH]; [constructor|].
  rewrite bind_cons. apply stdpp.list.NoDup_app. split; [|split].
  - apply NoDup_fmap_2_strong; [|apply Htos]. intros a b _ _ [= ->]. reflexivity.
  - intros x Hx Hy. apply elem_of_list_fmap in Hx as (a & -> & _).
    apply elem_of_list_bind in Hy as (f' & Hy & Hf').
    apply elem_of_list_fmap in Hy as (b & [= -> ->] & _). contradiction.
  - exact IH.
Qed.

Lemma sort_strings_sorted l : StronglySorted str_le (sort_strings l).
Proof. apply StronglySorted_merge_sort; apply _. Qed.
Lemma sort_strings_elem x l : x ∈ sort_strings l <-> x ∈ l.
Proof. unfold sort_strings. rewrite merge_sort_Permutation. reflexivity. Qed.
Lemma sort_strings_NoDup l : NoDup l -> NoDup (sort_strings l).
Proof. unfold sort_strings. rewrite merge_sort_Permutation. tauto. Qed.

Lemma go_deps_keys_NoDup g f : NoDup (go_deps_keys g f).
Proof.
  unfold go_deps_keys. apply NoDup_fmap_2_strong; [|apply stdpp.list.NoDup_filter, NoDup_elements].
  intros [a1 a2] [b1 b2] Ha Hb. apply elem_of_list_filter in Ha as [Ha _], Hb as [Hb _].
  cbn in *. congruence.
Qed.

Lemma go_link_pairs_model g : go_link_pairs g = sorted_edges g.
Proof.
  unfold sorted_edges.
  apply (StronglySorted_unique pair_le).
  - apply pairs_bind_sorted.
    + apply sort_strings_sorted.
    + apply sort_strings_NoDup, NoDup_elements.
    + intros f. apply sort_strings_sorted.
  - apply StronglySorted_merge_sort; apply _.
  - rewrite merge_sort_Permutation. apply NoDup_Permutation.
    + apply pairs_bind_NoDup; [apply sort_strings_NoDup, NoDup_elements|].
      intros f. apply sort_strings_NoDup, go_deps_keys_NoDup.
    + apply NoDup_elements.
    + intros [a b]. unfold go_link_pairs. rewrite elem_of_list_bind, elem_of_elements. split.
      * intros (f & Hin & _). apply elem_of_list_fmap in Hin as (to & [= -> ->] & Hto).
        unfold go_to_ids in Hto. apply (proj1 (sort_strings_elem _ _)) in Hto. unfold go_deps_keys in Hto.
        apply elem_of_list_fmap in Hto as ([p1 p2] & -> & Hp).
        apply elem_of_list_filter in Hp as [Hp1 Hp]. cbn in Hp1. subst p1.
        apply elem_of_elements in Hp. exact Hp.
      * intros Hab. exists a. split.
        -- apply elem_of_list_fmap. exists b. split; [reflexivity|].
           unfold go_to_ids. apply (proj2 (sort_strings_elem _ _)). unfold go_deps_keys.
           apply elem_of_list_fmap. exists (a, b). split; [reflexivity|].
           apply elem_of_list_filter. split; [reflexivity|]. apply elem_of_elements, Hab.
        -- unfold go_from_ids. apply (proj2 (sort_strings_elem _ _)), elem_of_elements, elem_of_map.
           exists (a, b). split; [reflexivity|exact Hab].
Qed.

(** The two helpers the link loops call have the shape "collect the keys of the map, sort.Strings,
    return them" (recognised syntactically by the translator). *)
Example gen_compact_helpers_ok :
  gen_compact_helpers = [("sortedKeys", "sorted keys"); ("sortedMapKeys", "sorted keys")].
Proof. reflexivity. Qed.

(** ** The whole function against the model *)
Theorem gen_compact_matches_model : forall g : graph,
  ids_ok g -> interp_compact gen_compact g = Some (compact_events g).
Proof.
  intros g Hids. rewrite gen_compact_matches_loops, go_sorted_tasks_model, go_link_pairs_model by exact Hids.
  reflexivity.
Qed.

(** Every graph the model's replay produces stores each task under its own id. *)
Corollary gen_compact_matches_model_wf : forall g : graph,
  graph_wf0 g -> interp_compact gen_compact g = Some (compact_events g).
Proof. intros g H. apply gen_compact_matches_model, graph_wf0_ids, H. Qed.

Print Assumptions gen_compact_task_matches_model.
Print Assumptions gen_compact_link_matches_model.
Print Assumptions gen_compact_matches_loops.
Print Assumptions gen_compact_matches_model.
Print Assumptions gen_compact_matches_model_wf.
