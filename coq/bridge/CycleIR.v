(** CycleIR.v — the reference DFS ([dfs]: what the Go [isReachable] computes, as a fuelled Gallina
    function over the same heap cells and the same iteration oracle as bridge/HeapIR.v) and its
    correctness against the reachability relation of theories/Graphs.v — independent of the
    generated code.  bridge/B_Cycle.v shows that the interpreter of the GENERATED IR equals [dfs]
    and concludes equality with the model's [has_cycle].

    [dfs] is correct for EVERY graph (cycles, self-loops, dangling edges) and every fair oracle;
    the fuel (call depth) it needs is at most the number of not yet visited edge targets + 2. *)
From stdpp Require Import relations.
From Ergo Require Import Base Text Events Replay Ready Compact Path Cmd Graphs.
From ErgoBridge Require Import ReadyIR HeapIR.
From Coq Require Import String.
Local Open Scope string_scope.
Local Open Scope list_scope.

Notation vmap := (gmap string bool).

(** visited[k] of a map[string]bool *)
Definition mget (m : vmap) (k : string) : bool := default false (m !! k).
Definition vis (m : vmap) : gset string := dom (filter (λ kv, kv.2 = true) m).

Lemma elem_of_vis m k : k ∈ vis m <-> m !! k = Some true.
Proof.
  unfold vis. rewrite elem_of_dom. split.
  - intros [x Hx]. apply map_filter_lookup_Some in Hx as [Hx E]. cbn in E. by subst.
  - intros H. exists true. apply map_filter_lookup_Some. done.
Qed.
Lemma vis_insert m k : vis (<[k := true]> m) = {[k]} ∪ vis m.
Proof.
  apply set_eq. intros x. rewrite elem_of_union, elem_of_singleton, !elem_of_vis.
  destruct (decide (x = k)) as [->|Hne].
  - rewrite lookup_insert. tauto.
  - rewrite lookup_insert_ne by done. tauto.
Qed.
Lemma mget_true m k : mget m k = true <-> k ∈ vis m.
Proof.
  rewrite elem_of_vis. unfold mget. destruct (m !! k) as [[]|]; cbn; split; congruence.
Qed.
Lemma mget_false m k : mget m k = false <-> k ∉ vis m.
Proof. rewrite <- mget_true. destruct (mget m k); split; congruence. Qed.
Lemma vis_empty : vis ∅ = ∅.
Proof. apply set_eq. intros x. rewrite elem_of_vis, lookup_empty. set_solver. Qed.

(** The model's search from a single node (the body of [has_cycle]) decides reachability. *)
Lemma reach_fuel_top_spec g start target :
  reach_fuel (S (size (g_deps g))) g [start] [] target = true <-> rtc (edge g) start target.
Proof.
  split.
  - intros (x & Hx & Hr)%reach_fuel_sound. apply elem_of_list_singleton in Hx as ->. done.
  - intros Hr. apply reach_fuel_complete.
    + pose proof (edge_targets_size g).
      assert (size (undiscovered g ([start] ++ [])) <= size (edge_targets g)).
      { apply subseteq_size. unfold undiscovered. set_solver. }
      lia.
    + intros x y Hx. by apply elem_of_nil in Hx.
    + apply not_elem_of_nil.
    + exists start. split; [set_solver|done].
Qed.

Section dfs.
  Context (g : graph) (o : oracle).

  Fixpoint dfs_loop (rec : string -> vmap -> nat -> option (bool * vmap * nat))
      (l : list string) (m : vmap) (t : nat) : option (bool * vmap * nat) :=
    match l with
    | [] => Some (false, m, t)
    | d :: l' => match rec d m t with
                 | Some (true, m', t') => Some (true, m', t')
                 | Some (false, m', t') => dfs_loop rec l' m' t'
                 | None => None
                 end
    end.

  (** [dfs n start target m t]: result, the visited map afterwards, the oracle tick afterwards. *)
  Fixpoint dfs (n : nat) (start target : string) (m : vmap) (t : nat) : option (bool * vmap * nat) :=
    match n with
    | O => None
    | S n' =>
        if String.eqb start target then Some (true, m, t)
        else if mget m start then Some (false, m, t)
        else dfs_loop (λ d, dfs n' d target) (or_keys o t (dep_ids g start))
                      (<[start := true]> m) (S t)
    end.

  (** A path all of whose nodes except possibly the last are unvisited. *)
  Inductive wpath (V : gset string) : string -> string -> Prop :=
  | wpath_refl x : wpath V x x
  | wpath_step x y z : x ∉ V -> edge g x y -> wpath V y z -> wpath V x z.

  Lemma wpath_mono V V' x z : V ⊆ V' -> wpath V' x z -> wpath V x z.
  Proof.
    intros Hs. induction 1 as [|x y z Hx He _ IH]; [constructor|].
    eapply wpath_step; [set_solver|done..].
  Qed.
  Lemma wpath_rtc V x z : wpath V x z -> rtc (edge g) x z.
  Proof. induction 1; [apply rtc_refl|by eapply rtc_l]. Qed.
  Lemma rtc_wpath x z : rtc (edge g) x z -> wpath ∅ x z.
  Proof. induction 1; [constructor|eapply wpath_step; [set_solver|done..]]. Qed.

  (** What a call that answers "no" leaves behind. *)
  Definition closed_from (V V' : gset string) (target : string) : Prop :=
    forall x, x ∈ V' -> x ∉ V -> forall y, edge g x y -> y ≠ target ∧ y ∈ V'.

  Definition dfs_post (V : gset string) (start target : string) (b : bool) (V' : gset string) : Prop :=
    V ⊆ V' ∧
    (if b then wpath V start target
     else start ≠ target ∧ start ∈ V' ∧ closed_from V V' target).

  Context (Hfair : fair o).

  Lemma dfs_spec n : forall start target m t,
    size ((edge_targets g ∪ {[start]}) ∖ vis m) < n ->
    exists b m' t', dfs n start target m t = Some (b, m', t') ∧ dfs_post (vis m) start target b (vis m').
  Proof.
    induction n as [|n IH]; intros start target m t Hsz; [lia|].
    cbn [dfs]. destruct (String.eqb_spec start target) as [->|Hne].
    { exists true, m, t. split; [done|]. split; [done|]. constructor. }
    destruct (mget m start) eqn:Hv.
    { exists false, m, t. split; [done|]. apply mget_true in Hv.
      split; [done|]. split; [done|]. split; [done|]. intros x Hx Hx'. done. }
    apply mget_false in Hv.
    set (m1 := <[start := true]> m).
    assert (Hm1 : vis m1 = {[start]} ∪ vis m) by apply vis_insert.
    (* the loop, over any list of successors of [start] *)
    assert (Hloop : forall l mi ti,
      (forall y, y ∈ l -> edge g start y) ->
      vis m1 ⊆ vis mi ->
      exists b m' t', dfs_loop (λ d, dfs n d target) l mi ti = Some (b, m', t') ∧
        vis mi ⊆ vis m' ∧
        (if b then exists y, edge g start y ∧ wpath (vis m1) y target
         else (forall y, y ∈ l -> y ≠ target ∧ y ∈ vis m') ∧
              (closed_from (vis m1) (vis mi) target -> closed_from (vis m1) (vis m') target))).
    { induction l as [|d l IHl]; intros mi ti Hl Hsub.
      { exists false, mi, ti. split; [done|]. split; [done|]. split; [|done].
        intros y Hy. by apply elem_of_nil in Hy. }
      cbn [dfs_loop].
      destruct (IH d target mi ti) as (b & m' & t' & -> & Hsub' & Hpost).
      { assert (Hd : d ∈ edge_targets g) by (apply edge_targets_spec; exists start; apply Hl; left).
        assert ((edge_targets g ∪ {[d]}) ∖ vis mi ⊂ (edge_targets g ∪ {[start]}) ∖ vis m).
        { split; [set_solver|]. intros Hc. assert (start ∈ (edge_targets g ∪ {[d]}) ∖ vis mi) by set_solver.
          set_solver. }
        apply subset_size in H. lia. }
      destruct b.
      - exists true, m', t'. split; [done|]. split; [done|]. exists d. split; [apply Hl; left|].
        eapply wpath_mono; [exact Hsub|exact Hpost].
      - destruct Hpost as (Hdne & Hdin & Hcl).
        destruct (IHl m' t') as (b & m'' & t'' & -> & Hsub'' & Hrest).
        { intros y Hy. apply Hl. by right. }
        { set_solver. }
        exists b, m'', t''. split; [done|]. split; [set_solver|].
        destruct b; [exact Hrest|]. destruct Hrest as [Hall Hcl'']. split.
        + intros y [->|Hy]%elem_of_cons; [split; [done|set_solver]|by apply Hall].
        + intros Hcli. apply Hcl''. intros x Hx Hx1 y He.
          destruct (decide (x ∈ vis mi)) as [Hxi|Hxi].
          * destruct (Hcli x Hxi Hx1 y He). split; [done|set_solver].
          * by apply (Hcl x Hx Hxi y He). }
    destruct (Hloop (or_keys o t (dep_ids g start)) m1 (S t)) as (b & m' & t' & E & Hsub & Hres).
    { intros y Hy. destruct Hfair as [Hk _]. rewrite (Hk t (dep_ids g start)) in Hy.
      by apply dep_ids_spec. }
    { done. }
    exists b, m', t'. split; [exact E|]. split; [set_solver|].
    destruct b.
    - destruct Hres as (y & He & Hp). eapply wpath_step; [done|done|].
      eapply wpath_mono; [|exact Hp]. set_solver.
    - destruct Hres as [Hall Hcl]. split; [done|]. split; [set_solver|].
      assert (Hcl1 : closed_from (vis m1) (vis m') target).
      { apply Hcl. intros x Hx Hx'. done. }
      intros x Hx Hxm y He. destruct (decide (x = start)) as [->|Hxs].
      + apply Hall. destruct Hfair as [Hk _]. rewrite (Hk t (dep_ids g start)). by apply dep_ids_spec.
      + apply (Hcl1 x Hx); [set_solver|done].
  Qed.

  (** The answer, characterised: there is a path along unvisited nodes. *)
  Theorem dfs_decides n start target m t :
    size ((edge_targets g ∪ {[start]}) ∖ vis m) < n ->
    exists b m' t', dfs n start target m t = Some (b, m', t') ∧ vis m ⊆ vis m' ∧
                    (b = true <-> wpath (vis m) start target).
  Proof.
    intros Hsz. destruct (dfs_spec n start target m t Hsz) as (b & m' & t' & E & Hsub & Hpost).
    exists b, m', t'. split; [done|]. split; [done|]. destruct b; [tauto|].
    split; [discriminate|]. intros Hp. exfalso. destruct Hpost as (Hne & Hin & Hcl).
    clear E Hsz. induction Hp as [x|x y z Hx He Hp IH]; [done|].
    destruct (Hcl x Hin Hx y He) as [Hyz Hy]. apply IH; try done.
  Qed.

  Lemma dfs_fuel_bound start :
    size ((edge_targets g ∪ {[start]}) ∖ vis ∅) < size (g_deps g) + 2.
  Proof.
    pose proof (edge_targets_size g).
    assert (size ((edge_targets g ∪ {[start]}) ∖ vis ∅) <= size (edge_targets g ∪ {[start]})) as H1
      by (apply subseteq_size; set_solver).
    pose proof (size_union_alt (edge_targets g) {[start]}) as H2.
    assert (size ({[start]} ∖ edge_targets g : gset string) <= 1) as H3.
    { etrans; [apply (subseteq_size _ {[start]}); set_solver|]. by rewrite size_singleton. }
    lia.
  Qed.

  (** From an empty visited map: plain reachability, i.e. the model's search. *)
  Theorem dfs_reach n start target t :
    size (g_deps g) + 2 <= n ->
    exists m' t', dfs n start target ∅ t
                  = Some (reach_fuel (S (size (g_deps g))) g [start] [] target, m', t').
  Proof.
    intros Hn. destruct (dfs_decides n start target ∅ t) as (b & m' & t' & E & _ & Hb).
    { pose proof (dfs_fuel_bound start). lia. }
    exists m', t'. rewrite E. do 2 f_equal.
    (* both booleans decide rtc (edge g) start target *)
    pose proof (reach_fuel_top_spec g start target) as Hm.
    rewrite vis_empty in Hb.
    assert (Hw : wpath ∅ start target <-> rtc (edge g) start target)
      by (split; [apply wpath_rtc|apply rtc_wpath]).
    destruct b, (reach_fuel _ g [start] [] target); try done.
    - exfalso. assert (false = true) by tauto. done.
    - exfalso. assert (false = true) by tauto. done.
  Qed.
End dfs.
