(** Bridge: [applySetUpdates] (commands_work.go), regenerated into the mini-Go IR (gen/CmdGen.v), is the
    model's [set_txn] — FOR ALL graphs, ids, update requests, agent identities, clock readings and
    result-file verdicts: it performs exactly one [appendEvents] with the model's events and prints the id,
    or fails without writing or printing anything, exactly when the model aborts.
    Built on [gen_buildSetEvents_matches_model] (B_CmdSet.v) and [gen_buildResultEvent] (B_Cmd.v). *)
From Ergo Require Import Base Text Events Replay Ready Path Cmd.
From ErgoBridge Require Import ReadyIR CmdIR B_Cmd B_CmdSet.
From ErgoGen Require Import CmdGen.
From Coq Require Import String ZArith List Lia.
Import ListNotations.
Local Open Scope string_scope.
Local Open Scope list_scope.

(** ** The update map of a request *)
Definition opt_kv (k : string) (o : option string) : list (string * cval) :=
  match o with Some v => [(k, VStr v)] | None => [] end.
Definition m5 (u : upd) : list (string * cval) :=
  opt_kv "title" (u_title u) ++ opt_kv "body" (u_body u) ++ opt_kv "epic" (u_epic u)
  ++ opt_kv "state" (u_state u) ++ opt_kv "claim" (u_claim u).
Definition set_map (u : upd) : list (string * cval) :=
  m5 u ++ opt_kv "result.path" (u_rpath u) ++ opt_kv "result.summary" (u_rsum u).

Ltac du u := destruct u as [ti bo ep st cl rp rs]; destruct ti, bo, ep, st, cl.

Lemma m5_title u : massoc "title" (m5 u) = VStr <$> u_title u. Proof. du u; reflexivity. Qed.
Lemma m5_body u : massoc "body" (m5 u) = VStr <$> u_body u. Proof. du u; reflexivity. Qed.
Lemma m5_epic u : massoc "epic" (m5 u) = VStr <$> u_epic u. Proof. du u; reflexivity. Qed.
Lemma m5_state u : massoc "state" (m5 u) = VStr <$> u_state u. Proof. du u; reflexivity. Qed.
Lemma m5_claim u : massoc "claim" (m5 u) = VStr <$> u_claim u. Proof. du u; reflexivity. Qed.
Lemma m5_nodup u : NoDup (fst <$> m5 u).
Proof. du u; cbn; repeat constructor; cbn; intuition discriminate. Qed.
Lemma m5_other u k :
  existsb (name_eqb k) ["title"; "body"; "epic"; "claim"; "state"] = false -> massoc k (m5 u) = None.
Proof.
  cbn [existsb]. intros H. apply Bool.orb_false_iff in H as [H1 H]. apply Bool.orb_false_iff in H as [H2 H].
  apply Bool.orb_false_iff in H as [H3 H]. apply Bool.orb_false_iff in H as [H4 H]. apply Bool.orb_false_iff in H as [H5 _].
  du u; cbn [m5 opt_kv app massoc u_title u_body u_epic u_state u_claim]; rewrite ?H1, ?H2, ?H3, ?H4, ?H5; reflexivity.
Qed.
Lemma m5_len u : (Z.of_nat (List.length (m5 u)) =? 0)%Z = upd_nonresult_empty u.
Proof. du u; reflexivity. Qed.
Lemma mdelete_m5 k u :
  existsb (name_eqb k) ["title"; "body"; "epic"; "claim"; "state"] = false -> forall r, mdelete k (m5 u ++ r) = m5 u ++ mdelete k r.
Proof.
  cbn [existsb]. intros H r. apply Bool.orb_false_iff in H as [H1 H]. apply Bool.orb_false_iff in H as [H2 H].
  apply Bool.orb_false_iff in H as [H3 H]. apply Bool.orb_false_iff in H as [H4 H]. apply Bool.orb_false_iff in H as [H5 _].
  du u; cbn [m5 opt_kv app mdelete u_title u_body u_epic u_state u_claim]; rewrite ?H1, ?H2, ?H3, ?H4, ?H5; reflexivity.
Qed.
Lemma massoc_app k a b : massoc k (a ++ b) = match massoc k a with Some v => Some v | None => massoc k b end.
Proof. induction a as [|[k' v] a IH]; cbn [app massoc]; [reflexivity|]. destruct (name_eqb k k'); [reflexivity|apply IH]. Qed.

Lemma all_none_nil (l : list (string * cval)) : (forall k, massoc k l = None) -> l = [].
Proof.
  destruct l as [|[k v] l]; [reflexivity|]. intros H. specialize (H k). cbn [massoc] in H.
  rewrite name_eqb_is_eqb, String.eqb_refl in H. discriminate.
Qed.

Lemma bse_rest_m5 t u agent : bse_rest t u agent (m5 u) = [].
Proof.
  apply all_none_nil. intros k.
  rewrite (bse_rest_lookup t u agent (m5 u) k (m5_nodup u) (m5_title u) (m5_body u) (m5_epic u) (m5_claim u) (m5_state u)).
  destruct (existsb (name_eqb k) ["title"; "body"; "epic"; "claim"; "state"]) eqn:E; [reflexivity|].
  apply m5_other. exact E.
Qed.

Lemma as_events_fmap (evs : list event) : as_events (VEvent <$> evs) = Some evs.
Proof. induction evs as [|e evs IH]; cbn [fmap list_fmap as_events]; [reflexivity|]. cbn [fmap list_fmap] in IH. rewrite IH. reflexivity. Qed.

(** ** The generated body, its lock section, and the cut after the result part *)
Definition asu_body : cblock :=
  Eval vm_compute in match lookup "applySetUpdates" gen_cmd_prog with Some fd => cf_body fd | None => CBNil end.
Lemma asu_lookup :
  lookup "applySetUpdates" gen_cmd_prog = Some (CFn ["dir"; "opts"; "id"; "updates"; "agentID"; "quiet"] asu_body).
Proof. vm_compute. reflexivity. Qed.
Definition lock_body : cblock :=
  Eval vm_compute in match cnth 7 asu_body with CSLock _ _ b => b | _ => CBNil end.
Lemma asu_split :
  asu_body = CBCons (cnth 0 asu_body) (CBCons (cnth 1 asu_body) (CBCons (cnth 2 asu_body) (CBCons (cnth 3 asu_body)
             (CBCons (cnth 4 asu_body) (CBCons (cnth 5 asu_body) (CBCons (cnth 6 asu_body)
             (CBCons (CSLock None "syscall.LOCK_EX" lock_body) CBNil))))))).
Proof. reflexivity. Qed.
Lemma lock_split :
  lock_body = CBCons (cnth 0 lock_body) (CBCons (cnth 1 lock_body) (CBCons (cnth 2 lock_body) (CBCons (cnth 3 lock_body)
              (cdrop 4 lock_body)))).
Proof. reflexivity. Qed.

(** the model's transaction after the result part *)
Definition set_fields (e : Cmd.env) (i : string) (u : upd) (agent : string) (g : graph) : option (list event) :=
  if tombed g i then None else
  match g_tasks g !! i with
  | None => None
  | Some t =>
      if (t_is_epic t && (Cmd.is_some (u_state u) || Cmd.is_some (u_claim u)))%bool then None
      else
        let epic_ok :=
          match u_epic u with
          | Some ep =>
              if (String.eqb ep "" || t_is_epic t)%bool then true
              else match g_tasks g !! ep with Some et => t_is_epic et | None => false end
          | None => true
          end in
        if negb epic_ok then None
        else build_set_events i t u agent (e_now e)
  end.

Definition oobs (o : coutcome) : option (cval * list (list event) * list cval) :=
  match o with OReturn [v] _ σ => Some (v, cs_writes σ, cs_out σ) | _ => None end.

Lemma as_events_app_fmap (a b : list event) : as_events ((VEvent <$> a) ++ (VEvent <$> b)) = Some (a ++ b).
Proof. rewrite <- fmap_app. apply as_events_fmap. Qed.

Notation envF RE g hr hs RS hp RP rd ep lp dir opts i u agent :=
  [("resultEvents", RE); ("err", VNil); ("graph", VGraph g); ("hasResult", VBool hr); ("hasSummary", VBool hs);
   ("resultSummary", RS); ("hasPath", VBool hp); ("resultPath", RP); ("repoDir", VStr rd); ("eventsPath", VStr ep);
   ("lockPath", VStr lp); ("dir", VStr dir); ("opts", opts); ("id", VStr i); ("updates", VMap (m5 u));
   ("agentID", VStr agent); ("quiet", VBool false)] (only parsing).

Ltac go :=
  repeat first [ step_block; cir_step_simpl
               | progress (rewrite ?B_Cmd.gen_isEpic_task, ?as_list_slice_of); cir_step_simpl ].

Lemma zgt00 : (0 <? 0)%Z = false. Proof. reflexivity. Qed.

Lemma tail_bse n (e : Cmd.env) g i t u agent evr hr hs RS hp RP rd ep lp dir opts ids uu fk sha mt git :
  oobs (cexec_block (crun (S (S n)) gen_cmd_prog)
          (("ok", VBool true) :: ("task", VTask t) :: envF (slice_of (VEvent <$> evr)) g hr hs RS hp RP rd ep lp dir opts i u agent)
          (CState [e_now e] ids uu (Some g) fk sha mt git [] []) (cdrop 9 lock_body))
  = Some (match build_set_events i t u agent (e_now e) with
          | Some evs => (VNil, [evr ++ evs], [VStr i])
          | None => (VErr EGen, [], [])
          end).
Proof.
  let b := eval vm_compute in (cdrop 9 lock_body) in change (cdrop 9 lock_body) with b.
  go.
  rewrite (gen_buildSetEvents_matches_model n i t (m5 u) u agent (e_now e) _ (m5_nodup u) (m5_title u) (m5_body u) (m5_epic u) (m5_claim u) (m5_state u)).
  rewrite bse_rest_m5.
  destruct (build_set_events i t u agent (e_now e)) as [evs|]; cir_step_simpl; [|reflexivity].
  go. change (0 <? Z.of_nat 0)%Z with false. cir_step_simpl. go.
  rewrite ?as_list_slice_of. cir_step_simpl.
  rewrite ?as_events_app_fmap. cir_step_simpl. go.
  reflexivity.
Qed.

Lemma lock_split2 :
  cdrop 4 lock_body = CBCons (cnth 4 lock_body) (CBCons (cnth 5 lock_body) (CBCons (cnth 6 lock_body) (CBCons (cnth 7 lock_body)
                      (CBCons (cnth 8 lock_body) (cdrop 9 lock_body))))).
Proof. reflexivity. Qed.

Lemma field_part n (e : Cmd.env) g i u agent evr hr hs RS hp RP rd ep lp dir opts ids uu fk sha mt git :
  oobs (cexec_block (crun (S (S n)) gen_cmd_prog)
          (envF (slice_of (VEvent <$> evr)) g hr hs RS hp RP rd ep lp dir opts i u agent)
          (CState [e_now e] ids uu (Some g) fk sha mt git [] []) (cdrop 4 lock_body))
  = Some (match set_fields e i u agent g with
          | Some evs => (VNil, [evr ++ evs], [VStr i])
          | None => (VErr EGen, [], [])
          end).
Proof.
  unfold set_fields. rewrite lock_split2.
  set (K := cdrop 9 lock_body).
  let s4 := eval vm_compute in (cnth 4 lock_body) in change (cnth 4 lock_body) with s4.
  let s5 := eval vm_compute in (cnth 5 lock_body) in change (cnth 5 lock_body) with s5.
  let s6 := eval vm_compute in (cnth 6 lock_body) in change (cnth 6 lock_body) with s6.
  let s7 := eval vm_compute in (cnth 7 lock_body) in change (cnth 7 lock_body) with s7.
  let s8 := eval vm_compute in (cnth 8 lock_body) in change (cnth 8 lock_body) with s8.
  go. destruct (tombed g i); cir_step_simpl.
  { rewrite gen_prunedErr. reflexivity. }
  go. destruct (g_tasks g !! i) as [t|]; cir_step_simpl; [|reflexivity].
  go.
  destruct (t_is_epic t) eqn:Hep; cir_step_simpl.
  - (* an epic: neither state nor claim; the assignment test does not apply to epics *)
    rewrite m5_state. destruct (u_state u) as [s0|] eqn:Es; cbn [fmap option_fmap option_map Cmd.is_some orb andb]; cir_step_simpl; [reflexivity|].
    rewrite m5_claim. destruct (u_claim u) as [c0|] eqn:Ec; cbn [fmap option_fmap option_map Cmd.is_some orb andb]; cir_step_simpl; [reflexivity|].
    go. rewrite m5_epic.
    destruct (u_epic u) as [ep0|] eqn:Eep; cbn [fmap option_fmap option_map]; cir_step_simpl.
    + destruct (String.eqb ep0 ""); cbn [negb orb]; cir_step_simpl; rewrite ?B_Cmd.gen_isEpic_task; cir_step_simpl; rewrite ?Hep; cir_step_simpl.
      all: rewrite ?Bool.orb_true_r; cbn [negb]; subst K; apply tail_bse.
    + subst K. apply tail_bse.
  - (* a task *)
    go. rewrite m5_epic.
    destruct (u_epic u) as [ep0|] eqn:Eep; cbn [fmap option_fmap option_map andb]; cir_step_simpl.
    2:{ subst K. apply tail_bse. }
    destruct (String.eqb ep0 ""); cbn [negb orb]; cir_step_simpl.
    { subst K. apply tail_bse. }
    rewrite B_Cmd.gen_isEpic_task. cir_step_simpl. rewrite Hep. cir_step_simpl.
    destruct (g_tasks g !! ep0) as [et|]; cir_step_simpl; [|reflexivity].
    destruct (t_is_epic et); cbn [negb]; cir_step_simpl; [|reflexivity].
    subst K. apply tail_bse.
Qed.

(** ** [set_txn] = the result part, then [set_fields] *)
Lemma set_txn_split e i u agent g :
  set_txn e i u agent g
  = match result_req u with
    | None => None
    | Some rq =>
        match (match rq with
               | Some (p, s) => match build_result_event e g i s p with Some ev => Some [ev] | None => None end
               | None => Some [] end) with
        | None => None
        | Some ev_res =>
            if (Cmd.is_some rq && upd_nonresult_empty u)%bool then Some ev_res
            else match set_fields e i u agent g with Some evs => Some (ev_res ++ evs) | None => None end
        end
    end.
Proof.
  unfold set_txn, set_fields. destruct (result_req u) as [rq|]; [|reflexivity].
  destruct (match rq with Some (p, s) => _ | None => _ end) as [ev_res|]; [|reflexivity].
  destruct (Cmd.is_some rq && upd_nonresult_empty u)%bool; [reflexivity|].
  destruct (tombed g i); [reflexivity|]. destruct (g_tasks g !! i) as [t|]; [|reflexivity].
  destruct (t_is_epic t && (Cmd.is_some (u_state u) || Cmd.is_some (u_claim u)))%bool; [reflexivity|].
  destruct (negb _); [reflexivity|].
  destruct (build_set_events i t u agent (e_now e)); reflexivity.
Qed.

Lemma oobs_inv o v w p : oobs o = Some (v, w, p) -> exists ρ σ, o = OReturn [v] ρ σ /\ cs_writes σ = w /\ cs_out σ = p.
Proof.
  destruct o as [| vs ρ σ | |]; cbn [oobs]; try discriminate.
  destruct vs as [|x [|y vs]]; try discriminate. intros H. injection H as -> <- <-. eauto.
Qed.

Definition obs (r : option (cval * cstate)) : option (cval * list (list event) * list cval) :=
  match r with Some (v, σ) => Some (v, cs_writes σ, cs_out σ) | None => None end.
Definition set_clock (e : Cmd.env) (u : upd) : list time :=
  match u_rpath u, u_rsum u with Some _, Some _ => [e_now_result e; e_now e] | _, _ => [e_now e] end.

Lemma look_res u k r :
  existsb (name_eqb k) ["title"; "body"; "epic"; "claim"; "state"] = false ->
  massoc k (m5 u ++ r) = massoc k r.
Proof. intros H. rewrite massoc_app, (m5_other u k H). reflexivity. Qed.

Lemma cexec_lock_eq call ρ σ body :
  cexec_stmt call ρ σ (CSLock None "syscall.LOCK_EX" body)
  = match cexec_block call ρ σ body with
    | OReturn [r] ρ1 σ1 => OReturn [r] (crestore (List.length ρ) ρ1) σ1
    | _ => OStuck
    end.
Proof. reflexivity. Qed.

Ltac go2 :=
  repeat first [ step_block; rewrite ?cexec_lock_eq; cir_step_simpl
               | progress (rewrite ?look_res by reflexivity); cir_step_simpl
               | progress (rewrite ?B_Cmd.gen_isEpic_task, ?as_list_slice_of); cir_step_simpl ].

Ltac open_body :=
  rewrite crun_S, asu_lookup; unfold cexec_fn;
  cbn [cf_params cf_body cbind_params cbind name_eqb ascii_name_eqb bit_eqb andb];
  rewrite asu_split, lock_split;
  set (K := cdrop 4 lock_body);
  repeat match goal with
         | |- context [cnth ?k asu_body] => let s := eval vm_compute in (cnth k asu_body) in change (cnth k asu_body) with s
         | |- context [cnth ?k lock_body] => let s := eval vm_compute in (cnth k lock_body) in change (cnth k lock_body) with s
         end;
  unfold env_state.

Theorem gen_applySetUpdates_matches_model n e g dir opts i u agent :
  obs (crun (S (S (S n))) gen_cmd_prog "applySetUpdates"
         [VStr dir; opts; VStr i; VMap (set_map u); VStr agent; VBool false] (env_state e (set_clock e u) (Some g) [] []))
  = Some (match set_txn e i u agent g with
          | Some evs => (VNil, [evs], [VStr i])
          | None => (VErr EGen, [], [])
          end).
Proof.
  rewrite set_txn_split. unfold set_map, set_clock, result_req.
  destruct (u_rpath u) as [rp|] eqn:Erp, (u_rsum u) as [rs|] eqn:Ers; cbn [opt_kv app Cmd.is_some andb].
  - (* a result *)
    open_body. go2.
    pose proof (gen_buildResultEvent n e g ("dir:" ++ dir) i rs rp [e_now e] (Some g) [] []) as H;
      unfold env_state in H; rewrite H; clear H.
    destruct (build_result_event e g i rs rp) as [ev|] eqn:Ebr; cir_step_simpl; [|reflexivity].
    go2. rewrite !mdelete_m5 by reflexivity. cbn [mdelete name_eqb ascii_name_eqb bit_eqb andb]. rewrite app_nil_r.
    cir_step_simpl. go2. rewrite m5_len.
    destruct (upd_nonresult_empty u) eqn:Ene; cir_step_simpl.
    { go2. reflexivity. }
    go2.
    pose proof (field_part n e g i u agent [ev] true true (VStr rs) true (VStr rp) ("dir:" ++ dir) ("log:" ++ dir)
                  (dir ++ "/" ++ "lock") dir opts (e_ids e) (e_uuids e) (e_fkind e) (e_sha e) (e_mtime e) (e_git e)) as HF.
    fold K in HF. cbn [fmap list_fmap slice_of] in HF.
    destruct (set_fields e i u agent g) as [evs|];
      destruct (oobs_inv _ _ _ _ HF) as (ρ' & σ' & EK & Hw & Ho); rewrite EK; cbn; rewrite Hw, Ho; reflexivity.
  - (* result.path without result.summary *)
    open_body. go2. reflexivity.
  - (* result.summary without result.path *)
    open_body. go2. reflexivity.
  - (* no result *)
    open_body. go2.
    pose proof (field_part n e g i u agent [] false false VNil false VNil ("dir:" ++ dir) ("log:" ++ dir)
                  (dir ++ "/" ++ "lock") dir opts (e_ids e) (e_uuids e) (e_fkind e) (e_sha e) (e_mtime e) (e_git e)) as HF.
    fold K in HF. cbn [fmap list_fmap slice_of app] in HF. rewrite app_nil_r.
    destruct (set_fields e i u agent g) as [evs|];
      destruct (oobs_inv _ _ _ _ HF) as (ρ' & σ' & EK & Hw & Ho); rewrite EK; cbn; rewrite Hw, Ho; reflexivity.
Qed.

(** Non-vacuity: a concrete accepted request (state + result on a live task). *)
Example gen_applySetUpdates_nonvacuous :
  let t := new_task false "T1" "uu" "" "todo" "title" "body" 1%Z in
  let g := Graph {[ "T1" := t ]} ∅ ∅ in
  let e := Env [] [] 5%Z 7%Z [] FRegular "sha" "mt" "git" in
  set_txn e "T1" (Upd None None None (Some "done") None (Some "out/r.txt") (Some "ok")) "zed" g
  = Some [EResult "T1" "ok" "out/r.txt" "sha" "mt" "git" (Some 7%Z); EState "T1" "done" (Some 5%Z)].
Proof. vm_compute. reflexivity. Qed.

Print Assumptions gen_applySetUpdates_matches_model.
