(** Bridge (replay): graph.go's [replayEvents] / [applyTombstone], translated statement by statement into
    the IR of bridge/ReplayIR.v (gen/ReplayGen.v, regenerated from the Go source on every check), denote —
    for ALL graphs and ALL events — the model's [apply_event] / [apply_tombstone] / [replay].

    The generated tables are closed terms; each switch case is executed symbolically, one IR statement at a
    time ([run1]), splitting on exactly the tests the Go code performs (tombstoned? known task? stamp
    parses? state clears the claim? link type?). *)
From Ergo Require Import Base Text Events Replay TextFacts.
From ErgoBridge Require Import ReplayIR.
From ErgoGen Require Import ReplayGen.
Local Open Scope string_scope.
Local Arguments tombed : simpl never.
Local Arguments max_time : simpl never.
Local Arguments zero_time : simpl never.

(** * Map / set facts relating the interpreter's primitives to the model's operations *)

Lemma upd_task_put g i f t : g_tasks g !! i = Some t -> upd_task g i f = put_task g i (f t).
Proof.
  intros Hl. unfold upd_task, put_task. f_equal. apply map_eq. intros j.
  destruct (decide (i = j)) as [->|Hne].
  - rewrite lookup_alter, lookup_insert, Hl. reflexivity.
  - rewrite lookup_alter_ne, lookup_insert_ne by exact Hne. reflexivity.
Qed.

Lemma upd_task_none g i f : g_tasks g !! i = None -> upd_task g i f = g.
Proof.
  intros Hl. destruct g as [ts ds tb]. unfold upd_task. cbn in *. f_equal. apply map_eq. intros j.
  destruct (decide (i = j)) as [->|Hne].
  - rewrite lookup_alter, Hl. reflexivity.
  - rewrite lookup_alter_ne by exact Hne. reflexivity.
Qed.

Lemma tomb_prims g i :
  drop_task (drop_deps_to (drop_deps_from (set_tomb g i) i) i) i = apply_tombstone g i.
Proof.
  unfold drop_task, drop_deps_to, drop_deps_from, set_tomb, apply_tombstone. cbn. f_equal.
  apply set_eq. intros p. rewrite !elem_of_filter. tauto.
Qed.

(** * applyTombstone *)

Theorem tombstone_matches_model :
  forall (g : graph) (i agent : string) (at_ : time),
    run_tombstone gen_tombstone g i agent at_ = Some (apply_tombstone g i).
Proof.
  intros g i agent at_. unfold run_tombstone. cbn. f_equal. apply tomb_prims.
Qed.

Corollary tombstone_matches_model_total :
  forall (g : graph) (i agent : string) (at_ : time),
    interp_tombstone gen_tombstone g i agent at_ = apply_tombstone g i.
Proof. intros g i agent at_. unfold interp_tombstone. rewrite tombstone_matches_model. reflexivity. Qed.

(** * The switch, case by case *)

Lemma stmts_cons tomb e st rest s :
  interp_stmts tomb e (st :: rest) s =
  match interp_stmt tomb e st s with
  | ONext s' => interp_stmts tomb e rest s'
  | OSkip s' => flush s'
  | OFail er => IDone (Err er)
  | OStuck w => IStuck w
  end.
Proof. reflexivity. Qed.

Lemma run_event_case cases tomb g e ty c :
  ev_type e = Some ty -> find (λ c, mem_str ty (fst c)) cases = Some c ->
  run_event cases tomb g e = interp_stmts tomb e (snd c) (init_ist g).
Proof.
  intros Hty Hfind. unfold run_event, interp_case.
  destruct e; try discriminate Hty; rewrite Hty, Hfind; reflexivity.
Qed.

(** split on the test the statement just executed is waiting for *)
Ltac case_head :=
  lazymatch goal with
  | |- context [String.eqb ?a ?b] =>
      is_var a; let H := fresh "Heqb" in destruct (String.eqb a b) eqn:H; cbn [orb negb]
  | |- match (if tombed ?g ?i then _ else _) with _ => _ end = _ =>
      let H := fresh "Htomb" in destruct (tombed g i) eqn:H
  | |- match (match task_at ?g ?i with _ => _ end) with _ => _ end = _ =>
      let H := fresh "Hat" in destruct (task_at g i) eqn:H
  | |- match (match ?x with _ => _ end) with _ => _ end = _ => is_var x; destruct x
  end.

(** execute one IR statement (or the fall-through / continue at the end) *)
Ltac run1 :=
  lazymatch goal with
  | |- interp_stmts ?tomb ?e (?st :: ?rest) ?s = _ =>
      rewrite (stmts_cons tomb e st rest s);
      let o := eval cbn in (interp_stmt tomb e st s) in
      change (interp_stmt tomb e st s) with o;
      repeat case_head; cbv beta iota
  | |- interp_stmts ?tomb ?e [] ?s = _ =>
      let o := eval cbn in (flush s) in change (interp_stmts tomb e [] s) with o
  | |- flush ?s = _ => let o := eval cbn in (flush s) in change (flush s) with o
  end.

Ltac start := erewrite run_event_case; [| reflexivity | lazy; reflexivity]; cbn [snd init_ist].

(** compare the computed result with the model's clause for the same event, under the same tests *)
Ltac finish :=
  f_equal; cbn [apply_event]; unfold on_item, task_at, depends in *;
  repeat match goal with H : tombed _ _ = _ |- _ => rewrite H end;
  repeat match goal with H : g_tasks _ !! _ = _ |- _ => rewrite H end;
  repeat match goal with H : String.eqb _ _ = _ |- _ => rewrite H end;
  cbn [orb negb];
  first
    [ reflexivity
    | erewrite upd_task_put by eassumption;
      unfold set_state, set_claim, set_unclaim, set_title, set_body, set_epic, add_result, clears_claim;
      repeat match goal with H : String.eqb _ _ = _ |- _ => rewrite H end;
      reflexivity
    | rewrite upd_task_none by assumption; reflexivity
    | rewrite tomb_prims; reflexivity ].

Theorem replay_cases_never_stuck :
  forall (g : graph) (e : event),
    run_event gen_replay_cases gen_tombstone g e = IDone (apply_event g e).
Proof.
  intros g e.
  destruct e as [ie i u ep st ti b at_|i st at_|i ag at_|i|a b ty|a b ty|i ti at_|i b at_|i ep at_
                |i ag at_|i su pa sha mt gi at_| |].
  1: destruct ie.
  1-12: start; repeat run1; finish.
  - (* EBad: every case starts by decoding its payload *) reflexivity.
  - (* EOther *) reflexivity.
Qed.

Theorem replay_cases_match_model :
  forall (g : graph) (e : event),
    interp_event gen_replay_cases gen_tombstone g e = apply_event g e.
Proof. intros g e. unfold interp_event. rewrite replay_cases_never_stuck. reflexivity. Qed.

(** The case labels are exactly the event types the model's constructors stand for: every other type has
    no case (and the switch has no default clause, or [PLoopSwitch] would not have been emitted), which is
    the model's [EOther => Ok g]. *)
Theorem replay_case_labels_match_model : case_labels_ok gen_replay_cases = true.
Proof. vm_compute. reflexivity. Qed.

(** * The whole function: init, loop, RDeps, Task.Deps / Task.RDeps, migration, return *)

Lemma run_events_model es g :
  run_events gen_replay_cases gen_tombstone es g = IDone (foldM apply_event es g).
Proof.
  revert g. induction es as [|e es IH]; intros g; cbn [run_events foldM]; [reflexivity|].
  rewrite replay_cases_never_stuck. destruct (apply_event g e) as [g'|er]; [apply IH|reflexivity].
Qed.

Lemma sort_strings_perm l1 l2 : l1 ≡ₚ l2 -> sort_strings l1 = sort_strings l2.
Proof.
  intros E. unfold sort_strings.
  apply (Sorted_unique str_le); try apply Sorted_merge_sort; try apply _.
  rewrite !merge_sort_Permutation. exact E.
Qed.

(** sortedKeys(graph.RDeps[i]) with RDeps built by the double loop = the model's derived [rdeps_of] *)
Lemma keys_at_swapped (D : gset (string * string)) i :
  keys_at (∅ ∪ set_map swap_pair D) i = sort_strings (fst <$> filter (λ p, p.2 = i) (elements D)).
Proof.
  unfold keys_at. apply sort_strings_perm. rewrite (left_id_L ∅ (∪)).
  apply NoDup_Permutation.
  - apply NoDup_fmap_2_strong; [|apply stdpp.list.NoDup_filter, NoDup_elements].
    intros [a b] [c d] Hab Hcd Heq.
    apply elem_of_list_filter in Hab as [Ha _]. apply elem_of_list_filter in Hcd as [Hc _].
    cbn in *. congruence.
  - apply NoDup_fmap_2_strong; [|apply stdpp.list.NoDup_filter, NoDup_elements].
    intros [a b] [c d] Hab Hcd Heq.
    apply elem_of_list_filter in Hab as [Hb _]. apply elem_of_list_filter in Hcd as [Hd _].
    cbn in *. congruence.
  - intros x. rewrite !elem_of_list_fmap. split.
    + intros ([a b] & -> & Hin). apply elem_of_list_filter in Hin as [Ha Hin]. cbn in Ha.
      apply elem_of_elements, elem_of_map in Hin as ([c d] & Heq & Hcd).
      unfold swap_pair in Heq. cbn in Heq. injection Heq as Hfst Hsnd. rewrite Hfst in Ha.
      exists (c, d). split; [exact Hsnd|]. apply elem_of_list_filter. split; [exact Ha|].
      apply elem_of_elements. exact Hcd.
    + intros ([a b] & -> & Hin). apply elem_of_list_filter in Hin as [Hb Hin]. cbn in Hb.
      apply elem_of_elements in Hin.
      exists (b, a). split; [reflexivity|]. apply elem_of_list_filter. split; [exact Hb|].
      apply elem_of_elements, elem_of_map. exists (a, b). split; [reflexivity|exact Hin].
Qed.

Theorem replay_events_matches_model :
  forall es : list event,
    match run_replay gen_replay_frame gen_replay_cases gen_tombstone es with
    | FOk g deps rdeps => replay es = Ok g /\ forall i, deps i = deps_of g i /\ rdeps i = rdeps_of g i
    | FErr er => replay es = Err er
    | FStuck _ => False
    end.
Proof.
  intros es. unfold run_replay, replay, replay_raw, replay_from.
  cbn -[run_events finalize keys_at set_map].
  rewrite run_events_model.
  destruct (foldM apply_event es empty_graph) as [g|er]; cbn -[finalize keys_at set_map]; [|reflexivity].
  split; [reflexivity|]. intros i. split.
  - reflexivity.
  - rewrite keys_at_swapped. reflexivity.
Qed.

(** The helpers the IR treats as primitives ([maxTime] = [max_time], [parseTime] failing = [None],
    [sortedKeys] = [sort_strings] of the keys) are pinned by source text: a change there has to be looked at. *)
Theorem replay_prims_pinned :
  gen_replay_prims =
  [("maxTime", "func maxTime(current, next time.Time) time.Time { if next.After(current) { return next } return current }");
   ("parseTime", "func parseTime(value string) (time.Time, error) { return time.Parse(time.RFC3339Nano, value) }");
   ("sortedKeys", "func sortedKeys(items map[string]struct{}) []string { if len(items) == 0 { return nil } keys := make([]string, 0, len(items)) for key := range items { keys = append(keys, key) } sort.Strings(keys) return keys }")].
Proof. reflexivity. Qed.

Print Assumptions tombstone_matches_model.
Print Assumptions replay_cases_never_stuck.
Print Assumptions replay_cases_match_model.
Print Assumptions replay_case_labels_match_model.
Print Assumptions replay_events_matches_model.
Print Assumptions replay_prims_pinned.
