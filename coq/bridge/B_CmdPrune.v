(** Bridge: [runPrune] (prune.go; behind `prune` and `prune --yes`), regenerated into the mini-Go IR
    (gen/CmdGen.v), is the model's prune transaction — FOR ALL graphs, agent identities and clock readings:
    the reported ids are [selectPruneTargets] of the loaded graph in both modes (the dry run and the real run
    compute the same plan: "dry = apply"); the dry run writes nothing; the real run writes, in ONE
    [appendEvents], one tombstone per reported id, in that order, all stamped with the one clock reading, and
    writes nothing at all when there is nothing to prune.  ([selectPruneTargets] itself is tied to the model's
    [prune_targets] by B_Prune.v.) *)
From Ergo Require Import Base Text Events Replay Ready Path Cmd.
From ErgoBridge Require Import ReadyIR CmdIR B_Cmd B_CmdSet.
From ErgoGen Require Import CmdGen.
From Coq Require Import String ZArith List Lia.
Import ListNotations.
Local Open Scope string_scope.
Local Open Scope list_scope.

Ltac sb1 :=
  match goal with
  | |- context C [cexec_block ?call ?ρ ?σ (CBCons ?s ?r)] =>
      let t := constr:(match cexec_stmt call ρ σ s with ONormal ρ1 σ1 => cexec_block call ρ1 σ1 r | o => o end) in
      let G := context C [t] in change G
  end.
Ltac sb0 :=
  match goal with
  | |- context C [cexec_block ?call ?ρ ?σ CBNil] =>
      let G := context C [ONormal ρ σ] in change G
  end.
Ltac sb := first [sb1 | sb0].

Lemma cexec_range_eq call ρ σ k v e body :
  cexec_stmt call ρ σ (CSRange k v e body)
  = match ceval call ρ σ e with
    | Some (x, σ1) =>
        match range_items x with
        | Some items => cfor_each (λ ρ' σ', cexec_block call ρ' σ' body) k v ρ σ1 items
        | None => OStuck
        end
    | None => OStuck
    end.
Proof. reflexivity. Qed.
Lemma cexec_lock_dst_eq call ρ σ vb body :
  cexec_stmt call ρ σ (CSLock (Some vb) "syscall.LOCK_EX" body)
  = match cexec_block call ρ σ body with
    | OReturn [r] ρ1 σ1 =>
        match cassign vb r (crestore (List.length ρ) ρ1) with Some ρ3 => ONormal ρ3 σ1 | None => OStuck end
    | _ => OStuck
    end.
Proof. reflexivity. Qed.
Lemma cfor_each_cons f k v ρ σ x y r :
  cfor_each f k v ρ σ ((x, y) :: r)
  = match f (cbind v y (cbind k x ρ)) σ with
    | ONormal ρ' σ' | OContinue ρ' σ' => cfor_each f k v (crestore (List.length ρ) ρ') σ' r
    | OReturn vs ρ' σ' => OReturn vs (crestore (List.length ρ) ρ') σ'
    | OStuck => OStuck
    end.
Proof. reflexivity. Qed.
Lemma crestore_app (top l : cenv) : crestore (List.length l) (top ++ l) = l.
Proof.
  unfold crestore. rewrite app_length. replace (List.length top + List.length l - List.length l) with (List.length top) by lia.
  induction top as [|x top IH]; [reflexivity|exact IH].
Qed.

Ltac go := repeat first [ sb; rewrite ?cexec_range_eq, ?cexec_lock_dst_eq; cir_step_simpl ].

(** ** buildTombstoneEvents *)
Definition bte_body : cblock :=
  Eval vm_compute in match lookup "buildTombstoneEvents" gen_cmd_prog with Some fd => cf_body fd | None => CBNil end.
Lemma bte_lookup : lookup "buildTombstoneEvents" gen_cmd_prog = Some (CFn ["ids"; "agentID"] bte_body).
Proof. vm_compute. reflexivity. Qed.
Definition bte_loop : cblock := Eval vm_compute in match cnth 3 bte_body with CSRange _ _ _ b => b | _ => CBNil end.

Definition tombs (ids : list string) (agent : string) (now : time) : list event := (λ i, ETomb i agent (Some now)) <$> ids.

Lemma tomb_step n IDS agent now vs i σ :
  exists top,
  cexec_block (crun (S n) gen_cmd_prog)
     (("id", VStr i) :: [("events", VList vs); ("now", VTime now); ("ids", IDS); ("agentID", VStr agent)]) σ bte_loop
  = ONormal (top ++ [("events", VList (vs ++ [VEvent (ETomb i agent (Some now))])); ("now", VTime now); ("ids", IDS); ("agentID", VStr agent)]) σ.
Proof.
  let b := eval vm_compute in bte_loop in change bte_loop with b.
  go. match goal with |- exists top, ONormal ?ρ _ = _ => exists (take 3 ρ) end. reflexivity.
Qed.

Lemma tomb_loop n IDS σ agent now : forall ids (its : list (cval * cval)) vs,
  snd <$> its = VStr <$> ids ->
  cfor_each (λ ρ' σ', cexec_block (crun (S n) gen_cmd_prog) ρ' σ' bte_loop) "_" "id"
     [("events", VList vs); ("now", VTime now); ("ids", IDS); ("agentID", VStr agent)] σ its
  = ONormal [("events", VList (vs ++ (VEvent <$> tombs ids agent now))); ("now", VTime now); ("ids", IDS); ("agentID", VStr agent)] σ.
Proof.
  induction ids as [|i ids IH]; intros its vs Hits.
  - destruct its; [|discriminate]. cbn [cfor_each tombs fmap list_fmap]. rewrite app_nil_r. reflexivity.
  - destruct its as [|[x y] its]; [discriminate|]. cbn [fmap list_fmap snd] in Hits. injection Hits as -> Hits.
    rewrite cfor_each_cons. cbv beta.
    change (cbind "id" (VStr i) (cbind "_" x ?z)) with (("id", VStr i) :: z).
    destruct (tomb_step n IDS agent now vs i σ) as [top ->]. cbv iota.
    change (List.length [("events", VList vs); ("now", VTime now); ("ids", IDS); ("agentID", VStr agent)])
      with (List.length [("events", VList (vs ++ [VEvent (ETomb i agent (Some now))])); ("now", VTime now); ("ids", IDS); ("agentID", VStr agent)]).
    rewrite crestore_app. rewrite (IH its _ Hits). unfold tombs. cbn [fmap list_fmap]. rewrite <- app_assoc. reflexivity.
Qed.

Lemma snd_imap_gen (l : list cval) : forall (h : nat -> cval -> cval * cval), (forall i x, snd (h i x) = x) -> snd <$> imap h l = l.
Proof.
  induction l as [|x l IH]; intros h Hh; [reflexivity|]. cbn [imap fmap list_fmap]. rewrite Hh. f_equal.
  apply IH. intros i y. apply Hh.
Qed.

Lemma gen_buildTombstoneEvents n ids agent now rest ids0 uu ld fk sha mt git wr out :
  crun (S (S n)) gen_cmd_prog "buildTombstoneEvents" [VList (VStr <$> ids); VStr agent]
       (CState (now :: rest) ids0 uu ld fk sha mt git wr out)
  = Some (match ids with
          | [] => (VTuple [VNil; VNil], CState (now :: rest) ids0 uu ld fk sha mt git wr out)
          | _ => (VTuple [VList (VEvent <$> tombs ids agent now); VNil], CState rest ids0 uu ld fk sha mt git wr out)
          end).
Proof.
  rewrite crun_S, bte_lookup. unfold cexec_fn.
  cbn [cf_params cf_body cbind_params cbind name_eqb ascii_name_eqb bit_eqb andb].
  let b := eval vm_compute in bte_body in change bte_body with b.
  sb. cir_step_simpl. destruct ids as [|i ids].
  { reflexivity. }
  cbn [fmap list_fmap List.length]. 
  replace (Z.of_nat (S (List.length (VStr <$> ids))) =? 0)%Z with false by (symmetry; apply Z.eqb_neq; lia).
  cir_step_simpl. go.
  match goal with |- context [cfor_each ?f "_" "id" (("events", VList ?vs) :: ?ρt) ?σ0 ?its] =>
    assert (Hits : snd <$> its = VStr <$> ids) by (apply snd_imap_gen; intros; reflexivity);
    pose proof (tomb_loop n (VList (VStr i :: (VStr <$> ids))) σ0 agent now ids its vs Hits) as HL
  end.
  unfold bte_loop in HL. rewrite HL. cbv iota. go. reflexivity.
Qed.

(** ** buildPruneItems: the display rows; it terminates and touches neither the state nor the plan's ids *)
Definition bpi_body : cblock :=
  Eval vm_compute in match lookup "buildPruneItems" gen_cmd_prog with Some fd => cf_body fd | None => CBNil end.
Lemma bpi_lookup : lookup "buildPruneItems" gen_cmd_prog = Some (CFn ["graph"; "ids"] bpi_body).
Proof. vm_compute. reflexivity. Qed.
Definition bpi_loop : cblock := Eval vm_compute in match cnth 2 bpi_body with CSRange _ _ _ b => b | _ => CBNil end.

Lemma items_step n g IDS l i σ :
  exists top l',
  let o := cexec_block (crun (S n) gen_cmd_prog) (("id", VStr i) :: [("items", VList l); ("graph", VGraph g); ("ids", IDS)]) σ bpi_loop in
  o = ONormal (top ++ [("items", VList l'); ("graph", VGraph g); ("ids", IDS)]) σ
  \/ o = OContinue (top ++ [("items", VList l'); ("graph", VGraph g); ("ids", IDS)]) σ.
Proof.
  let b := eval vm_compute in bpi_loop in change bpi_loop with b.
  cbv zeta. go. destruct (g_tasks g !! i) as [t|]; cir_step_simpl; go.
  - match goal with |- exists top l', ONormal ?ρ _ = _ \/ _ => exists (take 3 ρ) end. eexists. left. reflexivity.
  - match goal with |- exists top l', _ \/ OContinue ?ρ _ = _ => exists (take 3 ρ) end. exists l. right. reflexivity.
Qed.

Lemma items_loop n g IDS σ : forall ids (its : list (cval * cval)) l,
  snd <$> its = VStr <$> ids ->
  exists l',
  cfor_each (λ ρ' σ', cexec_block (crun (S n) gen_cmd_prog) ρ' σ' bpi_loop) "_" "id"
     [("items", VList l); ("graph", VGraph g); ("ids", IDS)] σ its
  = ONormal [("items", VList l'); ("graph", VGraph g); ("ids", IDS)] σ.
Proof.
  induction ids as [|i ids IH]; intros its l Hits.
  - destruct its; [|discriminate]. exists l. reflexivity.
  - destruct its as [|[x y] its]; [discriminate|]. cbn [fmap list_fmap snd] in Hits. injection Hits as -> Hits.
    rewrite cfor_each_cons. cbv beta.
    change (cbind "id" (VStr i) (cbind "_" x ?z)) with (("id", VStr i) :: z).
    destruct (items_step n g IDS l i σ) as (top & l1 & H). cbv zeta in H.
    destruct (IH its l1 Hits) as [l' HI]. exists l'.
    destruct H as [-> | ->]; cbv iota;
      change (List.length [("items", VList l); ("graph", VGraph g); ("ids", IDS)])
        with (List.length [("items", VList l1); ("graph", VGraph g); ("ids", IDS)]);
      rewrite crestore_app; exact HI.
Qed.

Lemma gen_buildPruneItems n g ids σ :
  exists v, crun (S (S n)) gen_cmd_prog "buildPruneItems" [VGraph g; VList (VStr <$> ids)] σ = Some (v, σ).
Proof.
  rewrite crun_S, bpi_lookup. unfold cexec_fn.
  cbn [cf_params cf_body cbind_params cbind name_eqb ascii_name_eqb bit_eqb andb].
  let b := eval vm_compute in bpi_body in change bpi_body with b.
  sb. cir_step_simpl.
  destruct (Z.of_nat (List.length (VStr <$> ids)) =? 0)%Z; cir_step_simpl.
  { eexists. reflexivity. }
  go.
  match goal with |- context [cfor_each ?f "_" "id" ?ρ ?σ0 ?its] =>
    assert (Hits : snd <$> its = VStr <$> ids) by (apply snd_imap_gen; intros; reflexivity);
    destruct (items_loop n g (VList (VStr <$> ids)) σ0 ids its [] Hits) as [l' HL]
  end.
  unfold bpi_loop in HL. rewrite HL. cbv iota. go. eexists. reflexivity.
Qed.

Lemma as_events_fmap' (evs : list event) : as_events (VEvent <$> evs) = Some evs.
Proof. induction evs as [|e evs IH]; cbn [fmap list_fmap as_events]; [reflexivity|]. cbn [fmap list_fmap] in IH. rewrite IH. reflexivity. Qed.

(** ** runPrune *)
Definition rp_body : cblock :=
  Eval vm_compute in match lookup "runPrune" gen_cmd_prog with Some fd => cf_body fd | None => CBNil end.
Lemma rp_lookup : lookup "runPrune" gen_cmd_prog = Some (CFn ["dir"; "opts"; "apply"] rp_body).
Proof. vm_compute. reflexivity. Qed.
Definition bpp_body : cblock :=
  Eval vm_compute in match lookup "buildPrunePlan" gen_cmd_prog with Some fd => cf_body fd | None => CBNil end.
Lemma bpp_lookup : lookup "buildPrunePlan" gen_cmd_prog = Some (CFn ["graph"] bpp_body).
Proof. vm_compute. reflexivity. Qed.

Lemma gen_buildPrunePlan n g σ :
  exists items,
  crun (S (S (S n))) gen_cmd_prog "buildPrunePlan" [VGraph g] σ
  = Some (VStruct "PrunePlan" [("PrunedIDs", VList (VStr <$> prune_targets g)); ("Items", items)], σ).
Proof.
  rewrite crun_S, bpp_lookup. unfold cexec_fn.
  cbn [cf_params cf_body cbind_params cbind name_eqb ascii_name_eqb bit_eqb andb].
  let b := eval vm_compute in bpp_body in change bpp_body with b.
  go. destruct (gen_buildPruneItems n g (prune_targets g) σ) as [v ->]. cir_step_simpl. go.
  eexists. reflexivity.
Qed.

Definition is_nil {A} (l : list A) : bool := match l with [] => true | _ => false end.

Theorem gen_runPrune_matches_model n g dir agent (apply : bool) now rest ids0 uu fk sha mt git :
  exists items σ',
  crun (S (S (S (S n)))) gen_cmd_prog "runPrune" [VStr dir; VStruct "GlobalOptions" [("AgentID", VStr agent)]; VBool apply]
       (CState (now :: rest) ids0 uu (Some g) fk sha mt git [] [])
  = Some (VTuple [VStruct "PrunePlan" [("PrunedIDs", VList (VStr <$> prune_targets g)); ("Items", items)]; VNil], σ')
  /\ cs_writes σ' = (if apply && negb (is_nil (prune_targets g)) then [tombs (prune_targets g) agent now] else [])
  /\ cs_out σ' = [].
Proof.
  destruct (gen_buildPrunePlan n g (CState (now :: rest) ids0 uu (Some g) fk sha mt git [] [])) as [items Hplan].
  exists items.
  rewrite crun_S, rp_lookup. unfold cexec_fn.
  cbn [cf_params cf_body cbind_params cbind name_eqb ascii_name_eqb bit_eqb andb].
  let b := eval vm_compute in rp_body in change rp_body with b.
  go. rewrite Hplan. cir_step_simpl. go.
  destruct apply; cbn [negb andb orb]; cir_step_simpl.
  2:{ go. eexists. split; [reflexivity|]. split; reflexivity. }
  destruct (prune_targets g) as [|i ids] eqn:Ept; cbn [fmap list_fmap List.length is_nil negb].
  { cir_step_simpl. go. eexists. split; [reflexivity|]. split; reflexivity. }
  replace (Z.of_nat (S (List.length (VStr <$> ids))) =? 0)%Z with false by (symmetry; apply Z.eqb_neq; lia).
  cir_step_simpl. go.
  change (VStr i :: (VStr <$> ids)) with (VStr <$> (i :: ids)).
  rewrite gen_buildTombstoneEvents. cir_step_simpl. go.
  rewrite as_events_fmap'. cir_step_simpl. go.
  eexists. split; [reflexivity|]. split; reflexivity.
Qed.

Print Assumptions gen_runPrune_matches_model.
