(** Bridge: [buildSetEvents] (commands_work.go), regenerated into the mini-Go IR (gen/CmdGen.v), computes
    exactly the model's [build_set_events] — FOR ALL tasks, update maps, agent identities and clock readings.

    Method: the function body is cut at its top-level statements; for every cut point a lemma describes what
    the REST of the body returns from a generic environment (any event list accumulated so far, any map of
    remaining updates with the relevant look-ups given), proved by executing only the next statement
    symbolically and then appealing to the lemma of the following cut point.  The model is first brought
    into the same staged form ([bse_staged], [bse_staged_eq]). *)
From Ergo Require Import Base Text Events Replay Ready Path Cmd.
From ErgoBridge Require Import ReadyIR CmdIR.
From ErgoGen Require Import CmdGen.
From Coq Require Import String ZArith List Lia.
Import ListNotations.
Local Open Scope string_scope.
Local Open Scope list_scope.

(** build_set_events in the order the Go code works: stages *)
Definition implicit_claim (t : task) (u : upd) (agent : string) : option (option string) :=
  (* None: error; Some c: the claim entry of the map afterwards *)
  if (negb (t_is_epic t) && String.eqb (t_claimed t) "")%bool then
    match u_state u with
    | Some s =>
        if ((String.eqb s "doing" || String.eqb s "error") && negb (is_some (u_claim u)))%bool then
          if String.eqb agent "" then None else Some (Some agent)
        else Some (u_claim u)
    | None => Some (u_claim u)
    end
  else Some (u_claim u).

Definition stage_title (i : string) (u : upd) (now : time) : option (list event) :=
  match u_title u with
  | Some ti => if String.eqb (trim_space ti) "" then None else Some [ETitle i (trim_space ti) (Some now)]
  | None => Some []
  end.
Definition stage_body (i : string) (u : upd) (now : time) : list event :=
  match u_body u with Some b => [EBody i b (Some now)] | None => [] end.
Definition stage_epic (i : string) (t : task) (u : upd) (now : time) : option (list event) :=
  match u_epic u with
  | Some e => if t_is_epic t then None else Some [EEpic i e (Some now)]
  | None => Some []
  end.
(** (events, claimWasSet, claimValue) *)
Definition stage_claim (i : string) (t : task) (claim : option string) (has_state : bool) (now : time)
  : option (list event * bool * string) :=
  match claim with
  | None => Some ([], false, "")
  | Some cv =>
      if t_is_epic t then Some ([], false, cv)
      else if String.eqb cv "" then
        if has_state then Some ([EUnclaim i], true, "")
        else if validate_claim_invariant (t_state t) "" then Some ([EUnclaim i], true, "") else None
      else Some ([EClaim i cv (Some now)], true, cv)
  end.
Definition stage_state (i : string) (t : task) (st : option string) (cws : bool) (cv : string) (now : time)
  : option (list event) :=
  match st with
  | Some s =>
      if negb (valid_state s) then None
      else if negb (validate_transition (t_state t) s) then None
      else
        let nc := if cws then cv else t_claimed t in
        let nc := if (String.eqb s "todo" || String.eqb s "done" || String.eqb s "canceled")%bool then "" else nc in
        if negb (validate_claim_invariant s nc) then None
        else Some [EState i s (Some now)]
  | None =>
      if (cws && negb (String.eqb cv ""))%bool then
        if validate_transition (t_state t) "doing" then Some [EState i "doing" (Some now)] else None
      else Some []
  end.

Definition bse_staged (i : string) (t : task) (u : upd) (agent : string) (now : time) : option (list event) :=
  match implicit_claim t u agent with
  | None => None
  | Some claim =>
      match stage_title i u now with
      | None => None
      | Some e1 =>
          match stage_epic i t u now with
          | None => None
          | Some e3 =>
              match stage_claim i t claim (is_some (u_state u)) now with
              | None => None
              | Some (e4, cws, cv) =>
                  match stage_state i t (u_state u) cws cv now with
                  | None => None
                  | Some e5 => Some (e1 ++ stage_body i u now ++ e3 ++ e4 ++ e5)
                  end
              end
          end
      end
  end.

Lemma bse_staged_eq i t u agent now : bse_staged i t u agent now = build_set_events i t u agent now.
Proof.
  destruct u as [ti bo ep st cl rp rs].
  unfold bse_staged, build_set_events, implicit_claim, stage_title, stage_body, stage_epic, stage_claim, stage_state, clears_claim.
  cbn [u_title u_body u_epic u_state u_claim is_some opt_default].
  destruct (t_is_epic t) eqn:Hep, (String.eqb (t_claimed t) "") eqn:Hcl; cbn [negb andb orb].
  all: destruct ti as [ti|]; [destruct (String.eqb (trim_space ti) "")|]; cbn [is_some].
  all: destruct st as [st|], cl as [cl|]; cbn [is_some negb andb orb opt_default].
  all: destruct ep as [ep|], bo as [bo|]; cbn [app].
  all: repeat (match goal with
              | |- context [if negb ?c then _ else _] => destruct c eqn:?
              | |- context [if (?a && _)%bool then _ else _] => destruct a eqn:?
              | |- context [if (?a || _)%bool then _ else _] => destruct a eqn:?
              | |- context [if ?c then _ else _] => destruct c eqn:?
              end; cbn [negb andb orb app is_some opt_default] in * ).
  all: rewrite ?app_nil_r; try reflexivity; try discriminate; try congruence.
  all: repeat match goal with H : (_ =? _) = true |- _ => apply String.eqb_eq in H; subst end; try congruence.
  all: cbn in *; try congruence.
Qed.

(** ** The generated body and its cuts *)
Definition bse_body : cblock :=
  Eval vm_compute in match lookup "buildSetEvents" gen_cmd_prog with Some fd => cf_body fd | None => CBNil end.
Lemma bse_lookup :
  lookup "buildSetEvents" gen_cmd_prog = Some (CFn ["id"; "task"; "updates"; "agentID"; "now"; "bodyResolver"] bse_body).
Proof. vm_compute. reflexivity. Qed.

Fixpoint cnth (k : nat) (b : cblock) : cstmt :=
  match b, k with
  | CBCons s _, O => s
  | CBCons _ r, S k' => cnth k' r
  | CBNil, _ => CSSkip
  end.
Fixpoint cdrop (k : nat) (b : cblock) : cblock :=
  match k, b with
  | O, _ => b
  | S k', CBCons _ r => cdrop k' r
  | S _, CBNil => CBNil
  end.

Definition oret (o : coutcome) : option (list cval * cstate) :=
  match o with OReturn vs _ σ => Some (vs, σ) | _ => None end.

Definition slice_of (l : list cval) : cval := match l with [] => VNil | _ => VList l end.
Lemma as_list_slice_of l : as_list (slice_of l) = Some l.
Proof. destruct l; reflexivity. Qed.
Lemma slice_of_snoc l x : VList (l ++ [x]) = slice_of (l ++ [x]).
Proof. destruct l; reflexivity. Qed.

(** ** Map facts *)
Lemma massoc_mdelete k k' m : massoc k (mdelete k' m) = if name_eqb k' k then None else massoc k m.
Proof.
  induction m as [|[a v] m IH]; cbn [mdelete massoc]; [destruct (name_eqb k' k); reflexivity|].
  rewrite !name_eqb_is_eqb in *.
  destruct (String.eqb k' a) eqn:E1.
  - rewrite IH. apply String.eqb_eq in E1. subst a. rewrite (String.eqb_sym k k'). destruct (String.eqb k' k); reflexivity.
  - cbn [massoc]. rewrite name_eqb_is_eqb, IH. destruct (String.eqb k a) eqn:E2; [|reflexivity].
    apply String.eqb_eq in E2. subst a. rewrite E1. reflexivity.
Qed.
Lemma massoc_minsert k k' v m : massoc k (minsert k' v m) = if name_eqb k' k then Some v else massoc k m.
Proof.
  induction m as [|[a w] m IH]; cbn [minsert massoc].
  - rewrite !name_eqb_is_eqb, (String.eqb_sym k k'). destruct (String.eqb k' k); reflexivity.
  - rewrite !name_eqb_is_eqb in *. destruct (String.eqb k' a) eqn:E1; cbn [massoc]; rewrite !name_eqb_is_eqb.
    + apply String.eqb_eq in E1. subst a. rewrite (String.eqb_sym k k'). destruct (String.eqb k' k); reflexivity.
    + rewrite IH. destruct (String.eqb k a) eqn:E2; [|reflexivity].
      apply String.eqb_eq in E2. subst a. rewrite E1. reflexivity.
Qed.

(** ** Symbolic execution, one statement at a time *)
Ltac notlit c := lazymatch c with true => fail | false => fail | _ => idtac end.
Ltac use_hyps :=
  repeat match goal with
         | H : ?c = true |- context [?c] => notlit c; rewrite H
         | H : ?c = false |- context [?c] => notlit c; rewrite H
         end.
Ltac split_lhs :=
  match goal with
  | |- ?L = _ =>
      match L with
      | context [if negb ?c then _ else _] => notlit c; destruct c eqn:?
      | context [if ?c then _ else _] => notlit c; destruct c eqn:?
      | context [err_of ?c] => notlit c; destruct c eqn:?
      end
  end.
Ltac step_block :=
  lazymatch goal with
  | |- context C [cexec_block ?call ?ρ ?σ (CBCons ?s ?r)] =>
      let t := constr:(match cexec_stmt call ρ σ s with ONormal ρ1 σ1 => cexec_block call ρ1 σ1 r | o => o end) in
      let G := context C [t] in change G
  | |- context C [cexec_block ?call ?ρ ?σ CBNil] =>
      let G := context C [ONormal ρ σ] in change G
  end.
Ltac expose k :=
  (* cdrop k bse_body = CBCons <statement k> (cdrop (S k) bse_body), the statement spelled out *)
  let s := eval vm_compute in (cnth k bse_body) in
  change (cdrop k bse_body) with (CBCons s (cdrop (S k) bse_body)).

Notation base i t m agent now M E :=
  [("remainingUpdates", VMap M); ("events", E); ("id", VStr i); ("task", VTask t); ("updates", VMap m);
   ("agentID", VStr agent); ("now", VTime now); ("bodyResolver", VFunc "identityBodyResolver")] (only parsing).
Definition del_if {A} (o : option A) (k : string) (M : list (string * cval)) : list (string * cval) :=
  match o with Some _ => mdelete k M | None => M end.
Definition ERR : list cval := [VNil; VNil; VErr EGen].

Ltac run :=
  repeat first [ step_block; cir_step_simpl
               | progress (rewrite ?as_list_slice_of); cir_step_simpl
               | split_lhs; cir_step_simpl ].

Lemma gen_isEpic_task n t σ :
  crun (S n) gen_cmd_prog "isEpic" [VTask t] σ = Some (VBool (t_is_epic t), σ).
Proof.
  rewrite crun_S. match goal with |- context [lookup ?f gen_cmd_prog] =>
    let r := eval vm_compute in (lookup f gen_cmd_prog) in change (lookup f gen_cmd_prog) with r end. reflexivity.
Qed.
Lemma gen_identity n v σ :
  crun (S n) gen_cmd_prog "identityBodyResolver" [VStr v] σ = Some (VTuple [VStr v; VNil], σ).
Proof.
  rewrite crun_S. match goal with |- context [lookup ?f gen_cmd_prog] =>
    let r := eval vm_compute in (lookup f gen_cmd_prog) in change (lookup f gen_cmd_prog) with r end. reflexivity.
Qed.
Ltac run' :=
  repeat first [ step_block; cir_step_simpl
               | rewrite gen_isEpic_task; cir_step_simpl
               | rewrite gen_identity; cir_step_simpl
               | progress (rewrite ?as_list_slice_of); cir_step_simpl
               | split_lhs; cir_step_simpl ].

(** ** What the rest of the body returns, cut point by cut point (model side) *)
Definition R_state i t st cws cv now (vs : list cval) M : list cval :=
  match stage_state i t st cws cv now with
  | Some evs => [slice_of (vs ++ (VEvent <$> evs)); VMap (del_if st "state" M); VNil]
  | None => ERR
  end.
Definition R_claim i t claim st now (vs : list cval) M : list cval :=
  match stage_claim i t claim (is_some st) now with
  | None => ERR
  | Some (e4, cws, cv) => R_state i t st cws cv now (vs ++ (VEvent <$> e4)) (del_if claim "claim" M)
  end.
Definition R_epic i t ep claim st now (vs : list cval) M : list cval :=
  match ep with
  | Some e => if t_is_epic t then ERR else R_claim i t claim st now (vs ++ [VEvent (EEpic i e (Some now))]) (mdelete "epic" M)
  | None => R_claim i t claim st now vs M
  end.
Definition R_body i t bo ep claim st now (vs : list cval) M : list cval :=
  match bo with
  | Some b => R_epic i t ep claim st now (vs ++ [VEvent (EBody i b (Some now))]) (mdelete "body" M)
  | None => R_epic i t ep claim st now vs M
  end.
Definition R_title i t ti bo ep claim st now (vs : list cval) M : list cval :=
  match ti with
  | Some x => if String.eqb (trim_space x) "" then ERR
              else R_body i t bo ep claim st now (vs ++ [VEvent (ETitle i (trim_space x) (Some now))]) (mdelete "title" M)
  | None => R_body i t bo ep claim st now vs M
  end.

(** ** statements 10-13: state, implied doing, return *)
Lemma tail_state n i t m agent now M vs st cws cv σ :
  massoc "state" M = VStr <$> st ->
  oret (cexec_block (crun (S n) gen_cmd_prog)
          (("claimValue", VStr cv) :: ("claimWasSet", VBool cws) :: base i t m agent now M (slice_of vs)) σ (cdrop 10 bse_body))
  = Some (R_state i t st cws cv now vs M, σ).
Proof.
  intros Hst. unfold R_state, ERR, stage_state, valid_state, del_if.
  change ["todo"; "doing"; "done"; "blocked"; "canceled"; "error"] with valid_states_list.
  expose 10. run. expose 11. step_block. cir_step_simpl. rewrite Hst.
  destruct st as [st|]; cbn [fmap option_fmap option_map]; cir_step_simpl.
  all: run.
  all: try (expose 12; run).
  all: try (expose 13; run).
  all: cbn [oret orb andb negb fmap list_fmap app]; rewrite ?app_nil_r, ?slice_of_snoc; try reflexivity.
  all: destruct vs; reflexivity.
Qed.

(** ** statements 7-9: claim / unclaim *)
Lemma tail_claim n i t m agent now M vs claim st σ :
  massoc "claim" M = VStr <$> claim -> massoc "state" M = VStr <$> st ->
  oret (cexec_block (crun (S n) gen_cmd_prog) (base i t m agent now M (slice_of vs)) σ (cdrop 7 bse_body))
  = Some (R_claim i t claim st now vs M, σ).
Proof.
  intros Hcl Hst. unfold R_claim, ERR, stage_claim, del_if.
  expose 7. run. expose 8. run. expose 9. step_block. cir_step_simpl. rewrite Hcl.
  destruct claim as [c|]; cbn [fmap option_fmap option_map]; cir_step_simpl.
  2:{ rewrite (tail_state n i t m agent now M vs st) by exact Hst. unfold R_state. cbn [fmap list_fmap]. rewrite app_nil_r. reflexivity. }
  assert (Hst' : massoc "state" (mdelete "claim" M) = VStr <$> st).
  { rewrite massoc_mdelete. cbn [name_eqb ascii_name_eqb bit_eqb andb]. exact Hst. }
  rewrite gen_isEpic_task. cir_step_simpl.
  destruct (t_is_epic t); cir_step_simpl.
  { run'. rewrite (tail_state n i t m agent now (mdelete "claim" M) vs st) by exact Hst'.
    cbn [fmap list_fmap]. rewrite app_nil_r. reflexivity. }
  run'.
  all: rewrite ?Hst; destruct st as [st|]; cbn [fmap option_fmap option_map is_some]; cir_step_simpl.
  all: run'.
  all: rewrite ?slice_of_snoc.
  all: repeat match goal with H : (_ =? "") = true |- _ => apply String.eqb_eq in H; subst end.
  all: try (erewrite tail_state by exact Hst'; reflexivity).
  all: reflexivity.
Qed.

(** ** statement 6: epic assignment *)
Lemma tail_epic n i t m agent now M vs ep claim st σ :
  massoc "epic" M = VStr <$> ep -> massoc "claim" M = VStr <$> claim -> massoc "state" M = VStr <$> st ->
  oret (cexec_block (crun (S n) gen_cmd_prog) (base i t m agent now M (slice_of vs)) σ (cdrop 6 bse_body))
  = Some (R_epic i t ep claim st now vs M, σ).
Proof.
  intros Hep Hcl Hst. unfold R_epic, ERR.
  expose 6. step_block. cir_step_simpl. rewrite Hep.
  destruct ep as [e|]; cbn [fmap option_fmap option_map]; cir_step_simpl.
  2:{ apply tail_claim; assumption. }
  rewrite gen_isEpic_task. cir_step_simpl.
  destruct (t_is_epic t); cir_step_simpl; [reflexivity|].
  run'. rewrite ?slice_of_snoc.
  apply tail_claim; rewrite massoc_mdelete; cbn [name_eqb ascii_name_eqb bit_eqb andb]; assumption.
Qed.

(** ** statement 5: body *)
Lemma tail_body n i t m agent now M vs bo ep claim st σ :
  massoc "body" M = VStr <$> bo -> massoc "epic" M = VStr <$> ep -> massoc "claim" M = VStr <$> claim ->
  massoc "state" M = VStr <$> st ->
  oret (cexec_block (crun (S n) gen_cmd_prog) (base i t m agent now M (slice_of vs)) σ (cdrop 5 bse_body))
  = Some (R_body i t bo ep claim st now vs M, σ).
Proof.
  intros Hbo Hep Hcl Hst. unfold R_body, ERR.
  expose 5. step_block. cir_step_simpl. rewrite Hbo.
  destruct bo as [b|]; cbn [fmap option_fmap option_map]; cir_step_simpl.
  2:{ apply tail_epic; assumption. }
  run'. rewrite ?slice_of_snoc.
  apply tail_epic; rewrite massoc_mdelete; cbn [name_eqb ascii_name_eqb bit_eqb andb]; assumption.
Qed.

(** ** statement 4: title *)
Lemma tail_title n i t m agent now M vs ti bo ep claim st σ :
  massoc "title" M = VStr <$> ti -> massoc "body" M = VStr <$> bo -> massoc "epic" M = VStr <$> ep ->
  massoc "claim" M = VStr <$> claim -> massoc "state" M = VStr <$> st ->
  oret (cexec_block (crun (S n) gen_cmd_prog) (base i t m agent now M (slice_of vs)) σ (cdrop 4 bse_body))
  = Some (R_title i t ti bo ep claim st now vs M, σ).
Proof.
  intros Hti Hbo Hep Hcl Hst. unfold R_title, ERR.
  expose 4. step_block. cir_step_simpl. rewrite Hti.
  destruct ti as [x|]; cbn [fmap option_fmap option_map]; cir_step_simpl.
  2:{ apply tail_body; assumption. }
  run'; [reflexivity|]. rewrite ?slice_of_snoc.
  apply tail_body; rewrite massoc_mdelete; cbn [name_eqb ascii_name_eqb bit_eqb andb]; assumption.
Qed.


(** ** statement 3: the implicit claim *)
Definition R_implicit i t ti bo ep cl st agent now (vs : list cval) M : list cval :=
  if (negb (t_is_epic t) && String.eqb (t_claimed t) "")%bool then
    match st with
    | Some s =>
        if ((String.eqb s "doing" || String.eqb s "error") && negb (is_some cl))%bool then
          if String.eqb agent "" then ERR
          else R_title i t ti bo ep (Some agent) st now vs (minsert "claim" (VStr agent) M)
        else R_title i t ti bo ep cl st now vs M
    | None => R_title i t ti bo ep cl st now vs M
    end
  else R_title i t ti bo ep cl st now vs M.

Lemma tail_implicit n i t m agent now M vs ti bo ep cl st σ :
  massoc "title" M = VStr <$> ti -> massoc "body" M = VStr <$> bo -> massoc "epic" M = VStr <$> ep ->
  massoc "claim" M = VStr <$> cl -> massoc "state" M = VStr <$> st ->
  oret (cexec_block (crun (S n) gen_cmd_prog) (base i t m agent now M (slice_of vs)) σ (cdrop 3 bse_body))
  = Some (R_implicit i t ti bo ep cl st agent now vs M, σ).
Proof.
  intros Hti Hbo Hep Hcl Hst. unfold R_implicit, ERR.
  expose 3. step_block. cir_step_simpl. rewrite gen_isEpic_task. cir_step_simpl.
  destruct (t_is_epic t); cbn [negb andb]; cir_step_simpl.
  { apply tail_title; assumption. }
  destruct (String.eqb (t_claimed t) ""); cir_step_simpl.
  2:{ apply tail_title; assumption. }
  rewrite Hst. destruct st as [s|]; cbn [fmap option_fmap option_map]; cir_step_simpl.
  all: rewrite Hcl; destruct cl as [c|]; cbn [fmap option_fmap option_map is_some negb andb]; cir_step_simpl.
  all: run'.
  all: cbn [orb andb negb]; rewrite ?Bool.andb_false_r.
  all: try (apply tail_title; assumption).
  all: try reflexivity.
  all: apply tail_title; rewrite massoc_minsert; cbn [name_eqb ascii_name_eqb bit_eqb andb]; try assumption; reflexivity.
Qed.

(** ** statements 0-2: the accumulator, and the copy of the updates map *)
Definition mcopy (m : list (string * cval)) : list (string * cval) :=
  fold_left (λ a kx, minsert (fst kx) (snd kx) a) m [].

Lemma crestore_app2 a b (ρ : cenv) : crestore (List.length ρ) (a :: b :: ρ) = ρ.
Proof.
  unfold crestore. cbn [List.length]. replace (S (S (List.length ρ)) - List.length ρ) with 2 by lia. reflexivity.
Qed.
Lemma cfor_each_cons f k v ρ σ x y r :
  cfor_each f k v ρ σ ((x, y) :: r)
  = match f (cbind v y (cbind k x ρ)) σ with
    | ONormal ρ' σ' | OContinue ρ' σ' => cfor_each f k v (crestore (List.length ρ) ρ') σ' r
    | OReturn vs ρ' σ' => OReturn vs (crestore (List.length ρ) ρ') σ'
    | OStuck => OStuck
    end.
Proof. reflexivity. Qed.
Lemma copy_loop (f : cenv -> cstate -> coutcome) (ρt : cenv) σ m acc :
  (forall acc k x,
     f (("v", x) :: ("k", VStr k) :: ("remainingUpdates", VMap acc) :: ρt) σ
     = ONormal (("v", x) :: ("k", VStr k) :: ("remainingUpdates", VMap (minsert k x acc)) :: ρt) σ) ->
  cfor_each f "k" "v" (("remainingUpdates", VMap acc) :: ρt) σ ((λ '(k, x), (VStr k, x)) <$> m)
  = ONormal (("remainingUpdates", VMap (fold_left (λ a kx, minsert (fst kx) (snd kx) a) m acc)) :: ρt) σ.
Proof.
  intros Hf. revert acc. induction m as [|[k x] m IH]; intros acc; [reflexivity|].
  cbn [fmap list_fmap fold_left fst snd]. rewrite cfor_each_cons.
  change (cbind "v" x (cbind "k" (VStr k) (("remainingUpdates", VMap acc) :: ρt)))
    with (("v", x) :: ("k", VStr k) :: ("remainingUpdates", VMap acc) :: ρt).
  rewrite Hf. cbv iota.
  change (List.length (("remainingUpdates", VMap acc) :: ρt))
    with (List.length (("remainingUpdates", VMap (minsert k x acc)) :: ρt)).
  rewrite crestore_app2. apply IH.
Qed.

Lemma massoc_fold_copy k m : forall acc,
  NoDup (fst <$> m) ->
  massoc k (fold_left (λ a kx, minsert (fst kx) (snd kx) a) m acc)
  = match massoc k m with Some v => Some v | None => massoc k acc end.
Proof.
  induction m as [|[k0 x0] m IH]; intros acc Hnd; [reflexivity|].
  cbn [fold_left fst snd fmap list_fmap] in *. inversion Hnd as [|? ? Hnotin Hnd']; subst.
  rewrite IH by exact Hnd'. cbn [massoc]. rewrite massoc_minsert, !name_eqb_is_eqb.
  rewrite (String.eqb_sym k k0). destruct (String.eqb k0 k) eqn:E; [|reflexivity].
  apply String.eqb_eq in E. subst k0.
  assert (massoc k m = None) as ->; [|reflexivity].
  clear -Hnotin. induction m as [|[a v] m IH]; [reflexivity|].
  cbn [massoc fmap list_fmap fst] in *. rewrite name_eqb_is_eqb. destruct (String.eqb k a) eqn:E.
  - apply String.eqb_eq in E. subst a. exfalso. apply Hnotin. left. reflexivity.
  - apply IH. intros H. apply Hnotin. right. exact H.
Qed.
Lemma massoc_mcopy k m : NoDup (fst <$> m) -> massoc k (mcopy m) = massoc k m.
Proof. intros H. unfold mcopy. rewrite massoc_fold_copy by exact H. destruct (massoc k m); reflexivity. Qed.

(** ** The rest-of-body description is the staged model *)
Definition final_map (u : upd) (claim : option string) (M : list (string * cval)) : list (string * cval) :=
  del_if (u_state u) "state" (del_if claim "claim" (del_if (u_epic u) "epic" (del_if (u_body u) "body" (del_if (u_title u) "title" M)))).

Lemma fmap_app_ev (a b : list event) : (VEvent <$> (a ++ b)) = (VEvent <$> a) ++ (VEvent <$> b).
Proof. apply fmap_app. Qed.

Lemma R_title_staged i t u claim now M :
  R_title i t (u_title u) (u_body u) (u_epic u) claim (u_state u) now [] M
  = match stage_title i u now with
    | None => ERR
    | Some e1 =>
        match stage_epic i t u now with
        | None => ERR
        | Some e3 =>
            match stage_claim i t claim (is_some (u_state u)) now with
            | None => ERR
            | Some (e4, cws, cv) =>
                match stage_state i t (u_state u) cws cv now with
                | None => ERR
                | Some e5 => [slice_of (VEvent <$> (e1 ++ stage_body i u now ++ e3 ++ e4 ++ e5)); VMap (final_map u claim M); VNil]
                end
            end
        end
    end.
Proof.
  destruct u as [ti bo ep st cl rp rs]. unfold R_title, R_body, R_epic, R_claim, R_state, stage_title, stage_body, stage_epic, final_map.
  cbn [u_title u_body u_epic u_state u_claim].
  destruct ti as [x|]; [destruct (String.eqb (trim_space x) ""); [reflexivity|]|];
  destruct bo as [b|]; destruct ep as [e|]; try (destruct (t_is_epic t) eqn:Ht; [reflexivity|]);
  cbn [app]; (destruct (stage_claim i t claim (is_some st) now) as [[[e4 cws] cv]|]; [|reflexivity]);
  (destruct (stage_state i t st cws cv now) as [e5|]; [|reflexivity]);
  cbn [del_if]; repeat first [rewrite fmap_app_ev | rewrite <- app_assoc | progress cbn [fmap list_fmap app]]; reflexivity.
Qed.

Lemma massoc_final_map k u claim M :
  massoc k (final_map u claim M)
  = if (is_some (u_state u) && name_eqb "state" k) || (is_some claim && name_eqb "claim" k) || (is_some (u_epic u) && name_eqb "epic" k)
       || (is_some (u_body u) && name_eqb "body" k) || (is_some (u_title u) && name_eqb "title" k)
    then None else massoc k M.
Proof.
  unfold final_map, del_if.
  destruct (u_state u), claim, (u_epic u), (u_body u), (u_title u); cbn [is_some andb orb];
    rewrite ?massoc_mdelete;
    repeat match goal with |- context [name_eqb ?a k] => destruct (name_eqb a k) end; reflexivity.
Qed.

(** the map of remaining updates [buildSetEvents] returns *)
Definition implicit_inserts (t : task) (u : upd) : bool :=
  (negb (t_is_epic t) && String.eqb (t_claimed t) "")%bool
  && match u_state u with
     | Some s => ((String.eqb s "doing" || String.eqb s "error") && negb (is_some (u_claim u)))%bool
     | None => false
     end.
Definition bse_rest (t : task) (u : upd) (agent : string) (m : list (string * cval)) : list (string * cval) :=
  if implicit_inserts t u then final_map u (Some agent) (minsert "claim" (VStr agent) (mcopy m))
  else final_map u (u_claim u) (mcopy m).

Lemma oret_pack o :
  match o with OReturn rs _ σ' => Some (pack rs, σ') | _ => None end
  = match oret o with Some (rs, σ') => Some (pack rs, σ') | None => None end.
Proof. destruct o; reflexivity. Qed.

Theorem gen_buildSetEvents_matches_model n i t m u agent now σ :
  NoDup (fst <$> m) ->
  massoc "title" m = VStr <$> u_title u -> massoc "body" m = VStr <$> u_body u -> massoc "epic" m = VStr <$> u_epic u ->
  massoc "claim" m = VStr <$> u_claim u -> massoc "state" m = VStr <$> u_state u ->
  crun (S (S n)) gen_cmd_prog "buildSetEvents"
       [VStr i; VTask t; VMap m; VStr agent; VTime now; VFunc "identityBodyResolver"] σ
  = Some (match build_set_events i t u agent now with
          | Some evs => VTuple [slice_of (VEvent <$> evs); VMap (bse_rest t u agent m); VNil]
          | None => VTuple ERR
          end, σ).
Proof.
  intros Hnd Hti Hbo Hep Hcl Hst.
  rewrite crun_S, bse_lookup. unfold cexec_fn. cbn [cf_params cf_body cbind_params cbind name_eqb ascii_name_eqb bit_eqb andb].
  rewrite oret_pack. change bse_body with (cdrop 0 bse_body) at 1.
  expose 0. step_block. cir_step_simpl. expose 1. step_block. cir_step_simpl.
  expose 2. step_block. cir_step_simpl.
  rewrite copy_loop by (intros; reflexivity). fold (mcopy m). change VNil with (slice_of []) at 1.
  rewrite (tail_implicit n i t m agent now (mcopy m) [] (u_title u) (u_body u) (u_epic u) (u_claim u) (u_state u))
    by (rewrite massoc_mcopy by exact Hnd; assumption).
  rewrite <- bse_staged_eq. unfold R_implicit, bse_staged, implicit_claim, bse_rest, implicit_inserts.
  destruct (negb (t_is_epic t) && String.eqb (t_claimed t) "")%bool; cbn [andb].
  2:{ rewrite R_title_staged. repeat match goal with |- context [match ?x with _ => _ end] => destruct x end; reflexivity. }
  destruct (u_state u) as [s|] eqn:Es.
  2:{ rewrite <- Es. rewrite R_title_staged. rewrite Es.
      repeat match goal with |- context [match ?x with _ => _ end] => destruct x end; reflexivity. }
  destruct ((String.eqb s "doing" || String.eqb s "error") && negb (is_some (u_claim u)))%bool.
  - destruct (String.eqb agent ""); [reflexivity|]. rewrite <- Es, R_title_staged, Es.
    repeat match goal with |- context [match ?x with _ => _ end] => destruct x end; reflexivity.
  - rewrite <- Es, R_title_staged, Es.
    repeat match goal with |- context [match ?x with _ => _ end] => destruct x end; reflexivity.
Qed.

(** what is left in the returned map: every handled key is gone, every other key is as given *)
Theorem bse_rest_lookup t u agent m k :
  NoDup (fst <$> m) ->
  massoc "title" m = VStr <$> u_title u -> massoc "body" m = VStr <$> u_body u -> massoc "epic" m = VStr <$> u_epic u ->
  massoc "claim" m = VStr <$> u_claim u -> massoc "state" m = VStr <$> u_state u ->
  massoc k (bse_rest t u agent m)
  = if existsb (name_eqb k) ["title"; "body"; "epic"; "claim"; "state"] then None else massoc k m.
Proof.
  intros Hnd Hti Hbo Hep Hcl Hst. unfold bse_rest.
  assert (Hk : forall a, name_eqb a k = name_eqb k a).
  { intros a. rewrite !name_eqb_is_eqb. apply String.eqb_sym. }
  destruct (implicit_inserts t u); rewrite massoc_final_map, ?massoc_minsert, !Hk; cbn [existsb is_some];
    rewrite ?massoc_mcopy by exact Hnd.
  all: repeat match goal with
              | |- context [name_eqb ?x ?a] =>
                  is_var x;
                  let E := fresh "E" in
                  destruct (name_eqb x a) eqn:E; [rewrite name_eqb_is_eqb in E; apply String.eqb_eq in E; subst x|]
              end.
  all: cbn [name_eqb ascii_name_eqb bit_eqb andb orb];
       rewrite ?Hti, ?Hbo, ?Hep, ?Hcl, ?Hst;
       destruct (u_title u), (u_body u), (u_epic u), (u_claim u), (u_state u); cbn; reflexivity.
Qed.

(** Non-vacuity: a concrete request (title + state on an unclaimed task, agent given) satisfies the hypotheses. *)
Example gen_buildSetEvents_nonvacuous :
  let m := [("state", VStr "doing"); ("title", VStr " x ")] in
  let u := Upd (Some " x ") None None (Some "doing") None None None in
  NoDup (fst <$> m) /\ massoc "title" m = VStr <$> u_title u /\ massoc "state" m = VStr <$> u_state u
  /\ build_set_events "T1" (new_task false "T1" "uu" "" "todo" "t" "b" 1%Z) u "bob" 9%Z
     = Some [ETitle "T1" "x" (Some 9%Z); EClaim "T1" "bob" (Some 9%Z); EState "T1" "doing" (Some 9%Z)].
Proof.
  cbn. repeat split; try reflexivity. repeat constructor; cbn; intuition discriminate.
Qed.

Print Assumptions gen_buildSetEvents_matches_model.
Print Assumptions bse_rest_lookup.
