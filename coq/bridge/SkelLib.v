(** SkelLib.v — lock-discipline checks over the GENERATED control-flow skeleton (gen/Skeleton.v):
    every path of every entry point is scanned by a small state machine; the path sets are finite, so
    each obligation is decided by computation. *)
From Coq Require Import String List Bool Arith.
From ErgoGen Require Import Skeleton.
Import ListNotations.
Local Open Scope string_scope.
Local Open Scope list_scope.

Definition entry (n : string) : list (list tok) :=
  match find (fun p => String.eqb (fst p) n) gen_flat with
  | Some p => snd p
  | None => [[TRaw ("missing entry point " ++ n)%string]]
  end.

Record st := St {
  in_lock : bool; nlocks : nat; loaded : bool; wsec : nat; loop : nat; loop_at_lock : nat;
  load_before : bool; wrote : bool; bad : list string }.
Definition st0 := St false 0 false 0 0 0 false false [].
Definition flag (s : st) (m : string) : st :=
  St (in_lock s) (nlocks s) (loaded s) (wsec s) (loop s) (loop_at_lock s) (load_before s) (wrote s) (m :: bad s).

Definition step (allow_raw : list string) (s : st) (t : tok) : st :=
  match t with
  | TLockB mode =>
      let s := if in_lock s then flag s "nested lock" else s in
      let s := if Nat.ltb 0 (loop s) then flag s "lock section inside a loop" else s in
      let s := if String.eqb mode "LOCK_EX" then s else flag s ("lock mode " ++ mode)%string in
      St true (S (nlocks s)) false 0 (loop s) (loop s) (load_before s) (wrote s) (bad s)
  | TLockE => St false (nlocks s) false 0 (loop s) 0 (load_before s) (wrote s) (bad s)
  | TLoad =>
      if in_lock s then St true (nlocks s) true (wsec s) (loop s) (loop_at_lock s) (load_before s) (wrote s) (bad s)
      else St false (nlocks s) (loaded s) (wsec s) (loop s) (loop_at_lock s)
              (if Nat.eqb (nlocks s) 0 then true else load_before s) (wrote s) (bad s)
  | TWrite =>
      let s := if in_lock s then s else flag s "write outside a lock section" in
      let s := if (in_lock s && negb (loaded s))%bool then flag s "write before the load inside its section" else s in
      let s := if Nat.ltb 0 (wsec s) then flag s "second write in one section" else s in
      let s := if Nat.ltb (loop_at_lock s) (loop s) then flag s "write inside a loop" else s in
      St (in_lock s) (nlocks s) (loaded s) (S (wsec s)) (loop s) (loop_at_lock s) (load_before s) true (bad s)
  | TRaw n => if (String.eqb n "time.Now" || existsb (String.eqb n) allow_raw)%bool then s
              else flag s ("raw file-system operation " ++ n)%string
  | TLoopB => St (in_lock s) (nlocks s) (loaded s) (wsec s) (S (loop s)) (loop_at_lock s) (load_before s) (wrote s) (bad s)
  | TLoopE => St (in_lock s) (nlocks s) (loaded s) (wsec s) (pred (loop s)) (loop_at_lock s) (load_before s) (wrote s) (bad s)
  end.

Definition scan (allow_raw : list string) (p : list tok) : list string :=
  let s := fold_left (step allow_raw) p st0 in
  (if Nat.ltb 1 (nlocks s) then ["more than one lock section in one command"] else [])
  ++ (if (load_before s && wrote s)%bool then ["log read before the lock is taken, on a path that writes"] else [])
  ++ bad s.

(** The clock: on a path that writes, every [time.Now()] is inside the lock section, so that stamps written to the
    log are taken after everything already in it (the monotone-clock hypothesis of C05's history theorems). *)
Fixpoint clock_outside (depth : nat) (p : list tok) : bool :=
  match p with
  | [] => false
  | TLockB _ :: r => clock_outside (S depth) r
  | TLockE :: r => clock_outside (pred depth) r
  | TRaw n :: r => (Nat.eqb depth 0 && String.eqb n "time.Now") || clock_outside depth r
  | _ :: r => clock_outside depth r
  end.
Definition clock_ok (n : string) : list string :=
  concat (map (fun p => if (clock_outside 0 p && existsb (fun t => match t with TWrite => true | _ => false end) p)%bool
                        then [("clock read outside the lock section in " ++ n)%string] else []) (entry n)).

(** A mutating command: one exclusive section, load inside it before the single write, nothing raw. *)
Definition mutating_ok (n : string) : list string := concat (map (scan []) (entry n)).
(** A read-only command: additionally no write and no lock at all. *)
Definition readonly_ok (n : string) : list string :=
  concat (map (fun p => scan [] p ++ (if existsb (fun t => match t with TWrite | TLockB _ => true | _ => false end) p
                                      then ["write or lock in a read-only command"] else [])) (entry n)).
Definition init_ok : list string := concat (map (scan ["os.MkdirAll"]) (entry "RunInit")).

Definition mutating_entries : list string :=
  ["RunNewTask"; "RunNewEpic"; "RunSet"; "RunClaim"; "RunClaimOldestReady"; "RunSequence"; "RunPrune"; "RunCompact"; "RunPlan"].
Definition readonly_entries : list string := ["RunList"; "RunShow"; "RunWhere"; "RunQuickstart"].

(** The append primitive at system-call granularity: one write(2) of the whole batch, never in a
    loop, no in-place truncation of the log; or the atomic rewrite (tmp + rename) — never both. *)
Definition prim_scan (p : list tok) : list string :=
  let sys := length (filter (fun t => match t with TRaw n => String.eqb n "syswrite" | _ => false end) p) in
  let rew := length (filter (fun t => match t with TWrite => true | _ => false end) p) in
  let fix in_loop (d : nat) (q : list tok) : bool :=
    match q with
    | [] => false
    | TLoopB :: r => in_loop (S d) r
    | TLoopE :: r => in_loop (pred d) r
    | TRaw n :: r => (Nat.ltb 0 d && String.eqb n "syswrite") || in_loop d r
    | TWrite :: r => Nat.ltb 0 d || in_loop d r
    | _ :: r => in_loop d r
    end in
  (if Nat.ltb 1 sys then ["more than one write(2) per append"] else [])
  ++ (if in_loop 0 p then ["write(2) inside a loop in appendEvents"] else [])
  ++ (if (Nat.ltb 0 sys && Nat.ltb 0 rew)%bool then ["append both writes in place and rewrites"] else [])
  ++ concat (map (fun t => match t with
                           | TRaw n => if (String.eqb n "syswrite" || String.eqb n "os.OpenFile")%bool then []
                                       else [("appendEvents performs " ++ n)%string]
                           | _ => [] end) p).
Definition append_prim_ok : list string := concat (map prim_scan gen_append_prim).

(** withLock itself: open (creating the lock file through the no-truncate ensure when missing) and
    flock — no rename / remove / chmod of the lock file, which would let two processes lock different inodes. *)
Definition withlock_prim_ok : list string :=
  concat (map (fun p => concat (map (fun t => match t with TRaw n => [("withLock performs " ++ n)%string] | _ => [] end) p)) gen_withlock_prim).
