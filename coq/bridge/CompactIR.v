(** CompactIR.v — an IR for [compactEvents] (graph.go) and its interpreter over the model's types.

    The translator (tools/gen/compact_ir.go) turns the body of the per-task loop and of the link
    loop into blocks of this IR, statement by statement: declarations, assignments, conditionals,
    the emission triple

        x, err := newEvent(ty, ts, payload); if err != nil { return nil, err }; events = append(events, x)

    (one [CEmit]), the reverse loop over task.Results, and struct literals as payloads.  Whatever is
    not recognised becomes [CUnknown] / [CUnknownS], on which the interpreter yields [None].

    The model merges TaskMeta into the task record ([m_*] fields; Meta[id] exists iff Tasks[id]
    does and CreatedEpicIDSet is always true there), so [graph.Meta[task.ID]] evaluates to the
    non-nil meta view of the same record.  The envelope stamp of an event is not modelled;
    [formatTime t] in a payload is the model's [Some t]. *)
From Ergo Require Import Base Events Replay.
From ErgoBridge Require Import ReadyIR.
From Coq Require Import Ascii String.
Local Open Scope string_scope.
Local Open Scope list_scope.

Inductive mfield :=
| MCreatedTitle | MCreatedBody | MCreatedState | MCreatedEpicID | MCreatedEpicIDSet | MCreatedAt
| MLastStateAt | MLastClaimAt | MLastTitleAt | MLastBodyAt | MLastEpicAt.
Inductive rfield := RSummary | RPath | RSha256AtAttach | RMtimeAtAttach | RGitCommitAtAttach | RCreatedAt.

Inductive cexpr :=
| CStr (s : string)                       (* literal / resolved constant *)
| CBool (b : bool)
| CZeroTime                               (* the zero time.Time of [var x time.Time] *)
| CNow                                    (* time.Now().UTC(): only usable as an envelope stamp *)
| CVar (v : string)
| CTaskF (v : string) (f : field)         (* v.F, v a *Task *)
| CMetaF (v : string) (f : mfield)        (* v.F, v a *TaskMeta *)
| CResF (v : string) (f : rfield)         (* v.F, v a Result *)
| CEq (a b : cexpr) | CNe (a b : cexpr)
| CAnd (a b : cexpr) | COr (a b : cexpr) | CNot (a : cexpr)
| CIsNil (v : string)                     (* v == nil *)
| CIsZero (a : cexpr)                     (* a.IsZero() *)
| CAfter (a b : cexpr)                    (* a.After(b) *)
| CFormat (a : cexpr)                     (* formatTime(a) *)
| CIte (c a b : cexpr)                    (* body of a helper: if c { return a }; return b *)
| CCall (f : string) (args : cexprs)      (* call of a translated helper *)
| CStruct (ty : string) (names : list string) (vals : cexprs)   (* T{F1: e1, ...} *)
| CUnknown (go : string)
with cexprs := CXNil | CXCons (e : cexpr) (r : cexprs).

Inductive cstmt :=
| CDecl (v : string) (e : cexpr)                     (* v := e,  var v T *)
| CSet (v : string) (e : cexpr)                      (* v = e *)
| CMetaOf (v gv tv : string)                         (* v := gv.Meta[tv.ID] *)
| CIf (c : cexpr) (th el : cblock)
| CEmit (ty ts payload : cexpr)                      (* the emission triple *)
| CForResultsRev (v tv : string) (body : cblock)     (* for i := len(tv.Results)-1; i >= 0; i-- { v := tv.Results[i]; body } *)
| CUnknownS (go : string)
with cblock := CBNil | CBCons (s : cstmt) (b : cblock).

Fixpoint cblk (l : list cstmt) : cblock :=
  match l with [] => CBNil | s :: r => CBCons s (cblk r) end.
Fixpoint cxs (l : list cexpr) : cexprs :=
  match l with [] => CXNil | e :: r => CXCons e (cxs r) end.

(** A helper function: parameters and an expression body. *)
Definition cfn : Type := list string * cexpr.

Record compact_ir := CompactIR {
  ci_graph_var : string;
  ci_tasks_from : string;          (* Go text of the slice the task loop ranges over *)
  ci_task_var : string;
  ci_task_body : cblock;
  ci_links_from : string;          (* Go text of the two nested ranges of the link loop *)
  ci_from_var : string; ci_to_var : string;
  ci_link_body : cblock;
  ci_fns : list (string * cfn) }.

(** ** Values *)
Inductive cvalue :=
| CVStr (s : string) | CVBool (b : bool) | CVTime (z : time)
| CVFmt (z : time)               (* formatTime z *)
| CVNow                          (* some current time *)
| CVTask (t : task) | CVMeta (t : task) | CVResult (r : result) | CVGraph
| CVStruct (ty : string) (fs : list (string * cvalue)).
Definition cenv := list (string * cvalue).

Definition task_field (f : field) (t : task) : cvalue :=
  match f with
  | FID => CVStr (t_id t) | FUUID => CVStr (t_uuid t) | FEpicID => CVStr (t_epic t)
  | FIsEpic => CVBool (t_is_epic t) | FState => CVStr (t_state t) | FTitle => CVStr (t_title t)
  | FBody => CVStr (t_body t) | FClaimedBy => CVStr (t_claimed t)
  | FCreatedAt => CVTime (t_created t) | FUpdatedAt => CVTime (t_updated t)
  end.
Definition meta_field (f : mfield) (t : task) : cvalue :=
  match f with
  | MCreatedTitle => CVStr (m_title t) | MCreatedBody => CVStr (m_body t)
  | MCreatedState => CVStr (m_state t) | MCreatedEpicID => CVStr (m_epic t)
  | MCreatedEpicIDSet => CVBool true | MCreatedAt => CVTime (m_created t)
  | MLastStateAt => CVTime (m_last_state t) | MLastClaimAt => CVTime (m_last_claim t)
  | MLastTitleAt => CVTime (m_last_title t) | MLastBodyAt => CVTime (m_last_body t)
  | MLastEpicAt => CVTime (m_last_epic t)
  end.
Definition result_field (f : rfield) (r : result) : cvalue :=
  match f with
  | RSummary => CVStr (r_summary r) | RPath => CVStr (r_path r) | RSha256AtAttach => CVStr (r_sha r)
  | RMtimeAtAttach => CVStr (r_mtime r) | RGitCommitAtAttach => CVStr (r_git r)
  | RCreatedAt => CVTime (r_at r)
  end.

(** [if c then a else b] on values of one kind; the kinds must agree (Go is statically typed). *)
Definition vite (c : bool) (a b : cvalue) : option cvalue :=
  match a, b with
  | CVStr x, CVStr y => Some (CVStr (if c then x else y))
  | CVBool x, CVBool y => Some (CVBool (if c then x else y))
  | CVTime x, CVTime y => Some (CVTime (if c then x else y))
  | _, _ => None
  end.
Lemma vite_spec c a b v : vite c a b = Some v -> v = if c then a else b.
Proof. destruct a, b; cbn; intros [= <-]; destruct c; reflexivity. Qed.

Definition ceq_values (a b : cvalue) : option bool :=
  match a, b with
  | CVStr x, CVStr y => Some (String.eqb x y)
  | CVBool x, CVBool y => Some (Bool.eqb x y)
  | _, _ => None
  end.

Definition cas_bool (o : option cvalue) : option bool :=
  match o with Some (CVBool b) => Some b | _ => None end.

Fixpoint zip_fields (ns : list string) (vs : list cvalue) : option (list (string * cvalue)) :=
  match ns, vs with
  | [], [] => Some []
  | n :: ns', v :: vs' => match zip_fields ns' vs' with Some r => Some ((n, v) :: r) | None => None end
  | _, _ => None
  end.

(** ** Expressions *)
Section ceval.
  Context (call : string -> list cvalue -> option cvalue) (ρ : cenv).

  Fixpoint ceval (e : cexpr) : option cvalue :=
    match e with
    | CStr s => Some (CVStr s)
    | CBool b => Some (CVBool b)
    | CZeroTime => Some (CVTime zero_time)
    | CNow => Some CVNow
    | CVar v => lookup v ρ
    | CTaskF v f => match lookup v ρ with Some (CVTask t) => Some (task_field f t) | _ => None end
    | CMetaF v f => match lookup v ρ with Some (CVMeta t) => Some (meta_field f t) | _ => None end
    | CResF v f => match lookup v ρ with Some (CVResult r) => Some (result_field f r) | _ => None end
    | CEq a b =>
        match ceval a, ceval b with
        | Some x, Some y => match ceq_values x y with Some r => Some (CVBool r) | None => None end
        | _, _ => None
        end
    | CNe a b =>
        match ceval a, ceval b with
        | Some x, Some y => match ceq_values x y with Some r => Some (CVBool (negb r)) | None => None end
        | _, _ => None
        end
    (* both operands are evaluated (all of them are total here or the whole is [None]):
       conservative with respect to Go's short-circuit evaluation *)
    | CAnd a b =>
        match cas_bool (ceval a), cas_bool (ceval b) with
        | Some x, Some y => Some (CVBool (x && y))
        | _, _ => None
        end
    | COr a b =>
        match cas_bool (ceval a), cas_bool (ceval b) with
        | Some x, Some y => Some (CVBool (x || y))
        | _, _ => None
        end
    | CNot a => match cas_bool (ceval a) with Some x => Some (CVBool (negb x)) | None => None end
    | CIsNil v =>
        match lookup v ρ with
        | Some (CVMeta _) | Some (CVTask _) => Some (CVBool false)   (* never nil in the model *)
        | _ => None
        end
    | CIsZero a => match ceval a with Some (CVTime x) => Some (CVBool (is_zero x)) | _ => None end
    | CAfter a b =>
        match ceval a, ceval b with
        | Some (CVTime x), Some (CVTime y) => Some (CVBool (after x y))
        | _, _ => None
        end
    | CFormat a => match ceval a with Some (CVTime x) => Some (CVFmt x) | _ => None end
    | CIte c a b =>
        match cas_bool (ceval c), ceval a, ceval b with
        | Some x, Some va, Some vb => vite x va vb
        | _, _, _ => None
        end
    | CCall f args => match ceval_args args with Some vs => call f vs | None => None end
    | CStruct ty names vals =>
        match ceval_args vals with
        | Some vs => match zip_fields names vs with Some fs => Some (CVStruct ty fs) | None => None end
        | None => None
        end
    | CUnknown _ => None
    end
  with ceval_args (l : cexprs) : option (list cvalue) :=
    match l with
    | CXNil => Some []
    | CXCons e r =>
        match ceval e, ceval_args r with
        | Some v, Some vs => Some (v :: vs)
        | _, _ => None
        end
    end.
End ceval.

(** Helpers are leaves: their bodies make no calls. *)
Fixpoint cbind (ps : list string) (vs : list cvalue) : option cenv :=
  match ps, vs with
  | [], [] => Some []
  | p :: ps', v :: vs' => match cbind ps' vs' with Some ρ => Some ((p, v) :: ρ) | None => None end
  | _, _ => None
  end.
Definition ccall (fns : list (string * cfn)) (f : string) (vs : list cvalue) : option cvalue :=
  match lookup f fns with
  | Some (ps, body) =>
      match cbind ps vs with
      | Some ρ => ceval (λ _ _, None) ρ body
      | None => None
      end
  | None => None
  end.

(** ** Payloads: which model event a [newEvent(ty, _, payload)] is.  The payload struct per event
    type is the one [replayEvents] decodes that type into; an absent field is Go's zero value. *)
Definition fld_str (n : string) (fs : list (string * cvalue)) : option string :=
  match lookup n fs with
  | None => Some ""
  | Some (CVStr s) => Some s
  | Some _ => None
  end.
Definition fld_time (n : string) (fs : list (string * cvalue)) : option (option time) :=
  match lookup n fs with
  | None => Some None                 (* "" does not parse *)
  | Some (CVFmt z) => Some (Some z)
  | Some _ => None
  end.
Definition mem_name (n : string) (l : list string) : bool := existsb (name_eqb n) l.
Fixpoint names_ok (allowed : list string) (seen : list string) (fs : list (string * cvalue)) : bool :=
  match fs with
  | [] => true
  | (n, _) :: r => mem_name n allowed && negb (mem_name n seen) && names_ok allowed (n :: seen) r
  end.

Definition mk_item3 (sty want fs_id fs_val fs_ts : string) (fs : list (string * cvalue))
    (k : string -> string -> option time -> event) : option event :=
  if name_eqb sty want && names_ok [fs_id; fs_val; fs_ts] [] fs then
    match fld_str fs_id fs, fld_str fs_val fs, fld_time fs_ts fs with
    | Some i, Some v, Some ts => Some (k i v ts)
    | _, _, _ => None
    end
  else None.

Definition mk_event (ty : string) (payload : cvalue) : option event :=
  match payload with
  | CVStruct sty fs =>
      if name_eqb ty "new_task" || name_eqb ty "new_epic" then
        if name_eqb sty "NewTaskEvent"
           && names_ok ["ID"; "UUID"; "EpicID"; "State"; "Title"; "Body"; "CreatedAt"] [] fs then
          match fld_str "ID" fs, fld_str "UUID" fs, fld_str "EpicID" fs, fld_str "State" fs,
                fld_str "Title" fs, fld_str "Body" fs, fld_time "CreatedAt" fs with
          | Some i, Some u, Some e, Some s, Some ti, Some b, Some at_ =>
              Some (ENew (name_eqb ty "new_epic") i u e s ti b at_)
          | _, _, _, _, _, _, _ => None
          end
        else None
      else if name_eqb ty "title" then mk_item3 sty "TitleUpdateEvent" "ID" "Title" "TS" fs ETitle
      else if name_eqb ty "body" then mk_item3 sty "BodyUpdateEvent" "ID" "Body" "TS" fs EBody
      else if name_eqb ty "epic" then mk_item3 sty "EpicAssignEvent" "ID" "EpicID" "TS" fs EEpic
      else if name_eqb ty "state" then mk_item3 sty "StateEvent" "ID" "NewState" "TS" fs EState
      else if name_eqb ty "claim" then mk_item3 sty "ClaimEvent" "ID" "AgentID" "TS" fs EClaim
      else if name_eqb ty "tombstone" then mk_item3 sty "TombstoneEvent" "ID" "AgentID" "TS" fs ETomb
      else if name_eqb ty "result" then
        if name_eqb sty "ResultEvent"
           && names_ok ["TaskID"; "Summary"; "Path"; "Sha256AtAttach"; "MtimeAtAttach"; "GitCommitAtAttach"; "TS"] [] fs then
          match fld_str "TaskID" fs, fld_str "Summary" fs, fld_str "Path" fs, fld_str "Sha256AtAttach" fs,
                fld_str "MtimeAtAttach" fs, fld_str "GitCommitAtAttach" fs, fld_time "TS" fs with
          | Some i, Some su, Some pa, Some sh, Some mt, Some gi, Some ts => Some (EResult i su pa sh mt gi ts)
          | _, _, _, _, _, _, _ => None
          end
        else None
      else if name_eqb ty "link" then
        if name_eqb sty "LinkEvent" && names_ok ["FromID"; "ToID"; "Type"] [] fs then
          match fld_str "FromID" fs, fld_str "ToID" fs, fld_str "Type" fs with
          | Some a, Some b, Some ty => Some (ELink a b ty)
          | _, _, _ => None
          end
        else None
      else None
  | _ => None
  end.

(** The event-type argument may be a conditional string ([eventType] of new_task / new_epic). *)
Definition is_stamp (v : cvalue) : bool :=
  match v with CVTime _ | CVNow => true | _ => false end.

(** ** Statements *)
Fixpoint has_set_stmt (s : cstmt) : bool :=
  match s with
  | CSet _ _ => true
  | CIf _ th el => has_set_block th || has_set_block el
  | CForResultsRev _ _ body => has_set_block body
  | _ => false
  end
with has_set_block (b : cblock) : bool :=
  match b with CBNil => false | CBCons s r => has_set_stmt s || has_set_block r end.

Definition single_set (b : cblock) : option (string * cexpr) :=
  match b with
  | CBCons (CSet v e) CBNil => Some (v, e)
  | _ => None
  end.
Definition is_nil_block (b : cblock) : bool := match b with CBNil => true | _ => false end.

Fixpoint for_results (f : result -> option (cenv * list event)) (l : list result) : option (list event) :=
  match l with
  | [] => Some []
  | r :: l' => match f r, for_results f l' with
               | Some (_, e1), Some e2 => Some (e1 ++ e2)
               | _, _ => None
               end
  end.

Definition cis_graph (ρ : cenv) (gv : string) : bool :=
  match lookup gv ρ with Some CVGraph => true | _ => false end.
Definition unbound (ρ : cenv) (v : string) : bool :=
  match lookup v ρ with None => true | Some _ => false end.

Section cexec.
  Context (call : string -> list cvalue -> option cvalue).

  (** The environment is flat: a declaration may not re-use a visible name (so Go's block
      scoping and this flat scoping agree), an assignment needs a visible name. *)
  Fixpoint cexec_stmt (ρ : cenv) (s : cstmt) : option (cenv * list event) :=
    match s with
    | CDecl v e =>
        if unbound ρ v then
          match ceval call ρ e with Some x => Some ((v, x) :: ρ, []) | None => None end
        else None
    | CSet v e =>
        match lookup v ρ, ceval call ρ e with
        | Some old, Some x => match vite true x old with Some m => Some ((v, m) :: ρ, []) | None => None end
        | _, _ => None
        end
    | CMetaOf v gv tv =>
        if unbound ρ v && cis_graph ρ gv then
          match lookup tv ρ with
          | Some (CVTask t) => Some ((v, CVMeta t) :: ρ, [])
          | _ => None
          end
        else None
    | CIf c th el =>
        match cas_bool (ceval call ρ c) with
        | None => None
        | Some b =>
            match single_set th with
            | Some (v, e) =>
                (* if c { v = e }: v becomes (if c then e else v) *)
                if is_nil_block el then
                  match lookup v ρ, ceval call ρ e with
                  | Some old, Some x => match vite b x old with Some m => Some ((v, m) :: ρ, []) | None => None end
                  | _, _ => None
                  end
                else None
            | None =>
                if has_set_block th || has_set_block el then
                  (if b then cexec_block ρ th else cexec_block ρ el)
                else
                  (* no assignment inside: the branches only declare block-local names and emit *)
                  match cexec_block ρ th, cexec_block ρ el with
                  | Some (_, e1), Some (_, e2) => Some (ρ, if b then e1 else e2)
                  | _, _ => None
                  end
            end
        end
    | CEmit ty ts payload =>
        match ceval call ρ ty, ceval call ρ ts, ceval call ρ payload with
        | Some (CVStr k), Some st, Some p =>
            if is_stamp st then
              match mk_event k p with Some ev => Some (ρ, [ev]) | None => None end
            else None
        | _, _, _ => None
        end
    | CForResultsRev v tv body =>
        if unbound ρ v && negb (has_set_block body) then
          match lookup tv ρ with
          | Some (CVTask t) =>
              match for_results (λ r, cexec_block ((v, CVResult r) :: ρ) body) (rev (t_results t)) with
              | Some evs => Some (ρ, evs)
              | None => None
              end
          | _ => None
          end
        else None
    | CUnknownS _ => None
    end
  with cexec_block (ρ : cenv) (b : cblock) : option (cenv * list event) :=
    match b with
    | CBNil => Some (ρ, [])
    | CBCons s r =>
        match cexec_stmt ρ s with
        | Some (ρ1, e1) =>
            match cexec_block ρ1 r with
            | Some (ρ2, e2) => Some (ρ2, e1 ++ e2)
            | None => None
            end
        | None => None
        end
    end.
End cexec.

(** ** The two loop bodies and the whole function *)
Definition interp_compact_task (ir : compact_ir) (t : task) : option (list event) :=
  match cexec_block (ccall (ci_fns ir)) [(ci_task_var ir, CVTask t); (ci_graph_var ir, CVGraph)] (ci_task_body ir) with
  | Some (_, evs) => Some evs
  | None => None
  end.
Definition interp_compact_link (ir : compact_ir) (from to : string) : option (list event) :=
  match cexec_block (ccall (ci_fns ir))
          [(ci_to_var ir, CVStr to); (ci_from_var ir, CVStr from); (ci_graph_var ir, CVGraph)] (ci_link_body ir) with
  | Some (_, evs) => Some evs
  | None => None
  end.

Fixpoint concat_mapM {A} (f : A -> option (list event)) (l : list A) : option (list event) :=
  match l with
  | [] => Some []
  | x :: r => match f x, concat_mapM f r with
              | Some e1, Some e2 => Some (e1 ++ e2)
              | _, _ => None
              end
  end.

Lemma concat_mapM_total {A} (f : A -> option (list event)) (h : A -> list event) l :
  (forall x, f x = Some (h x)) -> concat_mapM f l = Some (List.concat (h <$> l)).
Proof.
  intros H. induction l as [|x l IH]; [reflexivity|].
  cbn [concat_mapM]. rewrite H, IH. reflexivity.
Qed.

Lemma for_results_total (f : result -> option (cenv * list event)) (h : result -> event) l :
  (forall r, exists ρ, f r = Some (ρ, [h r])) -> for_results f l = Some (h <$> l).
Proof.
  intros H. induction l as [|r l IH]; [reflexivity|].
  cbn [for_results]. destruct (H r) as [ρ ->]. rewrite IH. reflexivity.
Qed.

(** What the Go loops range over, in the model's graph:
    - [sortedTasks(graph.Tasks)]: all tasks, ascending by id;
    - [sortedMapKeys(graph.Deps)] then [sortedKeys(graph.Deps[from])]: the from-ids that have a
      dependency set, ascending, and for each its to-ids, ascending. *)
Definition id_le (a b : task) : Prop := str_le (t_id a) (t_id b).
Global Instance id_le_dec a b : Decision (id_le a b).
Proof. unfold id_le. apply _. Defined.
Definition go_sorted_tasks (g : graph) : list task := merge_sort id_le (go_tasks_values g).

Definition go_from_ids (g : graph) : list string :=
  sort_strings (elements (set_map (D := gset string) fst (g_deps g))).
Definition go_to_ids (g : graph) (from : string) : list string := sort_strings (go_deps_keys g from).
Definition go_link_pairs (g : graph) : list (string * string) :=
  from ← go_from_ids g; (λ to, (from, to)) <$> go_to_ids g from.

Definition tasks_from_ok (ir : compact_ir) : bool :=
  name_eqb (ci_tasks_from ir) ("sortedTasks(" ++ ci_graph_var ir ++ ".Tasks)").
Definition links_from_ok (ir : compact_ir) : bool :=
  name_eqb (ci_links_from ir)
    ("sortedMapKeys(" ++ ci_graph_var ir ++ ".Deps) / sortedKeys(" ++ ci_graph_var ir ++ ".Deps[" ++ ci_from_var ir ++ "])").

Definition interp_compact (ir : compact_ir) (g : graph) : option (list event) :=
  if tasks_from_ok ir && links_from_ok ir then
    match concat_mapM (interp_compact_task ir) (go_sorted_tasks g),
          concat_mapM (λ p, interp_compact_link ir p.1 p.2) (go_link_pairs g) with
    | Some a, Some b => Some (a ++ b)
    | _, _ => None
    end
  else None.

Ltac cir_simpl :=
  cbn [cblk cxs cexec_block cexec_stmt ceval ceval_args ccall cbind lookup name_eqb ascii_name_eqb bit_eqb
       andb orb negb cas_bool ceq_values vite task_field meta_field result_field zip_fields
       has_set_stmt has_set_block single_set is_nil_block cis_graph unbound is_stamp
       mk_event mk_item3 fld_str fld_time names_ok mem_name existsb app fst snd
       ci_graph_var ci_tasks_from ci_task_var ci_task_body ci_links_from ci_from_var ci_to_var ci_link_body ci_fns].
