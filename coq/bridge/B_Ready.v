(** Bridge (readiness): the IR GENERATED from graph.go / model.go (gen/ReadyGen.v), run by the
    interpreter of ReadyIR.v, computes exactly the model's readiness functions (theories/Ready.v) —
    for ALL graphs and tasks.  A semantic change of the Go functions changes the generated IR and
    breaks the corresponding theorem below. *)
From Ergo Require Import Base Text Events Replay Ready Compact.
From ErgoBridge Require Import ReadyIR.
From ErgoGen Require Import ReadyGen.
Local Open Scope string_scope.

(** The interpreter's view of the Go maps is the model's. *)
Lemma go_deps_keys_model g i : go_deps_keys g i = dep_ids g i.
Proof. reflexivity. Qed.
Lemma go_tasks_values_model g : go_tasks_values g = all_tasks g.
Proof. reflexivity. Qed.

(** [enter]: unfold one call level and fetch the callee's generated body. *)
Ltac enter :=
  rewrite run_S;
  match goal with
  | |- context [lookup ?f gen_ready_prog] =>
      let r := eval vm_compute in (lookup f gen_ready_prog) in
      change (lookup f gen_ready_prog) with r
  end; ir_simpl.

(** Case split on every atomic test on data that occurs (outside binders) in the goal. *)
Ltac split_atoms :=
  repeat (match goal with
          | |- context [String.eqb ?a ?b] => destruct (String.eqb a b) eqn:?
          | |- context [Z.eqb ?a ?b] => destruct (Z.eqb a b) eqn:?
          | |- context [Z.ltb ?a ?b] => destruct (Z.ltb a b) eqn:?
          | |- context [t_is_epic ?t] => destruct (t_is_epic t) eqn:?
          end; ir_simpl).

(** ** Leaf functions *)
Lemma isEpic_ok n g o :
  run (S n) gen_ready_prog g "isEpic" [VTask o]
  = Some (VBool (match o with Some t => t_is_epic t | None => false end)).
Proof. enter. destruct o as [t|]; ir_simpl; reflexivity. Qed.

Lemma kindForTask_ok n g o :
  run (S n) gen_ready_prog g "kindForTask" [VTask o]
  = Some (VStr (match o with Some t => if t_is_epic t then "epic" else "task" | None => "task" end)).
Proof. enter. destruct o as [t|]; ir_simpl; [|reflexivity]. destruct (t_is_epic t); reflexivity. Qed.

Lemma isEpicComplete_ok n g e :
  run (S n) gen_ready_prog g "isEpicComplete" [VStr e; VGraph] = Some (VBool (is_epic_complete g e)).
Proof.
  enter.
  erewrite for_each_any with
    (p := λ t, negb (if String.eqb (t_epic t) e then done_or_canceled (t_state t) else true))
    (v := VBool false).
  2: { intros t. unfold done_or_canceled. split_atoms; done. }
  rewrite existsb_negb_forallb, go_tasks_values_model. unfold is_epic_complete.
  destruct (forallb _ _); reflexivity.
Qed.

Lemma areEpicDepsComplete_ok n g e :
  run (S (S n)) gen_ready_prog g "areEpicDepsComplete" [VStr e; VGraph]
  = Some (VBool (epic_deps_complete g e)).
Proof.
  enter.
  erewrite for_each_any with
    (p := λ d, negb (match g_tasks g !! d with
                     | None => true
                     | Some de => if t_is_epic de then is_epic_complete g d else true
                     end))
    (v := VBool false).
  2: { intros d. unfold go_tasks_lookup.
       destruct (g_tasks g !! d) as [de|]; ir_simpl; [|done].
       rewrite isEpic_ok. destruct (t_is_epic de); ir_simpl; [|done].
       rewrite isEpicComplete_ok. destruct (is_epic_complete g d); done. }
  rewrite existsb_negb_forallb, go_deps_keys_model. unfold epic_deps_complete.
  destruct (forallb _ _); reflexivity.
Qed.

(** The dependency loop shared by [isReady] and [isBlocked]. *)
Definition dep_open (g : graph) (d : string) : bool :=
  negb (match g_tasks g !! d with None => true | Some o => done_or_canceled (t_state o) end).

Ltac dep_loop g0 v0 :=
  erewrite for_each_any with (p := dep_open g0) (v := v0);
  [ unfold dep_open; rewrite existsb_negb_forallb, go_deps_keys_model
  | let d := fresh "d" in
    intros d; unfold dep_open, go_tasks_lookup, done_or_canceled;
    destruct (g_tasks _ !! d); ir_simpl; [split_atoms|]; done ].

(** ** The four readiness functions *)
Lemma isReady_ok n g t :
  run (S (S (S n))) gen_ready_prog g "isReady" [VTask (Some t); VGraph] = Some (VBool (is_ready g t)).
Proof.
  enter. unfold is_ready, deps_satisfied.
  split_atoms; try done.
  all: dep_loop g (VBool false).
  all: destruct (forallb _ _); ir_simpl; try done.
  all: split_atoms; try done.
  all: rewrite areEpicDepsComplete_ok; ir_simpl.
  all: destruct (epic_deps_complete _ _); done.
Qed.

Lemma isReady_nil n g :
  run (S n) gen_ready_prog g "isReady" [VTask None; VGraph] = Some (VBool false).
Proof. enter. reflexivity. Qed.

Lemma isBlocked_ok n g t :
  run (S (S (S n))) gen_ready_prog g "isBlocked" [VTask (Some t); VGraph] = Some (VBool (is_blocked g t)).
Proof.
  enter. unfold is_blocked, deps_satisfied.
  split_atoms; try done.
  all: dep_loop g (VBool true).
  all: destruct (forallb _ _); ir_simpl; try done.
  all: split_atoms; try done.
  all: rewrite areEpicDepsComplete_ok; ir_simpl.
  all: destruct (epic_deps_complete _ _); done.
Qed.

(** ** Comparisons *)
Lemma ltb_negb_leb a b : String.ltb a b = negb (String.leb b a).
Proof.
  unfold String.ltb, String.leb. rewrite (String.compare_antisym a b).
  destruct (String.compare b a); reflexivity.
Qed.

(** The strict [less] of sort.Slice against the model's non-strict order: less a b = ¬ (b ≤ a). *)
Definition claim_lt_b (a b : task) : bool := negb (bool_decide (claim_le b a)).
Definition id_lt_b (a b : task) : bool := negb (bool_decide (str_le (t_id b) (t_id a))).

Lemma claim_lt_b_eq a b :
  claim_lt_b a b = if Z.eqb (t_created a) (t_created b) then String.ltb (t_id a) (t_id b)
                   else Z.ltb (t_created a) (t_created b).
Proof.
  unfold claim_lt_b. rewrite ltb_negb_leb.
  destruct (decide (claim_le b a)) as [H|H];
    [rewrite bool_decide_eq_true_2 by exact H | rewrite bool_decide_eq_false_2 by exact H];
    unfold claim_le, str_le in H; cbn [negb];
    destruct (Z.eqb_spec (t_created b) (t_created a)) as [E|E];
    destruct (Z.eqb_spec (t_created a) (t_created b)) as [E'|E']; try congruence;
    try (destruct (String.leb (t_id b) (t_id a)); cbn [negb]; congruence);
    destruct (Z.ltb_spec (t_created a) (t_created b)); try reflexivity; lia.
Qed.
Lemma id_lt_b_eq a b : id_lt_b a b = String.ltb (t_id a) (t_id b).
Proof.
  unfold id_lt_b. rewrite ltb_negb_leb. f_equal.
  destruct (String.leb (t_id b) (t_id a)) eqn:E;
    [apply bool_decide_eq_true_2 | apply bool_decide_eq_false_2]; unfold str_le; congruence.
Qed.

Lemma claim_less_ok f n g a b :
  f = "readyTasks.less" \/ f = "sortByCreatedAt.less" ->
  run (S n) gen_ready_prog g f [VTask (Some a); VTask (Some b)] = Some (VBool (claim_lt_b a b)).
Proof.
  rewrite claim_lt_b_eq. intros [-> | ->]; enter; split_atoms; reflexivity.
Qed.

Lemma id_less_ok f n g a b :
  f = "listTasks.less" \/ f = "sortedTasks.less" ->
  run (S n) gen_ready_prog g f [VTask (Some a); VTask (Some b)] = Some (VBool (id_lt_b a b)).
Proof. rewrite id_lt_b_eq. intros [-> | ->]; enter; reflexivity. Qed.

(** ** Filters *)
Definition list_keep (g : graph) (epic : string) (ready_only : bool) (t : task) : bool :=
  (String.eqb epic "" || String.eqb (t_epic t) epic) && (negb ready_only || is_ready g t).
Definition kind_keep (kind : string) (t : task) : bool :=
  String.eqb kind "" || String.eqb kind "any" || String.eqb (if t_is_epic t then "epic" else "task") kind.

Lemma listTasks_keep_ok n g epic ro t :
  run (S (S (S (S n)))) gen_ready_prog g "listTasks.keep" [VGraph; VStr epic; VBool ro; VTask (Some t)]
  = Some (VBool (list_keep g epic ro t)).
Proof.
  enter. unfold list_keep.
  split_atoms; try done.
  all: rewrite isReady_ok; ir_simpl.
  all: destruct ro; ir_simpl; try done; destruct (is_ready g t); done.
Qed.

Lemma filterTasksByKind_keep_ok n g kind t :
  run (S (S n)) gen_ready_prog g "filterTasksByKind.keep" [VSlice; VStr kind; VTask (Some t)]
  = Some (VBool (kind_keep kind t)).
Proof.
  enter. unfold kind_keep.
  split_atoms; try done.
  all: rewrite kindForTask_ok; ir_simpl.
  all: split_atoms; done.
Qed.

Lemma sortedTasks_keep_ok n g t :
  run (S n) gen_ready_prog g "sortedTasks.keep" [VSlice; VTask (Some t)] = Some (VBool true).
Proof. enter. reflexivity. Qed.

(** ** The statements over the whole generated program ([interp] = call depth [length prog]) *)
Ltac top :=
  unfold interp_bool, interp;
  let n := eval vm_compute in (List.length gen_ready_prog) in
  change (List.length gen_ready_prog) with n.

Theorem gen_isReady_matches_model : forall (g : graph) (t : task),
  interp_bool gen_ready_prog g "isReady" [VTask (Some t); VGraph] = Some (is_ready g t).
Proof. intros. top. rewrite isReady_ok. reflexivity. Qed.

Theorem gen_isBlocked_matches_model : forall (g : graph) (t : task),
  interp_bool gen_ready_prog g "isBlocked" [VTask (Some t); VGraph] = Some (is_blocked g t).
Proof. intros. top. rewrite isBlocked_ok. reflexivity. Qed.

Theorem gen_epicComplete_matches_model : forall (g : graph) (e : string),
  interp_bool gen_ready_prog g "isEpicComplete" [VStr e; VGraph] = Some (is_epic_complete g e).
Proof. intros. top. rewrite isEpicComplete_ok. reflexivity. Qed.

Theorem gen_epicDepsComplete_matches_model : forall (g : graph) (e : string),
  interp_bool gen_ready_prog g "areEpicDepsComplete" [VStr e; VGraph] = Some (epic_deps_complete g e).
Proof. intros. top. rewrite areEpicDepsComplete_ok. reflexivity. Qed.

(** nil tasks are neither ready nor blocked (the model has no nil). *)
Theorem gen_nil_task_not_ready_not_blocked : forall g : graph,
  interp_bool gen_ready_prog g "isReady" [VTask None; VGraph] = Some false
  /\ interp_bool gen_ready_prog g "isBlocked" [VTask None; VGraph] = Some false.
Proof. intros. top. split; [rewrite isReady_nil; reflexivity|]. enter. reflexivity. Qed.

(** Both [sort.Slice] closures ordering by (CreatedAt, ID) are the strict part of [claim_le]:
    [less a b] holds exactly when [claim_le b a] fails; hence [claim_le a b <-> less b a = false],
    and a slice sorted by [less] is sorted by [claim_le]. *)
Theorem gen_claim_order_matches_model : forall (g : graph) (a b : task),
  interp_bool gen_ready_prog g "readyTasks.less" [VTask (Some a); VTask (Some b)]
    = Some (negb (bool_decide (claim_le b a)))
  /\ interp_bool gen_ready_prog g "sortByCreatedAt.less" [VTask (Some a); VTask (Some b)]
    = Some (negb (bool_decide (claim_le b a)))
  /\ (claim_le a b <-> interp_bool gen_ready_prog g "readyTasks.less" [VTask (Some b); VTask (Some a)] = Some false).
Proof.
  intros. top. rewrite !claim_less_ok by tauto. cbn [as_bool]. split; [reflexivity|]. split; [reflexivity|].
  unfold claim_lt_b. destruct (decide (claim_le a b)) as [H|H].
  - rewrite bool_decide_eq_true_2 by exact H. tauto.
  - rewrite bool_decide_eq_false_2 by exact H. cbn. split; [tauto|discriminate].
Qed.

(** The by-id closures of [listTasks] / [sortedTasks] are the strict part of the model's id order
    ([key_le] of Compact.v on the keys, [str_le] on ids). *)
Theorem gen_id_order_matches_model : forall (g : graph) (a b : task),
  interp_bool gen_ready_prog g "listTasks.less" [VTask (Some a); VTask (Some b)]
    = Some (negb (bool_decide (str_le (t_id b) (t_id a))))
  /\ interp_bool gen_ready_prog g "sortedTasks.less" [VTask (Some a); VTask (Some b)]
    = Some (negb (bool_decide (str_le (t_id b) (t_id a)))).
Proof. intros. top. rewrite !id_less_ok by tauto. split; reflexivity. Qed.

(** The filters: which elements of graph.Tasks [listTasks] keeps, and which [filterTasksByKind] keeps. *)
Theorem gen_listTasks_filter_matches_model : forall (g : graph) (epic : string) (ready_only : bool) (t : task),
  interp_bool gen_ready_prog g "listTasks.keep" [VGraph; VStr epic; VBool ready_only; VTask (Some t)]
  = Some ((String.eqb epic "" || String.eqb (t_epic t) epic) && (negb ready_only || is_ready g t)).
Proof. intros. top. rewrite listTasks_keep_ok. reflexivity. Qed.

Theorem gen_kind_filter_matches_model : forall (g : graph) (kind : string) (t : task),
  interp_bool gen_ready_prog g "filterTasksByKind.keep" [VSlice; VStr kind; VTask (Some t)]
  = Some (String.eqb kind "" || String.eqb kind "any"
          || String.eqb (if t_is_epic t then "epic" else "task") kind).
Proof. intros. top. rewrite filterTasksByKind_keep_ok. reflexivity. Qed.

(** Together, for [readyTasks(graph, epic, kindTask)] (the only way it is called): exactly the
    filter predicate of the model's [ready_tasks]; the loops range over graph.Tasks and over the
    slice produced by listTasks. *)
Theorem gen_ready_filter_matches_model : forall (g : graph) (epic : string) (t : task),
  (interp_bool gen_ready_prog g "listTasks.keep" [VGraph; VStr epic; VBool true; VTask (Some t)] = Some true
   /\ interp_bool gen_ready_prog g "filterTasksByKind.keep" [VSlice; VStr "task"; VTask (Some t)] = Some true)
  <-> ((epic = "" \/ t_epic t = epic) /\ t_is_epic t = false /\ is_ready g t = true).
Proof.
  intros. rewrite gen_listTasks_filter_matches_model, gen_kind_filter_matches_model.
  cbn [negb orb]. change (String.eqb "task" "") with false. change (String.eqb "task" "any") with false.
  cbn [orb]. rewrite <- (String.eqb_eq epic ""), <- (String.eqb_eq (t_epic t) epic).
  destruct (String.eqb epic ""), (String.eqb (t_epic t) epic), (t_is_epic t), (is_ready g t); cbn;
    intuition congruence.
Qed.

(** [sortedTasks] (used by compactEvents) drops nothing: every value of the map it is given is kept
    (and [gen_id_order_matches_model] is its order). *)
Theorem gen_sortedTasks_keeps_all : forall (g : graph) (t : task),
  interp_bool gen_ready_prog g "sortedTasks.keep" [VSlice; VTask (Some t)] = Some true.
Proof. intros. top. rewrite sortedTasks_keep_ok. reflexivity. Qed.

(** [readyTasks] as a whole: it returns exactly those elements of graph.Tasks that the model's
    [ready_tasks] filter keeps, finally sorted by the closure proved above to be the claim order
    ([gen_claim_order_matches_model]) — i.e. the defining data of
    [ready_tasks g epic = merge_sort claim_le (filter ... (all_tasks g))]. *)
Theorem gen_readyTasks_pipeline_matches_model : forall (g : graph) (epic : string) (t : task),
  interp_pipeline gen_ready_prog gen_readyTasks_pipeline g [VGraph; VStr epic; VStr "task"] t
  = Some (bool_decide ((epic = "" \/ t_epic t = epic) /\ t_is_epic t = false /\ is_ready g t = true),
          "readyTasks.less").
Proof.
  intros. unfold interp_pipeline.
  let n := eval vm_compute in (List.length gen_ready_prog) in change (List.length gen_ready_prog) with n.
  let b := eval vm_compute in gen_readyTasks_pipeline in change gen_readyTasks_pipeline with b.
  ir_simpl. rewrite listTasks_keep_ok. ir_simpl. rewrite filterTasksByKind_keep_ok. ir_simpl.
  do 2 f_equal. unfold list_keep, kind_keep. cbn [negb orb].
  change (String.eqb "task" "") with false. change (String.eqb "task" "any") with false. cbn [orb].
  destruct (String.eqb_spec epic ""), (String.eqb_spec (t_epic t) epic), (t_is_epic t) eqn:?, (is_ready g t) eqn:?;
    cbn; symmetry; first [apply bool_decide_eq_true_2; tauto | apply bool_decide_eq_false_2; intuition congruence].
Qed.

Example gen_filter_sources_ok :
  gen_filter_sources = [("filterTasksByKind.keep", "param tasks"); ("listTasks.keep", "graph.Tasks");
                        ("sortedTasks.keep", "param tasks")].
Proof. reflexivity. Qed.

Print Assumptions gen_isReady_matches_model.
Print Assumptions gen_isBlocked_matches_model.
Print Assumptions gen_epicComplete_matches_model.
Print Assumptions gen_epicDepsComplete_matches_model.
Print Assumptions gen_claim_order_matches_model.
Print Assumptions gen_id_order_matches_model.
Print Assumptions gen_listTasks_filter_matches_model.
Print Assumptions gen_kind_filter_matches_model.
Print Assumptions gen_ready_filter_matches_model.
Print Assumptions gen_nil_task_not_ready_not_blocked.
Print Assumptions gen_sortedTasks_keeps_all.
Print Assumptions gen_readyTasks_pipeline_matches_model.
