(** Bridge (cycle detection): the IR GENERATED from graph.go's [hasCycle] / [isReachable]
    (gen/CycleGen.v), run by the stateful interpreter of HeapIR.v, computes exactly the model's
    [has_cycle] (theories/Ready.v) — for ALL graphs (cyclic ones, self-loops, dangling edges
    included), for EVERY order in which the Go runtime may iterate over graph.Deps[x] (every fair
    oracle), with a call-depth fuel of [size (g_deps g) + 3] or anything larger.

    Two steps: (1) the interpreter of the generated program equals the reference DFS [dfs] of
    CycleIR.v, by symbolic execution of the generated IR (this is the part a change of the Go
    source breaks); (2) [dfs] decides reachability (CycleIR.v, independent of the generated code)
    and so does the model's fuelled frontier search (Graphs.v). *)
From stdpp Require Import relations.
From Ergo Require Import Base Text Events Replay Ready Compact Path Cmd Graphs.
From ErgoBridge Require Import ReadyIR HeapIR CycleIR.
From ErgoGen Require Import CycleGen.
From Coq Require Import String.
Local Open Scope string_scope.
Local Open Scope list_scope.

(** The interpreter's view of graph.Deps[i] is the model's. *)
Lemma go_deps_keys_model g i : go_deps_keys g i = dep_ids g i.
Proof. reflexivity. Qed.

(** [enter]: unfold one call level and fetch the callee's generated body. *)
Ltac enter :=
  rewrite srun_S;
  match goal with
  | |- context [lookup ?f gen_cycle_prog] =>
      let r := eval vm_compute in (lookup f gen_cycle_prog) in
      change (lookup f gen_cycle_prog) with r
  end; sir_simpl.

Definition cycle_fuel (g : graph) : nat := size (g_deps g) + 3.

(** What the interpreter returns for a call whose reference result is [res]: the boolean, and the
    state in which only the visited map (cell [r]) and the oracle tick have changed. *)
Definition lift_dfs (h : list cell) (r : nat) (res : option (bool * vmap * nat)) : option (value * state) :=
  match res with
  | Some (b, m', k) => Some (VBool b, State (<[r := CBools m']> h) k)
  | None => None
  end.

Section with_graph.
  Context (g : graph) (o : oracle).

  (** ** Step 1: the generated [isReachable] IS the reference DFS (same fuel, same oracle). *)
  Lemma isReachable_dfs n : forall h k r m s t,
    h !! r = Some (CBools m) ->
    srun n gen_cycle_prog g o "isReachable" [VGraph; VStr s; VStr t; VRef r] (State h k)
    = lift_dfs h r (dfs g o n s t m k).
  Proof.
    induction n as [|n IH]; intros h k r m s t Hr; [reflexivity|].
    enter. cbn [dfs].
    destruct (String.eqb s t); sir_simpl.
    { cbn [lift_dfs]. rewrite list_insert_id by exact Hr. reflexivity. }
    rewrite Hr. cbn [cell_get]. fold (mget m s).
    destruct (mget m s); sir_simpl.
    { cbn [lift_dfs]. rewrite list_insert_id by exact Hr. reflexivity. }
    rewrite Hr. cbn [cell_set]. st_simpl.
    rewrite go_deps_keys_model.
    (* the loop: by induction on the list of keys, for any current visited map *)
    set (h1 := <[r := CBools (<[s := true]> m)]> h).
    assert (Hr1 : h1 !! r = Some (CBools (<[s := true]> m))).
    { subst h1. apply list_lookup_insert. eapply lookup_lt_Some. exact Hr. }
    assert (Hh1 : forall m', <[r := CBools m']> h1 = <[r := CBools m']> h).
    { intros m'. subst h1. apply list_insert_insert. }
    generalize (or_keys o k (dep_ids g s)) as l.
    generalize (S k) as k1.
    revert Hr1 Hh1. generalize (<[s := true]> m) as m1. generalize h1 as hh. clear h1.
    intros hh m1 Hr1 Hh1 k1 l. revert hh m1 k1 Hr1 Hh1.
    induction l as [|d l IHl]; intros hh m1 k1 Hr1 Hh1.
    { sir_simpl. cbn [dfs_loop lift_dfs]. rewrite <- Hh1.
      rewrite list_insert_id by exact Hr1. reflexivity. }
    sir_simpl. cbn [dfs_loop].
    rewrite (IH hh k1 r m1 d t Hr1).
    destruct (dfs g o n d t m1 k1) as [[[b m2] k2]|]; cbn [lift_dfs]; [|reflexivity].
    destruct b; sir_simpl.
    { rewrite Hh1. reflexivity. }
    apply IHl.
    - apply list_lookup_insert. eapply lookup_lt_Some. exact Hr1.
    - intros m'. rewrite list_insert_insert. apply Hh1.
  Qed.

  (** The generated [hasCycle]: the self-loop test, a fresh visited map, the DFS from [to]. *)
  Lemma hasCycle_dfs n h k from to :
    srun (S n) gen_cycle_prog g o "hasCycle" [VGraph; VStr from; VStr to] (State h k)
    = if String.eqb from to then Some (VBool true, State h k)
      else lift_dfs (h ++ [CBools ∅]) (List.length h) (dfs g o n to from ∅ k).
  Proof.
    enter. destruct (String.eqb from to); st_simpl; [reflexivity|].
    rewrite (isReachable_dfs n (h ++ [CBools ∅]) k (List.length h) ∅ to from)
      by (apply list_lookup_middle; reflexivity).
    destruct (dfs g o n to from ∅ k) as [[[b m'] k']|]; reflexivity.
  Qed.

  Context (Hfair : fair o).

  (** ** Step 2: conclusions about the generated program *)
  Lemma hasCycle_ok n h k from to :
    cycle_fuel g <= n ->
    exists σ', srun n gen_cycle_prog g o "hasCycle" [VGraph; VStr from; VStr to] (State h k)
               = Some (VBool (has_cycle g from to), σ').
  Proof.
    unfold cycle_fuel. intros Hn. destruct n as [|n]; [lia|].
    rewrite hasCycle_dfs. unfold has_cycle.
    destruct (String.eqb from to); [eexists; reflexivity|].
    destruct (dfs_reach g o Hfair n to from k) as (m' & k' & ->); [lia|].
    cbn [lift_dfs]. eexists; reflexivity.
  Qed.
End with_graph.

(** ** The statements *)
Definition interp_hasCycle (o : oracle) (p : prog) (g : graph) (from to : string) : option bool :=
  match srun (cycle_fuel g) p g o "hasCycle" [VGraph; VStr from; VStr to] init_state with
  | Some (VBool b, _) => Some b
  | _ => None
  end.

(** [isReachable] called on a fresh (empty) visited map *)
Definition interp_isReachable (o : oracle) (p : prog) (g : graph) (start target : string) : option bool :=
  match srun (cycle_fuel g) p g o "isReachable" [VGraph; VStr start; VStr target; VRef 0] (State [CBools ∅] 0) with
  | Some (VBool b, _) => Some b
  | _ => None
  end.

Theorem gen_hasCycle_matches_model : forall (o : oracle), fair o -> forall (g : graph) (from to : string),
  interp_hasCycle o gen_cycle_prog g from to = Some (has_cycle g from to).
Proof.
  intros o Hf g from to. unfold interp_hasCycle, init_state.
  destruct (hasCycle_ok g o Hf (cycle_fuel g) [] 0 from to) as [σ' ->]; [lia|]. reflexivity.
Qed.

(** ... with the iteration order fixed to the one of [elements] ... *)
Corollary gen_hasCycle_matches_model_id : forall (g : graph) (from to : string),
  interp_hasCycle id_oracle gen_cycle_prog g from to = Some (has_cycle g from to).
Proof. apply gen_hasCycle_matches_model, id_oracle_fair. Qed.

(** ... from any state, with any fuel that is at least [size (g_deps g) + 3] ... *)
Theorem gen_hasCycle_any_fuel : forall (o : oracle), fair o -> forall (g : graph) (from to : string) (n : nat) (σ : state),
  size (g_deps g) + 3 <= n ->
  exists σ', srun n gen_cycle_prog g o "hasCycle" [VGraph; VStr from; VStr to] σ
             = Some (VBool (has_cycle g from to), σ').
Proof. intros o Hf g from to n [h k] Hn. by apply hasCycle_ok. Qed.

(** ... and against the relation: "adding from -> to closes a cycle". *)
Corollary gen_hasCycle_decides_cycle : forall (o : oracle), fair o -> forall (g : graph) (from to : string),
  interp_hasCycle o gen_cycle_prog g from to = Some true <-> (from = to \/ rtc (edge g) to from).
Proof.
  intros o Hf g from to. rewrite gen_hasCycle_matches_model by exact Hf.
  rewrite <- has_cycle_spec. split; [by intros [= ->]|by intros ->].
Qed.

(** [isReachable] on an empty visited map: the model's search ([reach_fuel], the body of
    [has_cycle]), i.e. reflexive-transitive reachability along deps. *)
Theorem gen_isReachable_matches_model : forall (o : oracle), fair o -> forall (g : graph) (start target : string),
  interp_isReachable o gen_cycle_prog g start target
  = Some (reach_fuel (S (size (g_deps g))) g [start] [] target).
Proof.
  intros o Hf g start target. unfold interp_isReachable.
  rewrite (isReachable_dfs g o (cycle_fuel g) [CBools ∅] 0 0 ∅ start target eq_refl).
  destruct (dfs_reach g o Hf (cycle_fuel g) start target 0) as (m' & k' & ->);
    [unfold cycle_fuel; lia|]. reflexivity.
Qed.

Corollary gen_isReachable_decides_rtc : forall (o : oracle), fair o -> forall (g : graph) (start target : string),
  interp_isReachable o gen_cycle_prog g start target = Some true <-> rtc (edge g) start target.
Proof.
  intros o Hf g start target. rewrite gen_isReachable_matches_model by exact Hf.
  rewrite <- reach_fuel_top_spec. split; [intros H; injection H as H; exact H|intros ->; reflexivity].
Qed.

(** [isReachable] with ANY visited map [m] in cell [r] (the general contract of the recursive
    function): it answers, it only ever adds to the visited set, it changes nothing but that cell,
    and the answer is "there is a path from start to target whose nodes before the last are all
    unvisited". *)
Theorem gen_isReachable_general : forall (o : oracle), fair o ->
  forall (g : graph) (start target : string) (h : list cell) (k r : nat) (m : vmap) (n : nat),
  h !! r = Some (CBools m) ->
  size (g_deps g) + 2 <= n ->
  exists b m' k',
    srun n gen_cycle_prog g o "isReachable" [VGraph; VStr start; VStr target; VRef r] (State h k)
      = Some (VBool b, State (<[r := CBools m']> h) k')
    /\ vis m ⊆ vis m'
    /\ (b = true <-> wpath g (vis m) start target).
Proof.
  intros o Hf g start target h k r m n Hr Hn.
  rewrite (isReachable_dfs g o n h k r m start target Hr).
  destruct (dfs_decides g o Hf n start target m k) as (b & m' & k' & -> & Hsub & Hb).
  { pose proof (edge_targets_size g).
    assert (size ((edge_targets g ∪ {[start]}) ∖ vis m) <= size (edge_targets g ∪ {[start]})) as H1
      by (apply subseteq_size; set_solver).
    pose proof (size_union_alt (edge_targets g) {[start]}) as H2.
    assert (size ({[start]} ∖ edge_targets g : gset string) <= 1) as H3.
    { etrans; [apply (subseteq_size _ {[start]}); set_solver|]. by rewrite size_singleton. }
    lia. }
  exists b, m', k'. cbn [lift_dfs]. done.
Qed.

(** The interpreter runs: a graph with a 2-cycle, a self-loop and an edge to a node that is no
    task (the model's graph has no tasks at all here). *)
Section example.
  Let gx : graph := Graph ∅ (list_to_set [("a", "b"); ("b", "a"); ("b", "c"); ("d", "d"); ("c", "zz")]) ∅.
  Example gen_hasCycle_runs :
    interp_hasCycle id_oracle gen_cycle_prog gx "c" "a" = Some true        (* a ->* c: c -> a would close a cycle *)
    /\ interp_hasCycle id_oracle gen_cycle_prog gx "a" "c" = Some false   (* c -/->* a *)
    /\ interp_hasCycle id_oracle gen_cycle_prog gx "zz" "a" = Some true
    /\ interp_hasCycle id_oracle gen_cycle_prog gx "a" "d" = Some false
    /\ interp_hasCycle id_oracle gen_cycle_prog gx "q" "q" = Some true.
  Proof. vm_compute. repeat split; reflexivity. Qed.
End example.

(** Out of fuel the interpreter gives no answer (it never guesses). *)
Example gen_hasCycle_no_fuel : forall o g from to σ,
  srun 0 gen_cycle_prog g o "hasCycle" [VGraph; VStr from; VStr to] σ = None.
Proof. reflexivity. Qed.

Print Assumptions gen_hasCycle_matches_model.
Print Assumptions gen_hasCycle_matches_model_id.
Print Assumptions gen_hasCycle_any_fuel.
Print Assumptions gen_hasCycle_decides_cycle.
Print Assumptions gen_isReachable_matches_model.
Print Assumptions gen_isReachable_decides_rtc.
Print Assumptions gen_isReachable_general.
