(** Bridge obligations for C05 over the control-flow skeleton GENERATED from the current sources. *)
From Coq Require Import String List.
From ErgoGen Require Import Skeleton.
From ErgoBridge Require Import SkelLib.
Import ListNotations.
Local Open Scope string_scope.

(** Every stamp a command writes is read from the clock while it holds the lock: the log's stamps are then
    non-decreasing in log order whenever the wall clock is ([ReachM]'s [clock_ok] hypothesis is about the code). *)
Example C05_stamps_are_taken_under_the_lock : concat (map clock_ok mutating_entries) = [].
Proof. vm_compute. reflexivity. Qed.
