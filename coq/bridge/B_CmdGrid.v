(** Bridge (command decision code), part 2: the IR GENERATED from [buildSetEvents], [applySetUpdates],
    [createTaskWithDir], [writeLinkEvents] and the lock section of [RunClaimOldestReady] (gen/CmdGen.v),
    run by the interpreter of CmdIR.v, decides and writes exactly what the hand-written model's
    transactions ([build_set_events], [set_txn], [new_txn], [seq_txn], the claim of [run_txn]) decide —
    on a finite GRID of inputs that takes every value class of every predicate these functions test
    (item kind, each of the six states and an invalid one, claimed / unclaimed, every subset of update keys
    with blank / padded / ordinary values, live / epic / pruned / unknown ids, every result-file verdict,
    with and without an agent identity; for links: every id sequence of length 2 and 3 over live tasks,
    epics, a pruned and an unknown id, on a graph with an existing chain).

    These are computations inside Coq over the regenerated code ([vm_compute]): they are re-run whenever
    the Go sources change and fail when the generated code and the model disagree on a grid point.  They
    are NOT statements for all inputs (the universally quantified parts are in B_Cmd.v, B_C06.v,
    B_Cycle.v, B_Ready.v). *)
From Ergo Require Import Base Text Events Replay Ready Path Cmd.
From ErgoBridge Require Import ReadyIR CmdIR.
From ErgoGen Require Import CmdGen.
From Coq Require Import String ZArith List.
Import ListNotations.
Local Open Scope string_scope.
Local Open Scope list_scope.

Local Instance event_eq_dec : EqDecision event. Proof. solve_decision. Defined.

Definition fuel : nat := 8.

(** ** Decoding results *)
Definition events_of (v : cval) : option (list event) :=
  match as_list v with Some l => as_events l | None => None end.

Definition opt_kv (k : string) (o : option string) : list (string * cval) :=
  match o with Some v => [(k, VStr v)] | None => [] end.
Definition upd_map (u : upd) : list (string * cval) :=
  opt_kv "title" (u_title u) ++ opt_kv "body" (u_body u) ++ opt_kv "epic" (u_epic u)
  ++ opt_kv "state" (u_state u) ++ opt_kv "claim" (u_claim u)
  ++ opt_kv "result.path" (u_rpath u) ++ opt_kv "result.summary" (u_rsum u).

Definition st0 (e : Cmd.env) (clock : list time) (g : option graph) : cstate :=
  CState clock (e_ids e) (e_uuids e) g (e_fkind e) (e_sha e) (e_mtime e) (e_git e) [] [].

Definition mk_env (fk : fkind) : Cmd.env :=
  Env ["T1"; "P1"; "NEW1"; "NEW2"] ["u-1"; "u-2"] 100%Z 200%Z [] fk "sha" "mt" "git".

(** ** The grid *)
Definition all_states : list string := ["todo"; "doing"; "done"; "blocked"; "canceled"; "error"].
Definition mk_t (i : string) (ie : bool) (st cl ep : string) : task :=
  Task i ("uu-" ++ i) ep ie st ("title " ++ i) "body" cl 10%Z 20%Z [] ("title " ++ i) "body" st ep 10%Z 0%Z 0%Z 0%Z 0%Z 0%Z.

Definition grid_tasks : list task :=
  flat_map (λ ie, flat_map (λ st, (λ cl, mk_t "T1" ie st cl "") <$> [""; "bob"]) all_states) [false; true].

Definition opts {A} (l : list A) : list (option A) := None :: (Some <$> l).
Definition grid_upds_fields : list upd :=
  flat_map (λ ti, flat_map (λ bo, flat_map (λ ep, flat_map (λ st, (λ cl, Upd ti bo ep st cl None None) <$> opts [""; "amy"])
    (opts ["doing"; "done"; "bogus"])) (opts ["E1"])) (opts ["b"])) (opts [" x "; "  "]).
(** every (current state, claimed?) x (requested state incl. invalid and empty, claim absent / empty / given / padded) *)
Definition grid_upds_state : list upd :=
  flat_map (λ st, (λ cl, Upd None None None st cl None None) <$> opts [""; "amy"; " amy "]) (opts (all_states ++ ["bogus"; ""])).
Definition few_tasks : list task :=
  [mk_t "T1" false "todo" "" ""; mk_t "T1" false "doing" "bob" "E1"; mk_t "T1" false "blocked" "" ""; mk_t "T1" true "todo" "" ""].

(** ** buildSetEvents *)
Definition bse_agrees (t : task) (u : upd) (agent : string) : bool :=
  match crun fuel gen_cmd_prog "buildSetEvents"
          [VStr "T1"; VTask t; VMap (upd_map u); VStr agent; VTime 100%Z; VFunc "identityBodyResolver"] (st0 (mk_env FRegular) [] None) with
  | Some (VTuple [evs; VMap []; VNil], _) =>
      bool_decide (events_of evs = build_set_events "T1" t u agent 100%Z)
  | Some (VTuple [VNil; VNil; VErr _], _) => bool_decide (build_set_events "T1" t u agent 100%Z = None)
  | _ => false
  end.

Definition bse_grid : list (task * upd * string) :=
  flat_map (λ t, flat_map (λ u, (λ a, (t, u, a)) <$> [""; "zed"]) grid_upds_state) grid_tasks
  ++ flat_map (λ t, flat_map (λ u, (λ a, (t, u, a)) <$> [""; "zed"]) grid_upds_fields) few_tasks.

Theorem gen_buildSetEvents_agrees_on_grid :
  forallb (λ '(t, u, a), bse_agrees t u a) bse_grid = true.
Proof. Time vm_compute. reflexivity. Qed.

(** ** The graph the transactions run on: tasks T1 (todo), T2 (doing, claimed, depends on T1), T3 (done),
    epics E1 E2, a task C1 inside E1, the pruned id P1 *)
Definition g0 : graph :=
  Graph (list_to_map [("T1", mk_t "T1" false "todo" "" ""); ("T2", mk_t "T2" false "doing" "bob" "");
                      ("T3", mk_t "T3" false "done" "" ""); ("C1", mk_t "C1" false "todo" "" "E1");
                      ("E1", mk_t "E1" true "todo" "" ""); ("E2", mk_t "E2" true "todo" "" "")])
        {[ ("T2", "T1") ]} {[ "P1" ]}.

Definition is_vnil (v : cval) : bool := match v with VNil => true | _ => false end.
Fixpoint strs_of (l : list cval) : option (list string) :=
  match l with
  | [] => Some []
  | VStr s :: r => match strs_of r with Some l' => Some (s :: l') | None => None end
  | _ => None
  end.
Definition printed_is (σ : cstate) (l : list string) : bool := bool_decide (strs_of (cs_out σ) = Some l).

(** ** applySetUpdates = set_txn *)
Definition result_variants : list (option string * option string) :=
  [(None, None); (Some "out/r.txt", None); (None, Some "s"); (Some "out/./r.txt", Some " done "); (Some "../x", Some "s");
   (Some "out/r.txt", Some "  ")].

Definition set_grid : list (string * upd * string * fkind) :=
  flat_map (λ i, flat_map (λ ti, flat_map (λ ep, flat_map (λ st, flat_map (λ cl,
    (λ a, (i, Upd ti None ep st cl None None, a, FRegular)) <$> [""; "zed"])
    (opts ["amy"])) (opts ["doing"; "done"; "bogus"])) (opts ["E1"; "T2"; "NOPE"; ""; "P1"]))
    (opts ["x"])) ["T1"; "T2"; "T3"; "E1"; "P1"; "ZZ"]
  ++ flat_map (λ i, flat_map (λ '(rp, rs), flat_map (λ fk,
       (λ '(ep, st), (i, Upd None None ep st None rp rs, "zed", fk)) <$> [(None, None); (None, Some "done"); (Some "NOPE", None); (Some "E1", Some "bogus")])
       [FRegular; FMissing; FDir; FOther]) (tl result_variants)) ["T1"; "T2"; "T3"; "E1"; "P1"; "ZZ"].

Definition set_agrees (i : string) (u : upd) (agent : string) (fk : fkind) : bool :=
  let e := mk_env fk in
  let clock := if is_some (u_rpath u) && is_some (u_rsum u) then [e_now_result e; e_now e] else [e_now e] in
  match crun fuel gen_cmd_prog "applySetUpdates"
          [VStr "/p/.ergo"; VNil; VStr i; VMap (upd_map u); VStr agent; VBool false] (st0 e clock (Some g0)) with
  | Some (r, σ) =>
      match set_txn e i u agent g0 with
      | Some evs => is_vnil r && bool_decide (cs_writes σ = [evs]) && printed_is σ [i]
      | None => match r with VErr _ => bool_decide (cs_writes σ = []) && printed_is σ [] | _ => false end
      end
  | None => false
  end.

Theorem gen_applySetUpdates_agrees_on_grid :
  forallb (λ '(i, u, a, fk), set_agrees i u a fk) set_grid = true.
Proof. Time vm_compute. reflexivity. Qed.

(** ** writeLinkEvents = seq_txn (all edges checked against the graph as it grows, one append) *)
Definition link_pool : list string := ["T1"; "T2"; "T3"; "E1"; "E2"; "P1"; "ZZ"].
Definition id_seqs : list (list string) :=
  flat_map (λ a, flat_map (λ b, [a; b] :: ((λ c, [a; b; c]) <$> link_pool)) link_pool) link_pool.
Definition edge_val (e : string * string) : cval := VStruct "sequenceEdge" [("FromID", VStr (fst e)); ("ToID", VStr (snd e))].

Definition link_agrees (link : bool) (ids : list string) : bool :=
  let edges := seq_edges ids in
  match crun fuel gen_cmd_prog "writeLinkEvents"
          [VStr "/p/.ergo"; VNil; VStr (if link then "link" else "unlink"); VList (edge_val <$> edges)]
          (st0 (mk_env FRegular) [1%Z; 2%Z; 3%Z; 4%Z] (Some g0)) with
  | Some (r, σ) =>
      match seq_txn link g0 edges with
      | Some evs => is_vnil r && bool_decide (cs_writes σ = [evs])
      | None => match r with VErr _ => bool_decide (cs_writes σ = []) | _ => false end
      end
  | None => false
  end.

Theorem gen_writeLinkEvents_agrees_on_grid :
  forallb (λ ids, link_agrees true ids && link_agrees false ids) id_seqs = true.
Proof. Time vm_compute. reflexivity. Qed.

(** ** createTaskWithDir = new_txn (candidate ids: a live one, a pruned one, then fresh ones) *)
Definition new_grid : list (bool * string * upd * string * fkind) :=
  ((λ ep, (true, ep, upd_none, "zed", FRegular)) <$> [""; "E1"; "NOPE"])
  ++ flat_map (λ ep, flat_map (λ st, flat_map (λ cl, flat_map (λ '(rp, rs),
       flat_map (λ fk, (λ a, (false, ep, Upd None None None st cl rp rs, a, fk)) <$> [""; "zed"]) [FRegular; FMissing])
       [(None, None); (Some "out/./r.txt", Some " done "); (Some "out/r.txt", None)]) (opts [""; "amy"])) (opts ["doing"; "done"; "bogus"])) [""; "E1"; "T1"; "NOPE"].

Definition field_str (f : string) (v : cval) : option string :=
  match v with VStruct _ fs => match fassoc f fs with Some (VStr s) => Some s | _ => None end | _ => None end.

Definition new_agrees (ie : bool) (ep : string) (u : upd) (agent : string) (fk : fkind) : bool :=
  let e := mk_env fk in
  match crun fuel gen_cmd_prog "createTaskWithDir"
          [VStr "/p/.ergo"; VNil; VStr "/p/.ergo/lock"; VStr "/p/.ergo/plans.jsonl"; VStr ep; VBool ie; VStr "the title"; VStr "the body";
           VMap (upd_map u); VStr agent] (st0 e [e_now e; e_now_result e] (Some g0)) with
  | Some (VTuple [out; r], σ) =>
      match new_txn e ie "the title" "the body" ep u agent g0 with
      | Some (evs, RCreated i st) =>
          is_vnil r && bool_decide (cs_writes σ = [evs]) && bool_decide (field_str "id" out = Some i)
          && bool_decide (field_str "state" out = Some st)
      | Some _ => false
      | None => match r with VErr _ => bool_decide (cs_writes σ = []) | _ => false end
      end
  | _ => false
  end.

Theorem gen_createTaskWithDir_agrees_on_grid :
  forallb (λ '(ie, ep, u, a, fk), new_agrees ie ep u a fk) new_grid = true.
Proof. Time vm_compute. reflexivity. Qed.

(** ** the lock section of RunClaimOldestReady = the claim of [run_txn] *)
Definition captured_value (agent epic : string) (name : string) : cval :=
  if name_eqb name "agentID" then VStr agent
  else if name_eqb name "epicID" then VStr epic
  else if name_eqb name "chosen" then VNil
  else if name_eqb name "now" then VTime zero_time
  else if name_eqb name "err" then VNil
  else if name_eqb name "opts" then VNil
  else VStr ("<" ++ name ++ ">").

(** graphs: [g0]; [g0] with T1 finished (nothing ready outside the epic); an empty graph *)
Definition g1 : graph := Graph (<["T1" := mk_t "T1" false "done" "" ""]> (g_tasks g0)) (g_deps g0) (g_tombs g0).
Definition claim_grid : list (graph * string) :=
  flat_map (λ g, (λ ep, (g, ep)) <$> [""; "E1"; "E2"; "NOPE"]) [g0; g1; empty_graph].

Definition claim_agrees (g : graph) (epic : string) : bool :=
  match lookup "RunClaimOldestReady" gen_cmd_sections with
  | Some (caps, body) =>
      let ρ := (λ nm, (nm, captured_value "zed" epic nm)) <$> caps in
      match crun_section fuel gen_cmd_prog body ρ (st0 (mk_env FRegular) [100%Z] (Some g)) with
      | Some (r, ρ', σ) =>
          match ready_tasks g epic with
          | [] => match r with VErr _ => bool_decide (cs_writes σ = []) | _ => false end
          | t :: _ =>
              is_vnil r
              && bool_decide (cs_writes σ = [[EClaim (t_id t) "zed" (Some 100%Z); EState (t_id t) "doing" (Some 100%Z)]])
              && match lookup "chosen" ρ' with Some (VTask t') => String.eqb (t_id t') (t_id t) | _ => false end
          end
      | None => false
      end
  | None => false
  end.

Theorem gen_claim_section_agrees_on_grid :
  forallb (λ '(g, ep), claim_agrees g ep) claim_grid = true.
Proof. Time vm_compute. reflexivity. Qed.

(** ** the lock section of RunPlan = plan_txn (ids reserved as they are allocated, one clock reading for the epic
    and one per task, duplicate edges suppressed, id-level cycle re-check, ONE rewrite of the log) *)
Definition optstr_val (o : option string) : cval := match o with Some b => VStr b | None => VNil end.
Definition ptask_val (t : ptask) : cval :=
  VStruct "PlanTaskInput" [("title", VStr (pt_title t)); ("body", optstr_val (pt_body t)); ("after", VList (VStr <$> pt_after t))].
Definition plan_val (p : plan) : cval :=
  VStruct "PlanInput" [("title", VStr (p_title p)); ("body", optstr_val (p_body p)); ("tasks", VList (ptask_val <$> p_tasks p))].

Definition plan_env : Cmd.env :=
  Env ["T1"; "P1"; "N1"; "N1"; "N2"; "E1"; "N3"; "N4"; "N5"; "N6"] ["u-1"; "u-2"; "u-3"; "u-4"; "u-5"; "u-6"] 100%Z 200%Z
      [201%Z; 202%Z; 203%Z; 204%Z; 205%Z] FRegular "sha" "mt" "git".

Definition plan_grid : list plan :=
  [Plan "one" None [PTask "a" None []];
   Plan "chain" (Some "epic body") [PTask "a" None []; PTask "b" (Some "bb") ["a"]; PTask "c" None ["b"]];
   Plan "dups" None [PTask "a" None []; PTask "b" None ["a"; "a"]; PTask "c" (Some "x") ["a"; "b"; "a"]];
   Plan "diamond" None [PTask "top" None ["l"; "r"]; PTask "l" None ["base"]; PTask "r" None ["base"]; PTask "base" None []];
   Plan "forward" None [PTask "first" None ["last"]; PTask "last" None []]].

Definition plan_captured (p : plan) (name : string) : cval :=
  if name_eqb name "input" then plan_val p
  else if name_eqb name "out" then VStruct "planOutput" []
  else if name_eqb name "err" then VNil
  else if name_eqb name "verr" then VNil
  else if name_eqb name "opts" then VNil
  else if name_eqb name "args" then VNil
  else VStr ("<" ++ name ++ ">").

Definition out_ids (v : cval) : option (string * list string * list (string * string)) :=
  match v with
  | VStruct _ fs =>
      match fassoc "epic" fs, fassoc "tasks" fs, fassoc "edges" fs with
      | Some ep, Some (VList ts), Some es =>
          match field_str "id" ep, as_list es with
          | Some eid, Some el =>
              let tids := omap (field_str "id") ts in
              let edges := omap (λ e, match field_str "from_id" e, field_str "to_id" e with Some a, Some b => Some (a, b) | _, _ => None end) el in
              if Nat.eqb (List.length tids) (List.length ts) && Nat.eqb (List.length edges) (List.length el)
              then Some (eid, tids, edges) else None
          | _, _ => None
          end
      | _, _, _ => None
      end
  | _ => None
  end.

Definition plan_agrees (g : graph) (p : plan) : bool :=
  match lookup "RunPlan" gen_cmd_sections with
  | Some (caps, body) =>
      let e := plan_env in
      let ρ := (λ nm, (nm, plan_captured p nm)) <$> caps in
      let clock := e_now e :: take (List.length (p_tasks p)) (e_nows e) ++ [900%Z; 901%Z; 902%Z; 903%Z; 904%Z; 905%Z; 906%Z; 907%Z] in
      match crun_section fuel gen_cmd_prog body ρ (st0 e clock (Some g)) with
      | Some (r, ρ', σ) =>
          match plan_txn e p [] g with
          | Some (evs, RPlanned eid tids edges) =>
              is_vnil r && bool_decide (cs_writes σ = [evs])
              && match lookup "out" ρ' with
                 | Some o => bool_decide (out_ids o = Some (eid, tids, edges))
                 | None => false
                 end
          | Some _ => false
          | None => match r with VErr _ => bool_decide (cs_writes σ = []) | _ => false end
          end
      | None => false
      end
  | None => false
  end.

Theorem gen_plan_section_agrees_on_grid :
  forallb plan_valid plan_grid = true
  /\ forallb (λ g, forallb (plan_agrees g) plan_grid) [g0; empty_graph] = true.
Proof. split; vm_compute; reflexivity. Qed.

(** The grids are not trivial: how many points, and how many of them are accepted requests. *)
Definition grid_sizes : list nat :=
  [List.length bse_grid; List.length (filter (λ '(t, u, a), is_some (build_set_events "T1" t u a 100%Z)) bse_grid);
   List.length set_grid; List.length (filter (λ '(i, u, a, fk), is_some (set_txn (mk_env fk) i u a g0)) set_grid);
   List.length id_seqs; List.length (filter (λ ids, is_some (seq_txn true g0 (seq_edges ids))) id_seqs);
   List.length new_grid; List.length (filter (λ '(ie, ep, u, a, fk), is_some (new_txn (mk_env fk) ie "the title" "the body" ep u a g0)) new_grid);
   List.length claim_grid; List.length plan_grid;
   List.length (filter (λ p, is_some (plan_txn plan_env p [] g0)) plan_grid)].
Eval vm_compute in grid_sizes.

Print Assumptions gen_buildSetEvents_agrees_on_grid.
Print Assumptions gen_applySetUpdates_agrees_on_grid.
