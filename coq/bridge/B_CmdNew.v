(** Bridge: [createTaskWithDir] (storage.go; behind `new task` / `new epic`), regenerated into the mini-Go IR
    (gen/CmdGen.v), is the model's [new_txn] — FOR ALL graphs, parent references, titles, initial
    state / claim / result requests, agent identities, candidate-id streams, clock readings and result-file
    verdicts: the parent must be a live epic; live AND pruned ids are reserved; the create event and the
    events of the initial updates go out in ONE [appendEvents] or nothing is written; the reply carries the id
    and the state the item really ends in. *)
From Ergo Require Import Base Text Events Replay Ready Path Cmd.
From ErgoBridge Require Import ReadyIR CmdIR B_Cmd B_CmdSet B_CmdApply.
From ErgoGen Require Import CmdGen.
From Coq Require Import String ZArith List Lia.
Import ListNotations.
Local Open Scope string_scope.
Local Open Scope list_scope.

Ltac sb1 :=
  match goal with
  | |- context C [cexec_block ?call ?ρ ?σ (CBCons ?s ?r)] =>
      let t := constr:(match cexec_stmt call ρ σ s with ONormal ρ1 σ1 => cexec_block call ρ1 σ1 r | o => o end) in
      let G := context C [t] in change G
  end.
Ltac sb0 :=
  match goal with
  | |- context C [cexec_block ?call ?ρ ?σ CBNil] =>
      let G := context C [ONormal ρ σ] in change G
  end.
Ltac sb := first [sb1 | sb0].

(** ** Filling the map of taken ids *)
Definition fill (kvs : list (string * cval)) (acc : list (string * cval)) : list (string * cval) :=
  fold_left (λ a kx, minsert (fst kx) (snd kx) a) kvs acc.
Lemma is_some_fill c kvs : forall acc,
  Cmd.is_some (massoc c (fill kvs acc)) = (existsb (λ kx, String.eqb c (fst kx)) kvs || Cmd.is_some (massoc c acc))%bool.
Proof.
  induction kvs as [|[k x] kvs IH]; intros acc; [reflexivity|].
  unfold fill in *. cbn [fold_left fst snd existsb]. rewrite IH, massoc_minsert, name_eqb_is_eqb, (String.eqb_sym c k).
  destruct (String.eqb k c); cbn [Cmd.is_some orb]; [rewrite Bool.orb_true_r; reflexivity|reflexivity].
Qed.

Lemma cfor_each_cons f k v ρ σ x y r :
  cfor_each f k v ρ σ ((x, y) :: r)
  = match f (cbind v y (cbind k x ρ)) σ with
    | ONormal ρ' σ' | OContinue ρ' σ' => cfor_each f k v (crestore (List.length ρ) ρ') σ' r
    | OReturn vs ρ' σ' => OReturn vs (crestore (List.length ρ) ρ') σ'
    | OStuck => OStuck
    end.
Proof. reflexivity. Qed.
Lemma crestore_app (top l : cenv) : crestore (List.length l) (top ++ l) = l.
Proof.
  unfold crestore. rewrite app_length. replace (List.length top + List.length l - List.length l) with (List.length top) by lia.
  induction top as [|x top IH]; [reflexivity|exact IH].
Qed.

Lemma crestore_app1 a (ρ : cenv) : crestore (List.length ρ) (a :: ρ) = ρ.
Proof. apply (crestore_app [a]). Qed.

(** for k, v := range M { taken[k] = v } *)
Lemma fill_loop2 (f : cenv -> cstate -> coutcome) kv vv (ρt : cenv) σ (kvs : list (string * cval)) :
  name_eqb kv "_" = false -> name_eqb vv "_" = false ->
  (forall acc k x, f ((vv, x) :: (kv, VStr k) :: ("takenIDs", VMap acc) :: ρt) σ
                   = ONormal ((vv, x) :: (kv, VStr k) :: ("takenIDs", VMap (minsert k x acc)) :: ρt) σ) ->
  forall acc,
  cfor_each f kv vv (("takenIDs", VMap acc) :: ρt) σ ((λ kx, (VStr (fst kx), snd kx)) <$> kvs)
  = ONormal (("takenIDs", VMap (fill kvs acc)) :: ρt) σ.
Proof.
  intros Hk Hv Hf. induction kvs as [|[k x] kvs IH]; intros acc; [reflexivity|].
  cbn [fmap list_fmap fst snd]. rewrite cfor_each_cons. unfold cbind. rewrite Hk, Hv. rewrite Hf. cbv iota.
  change (List.length (("takenIDs", VMap acc) :: ρt)) with (List.length (("takenIDs", VMap (minsert k x acc)) :: ρt)).
  rewrite crestore_app2. apply IH.
Qed.
(** for k := range M { taken[k] = c } *)
Lemma fill_loop1 (f : cenv -> cstate -> coutcome) kv (ρt : cenv) σ (ks : list string) (c y : cval) :
  name_eqb kv "_" = false ->
  (forall acc k, f ((kv, VStr k) :: ("takenIDs", VMap acc) :: ρt) σ
                 = ONormal ((kv, VStr k) :: ("takenIDs", VMap (minsert k c acc)) :: ρt) σ) ->
  forall acc,
  cfor_each f kv "_" (("takenIDs", VMap acc) :: ρt) σ ((λ k, (VStr k, y)) <$> ks)
  = ONormal (("takenIDs", VMap (fill ((λ k, (k, c)) <$> ks) acc)) :: ρt) σ.
Proof.
  intros Hk Hf. induction ks as [|k ks IH]; intros acc; [reflexivity|].
  cbn [fmap list_fmap fst snd]. rewrite cfor_each_cons. change (cbind "_" y ?z) with z. unfold cbind. rewrite Hk. rewrite Hf. cbv iota.
  change (List.length (("takenIDs", VMap acc) :: ρt)) with (List.length (("takenIDs", VMap (minsert k c acc)) :: ρt)).
  rewrite crestore_app1. unfold fill. cbn [fold_left fmap list_fmap fst snd]. apply IH.
Qed.

(** the map built by the two loops reserves exactly the live and the pruned ids *)
Definition taken_map (g : graph) : list (string * cval) :=
  fill ((λ k, (k, VNil)) <$> elements (g_tombs g)) (fill ((λ kt, (fst kt, VTask (snd kt))) <$> map_to_list (g_tasks g)) []).
Lemma taken_map_spec g c : pick_taken (VMap (taken_map g)) c = taken_in g [] c.
Proof.
  unfold pick_taken, taken_map, taken_in. rewrite !is_some_fill. cbn [massoc Cmd.is_some mem_str existsb]. rewrite !Bool.orb_false_r.
  rewrite Bool.orb_comm. f_equal.
  - destruct (g_tasks g !! c) as [t|] eqn:E; cbn [Cmd.is_some].
    + apply existsb_exists. exists (c, VTask t). split; [|cbn; apply String.eqb_refl].
      apply in_map_iff. exists (c, t). split; [reflexivity|]. apply elem_of_list_In, elem_of_map_to_list. exact E.
    + apply Bool.not_true_iff_false. intros H. apply existsb_exists in H as ([k v] & Hin & Hk). cbn in Hk.
      apply String.eqb_eq in Hk. subst k. apply in_map_iff in Hin as ([k' t'] & Heq & Hin). cbn in Heq. injection Heq as -> _.
      apply elem_of_list_In, elem_of_map_to_list in Hin. congruence.
  - unfold tombed. destruct (bool_decide (c ∈ g_tombs g)) eqn:E.
    + apply bool_decide_eq_true in E. apply existsb_exists. exists (c, VNil). split; [|cbn; apply String.eqb_refl].
      apply in_map_iff. exists c. split; [reflexivity|]. apply elem_of_list_In, elem_of_elements. exact E.
    + apply bool_decide_eq_false in E. apply Bool.not_true_iff_false. intros H. apply existsb_exists in H as ([k v] & Hin & Hk).
      cbn in Hk. apply String.eqb_eq in Hk. subst k. apply in_map_iff in Hin as (k' & Heq & Hin). injection Heq as -> _.
      apply E. apply elem_of_elements, elem_of_list_In. exact Hin.
Qed.

Lemma pick_id_fuel_ext n ids (p q : string -> bool) : (forall c, p c = q c) -> pick_id_fuel n ids p = pick_id_fuel n ids q.
Proof.
  intros H. revert ids. induction n as [|n IH]; intros ids; [reflexivity|].
  destruct ids as [|c ids]; [reflexivity|]. cbn [pick_id_fuel]. rewrite H. destruct (q c); [apply IH|reflexivity].
Qed.

Definition ctd_body : cblock :=
  Eval vm_compute in match lookup "createTaskWithDir" gen_cmd_prog with Some fd => cf_body fd | None => CBNil end.
Lemma ctd_lookup :
  lookup "createTaskWithDir" gen_cmd_prog
  = Some (CFn ["dir"; "opts"; "lockPath"; "eventsPath"; "epicID"; "isEpic"; "title"; "body"; "updates"; "agentID"] ctd_body).
Proof. vm_compute. reflexivity. Qed.

Lemma cexec_lock_dst_eq call ρ σ vb body :
  cexec_stmt call ρ σ (CSLock (Some vb) "syscall.LOCK_EX" body)
  = match cexec_block call ρ σ body with
    | OReturn [r] ρ1 σ1 =>
        match cassign vb r (crestore (List.length ρ) ρ1) with Some ρ3 => ONormal ρ3 σ1 | None => OStuck end
    | _ => OStuck
    end.
Proof. reflexivity. Qed.
Lemma cexec_range_eq call ρ σ k v e body :
  cexec_stmt call ρ σ (CSRange k v e body)
  = match ceval call ρ σ e with
    | Some (x, σ1) =>
        match range_items x with
        | Some items => cfor_each (λ ρ' σ', cexec_block call ρ' σ' body) k v ρ σ1 items
        | None => OStuck
        end
    | None => OStuck
    end.
Proof. reflexivity. Qed.

Definition field_str (f : string) (v : cval) : option string :=
  match v with VStruct _ fs => match fassoc f fs with Some (VStr s) => Some s | _ => None end | _ => None end.
Definition nobs (r : option (cval * cstate)) : option (option string * option string * cval * list (list event)) :=
  match r with
  | Some (VTuple [o; er], σ) => Some (field_str "id" o, field_str "state" o, er, cs_writes σ)
  | _ => None
  end.

Ltac zlt :=
  repeat match goal with
         | |- context [(0 <? Z.of_nat ?k)%Z] => let v := eval vm_compute in (0 <? Z.of_nat k)%Z in change (0 <? Z.of_nat k)%Z with v
         | |- context [(Z.of_nat ?k =? 0)%Z] => let v := eval vm_compute in (Z.of_nat k =? 0)%Z in change (Z.of_nat k =? 0)%Z with v
         end.

Ltac res_call e :=
  match goal with
  | |- context [crun (S (S ?n)) gen_cmd_prog "buildResultEvent" [VGraph ?G; VStr ?rd; VStr ?i; VStr ?rs; VStr ?rp]
                  (CState [?nr] ?ids ?uus ?ld ?fk ?sha ?mt ?git ?wr ?out)] =>
      let H := fresh in
      pose proof (gen_buildResultEvent n (Env ids uus (e_now e) nr (e_nows e) fk sha mt git) G rd i rs rp [] ld wr out) as H;
      unfold env_state in H; cbn [e_ids e_uuids e_now_result e_fkind e_sha e_mtime e_git] in H; rewrite H; clear H;
      change (build_result_event (Env ids uus (e_now e) nr (e_nows e) fk sha mt git) G i rs rp) with (build_result_event e G i rs rp)
  end.

Ltac bse_call :=
  match goal with
  | |- context [crun (S (S ?n)) gen_cmd_prog "buildSetEvents" [VStr ?i; VTask ?T; VMap ?M; VStr ?a; VTime ?now; VFunc "identityBodyResolver"] ?σ] =>
      let u := lazymatch M with
               | [("state", VStr ?s); ("claim", VStr ?c)] => constr:(Upd None None None (Some s) (Some c) None None)
               | [("state", VStr ?s)] => constr:(Upd None None None (Some s) None None None)
               | [("claim", VStr ?c)] => constr:(Upd None None None None (Some c) None None)
               end in
      change M with (m5 u);
      rewrite (gen_buildSetEvents_matches_model n i T (m5 u) u a now σ (m5_nodup u) (m5_title u) (m5_body u) (m5_epic u) (m5_claim u) (m5_state u));
      rewrite bse_rest_m5
  end.

Ltac go := repeat first [ sb; rewrite ?cexec_lock_dst_eq, ?cexec_range_eq; cir_step_simpl
                        | progress (rewrite ?B_Cmd.gen_isEpic_task, ?as_list_slice_of); cir_step_simpl ].

Lemma items_tasks (M : gmap string task) :
  (λ '(k, t), (VStr k, VTask t)) <$> map_to_list M
  = (λ kx : string * cval, (VStr (fst kx), snd kx)) <$> ((λ kt : string * task, (fst kt, VTask (snd kt))) <$> map_to_list M).
Proof. rewrite <- list_fmap_compose. apply list_fmap_ext. intros _ [k t] _. reflexivity. Qed.

Theorem gen_createTaskWithDir_matches_model n e g dir opts lockp evp epic ie title body st cl rp rs agent uu0 uus :
  e_uuids e = uu0 :: uus ->
  (ie = true -> st = None /\ cl = None /\ rp = None /\ rs = None) ->
  let u := Upd None None None st cl rp rs in
  nobs (crun (S (S (S n))) gen_cmd_prog "createTaskWithDir"
          [VStr dir; opts; VStr lockp; VStr evp; VStr epic; VBool ie; VStr title; VStr body; VMap (set_map u); VStr agent]
          (env_state e [e_now e; e_now_result e] (Some g) [] []))
  = Some (match new_txn e ie title body epic u agent g with
          | Some (evs, RCreated i s) => (Some i, Some s, VNil, [evs])
          | Some _ => (None, None, VNil, [])
          | None => (None, None, VErr EGen, [])
          end).
Proof.
  intros Huu Hie u. subst u. unfold new_txn, new_task, env_state. rewrite Huu. cbn [opt_default head].
  cbn [u_state u_claim u_rpath u_rsum].
  rewrite crun_S, ctd_lookup. unfold cexec_fn.
  cbn [cf_params cf_body cbind_params cbind name_eqb ascii_name_eqb bit_eqb andb].
  let b := eval vm_compute in ctd_body in change ctd_body with b.
  go.
  destruct ie; cbn [negb andb orb].
  - (* an epic: no initial updates *)
    destruct (Hie eq_refl) as (-> & -> & -> & ->). cbn [set_map m5 opt_kv app u_title u_body u_epic u_state u_claim u_rpath u_rsum].
    cir_step_simpl. go.
    rewrite items_tasks, (fill_loop2 _ "existingID" "task") by (try reflexivity; intros; reflexivity).
    cbv iota. go.
    rewrite (fill_loop1 _ "prunedID" _ _ _ VNil VUnit) by (try reflexivity; intros; reflexivity).
    cbv iota. go.
    fold (taken_map g). unfold pick_id. rewrite (pick_id_fuel_ext 64 _ _ _ (taken_map_spec g)). fold pick_id.
    destruct (pick_id (e_ids e) (taken_in g [])) as [[i rest]|]; cir_step_simpl; [|reflexivity].
    go. change (0 <? Z.of_nat 0)%Z with false. cir_step_simpl. go.
    reflexivity.
  - (* a task *)
    clear Hie.
    assert (Hcont : True) by trivial.
    destruct (String.eqb epic "") eqn:Eep; cbn [negb andb]; cir_step_simpl.
    2: destruct (g_tasks g !! epic) as [et|]; cir_step_simpl; [|reflexivity].
    2: destruct (t_is_epic et); cbn [negb]; cir_step_simpl; [|reflexivity].
    all: go.
    all: rewrite items_tasks, (fill_loop2 _ "existingID" "task") by (try reflexivity; intros; reflexivity); cbv iota; go.
    all: rewrite (fill_loop1 _ "prunedID" _ _ _ VNil VUnit) by (try reflexivity; intros; reflexivity); cbv iota; go.
    all: fold (taken_map g); unfold pick_id; rewrite (pick_id_fuel_ext 64 _ _ _ (taken_map_spec g)); fold pick_id.
    all: destruct (pick_id (e_ids e) (taken_in g [])) as [[i rest]|]; cir_step_simpl; [|reflexivity].
    all: go.
    all: destruct rp as [rp|], rs as [rs|], st as [st|], cl as [cl|];
         cbn [set_map m5 opt_kv app u_title u_body u_epic u_state u_claim u_rpath u_rsum List.length upd_empty upd_nonresult_empty Cmd.is_some negb andb orb result_req];
         cir_step_simpl.
    all: zlt; cir_step_simpl; go.
    all: try reflexivity.
    all: let k := numgoals in idtac "goals" k.
    all: cbn [mk_task task_literal_fields str_field time_field bool_field forallb existsb fassoc name_eqb ascii_name_eqb bit_eqb andb orb negb];
         cir_step_simpl; go.
    all: unfold with_clock, with_uuids, with_ids; cbn [cs_clock cs_ids cs_uuids cs_load cs_fkind cs_sha cs_mtime cs_git cs_writes cs_out].
    all: try res_call e.
    all: cbn [new_task opt_default head].
    all: try match goal with |- context [build_result_event ?e0 ?G ?i ?rs ?rp] =>
           destruct (build_result_event e0 G i rs rp) as [ev|] eqn:Ebr; cir_step_simpl end.
    all: go; zlt; cir_step_simpl; go.
    all: try reflexivity.
    all: try bse_call.
    all: repeat match goal with
                | |- context [build_set_events ?i ?T (Upd None None None ?s ?c (Some ?p) ?q) ?a ?now] =>
                    change (build_set_events i T (Upd None None None s c (Some p) q) a now)
                      with (build_set_events i T (Upd None None None s c None None) a now)
                end.
    all: try match goal with |- context [build_set_events ?i ?T ?u0 ?a ?now] =>
           destruct (build_set_events i T u0 a now) as [?evs|] eqn:?; cir_step_simpl end.
    all: go; zlt; cir_step_simpl; go.
    all: rewrite ?as_events_fmap, ?as_list_slice_of; cir_step_simpl; go.
    all: try reflexivity.
    all: try (split_lhs; cir_step_simpl; go).
    all: try reflexivity.
    all: try bse_call.
    all: repeat match goal with
                | |- context [build_set_events ?i ?T (Upd None None None ?s ?c (Some ?p) ?q) ?a ?now] =>
                    change (build_set_events i T (Upd None None None s c (Some p) q) a now)
                      with (build_set_events i T (Upd None None None s c None None) a now)
                end.
    all: try match goal with |- context [build_set_events ?i ?T ?u0 ?a ?now] =>
           destruct (build_set_events i T u0 a now) as [?evs|] eqn:?; cir_step_simpl end.
    all: go; zlt; cir_step_simpl; go.
    all: rewrite ?as_events_fmap, ?as_list_slice_of; cir_step_simpl; go.
    all: try reflexivity.
    all: try (split_lhs; cir_step_simpl; go).
    all: try reflexivity.
    all: try bse_call.
    all: repeat match goal with
                | |- context [build_set_events ?i ?T (Upd None None None ?s ?c (Some ?p) ?q) ?a ?now] =>
                    change (build_set_events i T (Upd None None None s c (Some p) q) a now)
                      with (build_set_events i T (Upd None None None s c None None) a now)
                end.
    all: try match goal with |- context [build_set_events ?i ?T ?u0 ?a ?now] =>
           destruct (build_set_events i T u0 a now) as [?evs|] eqn:?; cir_step_simpl end.
    all: go; zlt; cir_step_simpl; go.
    all: rewrite ?as_events_fmap, ?as_list_slice_of; cir_step_simpl; go.
    all: try reflexivity.
    all: try (split_lhs; cir_step_simpl; go).
    all: try reflexivity.
    all: cbn [final_state_of u_state u_claim u_rpath u_rsum].
    all: repeat match goal with
                | H1 : build_set_events ?i ?T1 ?u1 ?a ?n0 = ?r1, H2 : build_set_events ?i ?T2 ?u2 ?a ?n0 = ?r2 |- _ =>
                    change (build_set_events i T2 u2 a n0) with (build_set_events i T1 u1 a n0) in H2;
                    rewrite H1 in H2; first [injection H2 as <- | discriminate H2 | clear H2]
                end.
    all: repeat match goal with H : (_ =? "") = true |- _ => apply String.eqb_eq in H; subst end.
    all: use_hyps; try reflexivity.
    all: repeat match goal with
                | H : Some _ = Some _ |- _ => injection H as ?; subst
                | H : Some _ = None |- _ => discriminate H
                | H : None = Some _ |- _ => discriminate H
                end.
    all: cbn [String.eqb Ascii.eqb Bool.eqb]; use_hyps; try reflexivity.
Qed.

Print Assumptions gen_createTaskWithDir_matches_model.
