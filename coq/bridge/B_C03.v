(** Bridge C03: the append primitive cannot leave more than one partial command and never edits the log in place. *)
From Coq Require Import String List.
From ErgoGen Require Import Skeleton.
From ErgoBridge Require Import SkelLib.
Import ListNotations.
Local Open Scope string_scope.

(** appendEvents itself: the whole batch in ONE write(2) (or the atomic rewrite), never a loop of writes, never truncating in place. *)
Example C03_append_is_one_write : append_prim_ok = [].
Proof. vm_compute. reflexivity. Qed.
