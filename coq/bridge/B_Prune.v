(** Bridge (prune policy): the IR GENERATED from prune.go's [selectPruneTargets] (gen/PruneGen.v),
    run by the stateful interpreter of HeapIR.v, returns exactly the model's [prune_targets]
    (theories/Cmd.v) — for every graph whose task map is keyed by the tasks' own ids ([ids_ok]) and
    (no further hypothesis: the model follows prune.go's empty-epic-id guard, see [empty_epic_id_agrees]), and for
    EVERY order in which the Go runtime may iterate over graph.Tasks and over the local maps
    (every fair oracle).

    [go_prune_targets] ([gen_selectPruneTargets_exact]) is the same policy written out in this file. *)
From Ergo Require Import Base Text TextFacts Events Replay Ready Compact Path Cmd Invariants CompactCore CompactProof.
From ErgoBridge Require Import ReadyIR HeapIR CompactIR PruneIR.
From ErgoGen Require Import PruneGen.
From Coq Require Import String.
Local Open Scope string_scope.
Local Open Scope list_scope.

Lemma go_tasks_values_model g : go_tasks_values g = all_tasks g.
Proof. reflexivity. Qed.

(** [enter]: unfold one call level and fetch the callee's generated body. *)
Ltac enter :=
  rewrite srun_S;
  match goal with
  | |- context [lookup ?f gen_prune_prog] =>
      let r := eval vm_compute in (lookup f gen_prune_prog) in
      change (lookup f gen_prune_prog) with r
  end; sir_simpl.
(** ... plus the heap operations on concrete heaps. *)
Ltac hp_simpl :=
  st_simpl;
  cbn [app List.length base.lookup list_lookup base.insert list_insert cell_set cell_get cell_has cell_keys];
  st_simpl.

(** The result of [selectPruneTargets]: the []string behind the returned reference. *)
Definition interp_prune (o : oracle) (p : prog) (g : graph) : option (list string) :=
  match srun (List.length p) p g o "selectPruneTargets" [VGraph] init_state with
  | Some (VRef r, σ') => match st_heap σ' !! r with Some (CStrs l) => Some l | _ => None end
  | _ => None
  end.

(** ** Step 1: symbolic execution — the three loops over graph.Tasks are folds *)
Definition step1 (S : gset string) (t : task) : gset string :=
  if t_is_epic t then S else
  if (String.eqb (t_state t) "done" || String.eqb (t_state t) "canceled")%bool then {[t_id t]} ∪ S else S.
Definition step2 (S1 : gset string) (m : gmap string Z) (t : task) : gmap string Z :=
  if t_is_epic t then m else
  if bool_decide (t_id t ∈ S1) then m else
  if String.eqb (t_epic t) "" then m else <[t_epic t := (default 0 (m !! t_epic t) + 1)%Z]> m.
Definition step3 (m2 : gmap string Z) (S : gset string) (t : task) : gset string :=
  if t_is_epic t then (if Z.eqb (default 0%Z (m2 !! t_id t)) 0 then {[t_id t]} ∪ S else S) else S.

Lemma select_exec o g :
  let S1 := fold_left step1 (or_tasks o 0 (all_tasks g)) ∅ in
  let m2 := fold_left (step2 S1) (or_tasks o 1 (all_tasks g)) ∅ in
  let S3 := fold_left (step3 m2) (or_tasks o 2 (all_tasks g)) ∅ in
  interp_prune o gen_prune_prog g
  = Some (sort_strings (or_keys o 3 (elements S1) ++ or_keys o 4 (elements S3))).
Proof.
  intros S1 m2 S3. unfold interp_prune, init_state.
  let n := eval vm_compute in (List.length gen_prune_prog) in change (List.length gen_prune_prog) with n.
  enter. hp_simpl. rewrite go_tasks_values_model.
  (* eligibleTasks *)
  erewrite (sfor_each_fold (λ S, State [CUnits S] 1) _ step1).
  2: { intros t S. cbn beta. unfold step1.
       destruct (t_is_epic t); hp_simpl; [reflexivity|].
       destruct (String.eqb (t_state t) "done"); hp_simpl; [reflexivity|].
       destruct (String.eqb (t_state t) "canceled"); hp_simpl; reflexivity. }
  fold S1. hp_simpl.
  (* remainingChildren *)
  erewrite (sfor_each_fold (λ m, State [CUnits S1; CInts m] 2) _ (step2 S1)).
  2: { intros t m. cbn beta. unfold step2.
       destruct (t_is_epic t); hp_simpl; [reflexivity|].
       destruct (bool_decide (t_id t ∈ S1)); hp_simpl; [reflexivity|].
       destruct (String.eqb (t_epic t) ""); hp_simpl; reflexivity. }
  fold m2. hp_simpl.
  (* eligibleEpics *)
  erewrite (sfor_each_fold (λ S, State [CUnits S1; CInts m2; CUnits S] 3) _ (step3 m2)).
  2: { intros t S. cbn beta. unfold step3.
       destruct (t_is_epic t); hp_simpl; [|reflexivity].
       destruct (Z.eqb (default 0%Z (m2 !! t_id t)) 0); hp_simpl; reflexivity. }
  fold S3. hp_simpl.
  (* ids: the keys of eligibleTasks, then those of eligibleEpics *)
  erewrite (sfor_keys_fold (λ l, State [CUnits S1; CInts m2; CUnits S3; CStrs l] 4) _ (λ l d, l ++ [d])).
  2: { intros l. reflexivity. }
  2: { intros d l. cbn beta. hp_simpl. reflexivity. }
  hp_simpl.
  erewrite (sfor_keys_fold (λ l, State [CUnits S1; CInts m2; CUnits S3; CStrs l] 5) _ (λ l d, l ++ [d])).
  2: { intros l. reflexivity. }
  2: { intros d l. cbn beta. hp_simpl. reflexivity. }
  hp_simpl. rewrite !fold_left_snoc. reflexivity.
Qed.

(** ** Step 2: what the folds compute *)
Definition eligible (t : task) : bool := (negb (t_is_epic t) && done_or_canceled (t_state t))%bool.
(** [t] counts as a remaining child of [ep] in the Go code *)
Definition counted (S1 : gset string) (ep : string) (t : task) : bool :=
  (negb (t_is_epic t) && negb (bool_decide (t_id t ∈ S1)) && negb (String.eqb (t_epic t) "")
   && String.eqb (t_epic t) ep)%bool.

Lemma step1_spec l S x :
  x ∈ fold_left step1 l S <-> x ∈ S \/ exists t, t ∈ l /\ eligible t = true /\ t_id t = x.
Proof.
  revert S. induction l as [|t l IH]; intros S; cbn [fold_left].
  { split; [tauto|]. intros [H|(t & Ht & _)]; [done|]. by apply elem_of_nil in Ht. }
  rewrite IH. unfold step1, eligible, done_or_canceled. split.
  - intros [H|(t' & Ht' & He & Hx)]; [|right; exists t'; split; [by right|done]].
    destruct (t_is_epic t) eqn:Ek; [by left|].
    destruct (_ || _)%bool eqn:Ed; [|by left].
    apply elem_of_union in H as [->%elem_of_singleton|H]; [|by left].
    right. exists t. split; [by left|]. rewrite Ek, Ed. done.
  - intros [H|(t' & [->|Ht']%elem_of_cons & He & Hx)].
    + left. destruct (t_is_epic t); [done|]. destruct (_ || _)%bool; [set_solver|done].
    + left. destruct (t_is_epic t); [done|]. cbn in He. rewrite He. set_solver.
    + right. eauto.
Qed.

Lemma step2_spec S1 l m e :
  default 0%Z (fold_left (step2 S1) l m !! e)
  = (default 0 (m !! e) + Z.of_nat (List.length (List.filter (counted S1 e) l)))%Z.
Proof.
  revert m. induction l as [|t l IH]; intros m; cbn [fold_left List.filter]; [cbn; lia|].
  rewrite IH. unfold step2, counted.
  destruct (t_is_epic t); cbn [negb andb]; [lia|].
  destruct (bool_decide (t_id t ∈ S1)); cbn [negb andb]; [lia|].
  destruct (String.eqb_spec (t_epic t) ""); cbn [negb andb]; [lia|].
  destruct (String.eqb_spec (t_epic t) e) as [->|Hne]; cbn [List.length].
  - rewrite lookup_insert. cbn. lia.
  - rewrite lookup_insert_ne by done. lia.
Qed.

Lemma step3_spec m2 l S x :
  x ∈ fold_left (step3 m2) l S <->
  x ∈ S \/ exists t, t ∈ l /\ t_is_epic t = true /\ default 0%Z (m2 !! t_id t) = 0%Z /\ t_id t = x.
Proof.
  revert S. induction l as [|t l IH]; intros S; cbn [fold_left].
  { split; [tauto|]. intros [H|(t & Ht & _)]; [done|]. by apply elem_of_nil in Ht. }
  rewrite IH. unfold step3. split.
  - intros [H|(t' & Ht' & He & Hx)]; [|right; exists t'; split; [by right|done]].
    destruct (t_is_epic t) eqn:Ek; [|by left].
    destruct (Z.eqb_spec (default 0%Z (m2 !! t_id t)) 0) as [Ez|]; [|by left].
    apply elem_of_union in H as [->%elem_of_singleton|H]; [|by left].
    right. exists t. split; [by left|done].
  - intros [H|(t' & [->|Ht']%elem_of_cons & He & Hz & Hx)].
    + left. destruct (t_is_epic t); [|done]. destruct (Z.eqb _ _); [set_solver|done].
    + left. rewrite He, Hz. cbn. set_solver.
    + right. eauto.
Qed.

Lemma filter_length_0 {A} (p : A -> bool) l :
  List.length (List.filter p l) = 0 <-> forall x, x ∈ l -> p x = false.
Proof.
  induction l as [|a l IH]; cbn [List.filter].
  { split; [|done]. intros _ x Hx. by apply elem_of_nil in Hx. }
  destruct (p a) eqn:Ea; cbn [List.length].
  - split; [lia|]. intros H. specialize (H a (elem_of_list_here _ _)). congruence.
  - rewrite IH. split.
    + intros H x [->|Hx]%elem_of_cons; auto.
    + intros H x Hx. apply H. by right.
Qed.

(** ** The policy the Go code implements, in the vocabulary of the model *)
Definition go_remaining (g : graph) (ep : string) : bool :=
  existsb (λ t, (negb (t_is_epic t) && negb (eligible t) && negb (String.eqb (t_epic t) "")
                 && String.eqb (t_epic t) ep)%bool) (all_tasks g).
Definition go_prune_ok (g : graph) (t : task) : bool :=
  if t_is_epic t then negb (go_remaining g (t_id t)) else eligible t.
Definition go_prune_targets (g : graph) : list string :=
  sort_strings (t_id <$> filter (λ t, go_prune_ok g t = true) (all_tasks g)).

Definition no_empty_epic (g : graph) : Prop :=
  forall t, g_tasks g !! "" = Some t -> t_is_epic t = false.

Lemma existsb_false_iff {A} (p : A -> bool) l : existsb p l = false <-> forall x, x ∈ l -> p x = false.
Proof.
  induction l as [|a l IH]; cbn [existsb].
  { split; [|done]. intros _ x Hx. by apply elem_of_nil in Hx. }
  rewrite orb_false_iff, IH. split.
  - intros [Ha Hl] x [->|Hx]%elem_of_cons; auto.
  - intros H. split; [apply H; left|intros x Hx; apply H; by right].
Qed.

Lemma tasks_id_inj g t t' :
  ids_ok g -> t ∈ all_tasks g -> t' ∈ all_tasks g -> t_id t = t_id t' -> t = t'.
Proof.
  intros Hid (k & Hk)%all_tasks_lookup (k' & Hk')%all_tasks_lookup E.
  rewrite (Hid k t Hk), (Hid k' t' Hk') in E. subst k'. congruence.
Qed.
Lemma tasks_ids_NoDup g : ids_ok g -> NoDup (t_id <$> all_tasks g).
Proof.
  intros Hid. unfold all_tasks.
  replace (t_id <$> (snd <$> map_to_list (g_tasks g))) with (fst <$> map_to_list (g_tasks g)).
  - apply NoDup_fst_map_to_list.
  - rewrite <- list_fmap_compose. apply Forall_fmap_ext. apply list.Forall_forall. intros [k t] Hin.
    apply elem_of_map_to_list in Hin. cbn. symmetry. apply (Hid k t Hin).
Qed.

Lemma filter_ext_elem {A} (P Q : A -> Prop) `{!forall x, Decision (P x)} `{!forall x, Decision (Q x)} (l : list A) :
  (forall x, x ∈ l -> (P x <-> Q x)) -> filter P l = filter Q l.
Proof.
  induction l as [|a l IH]; intros Hext; [reflexivity|].
  rewrite !filter_cons. rewrite IH by (intros x Hx; apply Hext; by right).
  pose proof (Hext a (elem_of_list_here _ _)) as Ha.
  destruct (decide (P a)), (decide (Q a)); tauto || reflexivity.
Qed.

(** This IS the model's policy ([prune_targets] follows prune.go's `task.EpicID != ""` guard). *)
Lemma go_prune_targets_model g : go_prune_targets g = prune_targets g.
Proof. reflexivity. Qed.

(** ** The statements *)
Theorem gen_selectPruneTargets_exact : forall (o : oracle), fair o -> forall (g : graph), ids_ok g ->
  interp_prune o gen_prune_prog g = Some (go_prune_targets g).
Proof.
  intros o [Hfk Hft] g Hid. rewrite select_exec. cbv zeta. f_equal.
  set (S1 := fold_left step1 (or_tasks o 0 (all_tasks g)) ∅).
  set (m2 := fold_left (step2 S1) (or_tasks o 1 (all_tasks g)) ∅).
  set (S3 := fold_left (step3 m2) (or_tasks o 2 (all_tasks g)) ∅).
  unfold go_prune_targets. apply sort_strings_perm.
  rewrite (Hfk 3), (Hfk 4).
  (* membership in the two local sets *)
  assert (HS1 : forall x, x ∈ S1 <-> exists t, t ∈ all_tasks g /\ eligible t = true /\ t_id t = x).
  { intros x. subst S1. rewrite step1_spec. setoid_rewrite (Hft 0). set_solver. }
  assert (HS1' : forall t, t ∈ all_tasks g -> bool_decide (t_id t ∈ S1) = eligible t).
  { intros t Ht. destruct (eligible t) eqn:Ee.
    - apply bool_decide_eq_true_2, HS1. eauto.
    - apply bool_decide_eq_false_2. intros (t' & Ht' & Ee' & E)%HS1.
      apply (tasks_id_inj g) in E; [|done..]. congruence. }
  assert (Hm2 : forall e, default 0%Z (m2 !! e) = 0%Z <-> go_remaining g e = false).
  { intros e. subst m2. rewrite step2_spec, lookup_empty. cbn [default].
    unfold go_remaining. rewrite existsb_false_iff.
    rewrite Z.add_0_l, <- Nat2Z.inj_0, Nat2Z.inj_iff, filter_length_0.
    setoid_rewrite (Hft 1). apply forall_proper. intros t.
    split; intros H Ht; specialize (H Ht); unfold counted in *; rewrite (HS1' t Ht) in *; exact H. }
  assert (HS3 : forall x, x ∈ S3 <->
            exists t, t ∈ all_tasks g /\ t_is_epic t = true /\ go_remaining g (t_id t) = false /\ t_id t = x).
  { intros x. subst S3. rewrite step3_spec. setoid_rewrite (Hft 2). setoid_rewrite Hm2. set_solver. }
  apply NoDup_Permutation.
  - apply NoDup_app. split; [apply NoDup_elements|]. split; [|apply NoDup_elements].
    intros x (t & Ht & Ee & <-)%elem_of_elements%HS1 (t' & Ht' & Ek' & _ & E)%elem_of_elements%HS3.
    apply (tasks_id_inj g) in E; [|done..]. subst t'. unfold eligible in Ee. rewrite Ek' in Ee. done.
  - apply NoDup_fmap_filter, tasks_ids_NoDup, Hid.
  - intros x. rewrite elem_of_app, !elem_of_elements, HS1, HS3, elem_of_list_fmap.
    setoid_rewrite elem_of_list_filter. unfold go_prune_ok. split.
    + intros [(t & Ht & Ee & <-)|(t & Ht & Ek & Hr & <-)]; exists t; (split; [done|]); (split; [|done]).
      * unfold eligible in *. destruct (t_is_epic t); [done|exact Ee].
      * rewrite Ek, Hr. done.
    + intros (t & -> & Hok & Ht). destruct (t_is_epic t) eqn:Ek.
      * right. exists t. apply negb_true_iff in Hok. done.
      * left. exists t. done.
Qed.

Theorem gen_selectPruneTargets_matches_model : forall (o : oracle), fair o -> forall (g : graph),
  ids_ok g ->
  interp_prune o gen_prune_prog g = Some (prune_targets g).
Proof.
  intros o Hf g Hid. rewrite gen_selectPruneTargets_exact by done.
  rewrite go_prune_targets_model. reflexivity.
Qed.

(** With the store invariant of the model ([Inv], which contains [ids_ok]). *)
Corollary gen_selectPruneTargets_matches_model_Inv : forall (o : oracle), fair o -> forall (g : graph),
  Inv g ->
  interp_prune o gen_prune_prog g = Some (prune_targets g).
Proof.
  intros o Hf g HI. apply gen_selectPruneTargets_matches_model; [exact Hf|].
  intros k t Hk. apply (inv_key g HI k t Hk).
Qed.

(** ** The events [prune --yes] writes: one tombstone per selected id, in the order of the ids,
    each carrying the id, the agent and ONE clock reading (the model's [ETomb i agent (Some now)],
    Cmd.v [run_txn] / [CPrune]). *)
Theorem gen_tombstones_match_model : forall (ids : list string) (agent : string) (now : time),
  interp_tombstones gen_tombstone_events ids agent now = Some ((λ i, ETomb i agent (Some now)) <$> ids).
Proof.
  intros ids agent now. unfold interp_tombstones.
  let b := eval vm_compute in (tomb_names_ok gen_tombstone_events) in
  change (tomb_names_ok gen_tombstone_events) with b. cbv iota.
  rewrite (concat_mapM_total _ (λ i, [ETomb i agent (Some now)])).
  - f_equal. induction ids as [|i l IH]; [reflexivity|]. cbn. f_equal. exact IH.
  - intros i. unfold interp_tombstone_one.
    let b := eval vm_compute in gen_tombstone_events in change gen_tombstone_events with b.
    cbn [ti_id_var ti_now_var ti_agent_var ti_body]. cir_simpl. reflexivity.
Qed.

(** Selection and events together: what [runPrune(dir, opts, apply=true)] hands to [appendEvents]. *)
Definition interp_prune_events (o : oracle) (g : graph) (agent : string) (now : time) : option (list event) :=
  match interp_prune o gen_prune_prog g with
  | Some ids => interp_tombstones gen_tombstone_events ids agent now
  | None => None
  end.

Theorem gen_prune_events_match_model : forall (o : oracle), fair o -> forall (g : graph) (agent : string) (now : time),
  ids_ok g ->
  interp_prune_events o g agent now = Some ((λ i, ETomb i agent (Some now)) <$> prune_targets g).
Proof.
  intros o Hf g agent now Hid. unfold interp_prune_events.
  rewrite gen_selectPruneTargets_matches_model by done. apply gen_tombstones_match_model.
Qed.

(** The glue (checked as Go text, not interpreted): buildPrunePlan takes PrunedIDs from
    selectPruneTargets(graph); runPrune writes nothing when [!apply] or there are no ids (the
    model's [Append []] resp. [Append (... <$> [])]), otherwise the tombstones of exactly
    plan.PrunedIDs with opts.AgentID, through appendEvents. *)
Example gen_prune_wiring_ok :
  gen_prune_wiring = [("buildPrunePlan.PrunedIDs", "selectPruneTargets(graph)");
                      ("runPrune.plan", "plan");
                      ("runPrune.skip_if", "!apply || len(plan.PrunedIDs) == 0");
                      ("runPrune.events", "events := buildTombstoneEvents(plan.PrunedIDs, opts.AgentID)");
                      ("runPrune.write", "appendEvents(eventsPath, events)")].
Proof. reflexivity. Qed.

(** The corner that the proof of the previous version of this file exposed: an epic whose id is the empty
    string plus an open task without an epic.  Go counts children only `if task.EpicID != ""`, so the epic ""
    has no remaining child and is selected.  The model's [prune_targets] used to count the epic-less task as a
    child of "" (model and code differed on this hand-written-log-only shape); it now carries the same guard,
    and the two agree here as everywhere else. *)
Section empty_epic.
  Let e0 : task := new_task true "" "u0" "" "todo" "epic" "" 0%Z.
  Let t1 : task := new_task false "T1" "u1" "" "todo" "task" "" 0%Z.
  Let g0 : graph := Graph (list_to_map [("", e0); ("T1", t1)]) ∅ ∅.
  Example empty_epic_id_agrees :
    interp_prune id_oracle gen_prune_prog g0 = Some [""] /\ prune_targets g0 = [""].
  Proof. vm_compute. split; reflexivity. Qed.
End empty_epic.

Print Assumptions gen_selectPruneTargets_exact.
Print Assumptions gen_selectPruneTargets_matches_model.
Print Assumptions gen_selectPruneTargets_matches_model_Inv.
Print Assumptions empty_epic_id_agrees.
Print Assumptions gen_tombstones_match_model.
Print Assumptions gen_prune_events_match_model.
