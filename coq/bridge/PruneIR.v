(** PruneIR.v — the event list [buildTombstoneEvents] (prune.go) produces, in the IR of CompactIR.v.

    The translator (tools/gen/prune_ir.go) recognises

        [if len(ids) == 0 { return nil, nil }]
        now := time.Now().UTC()
        events := make([]Event, 0, len(ids))
        for _, id := range ids { body }
        return events, nil

    and translates [body] with the statement matcher of compact_ir.go (the emission triple
    becomes one [CEmit]).  The clock reading [now] is a parameter of the interpreter: ONE reading
    for the whole list.  Anything else becomes [CUnknownS], on which the interpreter yields [None]. *)
From Ergo Require Import Base Events Replay.
From ErgoBridge Require Import ReadyIR CompactIR.
From Coq Require Import Ascii String.
Local Open Scope string_scope.
Local Open Scope list_scope.

Record tomb_ir := TombIR {
  ti_ids_var : string;       (* the []string parameter the loop ranges over *)
  ti_agent_var : string;     (* the agent-id parameter *)
  ti_now_var : string;       (* the variable holding time.Now().UTC() *)
  ti_id_var : string;        (* the loop variable *)
  ti_body : cblock }.

(** The loop variable, the clock variable and the agent parameter must be three different names. *)
Definition tomb_names_ok (ir : tomb_ir) : bool :=
  negb (name_eqb (ti_id_var ir) (ti_now_var ir)) && negb (name_eqb (ti_id_var ir) (ti_agent_var ir))
  && negb (name_eqb (ti_now_var ir) (ti_agent_var ir)).

Definition interp_tombstone_one (ir : tomb_ir) (agent : string) (now : time) (i : string) : option (list event) :=
  match cexec_block (λ _ _, None)
          [(ti_id_var ir, CVStr i); (ti_now_var ir, CVTime now); (ti_agent_var ir, CVStr agent)] (ti_body ir) with
  | Some (_, evs) => Some evs
  | None => None
  end.

Definition interp_tombstones (ir : tomb_ir) (ids : list string) (agent : string) (now : time) : option (list event) :=
  if tomb_names_ok ir then concat_mapM (interp_tombstone_one ir agent now) ids else None.
