(** Bridge C18: init only creates what is missing; it never renames or removes a log file. *)
From Coq Require Import String List.
From ErgoGen Require Import Skeleton.
From ErgoBridge Require Import SkelLib.
Import ListNotations.
Local Open Scope string_scope.
Example C18_init_only_creates : init_ok = [].
Proof. vm_compute. reflexivity. Qed.
