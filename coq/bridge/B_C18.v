(** Bridge C18: init only creates what is missing; it never renames or removes a log file. *)
From Coq Require Import String List.
From ErgoGen Require Import Skeleton.
From ErgoBridge Require Import SkelLib.
Import ListNotations.
Local Open Scope string_scope.
Example C18_init_only_creates : init_ok = [].
Proof. vm_compute. reflexivity. Qed.

(** no command renames, removes or rewrites log files directly: every command keeps using the file
    getEventsPath chooses, through the storage primitives only. *)
Example C18_commands_never_move_the_log :
  (concat (map mutating_ok mutating_entries) ++ concat (map readonly_ok readonly_entries))%list = [].
Proof. vm_compute. reflexivity. Qed.
