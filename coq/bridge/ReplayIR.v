(** ReplayIR.v — a small statement-level IR for graph.go's [replayEvents] / [applyTombstone], and its
    INTERPRETER over the model's [graph] / [event] (theories/Events.v, theories/Replay.v).

    tools/gen (replay_ir.go) pattern-matches the Go AST into this IR and writes gen/ReplayGen.v; every
    statement it does not recognise becomes [RUnknown]/[TUnknown]/[PUnknown] carrying the Go source text,
    on which the interpreter is STUCK.  bridge/B_Replay.v proves that the interpretation of the generated
    tables is, for all graphs and events, the model's [apply_event] / [apply_tombstone] / [replay].

    Fixed here, by hand (the "dictionary" between the two worlds):
    - event-type string  <-> model constructor            ([ev_type])
    - payload json key   <-> constructor argument         ([data_fields]); stamps are [VRaw (option time)],
      i.e. the raw string together with what [parseTime] makes of it
    - payload struct shape (json key, Go type), sorted by key ([decode_shape])
    - Go field name of Task / TaskMeta / Result <-> model record field ([get_task_field], [set_*_field])
    - [maxTime] is [max_time], [sortedKeys] is [sort_strings] of the keys, [parseTime] failing is [None]. *)
From Ergo Require Import Base Text Events Replay.
Local Open Scope string_scope.
Local Open Scope list_scope.

(** * Syntax *)

Inductive rexpr :=
| XData (key : string)          (* data.F — F named by its json key *)
| XStr (s : string)             (* string literal, or a named constant resolved to its VALUE *)
| XBool (b : bool)              (* true / false *)
| XTypeIs (s : string)          (* event.Type == "s" *)
| XVar (v : string)             (* local variable: a parsed time or a built Result *)
| XField (v f : string)         (* v.F, v a *Task local *)
| XMaxTime (a b : rexpr)        (* maxTime(a, b) *)
| XPrepend (x l : rexpr).       (* append([]Result{x}, l...) *)

Inductive rstmt :=
| RDecode (v sname : string) (shape : list (string * string))
    (* var v sname; if err := json.Unmarshal(event.Data, &v); err != nil { return nil, err } *)
| RSkipIfTombstoned (key : rexpr)
    (* if _, t := graph.Tombstones[key]; t { continue } *)
| RErrIfTaskExists (key : rexpr) (fmt : string) (args : list rexpr)
    (* if _, x := graph.Tasks[key]; x { return nil, fmt.Errorf(fmt, args...) } *)
| RParseTime (v : string) (src : rexpr)
    (* v, err := parseTime(src); if err != nil { return nil, err } *)
| RGetTaskOrSkip (v : string) (key : rexpr)
    (* v, ok := graph.Tasks[key]; if !ok { continue } *)
| RSetTaskField (v f : string) (e : rexpr)
    (* v.f = e *)
| RIfStrIn (e : rexpr) (consts : list string) (body : list (string * string * rexpr))
    (* if e == c1 || e == c2 || ... { v.f = e'; ... } *)
| RGetMeta (v : string) (key : rexpr)
    (* v := graph.Meta[key] *)
| RIfMetaSet (v f : string) (e : rexpr)
    (* if v != nil { v.f = e } *)
| RNewTask (v : string) (fields : list (string * rexpr))
    (* v := &Task{f: e, ...} *)
| RStoreTask (key : rexpr) (v : string)
    (* graph.Tasks[key] = v *)
| RStoreMeta (key : rexpr) (fields : list (string * rexpr))
    (* graph.Meta[key] = &TaskMeta{f: e, ...} *)
| RSkipIfStrNe (e : rexpr) (c : string)
    (* if e != c { continue } *)
| REnsureDeps (key : rexpr)
    (* if graph.Deps[key] == nil { graph.Deps[key] = map[string]struct{}{} } *)
| RDepInsert (from to : rexpr)
    (* graph.Deps[from][to] = struct{}{} *)
| RDepDelete (from to : rexpr)
    (* if graph.Deps[from] != nil { delete(graph.Deps[from], to) } *)
| RTombstone (key : rexpr) (info : list (string * rexpr))
    (* applyTombstone(graph, key, TombstoneInfo{f: e, ...}) *)
| RNewResult (v : string) (fields : list (string * rexpr))
    (* v := Result{f: e, ...} *)
| RUnknown (src : string).

(** applyTombstone(graph, id, info) *)
Inductive tstmt :=
| TNilGuard                     (* if graph == nil { return } *)
| TSetTombstone                 (* graph.Tombstones[id] = info *)
| TDelete (m : string)          (* delete(graph.m, id) *)
| TScrubDeps                    (* for from, deps := range graph.Deps { if _, ok := deps[id]; ok {
                                     delete(deps, id); if len(deps) == 0 { delete(graph.Deps, from) } } } *)
| TUnknown (src : string).

(** the body of replayEvents around the switch *)
Inductive pstmt :=
| PInitGraph (fields : list string)   (* graph := &Graph{f: map[...]...{}, ...}  (all empty) *)
| PLoopSwitch                         (* for _, event := range events { switch event.Type { <cases> } } *)
| PBuildRDeps                         (* for from, deps := range graph.Deps { for to := range deps {
                                           if graph.RDeps[to] == nil { graph.RDeps[to] = map...{} }
                                           graph.RDeps[to][from] = struct{}{} } } *)
| PTaskAdjacency (assigns : list (string * string))
                                      (* for id, task := range graph.Tasks { task.F = sortedKeys(graph.M[id]); ... } *)
| PCall (f : string)                  (* f(graph) *)
| PReturnGraph                        (* return graph, nil *)
| PUnknown (src : string).

(** * Helpers *)

Fixpoint assoc {A} (k : string) (l : list (string * A)) : option A :=
  match l with
  | [] => None
  | (k', a) :: r => if String.eqb k k' then Some a else assoc k r
  end.

Fixpoint rexpr_eqb (a b : rexpr) : bool :=
  match a, b with
  | XData x, XData y | XStr x, XStr y | XTypeIs x, XTypeIs y | XVar x, XVar y => String.eqb x y
  | XBool x, XBool y => Bool.eqb x y
  | XField v f, XField w h => (String.eqb v w && String.eqb f h)%bool
  | XMaxTime a1 a2, XMaxTime b1 b2 | XPrepend a1 a2, XPrepend b1 b2 => (rexpr_eqb a1 b1 && rexpr_eqb a2 b2)%bool
  | _, _ => false
  end.

Fixpoint shape_eqb (a b : list (string * string)) : bool :=
  match a, b with
  | [], [] => true
  | (k, t) :: r, (k', t') :: r' => (String.eqb k k' && String.eqb t t' && shape_eqb r r')%bool
  | _, _ => false
  end.

Definition same_strings (a b : list string) : bool :=
  (Nat.eqb (length a) (length b) && forallb (λ x, mem_str x b) a && forallb (λ x, mem_str x a) b)%bool.

(** * The dictionary *)

Definition ev_type (e : event) : option string :=
  match e with
  | ENew true _ _ _ _ _ _ _ => Some "new_epic"
  | ENew false _ _ _ _ _ _ _ => Some "new_task"
  | EState _ _ _ => Some "state"
  | EClaim _ _ _ => Some "claim"
  | EUnclaim _ => Some "unclaim"
  | ELink _ _ _ => Some "link"
  | EUnlink _ _ _ => Some "unlink"
  | ETitle _ _ _ => Some "title"
  | EBody _ _ _ => Some "body"
  | EEpic _ _ _ => Some "epic"
  | ETomb _ _ _ => Some "tombstone"
  | EResult _ _ _ _ _ _ _ => Some "result"
  | EBad | EOther => None
  end.

(** The event types the model's constructors stand for; everything else is [EOther]. *)
Definition known_event_types : list string :=
  ["new_task"; "new_epic"; "state"; "claim"; "unclaim"; "link"; "unlink"; "title"; "body"; "epic"; "tombstone"; "result"].

Inductive val :=
| VStr (s : string)
| VBool (b : bool)
| VRaw (o : option time)        (* a payload stamp string: what parseTime returns for it *)
| VTime (t : time)
| VTaskRef                      (* the *Task fetched from graph.Tasks (working copy in [s_cur]) *)
| VMetaRef (k : rexpr)          (* graph.Meta[k] *)
| VTaskNew (t : task)           (* a freshly built &Task{...} *)
| VResult (r : result)
| VResults (l : list result).

Definition data_fields (e : event) : list (string * val) :=
  match e with
  | ENew _ i uuid epic st title body at_ =>
      [("id", VStr i); ("uuid", VStr uuid); ("epic_id", VStr epic); ("state", VStr st); ("title", VStr title);
       ("body", VStr body); ("created_at", VRaw at_)]
  | EState i st at_ => [("id", VStr i); ("state", VStr st); ("ts", VRaw at_)]
  | EClaim i ag at_ => [("id", VStr i); ("agent_id", VStr ag); ("ts", VRaw at_)]
  | EUnclaim i => [("id", VStr i)]
  | ELink a b ty | EUnlink a b ty => [("from_id", VStr a); ("to_id", VStr b); ("type", VStr ty)]
  | ETitle i ti at_ => [("id", VStr i); ("title", VStr ti); ("ts", VRaw at_)]
  | EBody i b at_ => [("id", VStr i); ("body", VStr b); ("ts", VRaw at_)]
  | EEpic i ep at_ => [("id", VStr i); ("epic_id", VStr ep); ("ts", VRaw at_)]
  | ETomb i ag at_ => [("id", VStr i); ("agent_id", VStr ag); ("ts", VRaw at_)]
  | EResult i su pa sha mt gi at_ =>
      [("task_id", VStr i); ("summary", VStr su); ("path", VStr pa); ("sha256_at_attach", VStr sha);
       ("mtime_at_attach", VStr mt); ("git_commit_at_attach", VStr gi); ("ts", VRaw at_)]
  | EBad | EOther => []
  end.

Definition str3 (a b c : string) : list (string * string) := [(a, "string"); (b, "string"); (c, "string")].
Definition decode_shape (e : event) : list (string * string) :=
  match e with
  | ENew _ _ _ _ _ _ _ _ =>
      [("body", "string"); ("created_at", "string"); ("epic_id", "string"); ("id", "string"); ("state", "string");
       ("title", "string"); ("uuid", "string")]
  | EState _ _ _ => str3 "id" "state" "ts"
  | EClaim _ _ _ | ETomb _ _ _ => str3 "agent_id" "id" "ts"
  | EUnclaim _ => [("id", "string"); ("ts", "string")]
  | ELink _ _ _ | EUnlink _ _ _ => str3 "from_id" "to_id" "type"
  | ETitle _ _ _ => str3 "id" "title" "ts"
  | EBody _ _ _ => str3 "body" "id" "ts"
  | EEpic _ _ _ => str3 "epic_id" "id" "ts"
  | EResult _ _ _ _ _ _ _ =>
      [("git_commit_at_attach", "string"); ("mtime_at_attach", "string"); ("path", "string");
       ("sha256_at_attach", "string"); ("summary", "string"); ("task_id", "string"); ("ts", "string")]
  | EBad | EOther => []
  end.

Definition get_task_field (f : string) (t : task) : option val :=
  if f =?s "ID" then Some (VStr (t_id t)) else
  if f =?s "UUID" then Some (VStr (t_uuid t)) else
  if f =?s "EpicID" then Some (VStr (t_epic t)) else
  if f =?s "IsEpic" then Some (VBool (t_is_epic t)) else
  if f =?s "State" then Some (VStr (t_state t)) else
  if f =?s "Title" then Some (VStr (t_title t)) else
  if f =?s "Body" then Some (VStr (t_body t)) else
  if f =?s "ClaimedBy" then Some (VStr (t_claimed t)) else
  if f =?s "CreatedAt" then Some (VTime (t_created t)) else
  if f =?s "UpdatedAt" then Some (VTime (t_updated t)) else
  if f =?s "Results" then Some (VResults (t_results t)) else None.

(** Task fields (the Task half of the merged record). *)
Definition set_task_field (f : string) (v : val) (t : task) : option task :=
  let mk i u e ie st ti b c cr up rs :=
    Some (Task i u e ie st ti b c cr up rs (m_title t) (m_body t) (m_state t) (m_epic t) (m_created t)
               (m_last_state t) (m_last_claim t) (m_last_title t) (m_last_body t) (m_last_epic t)) in
  let i := t_id t in let u := t_uuid t in let e := t_epic t in let ie := t_is_epic t in let st := t_state t in
  let ti := t_title t in let b := t_body t in let c := t_claimed t in let cr := t_created t in
  let up := t_updated t in let rs := t_results t in
  match v with
  | VStr s =>
      if f =?s "ID" then mk s u e ie st ti b c cr up rs else
      if f =?s "UUID" then mk i s e ie st ti b c cr up rs else
      if f =?s "EpicID" then mk i u s ie st ti b c cr up rs else
      if f =?s "State" then mk i u e ie s ti b c cr up rs else
      if f =?s "Title" then mk i u e ie st s b c cr up rs else
      if f =?s "Body" then mk i u e ie st ti s c cr up rs else
      if f =?s "ClaimedBy" then mk i u e ie st ti b s cr up rs else None
  | VBool x => if f =?s "IsEpic" then mk i u e x st ti b c cr up rs else None
  | VTime x =>
      if f =?s "CreatedAt" then mk i u e ie st ti b c x up rs else
      if f =?s "UpdatedAt" then mk i u e ie st ti b c cr x rs else None
  | VResults l => if f =?s "Results" then mk i u e ie st ti b c cr up l else None
  | _ => None
  end.

(** TaskMeta fields (the TaskMeta half), for [meta.F = e]. *)
Definition set_meta_field (f : string) (v : val) (t : task) : option task :=
  let mk mt mb ms me mc ls lc lt lb le :=
    Some (Task (t_id t) (t_uuid t) (t_epic t) (t_is_epic t) (t_state t) (t_title t) (t_body t) (t_claimed t)
               (t_created t) (t_updated t) (t_results t) mt mb ms me mc ls lc lt lb le) in
  let mt := m_title t in let mb := m_body t in let ms := m_state t in let me := m_epic t in
  let mc := m_created t in let ls := m_last_state t in let lc := m_last_claim t in
  let lt := m_last_title t in let lb := m_last_body t in let le := m_last_epic t in
  match v with
  | VStr s =>
      if f =?s "CreatedTitle" then mk s mb ms me mc ls lc lt lb le else
      if f =?s "CreatedBody" then mk mt s ms me mc ls lc lt lb le else
      if f =?s "CreatedState" then mk mt mb s me mc ls lc lt lb le else
      if f =?s "CreatedEpicID" then mk mt mb ms s mc ls lc lt lb le else None
  | VTime x =>
      if f =?s "CreatedAt" then mk mt mb ms me x ls lc lt lb le else
      if f =?s "LastStateAt" then mk mt mb ms me mc x lc lt lb le else
      if f =?s "LastClaimAt" then mk mt mb ms me mc ls x lt lb le else
      if f =?s "LastTitleAt" then mk mt mb ms me mc ls lc x lb le else
      if f =?s "LastBodyAt" then mk mt mb ms me mc ls lc lt x le else
      if f =?s "LastEpicAt" then mk mt mb ms me mc ls lc lt lb x else None
  | _ => None
  end.

(** * Graph primitives (kept folded by [cbn]) *)

Definition task_at (g : graph) (i : string) : option task := g_tasks g !! i.
Definition put_task (g : graph) (i : string) (t : task) : graph :=
  Graph (<[i := t]> (g_tasks g)) (g_deps g) (g_tombs g).
Definition add_dep (g : graph) (a b : string) : graph :=
  Graph (g_tasks g) ({[ (a, b) ]} ∪ g_deps g) (g_tombs g).
Definition del_dep (g : graph) (a b : string) : graph :=
  Graph (g_tasks g) (g_deps g ∖ {[ (a, b) ]}) (g_tombs g).
Definition set_tomb (g : graph) (i : string) : graph :=
  Graph (g_tasks g) (g_deps g) ({[ i ]} ∪ g_tombs g).
Definition drop_task (g : graph) (i : string) : graph :=
  Graph (delete i (g_tasks g)) (g_deps g) (g_tombs g).
Definition drop_deps_from (g : graph) (i : string) : graph :=       (* delete(graph.Deps, i) *)
  Graph (g_tasks g) (filter (λ p, p.1 ≠ i) (g_deps g)) (g_tombs g).
Definition drop_deps_to (g : graph) (i : string) : graph :=         (* i removed from every Deps[from] *)
  Graph (g_tasks g) (filter (λ p, p.2 ≠ i) (g_deps g)) (g_tombs g).
Global Arguments task_at : simpl never.
Global Arguments put_task : simpl never.
Global Arguments add_dep : simpl never.
Global Arguments del_dep : simpl never.
Global Arguments set_tomb : simpl never.
Global Arguments drop_task : simpl never.
Global Arguments drop_deps_from : simpl never.
Global Arguments drop_deps_to : simpl never.

(** * applyTombstone *)

Record tst := TST { ts_g : graph; ts_tasks : bool; ts_meta : bool }.

Definition tomb_step (i : string) (s : option tst) (st : tstmt) : option tst :=
  match s with
  | None => None
  | Some s =>
      match st with
      | TNilGuard => Some s                          (* model graphs are never nil *)
      | TSetTombstone => Some (TST (set_tomb (ts_g s) i) (ts_tasks s) (ts_meta s))
      | TDelete m =>
          if m =?s "Tasks" then Some (TST (ts_g s) true (ts_meta s)) else
          if m =?s "Meta" then Some (TST (ts_g s) (ts_tasks s) true) else
          if m =?s "Deps" then Some (TST (drop_deps_from (ts_g s) i) (ts_tasks s) (ts_meta s)) else None
      | TScrubDeps => Some (TST (drop_deps_to (ts_g s) i) (ts_tasks s) (ts_meta s))
      | TUnknown _ => None
      end
  end.

(** Task and TaskMeta are one record in the model: they must be deleted together.  [agent] / [at_] are the
    TombstoneInfo; the model's [g_tombs] keeps the id only. *)
Definition run_tombstone (ir : list tstmt) (g : graph) (i agent : string) (at_ : time) : option graph :=
  match fold_left (tomb_step i) ir (Some (TST g false false)) with
  | Some (TST g' true true) => Some (drop_task g' i)
  | Some (TST g' false false) => Some g'
  | _ => None
  end.

Definition interp_tombstone (ir : list tstmt) (g : graph) (i agent : string) (at_ : time) : graph :=
  match run_tombstone ir g i agent at_ with Some g' => g' | None => g end.

(** * One case of the switch *)

Inductive ires := IDone (r : res graph) | IStuck (why : string).

Record ist := IST {
  s_g : graph;
  s_dec : bool;                                  (* payload decoded *)
  s_env : list (string * val);
  s_cur : option (rexpr * string * task);        (* key expression, id, working copy of the fetched task *)
  s_pend : option (rexpr * string * task);       (* graph.Tasks[k] = task done, graph.Meta[k] = ... awaited *)
  s_ens : list rexpr }.                          (* Deps[k] known non-nil *)

Definition init_ist (g : graph) : ist := IST g false [] None None [].
Definition bind_var (v : string) (x : val) (s : ist) : ist :=
  IST (s_g s) (s_dec s) ((v, x) :: s_env s) (s_cur s) (s_pend s) (s_ens s).
Definition with_g (g : graph) (s : ist) : ist := IST g (s_dec s) (s_env s) (s_cur s) (s_pend s) (s_ens s).
Definition with_cur (c : option (rexpr * string * task)) (s : ist) : ist :=
  IST (s_g s) (s_dec s) (s_env s) c (s_pend s) (s_ens s).
Definition with_pend (c : option (rexpr * string * task)) (s : ist) : ist :=
  IST (s_g s) (s_dec s) (s_env s) (s_cur s) c (s_ens s).

Inductive outcome := ONext (s : ist) | OSkip (s : ist) | OFail (e : rerr) | OStuck (why : string).

Fixpoint eval (s : ist) (e : event) (x : rexpr) : option val :=
  match x with
  | XData k => if s_dec s then assoc k (data_fields e) else None
  | XStr c => Some (VStr c)
  | XBool b => Some (VBool b)
  | XTypeIs c => match ev_type e with Some ty => Some (VBool (String.eqb ty c)) | None => None end
  | XVar v => match assoc v (s_env s) with
              | Some (VTime t) => Some (VTime t)
              | Some (VResult r) => Some (VResult r)
              | _ => None
              end
  | XField v f => match assoc v (s_env s), s_cur s with
                  | Some VTaskRef, Some (_, _, t) => get_task_field f t
                  | _, _ => None
                  end
  | XMaxTime a b => match eval s e a, eval s e b with
                    | Some (VTime x), Some (VTime y) => Some (VTime (max_time x y))
                    | _, _ => None
                    end
  | XPrepend a l => match eval s e a, eval s e l with
                    | Some (VResult r), Some (VResults rs) => Some (VResults (r :: rs))
                    | _, _ => None
                    end
  end.

Definition assign_field (e : event) (v f : string) (x : rexpr) (s : ist) : outcome :=
  match assoc v (s_env s), s_cur s, eval s e x with
  | Some VTaskRef, Some (k, i, t), Some a =>
      match set_task_field f a t with
      | Some t' => ONext (with_cur (Some (k, i, t')) s)
      | None => OStuck ("cannot assign task field " ++ f)
      end
  | _, _, _ => OStuck ("ill-formed task field assignment " ++ v ++ "." ++ f)
  end.

Fixpoint assign_all (e : event) (body : list (string * string * rexpr)) (s : ist) : outcome :=
  match body with
  | [] => ONext s
  | (v, f, x) :: r => match assign_field e v f x s with
                      | ONext s' => assign_all e r s'
                      | o => o
                      end
  end.

(** Composite literals [T{F: e, ...}]: every field of the value is looked up in the literal (absent = zero
    value); fields the dictionary does not know make the literal ill-formed. *)
Definition lit_get (s : ist) (e : event) (fields : list (string * rexpr)) (f : string) : option (option val) :=
  match assoc f fields with
  | None => Some None
  | Some x => match eval s e x with Some v => Some (Some v) | None => None end
  end.
Definition lit_str s e fields f : option string :=
  match lit_get s e fields f with Some None => Some "" | Some (Some (VStr v)) => Some v | _ => None end.
Definition lit_bool s e fields f : option bool :=
  match lit_get s e fields f with Some None => Some false | Some (Some (VBool v)) => Some v | _ => None end.
Definition lit_time s e fields f : option time :=
  match lit_get s e fields f with Some None => Some zero_time | Some (Some (VTime v)) => Some v | _ => None end.
Definition fields_known (names : list string) (fields : list (string * rexpr)) : bool :=
  forallb (λ p, mem_str (fst p) names) fields.

Definition task_lit_fields : list string :=
  ["ID"; "UUID"; "EpicID"; "IsEpic"; "State"; "Title"; "Body"; "ClaimedBy"; "CreatedAt"; "UpdatedAt"].
Definition meta_lit_fields : list string :=
  ["CreatedTitle"; "CreatedBody"; "CreatedState"; "CreatedEpicID"; "CreatedEpicIDSet"; "CreatedAt";
   "LastStateAt"; "LastClaimAt"; "LastTitleAt"; "LastBodyAt"; "LastEpicAt"].
Definition result_lit_fields : list string :=
  ["Summary"; "Path"; "Sha256AtAttach"; "MtimeAtAttach"; "GitCommitAtAttach"; "CreatedAt"].

(** &Task{...}: Results nil, and no meta yet (zero meta half until [RStoreMeta]). *)
Definition build_task (s : ist) (e : event) (fields : list (string * rexpr)) : option task :=
  if fields_known task_lit_fields fields then
    match lit_str s e fields "ID", lit_str s e fields "UUID", lit_str s e fields "EpicID",
          lit_bool s e fields "IsEpic", lit_str s e fields "State", lit_str s e fields "Title",
          lit_str s e fields "Body", lit_str s e fields "ClaimedBy",
          lit_time s e fields "CreatedAt", lit_time s e fields "UpdatedAt" with
    | Some i, Some u, Some ep, Some ie, Some st, Some ti, Some b, Some c, Some cr, Some up =>
        Some (Task i u ep ie st ti b c cr up [] "" "" "" "" zero_time zero_time zero_time zero_time zero_time zero_time)
    | _, _, _, _, _, _, _, _, _, _ => None
    end
  else None.

(** &TaskMeta{...} stored next to task [t].  [CreatedEpicIDSet] is not a model field: the model takes it
    to be [true] for every meta, so the literal has to say so. *)
Definition build_meta (s : ist) (e : event) (fields : list (string * rexpr)) (t : task) : option task :=
  if fields_known meta_lit_fields fields then
    match lit_bool s e fields "CreatedEpicIDSet",
          lit_str s e fields "CreatedTitle", lit_str s e fields "CreatedBody", lit_str s e fields "CreatedState",
          lit_str s e fields "CreatedEpicID", lit_time s e fields "CreatedAt",
          lit_time s e fields "LastStateAt", lit_time s e fields "LastClaimAt", lit_time s e fields "LastTitleAt",
          lit_time s e fields "LastBodyAt", lit_time s e fields "LastEpicAt" with
    | Some true, Some mt, Some mb, Some ms, Some me, Some mc, Some ls, Some lc, Some lt, Some lb, Some le =>
        Some (Task (t_id t) (t_uuid t) (t_epic t) (t_is_epic t) (t_state t) (t_title t) (t_body t) (t_claimed t)
                   (t_created t) (t_updated t) (t_results t) mt mb ms me mc ls lc lt lb le)
    | _, _, _, _, _, _, _, _, _, _, _ => None
    end
  else None.

Definition build_result (s : ist) (e : event) (fields : list (string * rexpr)) : option result :=
  if fields_known result_lit_fields fields then
    match lit_str s e fields "Summary", lit_str s e fields "Path", lit_str s e fields "Sha256AtAttach",
          lit_str s e fields "MtimeAtAttach", lit_str s e fields "GitCommitAtAttach", lit_time s e fields "CreatedAt" with
    | Some su, Some pa, Some sha, Some mt, Some gi, Some at_ => Some (Result su pa sha mt gi at_)
    | _, _, _, _, _, _ => None
    end
  else None.

Definition dup_fmt : string := "duplicate task id %s".

Definition interp_stmt (tomb : list tstmt) (e : event) (st : rstmt) (s : ist) : outcome :=
  match st with
  | RDecode _ _ shape =>
      if s_dec s then OStuck "payload decoded twice" else
      if shape_eqb shape (decode_shape e)
      then ONext (IST (s_g s) true (s_env s) (s_cur s) (s_pend s) (s_ens s))
      else OStuck "payload struct shape differs from the model's event"
  | RSkipIfTombstoned k =>
      match eval s e k with
      | Some (VStr i) => if tombed (s_g s) i then OSkip s else ONext s
      | _ => OStuck "tombstone key"
      end
  | RErrIfTaskExists k fmt args =>
      match eval s e k, args, s_cur s with
      | Some (VStr i), [a], None =>
          match eval s e a with
          | Some (VStr j) =>
              if fmt =?s dup_fmt then
                match task_at (s_g s) i with Some _ => OFail (RDuplicate j) | None => ONext s end
              else OStuck "error message of the duplicate check"
          | _ => OStuck "duplicate check argument"
          end
      | _, _, _ => OStuck "duplicate check"
      end
  | RParseTime v x =>
      match eval s e x with
      | Some (VRaw None) => OFail RBadTime
      | Some (VRaw (Some t)) => ONext (bind_var v (VTime t) s)
      | _ => OStuck "parseTime of something that is not a payload stamp"
      end
  | RGetTaskOrSkip v k =>
      match eval s e k, s_cur s, s_pend s with
      | Some (VStr i), None, None =>
          match task_at (s_g s) i with
          | None => OSkip s
          | Some t => ONext (with_cur (Some (k, i, t)) (bind_var v VTaskRef s))
          end
      | _, _, _ => OStuck "task fetch"
      end
  | RSetTaskField v f x => assign_field e v f x s
  | RIfStrIn x cs body =>
      match eval s e x with
      | Some (VStr a) => if existsb (String.eqb a) cs then assign_all e body s else ONext s
      | _ => OStuck "condition operand"
      end
  | RGetMeta v k => ONext (bind_var v (VMetaRef k) s)
  | RIfMetaSet v f x =>
      (* Meta[id] exists iff Tasks[id] does (one record): with the task fetched under the same key, meta != nil *)
      match assoc v (s_env s), s_cur s, eval s e x with
      | Some (VMetaRef k), Some (k', i, t), Some a =>
          if rexpr_eqb k k' then
            match set_meta_field f a t with
            | Some t' => ONext (with_cur (Some (k', i, t')) s)
            | None => OStuck ("cannot assign meta field " ++ f)
            end
          else OStuck "meta of a different key than the fetched task"
      | _, _, _ => OStuck "ill-formed meta assignment"
      end
  | RNewTask v fields =>
      match build_task s e fields with
      | Some t => ONext (bind_var v (VTaskNew t) s)
      | None => OStuck "task literal"
      end
  | RStoreTask k v =>
      match eval s e k, assoc v (s_env s), s_cur s, s_pend s with
      | Some (VStr i), Some (VTaskNew t), None, None => ONext (with_pend (Some (k, i, t)) s)
      | _, _, _, _ => OStuck "task store"
      end
  | RStoreMeta k fields =>
      match s_pend s with
      | Some (k', i, t) =>
          if rexpr_eqb k k' then
            match build_meta s e fields t with
            | Some t' => ONext (with_pend None (with_g (put_task (s_g s) i t') s))
            | None => OStuck "meta literal (CreatedEpicIDSet: true is required)"
            end
          else OStuck "meta stored under a different key than the task"
      | None => OStuck "meta stored without its task"
      end
  | RSkipIfStrNe x c =>
      match eval s e x with
      | Some (VStr a) => if negb (String.eqb a c) then OSkip s else ONext s
      | _ => OStuck "comparison operand"
      end
  | REnsureDeps k => ONext (IST (s_g s) (s_dec s) (s_env s) (s_cur s) (s_pend s) (k :: s_ens s))
  | RDepInsert a b =>
      match eval s e a, eval s e b with
      | Some (VStr x), Some (VStr y) =>
          if existsb (rexpr_eqb a) (s_ens s) then ONext (with_g (add_dep (s_g s) x y) s)
          else OStuck "insert into a possibly nil dependency set"
      | _, _ => OStuck "dependency insert"
      end
  | RDepDelete a b =>
      match eval s e a, eval s e b with
      | Some (VStr x), Some (VStr y) => ONext (with_g (del_dep (s_g s) x y) s)
      | _, _ => OStuck "dependency delete"
      end
  | RTombstone k info =>
      match eval s e k, info, s_cur s, s_pend s with
      | Some (VStr i), [(f1, x1); (f2, x2)], None, None =>
          match eval s e x1, eval s e x2 with
          | Some (VStr ag), Some (VTime t) =>
              if ((f1 =?s "AgentID") && (f2 =?s "At"))%bool then
                match run_tombstone tomb (s_g s) i ag t with
                | Some g' => ONext (with_g g' s)
                | None => OStuck "applyTombstone"
                end
              else OStuck "TombstoneInfo fields"
          | _, _ => OStuck "TombstoneInfo values"
          end
      | _, _, _, _ => OStuck "applyTombstone call"
      end
  | RNewResult v fields =>
      match build_result s e fields with
      | Some r => ONext (bind_var v (VResult r) s)
      | None => OStuck "result literal"
      end
  | RUnknown src => OStuck ("unrecognised statement: " ++ src)
  end.

(** falling out of the case, or [continue]: the working copy is the task the map points to *)
Definition flush (s : ist) : ires :=
  match s_pend s, s_cur s with
  | Some _, _ => IStuck "task stored without its meta"
  | None, Some (_, i, t) => IDone (Ok (put_task (s_g s) i t))
  | None, None => IDone (Ok (s_g s))
  end.

Fixpoint interp_stmts (tomb : list tstmt) (e : event) (l : list rstmt) (s : ist) : ires :=
  match l with
  | [] => flush s
  | st :: rest =>
      match interp_stmt tomb e st s with
      | ONext s' => interp_stmts tomb e rest s'
      | OSkip s' => flush s'
      | OFail er => IDone (Err er)
      | OStuck w => IStuck w
      end
  end.

Definition interp_case (tomb : list tstmt) (l : list rstmt) (g : graph) (e : event) : ires :=
  interp_stmts tomb e l (init_ist g).

Definition starts_with_decode (l : list rstmt) : bool :=
  match l with RDecode _ _ _ :: _ => true | _ => false end.

(** [EBad] is an event of a known type whose payload does not decode: every case has to begin with the
    decode-or-fail.  [EOther] is a type outside [known_event_types] (see [case_labels_ok]). *)
Definition run_event (cases : list (list string * list rstmt)) (tomb : list tstmt) (g : graph) (e : event) : ires :=
  match e with
  | EOther => IDone (Ok g)
  | EBad => if forallb (λ c, starts_with_decode (snd c)) cases then IDone (Err RBadPayload)
            else IStuck "a case does not begin by decoding its payload"
  | _ =>
      match ev_type e with
      | None => IStuck "event without a type"
      | Some ty =>
          match find (λ c, mem_str ty (fst c)) cases with
          | Some c => interp_case tomb (snd c) g e
          | None => IDone (Ok g)                     (* no case for this type: the switch does nothing *)
          end
      end
  end.

(** Stuck is folded into an error the model never returns from [apply_event]. *)
Definition interp_event cases tomb (g : graph) (e : event) : res graph :=
  match run_event cases tomb g e with IDone r => r | IStuck _ => Err RTooLong end.

Definition case_labels_ok (cases : list (list string * list rstmt)) : bool :=
  same_strings (concat (map fst cases)) known_event_types.

(** * The whole function *)

Definition swap_pair (p : string * string) : string * string := (p.2, p.1).
Definition keys_at (m : gset (string * string)) (i : string) : list string :=
  sort_strings (snd <$> filter (λ p, p.1 = i) (elements m)).                  (* sortedKeys(m[i]) *)

Record fstate := FST {
  f_g : graph;
  f_rdeps : gset (string * string);              (* (to, from) *)
  f_tdeps : string -> list string;               (* Task.Deps of id *)
  f_trdeps : string -> list string }.            (* Task.RDeps of id *)

Inductive fres := FOk (g : graph) (deps rdeps : string -> list string) | FErr (e : rerr) | FStuck (why : string).

Fixpoint run_events cases tomb (es : list event) (g : graph) : ires :=
  match es with
  | [] => IDone (Ok g)
  | e :: r => match run_event cases tomb g e with
              | IDone (Ok g') => run_events cases tomb r g'
              | x => x
              end
  end.

Definition graph_fields : list string := ["Tasks"; "Deps"; "RDeps"; "Meta"; "Tombstones"].

Fixpoint adjacency (assigns : list (string * string)) (s : fstate) : option fstate :=
  match assigns with
  | [] => Some s
  | (tf, gf) :: r =>
      let src := if gf =?s "Deps" then Some (keys_at (g_deps (f_g s)))
                 else if gf =?s "RDeps" then Some (keys_at (f_rdeps s)) else None in
      match src with
      | None => None
      | Some fn =>
          if tf =?s "Deps" then adjacency r (FST (f_g s) (f_rdeps s) fn (f_trdeps s))
          else if tf =?s "RDeps" then adjacency r (FST (f_g s) (f_rdeps s) (f_tdeps s) fn)
          else None
      end
  end.

Fixpoint run_frame (fr : list pstmt) cases tomb (es : list event) (s : option fstate) : fres :=
  match fr with
  | [] => FStuck "function body ends without returning the graph"
  | st :: rest =>
      match st, s with
      | PInitGraph fields, None =>
          if same_strings fields graph_fields
          then run_frame rest cases tomb es (Some (FST empty_graph ∅ (λ _, []) (λ _, [])))
          else FStuck "graph literal fields"
      | PLoopSwitch, Some s =>
          match run_events cases tomb es (f_g s) with
          | IDone (Ok g') => run_frame rest cases tomb es (Some (FST g' (f_rdeps s) (f_tdeps s) (f_trdeps s)))
          | IDone (Err er) => FErr er
          | IStuck w => FStuck w
          end
      | PBuildRDeps, Some s =>
          run_frame rest cases tomb es
            (Some (FST (f_g s) (f_rdeps s ∪ set_map swap_pair (g_deps (f_g s))) (f_tdeps s) (f_trdeps s)))
      | PTaskAdjacency assigns, Some s =>
          match adjacency assigns s with
          | Some s' => run_frame rest cases tomb es (Some s')
          | None => FStuck "task adjacency assignment"
          end
      | PCall f, Some s =>
          if f =?s "applyLegacyTitleMigration"
          then run_frame rest cases tomb es (Some (FST (finalize (f_g s)) (f_rdeps s) (f_tdeps s) (f_trdeps s)))
          else FStuck ("call of " ++ f)
      | PReturnGraph, Some s =>
          match rest with [] => FOk (f_g s) (f_tdeps s) (f_trdeps s) | _ => FStuck "statements after return" end
      | PUnknown src, _ => FStuck ("unrecognised statement: " ++ src)
      | _, _ => FStuck "graph used before / initialised after its first use"
      end
  end.

Definition run_replay (fr : list pstmt) cases tomb (es : list event) : fres := run_frame fr cases tomb es None.
