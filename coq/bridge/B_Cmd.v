(** Bridge (command decision code): obligations over the IR GENERATED from commands_work.go /
    storage.go / model.go (gen/CmdGen.v), run by the interpreter of CmdIR.v.

    Part 1 — universally quantified equivalences (for ALL inputs) between the generated code and the
    hand-written model (theories/Cmd.v, Path.v):
      [gen_isEpic_*], [gen_prunedErr], [gen_validateDepSelf], [gen_validateDepKinds],
      [gen_validateResultSummary]  (= [valid_summary]),
      [gen_validateResultPath]     (= [lexical_result_path] + the os.Stat verdict),
      [gen_buildResultEvent]       (= [build_result_event]; one clock reading, taken last).

    Part 2 (B_CmdGrid.v) — agreement of [buildSetEvents], [applySetUpdates], [createTaskWithDir],
    [writeLinkEvents] and the lock section of [RunClaimOldestReady] with the model's transactions on a
    finite GRID of inputs that covers every combination of the predicates these functions test
    (a computation inside Coq over the regenerated code; NOT a statement for all inputs — the
    symbolic proof for [buildSetEvents] did not finish in the time available, see DESIGN.md). *)
From Ergo Require Import Base Text Events Replay Ready Path Cmd.
From ErgoBridge Require Import ReadyIR CmdIR.
From ErgoGen Require Import CmdGen.
From Coq Require Import String ZArith List Lia.
Import ListNotations.
Local Open Scope string_scope.
Local Open Scope list_scope.

(** [enter]: unfold one call level and fetch the callee's generated body. *)
Ltac enter :=
  rewrite crun_S;
  match goal with
  | |- context [lookup ?f gen_cmd_prog] =>
      let r := eval vm_compute in (lookup f gen_cmd_prog) in
      change (lookup f gen_cmd_prog) with r
  end; cir_simpl.

(** No statement or expression of the translated functions fell outside the fragment. *)
Fixpoint expr_known (e : cexpr) : bool :=
  match e with
  | CEUnknown _ => false
  | CEField a _ | CEIndexInt a _ | CENot a | CELen a | CEAddr a => expr_known a
  | CEIndex a b | CEEq a b | CENe a b | CEAnd a b | CEOr a b | CEGt a b | CEAdd a b | CEAppendAll a b =>
      expr_known a && expr_known b
  | CECall _ l | CECallVar _ l | CESlice _ l => exprs_known l
  | CEMethod r _ l => expr_known r && exprs_known l
  | CEStruct _ fs => fields_known fs
  | CEAppend a l => expr_known a && exprs_known l
  | _ => true
  end
with exprs_known (l : cexprs) : bool :=
  match l with CXNil => true | CXCons e r => expr_known e && exprs_known r end
with fields_known (l : cfields) : bool :=
  match l with CFNil => true | CFCons _ e r => expr_known e && fields_known r end.

Fixpoint stmt_known (s : cstmt) : bool :=
  match s with
  | CSUnknown _ => false
  | CSDefine _ e | CSExpr e => expr_known e
  | CSLookup2 _ _ m k => expr_known m && expr_known k
  | CSSetIndex _ k e | CSGraphStoreTask _ k e | CSDepInsert _ k e | CSDepDelete _ k e => expr_known k && expr_known e
  | CSSetField _ _ e | CSDelete _ e | CSDepEnsure _ e => expr_known e
  | CSIf i c th el => stmt_known i && expr_known c && block_known th && block_known el
  | CSRange _ _ e b => expr_known e && block_known b
  | CSLock _ _ b => block_known b
  | CSReturn es => exprs_known es
  | _ => true
  end
with block_known (b : cblock) : bool :=
  match b with CBNil => true | CBCons s r => stmt_known s && block_known r end.

Theorem gen_cmd_fragment_complete :
  forallb (λ '(_, fd), block_known (cf_body fd)) gen_cmd_prog = true
  /\ forallb (λ '(_, (_, b)), block_known b) gen_cmd_sections = true.
Proof. split; vm_compute; reflexivity. Qed.

(** ** Helpers *)
Lemma gen_isEpic_task n t σ :
  crun (S n) gen_cmd_prog "isEpic" [VTask t] σ = Some (VBool (t_is_epic t), σ).
Proof. enter. reflexivity. Qed.
Lemma gen_isEpic_nil n σ :
  crun (S n) gen_cmd_prog "isEpic" [VNil] σ = Some (VBool false, σ).
Proof. enter. reflexivity. Qed.

Lemma gen_prunedErr n i σ :
  crun (S n) gen_cmd_prog "prunedErr" [VStr i] σ = Some (VErr EGen, σ).
Proof. enter. reflexivity. Qed.

Lemma gen_validateDepSelf n a b σ :
  crun (S n) gen_cmd_prog "validateDepSelf" [VStr a; VStr b] σ = Some (err_of (negb (String.eqb a b)), σ).
Proof. enter. destruct (String.eqb a b); reflexivity. Qed.

Lemma gen_validateDepKinds n a b σ :
  crun (S n) gen_cmd_prog "validateDepKinds" [VBool a; VBool b] σ = Some (err_of (Bool.eqb a b), σ).
Proof. enter. destruct a, b; reflexivity. Qed.

Lemma gen_identity n v σ :
  crun (S n) gen_cmd_prog "identityBodyResolver" [VStr v] σ = Some (VTuple [VStr v; VNil], σ).
Proof. enter. reflexivity. Qed.

(** ** validateResultSummary = valid_summary *)
Theorem gen_validateResultSummary n s σ :
  crun (S n) gen_cmd_prog "validateResultSummary" [VStr s] σ = Some (err_of (is_some (valid_summary s)), σ).
Proof.
  enter. unfold valid_summary.
  destruct (String.eqb (trim_space s) ""); cir_simpl; [reflexivity|].
  destruct (contains_nl_cr (trim_space s)); cir_simpl; [reflexivity|].
  unfold byte_len.
  replace (120 <? Z.of_nat (String.length (trim_space s)))%Z with (Nat.ltb 120 (String.length (trim_space s))).
  2:{ destruct (Nat.ltb_spec 120 (String.length (trim_space s))); symmetry; [apply Z.ltb_lt|apply Z.ltb_ge]; lia. }
  destruct (Nat.ltb 120 _); reflexivity.
Qed.

(** ** validateResultPath = the lexical rules of [lexical_result_path], then the file must be regular *)
Theorem gen_validateResultPath n repo p k sha mt git clock ids uu ld wr out :
  let σ := CState clock ids uu ld k sha mt git wr out in
  crun (S n) gen_cmd_prog "validateResultPath" [VStr repo; VStr p] σ
  = Some (match lexical_result_path p, k with
          | Some c, FRegular => VTuple [VStr c; VNil]
          | _, _ => VTuple [VStr ""; VErr EGen]
          end, σ).
Proof.
  intros σ. enter. unfold lexical_result_path.
  change (String.append "/" "..") with "/..". change (String.append ".ergo" "/") with ".ergo/".
  destruct (is_abs (clean p)); cir_simpl; [reflexivity|].
  destruct (String.prefix ".." (clean p)); cir_simpl; [reflexivity|].
  destruct (contains_sub "/.." (clean p)); cir_simpl; [reflexivity|].
  destruct (String.prefix ".ergo/" (clean p)); cir_simpl; [reflexivity|].
  destruct (String.eqb (clean p) ".ergo"); cir_simpl; [reflexivity|].
  subst σ; destruct k; cir_simpl; reflexivity.
Qed.

(** ** buildResultEvent = build_result_event *)
Definition env_state (e : Cmd.env) (clock : list time) (ld : option graph) wr out : cstate :=
  CState clock (e_ids e) (e_uuids e) ld (e_fkind e) (e_sha e) (e_mtime e) (e_git e) wr out.

Theorem gen_buildResultEvent n e g repo i summary path rest ld wr out :
  crun (S (S n)) gen_cmd_prog "buildResultEvent" [VGraph g; VStr repo; VStr i; VStr summary; VStr path]
       (env_state e (e_now_result e :: rest) ld wr out)
  = Some (match build_result_event e g i summary path with
          | Some ev => (VTuple [VEvent ev; VNil], env_state e rest ld wr out)
          | None => (VTuple [VStruct "Event" []; VErr EGen], env_state e (e_now_result e :: rest) ld wr out)
          end).
Proof.
  enter. unfold build_result_event.
  destruct (tombed g i); cir_simpl.
  { rewrite gen_prunedErr. reflexivity. }
  destruct (g_tasks g !! i) as [t|]; cir_simpl; [|reflexivity].
  rewrite gen_isEpic_task. cir_simpl.
  destruct (t_is_epic t); cir_simpl; [reflexivity|].
  rewrite gen_validateResultSummary. cir_simpl.
  destruct (valid_summary summary) as [s'|] eqn:Hs; cir_simpl; [|reflexivity].
  assert (s' = trim_space summary) as ->.
  { unfold valid_summary in Hs. destruct (_ =? _); [discriminate|]. destruct (contains_nl_cr _); [discriminate|].
    destruct (Nat.ltb _ _); [discriminate|]. congruence. }
  unfold env_state. rewrite gen_validateResultPath. cir_simpl.
  destruct (lexical_result_path path) as [c|]; [|reflexivity].
  destruct (e_fkind e); cir_simpl; try reflexivity.
Qed.

(** Non-vacuity: a concrete attachment goes through the generated code. *)
Example gen_buildResultEvent_nonvacuous :
  let t := new_task false "T1" "uu" "" "todo" "title" "body" 1%Z in
  let g := Graph {[ "T1" := t ]} ∅ ∅ in
  let e := Env [] [] 5%Z 7%Z [] FRegular "sha" "mt" "git" in
  option_map fst (crun 5 gen_cmd_prog "buildResultEvent" [VGraph g; VStr "/p"; VStr "T1"; VStr " done "; VStr "out/./r.txt"]
                       (env_state e [7%Z] None [] []))
  = Some (VTuple [VEvent (EResult "T1" "done" "out/r.txt" "sha" "mt" "git" (Some 7%Z)); VNil]).
Proof. vm_compute. reflexivity. Qed.

Print Assumptions gen_buildResultEvent.
Print Assumptions gen_validateResultPath.
