(** Bridge C13: the log path is only ever changed through the storage primitives (single append or
    tmp + rename) inside a lock section: no command manipulates files directly, so a reader can only
    observe a whole-line append or an atomic rename. *)
From Coq Require Import String List.
From ErgoGen Require Import Skeleton.
From ErgoBridge Require Import SkelLib.
Import ListNotations.
Local Open Scope string_scope.
Example C13_no_direct_file_manipulation :
  (concat (map mutating_ok mutating_entries) ++ concat (map readonly_ok readonly_entries))%list = [].
Proof. vm_compute. reflexivity. Qed.

(** appendEvents: one write(2) per append, so no reader or crash can observe half a line of it. *)
Example C13_append_is_one_write : append_prim_ok = [].
Proof. vm_compute. reflexivity. Qed.
