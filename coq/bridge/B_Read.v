(** Bridge (log reader): the IR GENERATED from storage.go (gen/ReadGen.v: readEvents with its
    closure processLine, getEventsPath, encodeEventLine, hasUnterminatedTail), run by the
    interpreter of ReadIR.v, computes exactly what the model says:
      - [gen_readEvents_matches_model(_raw)]  readEvents = Storage.read_lines, for ALL line lists
        and newline flags, error classes included (bad line with its 1-based number; too long);
      - [gen_readEvents_missing]              a missing file reads as the empty log;
      - [gen_getEventsPath_matches_model]     getEventsPath = Discovery.get_events_path;
      - [gen_encode_limit_matches_model]      encodeEventLine rejects iff JSON + '\n' exceeds the
        limit the reader's scanner is given (the model has no size check of its own);
      - [gen_hasUnterminatedTail_matches_model].
    The proofs do not mention the Go variable names: the loop state is read off the goal. *)
From Ergo Require Import Base Events Storage Discovery.
From ErgoBridge Require Import ReadyIR ReadIR.
From ErgoGen Require Import ReadGen.
From Coq Require Import NArith.
Local Open Scope string_scope.
Local Open Scope list_scope.

Ltac expose g :=
  repeat match goal with
  | |- context [?p g] =>
      match p with fn_params => idtac | fn_body => idtac | fn_closures => idtac end;
      let b := eval vm_compute in (p g) in change (p g) with b
  end.

Theorem gen_getEventsPath_matches_model : forall (f : fs) (d : string),
  interp_path gen_getEventsPath (exists_b f) d = Some (get_events_path f d).
Proof.
  intros f d. unfold interp_path, run_fn, get_events_path, plans_name, old_name. expose gen_getEventsPath.
  lir_simpl.
  destruct (exists_b f (join d "plans.jsonl")) eqn:Hp; lir_simpl; [reflexivity|].
  destruct (exists_b f (join d "events.jsonl")) eqn:Ho; lir_simpl; reflexivity.
Qed.

Theorem gen_encode_limit_matches_model : forall mlen : N,
  interp_encode gen_encodeEventLine mlen
  = Some (if fits_scanner (mlen + 1) then EncLine (mlen + 1) else EncTooLarge).
Proof.
  intros mlen. unfold interp_encode, run_fn, fits_scanner, line_limit. expose gen_encodeEventLine.
  lir_simpl.
  rewrite N.ltb_antisym.
  destruct (N.leb (mlen + 1) 10485760) eqn:Hfit; lir_simpl; reflexivity.
Qed.

(** ** The model side: [scan] seen from the state of the Go loop *)
Section model.
  Context (nl : bool).

  (** [pb]: the pending buffer; [n]: pendingNo = currentNo; [rest]: what the scanner has not yielded. *)
  Definition scan_from (pb : bytesv) (n : N) (rest : list raw) (acc : list event) : res (list event) :=
    match pb with
    | BTok r => scan (classify r :: (classify <$> rest)) (pred (N.to_nat n)) acc nl
    | _ => scan (classify <$> rest) (N.to_nat n) acc nl
    end.

  Definition inv (pb : bytesv) (n : N) : Prop :=
    pb = BNil \/ exists r, pb = BTok r /\ n <> 0%N /\ is_huge (classify r) = false.

  Lemma inv_copy x n : is_huge (classify x) = false -> inv (copy_tok x) (N.succ n).
  Proof.
    intros Hx. destruct x as [|l]; [left; reflexivity|].
    right. exists (RawOf l). split; [reflexivity|]. split; [apply N.neq_succ_0|exact Hx].
  Qed.

  Lemma scan_blank ls k acc : scan (LBlank :: ls) k acc nl = scan ls (S k) acc nl.
  Proof.
    destruct ls as [|l2 r]; [reflexivity|]. cbn [scan is_huge process].
    destruct (is_huge l2); reflexivity.
  Qed.

  Lemma sf_nil_step x n rest acc :
    scan_from BNil n (x :: rest) acc = scan_from (copy_tok x) (N.succ n) rest acc.
  Proof.
    unfold scan_from. rewrite fmap_cons. destruct x as [|l]; cbn [copy_tok classify].
    - rewrite scan_blank, N2Nat.inj_succ. reflexivity.
    - rewrite N2Nat.inj_succ. reflexivity.
  Qed.

  Lemma sf_tok_step r x n rest acc :
    n <> 0%N -> is_huge (classify r) = false -> is_huge (classify x) = false ->
    scan_from (BTok r) n (x :: rest) acc
    = match process (N.to_nat n) (classify r) acc with
      | Ok a => scan_from (copy_tok x) (N.succ n) rest a
      | Err e => Err e
      end.
  Proof.
    intros Hn Hr Hx.
    assert (E : S (pred (N.to_nat n)) = N.to_nat n) by lia.
    transitivity (match process (N.to_nat n) (classify r) acc with
                  | Ok a => scan_from BNil n (x :: rest) a
                  | Err e => Err e
                  end).
    - unfold scan_from. rewrite fmap_cons. cbn [scan]. rewrite Hr, Hx, E. reflexivity.
    - destruct (process (N.to_nat n) (classify r) acc); [apply sf_nil_step|reflexivity].
  Qed.

  Lemma sf_huge pb x n rest acc :
    inv pb n -> is_huge (classify x) = true -> scan_from pb n (x :: rest) acc = Err RTooLong.
  Proof.
    intros [->|(r & -> & Hn & Hr)] Hx; unfold scan_from; rewrite fmap_cons; cbn [scan].
    - rewrite Hx. reflexivity.
    - rewrite Hr, Hx. reflexivity.
  Qed.

  Lemma sf_end_tok r n acc :
    n <> 0%N -> is_huge (classify r) = false ->
    scan_from (BTok r) n [] acc
    = match process (N.to_nat n) (classify r) acc with
      | Ok a => Ok a
      | Err e => if nl then Err e else Ok acc
      end.
  Proof.
    intros Hn Hr. unfold scan_from. cbn [fmap list_fmap scan]. rewrite Hr.
    assert (E : S (pred (N.to_nat n)) = N.to_nat n) by lia. rewrite E. reflexivity.
  Qed.
End model.
Arguments scan_from : simpl never.
Arguments copy_tok !r /.
Arguments classify !r /.
Arguments is_huge !l /.

(** ** Stepping through a block one statement at a time *)
Section step.
  Context (fo : string -> option (list raw * bool)) (fe : string -> bool) (ml : N)
          (call : string -> list lvalue -> lenv -> option (lenv * lvalue)).
  Lemma blk_cons ρ s r :
    lexec_block fo fe ml call ρ (LBCons s r)
    = match lexec_stmt fo fe ml call ρ s with
      | Some (ρ1, ONormal) => lexec_block fo fe ml call ρ1 r
      | Some (ρ1, OReturn vs) => Some (ρ1, OReturn vs)
      | None => None
      end.
  Proof. reflexivity. Qed.
  Lemma for_scan_eq ρ v body :
    lexec_stmt fo fe ml call ρ (LSForScan v body)
    = match lookup v ρ with
      | Some (LVScanner (Some m) _ rest None) =>
          if N.eqb m line_limit
          then scan_iter (λ ρ', lexec_block fo fe ml call ρ' body) v (Some m) rest ρ
          else None
      | _ => None
      end.
  Proof. reflexivity. Qed.
End step.

Ltac ncomp :=
  repeat match goal with
  | |- context [N.leb (Npos ?a) (Npos ?b)] =>
      let v := eval vm_compute in (N.leb (Npos a) (Npos b)) in change (N.leb (Npos a) (Npos b)) with v
  | |- context [N.eqb (Npos ?a) line_limit] =>
      let v := eval vm_compute in (N.eqb (Npos a) line_limit) in change (N.eqb (Npos a) line_limit) with v
  end.

(** one statement (not the loop): evaluate it on the current environment *)
Ltac step :=
  rewrite blk_cons;
  match goal with
  | |- context [lexec_stmt ?fo ?fe ?ml ?c ?ρ ?s] =>
      lazymatch s with
      | LSForScan _ _ => fail "loop"
      | _ =>
          let t := eval cbn [lblk lxs lexec_block lexec_stmt leval leval_args lookup update remove_first bind
                             restore bind_params name_eqb ascii_name_eqb bit_eqb andb orb negb leq_values
                             err_is to_earg copy_tok nonempty is_bnil is_none classify is_huge List.length
                             drop take app Nat.sub Nat.eqb fmap list_fmap closure_call]
                   in (lexec_stmt fo fe ml c ρ s) in
          change (lexec_stmt fo fe ml c ρ s) with t
      end
  end;
  ncomp; cbv beta iota.

Definition fin (p : string) (o : option (lenv * outcome)) : option (res (list event)) :=
  match o with Some (_, OReturn vs) => read_result p vs | _ => None end.

Definition ml0 : N := 0%N.
Lemma interp_read_at_eq ir p file :
  interp_read_at ir p file
  = match bind_params (fn_params ir) [LVStr p] with
    | Some ρ =>
        let fo := λ q, if String.eqb q p then file else None in
        fin p (lexec_block fo (λ _, false) ml0 (closure_call fo (λ _, false) ml0 (fn_closures ir)) ρ (fn_body ir))
    | None => None
    end.
Proof.
  unfold interp_read_at, run_fn, fin, ml0. destruct (bind_params (fn_params ir) [LVStr p]) as [ρ|]; [|reflexivity].
  cbv zeta. destruct (lexec_block _ _ _ _ ρ (fn_body ir)) as [[ρ' [|vs]]|]; reflexivity.
Qed.

Ltac ev_update :=
  cbn [update bind name_eqb ascii_name_eqb bit_eqb andb negb lookup]; cbv beta iota.

Lemma blk_nil fo fe ml call ρ : lexec_block fo fe ml call ρ LBNil = Some (ρ, ONormal).
Proof. reflexivity. Qed.

Ltac steps := repeat step; rewrite ?blk_nil; cbv beta iota.

Ltac finish :=
  steps; cbn [fin read_result classify_err]; rewrite ?String.eqb_refl;
  try (unfold line_limit, msg_too_long); cbn [andb].

(** The scanner loop and what follows it, from the state in which the loop is entered: by
    induction on the lines the scanner has not yet yielded, for every pending buffer / line
    number / accumulated event list satisfying [inv].  Variable names are taken from the goal. *)
Ltac loop_proof :=
  let fv := fresh "fv" in let Hfv := fresh "Hfv" in
  let post := fresh "post" in let F0 := fresh "F0" in let callf := fresh "callf" in
  match goal with |- context [LVFile ?a ?b] => remember (LVFile a b) as fv eqn:Hfv; clear Hfv end;
  match goal with |- context [LBCons (LSForScan ?v ?body) ?post0] => set (post := post0) end;
  rewrite blk_cons, for_scan_eq;
  cbn [lookup name_eqb ascii_name_eqb bit_eqb andb negb]; ncomp; cbv beta iota;
  match goal with |- context [scan_iter ?F _ _ _ _] => set (F0 := F) end;
  match goal with |- context [lexec_block _ _ _ ?c _ _] => set (callf := c) end;
  let n := fresh "n" in let pb := fresh "pb" in let acc := fresh "acc" in let cur := fresh "cur" in
  let Hn := fresh "Hn" in let Hpb := fresh "Hpb" in let Hacc := fresh "Hacc" in let Hcur := fresh "Hcur" in
  let Hinv := fresh "Hinv" in let Hex := fresh "Hex" in
  assert (Hex : exists (n : N) (pb : bytesv) (acc : list event) (cur : option raw),
             n = 0%N /\ pb = BNil /\ acc = [] /\ cur = None) by (do 4 eexists; repeat split);
  destruct Hex as (n & pb & acc & cur & Hn & Hpb & Hacc & Hcur);
  rewrite <- Hn, <- Hpb, <- Hacc, <- Hcur;
  assert (Hinv : inv pb n) by (left; exact Hpb); clear Hacc Hpb Hn Hcur;
  revert n pb acc cur Hinv;
  match goal with |- forall n pb acc cur, _ -> fin _ (match scan_iter _ _ _ ?rs _ with _ => _ end) = _ =>
    let x := fresh "x" in let rest := fresh "rest" in let IH := fresh "IH" in
    let r := fresh "r" in let e := fresh "e" in let Hr := fresh "Hr" in let Hx := fresh "Hx" in
    induction rs as [|x rest IH]; intros n pb acc cur Hinv; subst callf;
    [ (* the scanner is exhausted *)
      cbn [scan_iter]; ev_update; subst post; step;
      destruct Hinv as [->|(r & -> & Hn & Hr)];
      [ finish; reflexivity
      | destruct r as [|[e| | |]]; try discriminate Hr;
        rewrite sf_end_tok by assumption; finish; reflexivity ]
    | cbn [scan_iter]; destruct (is_huge (classify x)) eqn:Hx;
      [ (* the next line does not fit: ErrTooLong *)
        ev_update; subst post; rewrite (sf_huge _ _ _ _ _ _ Hinv Hx); finish; reflexivity
      | (* one iteration *)
        ev_update;
        match goal with |- context [F0 ?ρ1] =>
          let t := eval cbv delta [F0] beta in (F0 ρ1) in change (F0 ρ1) with t end;
        destruct Hinv as [->|(r & -> & Hn & Hr)];
        [ rewrite sf_nil_step; steps; cbn [restore List.length drop Nat.sub];
          apply IH, inv_copy, Hx
        | destruct r as [|[e| | |]]; try discriminate Hr;
          rewrite sf_tok_step by assumption; cbn [classify process]; steps;
          cbn [restore List.length drop Nat.sub];
          first [ apply IH, inv_copy, Hx | finish; reflexivity ] ] ] ]
  end.

Theorem gen_readEvents_matches_model_raw : forall (p : string) (rs : list raw) (nl : bool),
  interp_read_at gen_readEvents p (Some (rs, nl)) = Some (read_lines (classify <$> rs) nl).
Proof.
  intros p rs nl. rewrite interp_read_at_eq. expose gen_readEvents.
  cbn [bind_params bind name_eqb ascii_name_eqb bit_eqb andb]. cbv zeta.
  step. rewrite String.eqb_refl. cbv beta iota.
  match goal with |- context [lexec_block ?f _ _ _ _ _] => remember f as fo eqn:Hfo; clear Hfo end.
  do 3 step.
  destruct rs as [|r0 rs'].
  - do 9 step.
    change (read_lines (classify <$> []) nl) with (scan_from false BNil 0%N [] []).
    remember (@nil raw) as rs eqn:Hrs; clear Hrs.
    loop_proof.
  - destruct nl.
    + do 9 step.
      change (read_lines (classify <$> (r0 :: rs')) true) with (scan_from true BNil 0%N (r0 :: rs') []).
      remember (r0 :: rs') as rs eqn:Hrs; clear Hrs.
      loop_proof.
    + do 9 step.
      change (read_lines (classify <$> (r0 :: rs')) false) with (scan_from false BNil 0%N (r0 :: rs') []).
      remember (r0 :: rs') as rs eqn:Hrs; clear Hrs.
      loop_proof.
Qed.

(** On the model's own lines (the form used by C03 / C12 / C13). *)
Theorem gen_readEvents_matches_model : forall (ls : list line) (nl : bool),
  interp_read gen_readEvents ls nl = Some (read_lines ls nl).
Proof.
  intros ls nl. unfold interp_read. rewrite gen_readEvents_matches_model_raw.
  rewrite <- list_fmap_compose.
  replace (classify ∘ RawOf <$> ls) with ls; [reflexivity|].
  induction ls as [|l ls IH]; [reflexivity|]. cbn. f_equal. exact IH.
Qed.

(** A missing log reads as the empty log. *)
Theorem gen_readEvents_missing : forall p : string,
  interp_read_at gen_readEvents p None = Some (Ok []).
Proof.
  intros p. rewrite interp_read_at_eq. expose gen_readEvents.
  cbn [bind_params bind name_eqb ascii_name_eqb bit_eqb andb]. cbv zeta.
  step. rewrite String.eqb_refl. cbv beta iota. finish. reflexivity.
Qed.

Theorem gen_hasUnterminatedTail_matches_model : forall (p : string) (file : option (list raw * bool)),
  interp_tail gen_hasUnterminatedTail p file
  = Some (match file with None => false | Some (rs, nl) => nonempty rs && negb nl end).
Proof.
  intros p file. unfold interp_tail, run_fn. expose gen_hasUnterminatedTail.
  lir_simpl. rewrite String.eqb_refl.
  destruct file as [[rs nl]|]; lir_simpl; [|reflexivity].
  destruct rs as [|r rs]; lir_simpl; [reflexivity|].
  destruct nl; reflexivity.
Qed.

(** Nothing the writer accepts is unreadable: an accepted line, '\n' included, fits the
    scanner's limit — the same constant on both sides ([line_limit] is what [readEvents] must
    pass to [scanner.Buffer] for the interpreter to run the loop at all). *)
Corollary gen_encode_accepted_is_readable : forall mlen n : N,
  interp_encode gen_encodeEventLine mlen = Some (EncLine n) -> n = (mlen + 1)%N /\ fits_scanner n = true.
Proof.
  intros mlen n. rewrite gen_encode_limit_matches_model.
  destruct (fits_scanner (mlen + 1)) eqn:Hfit; intros [= <-]. split; [reflexivity|exact Hfit].
Qed.

(** formatEventsParseError: conflict markers (tested on the trimmed line) give the conflict
    message, everything else the invalid-JSON message; both start with path:lineNo. *)
Example gen_formatEventsParseError_shape :
  fe_params gen_formatEventsParseError = ["path"; "lineNo"; "line"; "cause"]
  /\ fe_prelude_ok gen_formatEventsParseError = true
  /\ fe_subject gen_formatEventsParseError = "bytes.TrimSpace(line)"
  /\ fe_prefixes gen_formatEventsParseError = ["<<<<<<<"; "======="; ">>>>>>>"]
  /\ String.prefix "%s:%d: git conflict markers" (fst (fe_conflict gen_formatEventsParseError)) = true
  /\ take 2 (snd (fe_conflict gen_formatEventsParseError)) = ["path"; "lineNo"]
  /\ String.prefix "%s:%d: invalid JSON" (fst (fe_default gen_formatEventsParseError)) = true
  /\ take 2 (snd (fe_default gen_formatEventsParseError)) = ["path"; "lineNo"].
Proof. repeat split; vm_compute; reflexivity. Qed.

(** loadGraph = replayEvents ∘ readEvents ∘ getEventsPath, errors of the read propagated. *)
Example gen_loadGraph_shape :
  gen_loadGraph = LoadIR "getEventsPath" "readEvents" "replayEvents" true.
Proof. reflexivity. Qed.

Print Assumptions gen_readEvents_matches_model_raw.
Print Assumptions gen_readEvents_matches_model.
Print Assumptions gen_readEvents_missing.
Print Assumptions gen_getEventsPath_matches_model.
Print Assumptions gen_encode_limit_matches_model.
Print Assumptions gen_encode_accepted_is_readable.
Print Assumptions gen_hasUnterminatedTail_matches_model.
Print Assumptions gen_formatEventsParseError_shape.
Print Assumptions gen_loadGraph_shape.
