(** Bridge: the lock section of [RunClaimOldestReady] (commands_work.go), regenerated into the mini-Go IR
    (gen/CmdGen.v [gen_cmd_sections]), is the claim transaction of the model's [run_txn] — FOR ALL graphs,
    epic filters, agent identities and clock readings: with nothing ready it fails without writing; otherwise it
    appends, in ONE [appendEvents], the claim event and the state event for the FIRST task of [readyTasks]
    (whose order is tied to the model by B_Ready.v), both stamped with the one clock reading taken inside the
    section, and leaves that task in [chosen]. *)
From Ergo Require Import Base Text Events Replay Ready Path Cmd.
From ErgoBridge Require Import ReadyIR CmdIR B_Cmd B_CmdSet.
From ErgoGen Require Import CmdGen.
From Coq Require Import String ZArith List Lia.
Import ListNotations.
Local Open Scope string_scope.
Local Open Scope list_scope.

Ltac sb1 :=
  match goal with
  | |- context C [cexec_block ?call ?ρ ?σ (CBCons ?s ?r)] =>
      let t := constr:(match cexec_stmt call ρ σ s with ONormal ρ1 σ1 => cexec_block call ρ1 σ1 r | o => o end) in
      let G := context C [t] in change G
  end.
Ltac sb0 :=
  match goal with
  | |- context C [cexec_block ?call ?ρ ?σ CBNil] =>
      let G := context C [ONormal ρ σ] in change G
  end.
Ltac sb := first [sb1 | sb0].

Definition claim_caps : list string :=
  Eval vm_compute in match lookup "RunClaimOldestReady" gen_cmd_sections with Some (c, _) => c | None => [] end.
Definition claim_body : cblock :=
  Eval vm_compute in match lookup "RunClaimOldestReady" gen_cmd_sections with Some (_, b) => b | None => CBNil end.
Lemma claim_section_lookup : lookup "RunClaimOldestReady" gen_cmd_sections = Some (claim_caps, claim_body).
Proof. vm_compute. reflexivity. Qed.

(** the variables the closure captures, as RunClaimOldestReady has set them when it reaches the lock *)
Definition claim_env (agent epic dir evp lp rem : string) (opts : cval) : cenv :=
  [("agentID", VStr agent); ("chosen", VNil); ("dir", VStr dir); ("epicID", VStr epic); ("err", VNil);
   ("eventsPath", VStr evp); ("lockPath", VStr lp); ("now", VTime zero_time); ("opts", opts); ("reminder", VStr rem)].
Lemma claim_env_names agent epic dir evp lp rem opts : fst <$> claim_env agent epic dir evp lp rem opts = claim_caps.
Proof. reflexivity. Qed.

Definition sobs (r : option (cval * cenv * cstate)) : option (cval * option cval * list (list event)) :=
  match r with Some (v, ρ, σ) => Some (v, lookup "chosen" ρ, cs_writes σ) | None => None end.

Theorem gen_claim_section_matches_model n g agent epic dir evp lp rem opts now rest ids uu fk sha mt git :
  sobs (crun_section (S n) gen_cmd_prog claim_body (claim_env agent epic dir evp lp rem opts)
          (CState (now :: rest) ids uu (Some g) fk sha mt git [] []))
  = Some (match ready_tasks g epic with
          | [] => (VErr EGen, Some VNil, [])
          | t :: _ => (VNil, Some (VTask t),
                       [[EClaim (t_id t) agent (Some now); EState (t_id t) "doing" (Some now)]])
          end).
Proof.
  unfold crun_section, claim_env.
  let b := eval vm_compute in claim_body in change claim_body with b.
  repeat (sb; cir_step_simpl).
  destruct (ready_tasks g epic) as [|t ts]; cbn [fmap list_fmap]; cir_step_simpl.
  { repeat (sb; cir_step_simpl). reflexivity. }
  repeat (sb; cir_step_simpl).
  reflexivity.
Qed.

Print Assumptions gen_claim_section_matches_model.
