(** HeapIR.v — a second, STATEFUL interpreter for the IR of ReadyIR.v, for Go functions that build
    local maps / string slices and pass maps by reference: [hasCycle] / [isReachable] (graph.go,
    recursive DFS with a [visited map[string]bool]) and [selectPruneTargets] (prune.go).

    Syntax: exactly the [expr] / [stmt] / [fndef] / [prog] of ReadyIR.v (the translator's matcher
    is the one of tools/gen/ready_ir.go); this file gives meaning to the constructors on which the
    pure interpreter of ReadyIR.v is stuck: [EMapGet], [SMakeMap], [SMapSet], [SMapIncr], [SMapHas],
    [SRangeKeys], [SMakeStrs], [SAppendStr], [SSortStrs].

    - Local maps and []string variables are cells of a heap; a variable holds a reference [VRef r].
      Maps have Go's reference semantics (a callee's store is seen by the caller).  A []string is a
      mutable cell too, which is right only as long as it is not aliased: [v := <ref to a slice>]
      and slice-typed parameters are therefore errors.
    - Every [range] over a map draws its iteration order from an ORACLE: the n-th range statement
      executed iterates over [or_keys o n keys] (resp. [or_tasks o n tasks]); all theorems are for
      every oracle that permutes ([fair]).  Storing into the map being ranged over is an error.
    - Calls are resolved by name; the call DEPTH is bounded by the fuel ([srun]); out of fuel = no
      result.  Recursion is allowed.
    - [SUnknown] / [EUnknown], ill-typed operations, unbound variables: no result. *)
From Ergo Require Import Base Replay.
From ErgoBridge Require Import ReadyIR.
From Coq Require Import Ascii String.
Local Open Scope string_scope.
Local Open Scope list_scope.

(** ** Heap *)
Global Instance mapkind_eq_dec : EqDecision mapkind.
Proof. solve_decision. Defined.

Inductive cell :=
| CBools (m : gmap string bool)     (* a map[string]bool *)
| CInts (m : gmap string Z)         (* a map[string]int *)
| CUnits (ks : gset string)         (* a map[string]struct{} *)
| CStrs (l : list string).          (* a []string *)
Global Instance cell_eq_dec : EqDecision cell.
Proof. solve_decision. Defined.

Record state := State { st_heap : list cell; st_tick : nat }.

Record oracle := Oracle {
  or_keys : nat -> list string -> list string;
  or_tasks : nat -> list task -> list task }.
Definition fair (o : oracle) : Prop :=
  (forall n l, or_keys o n l ≡ₚ l) /\ (forall n l, or_tasks o n l ≡ₚ l).
Definition id_oracle : oracle := Oracle (λ _ l, l) (λ _ l, l).
Lemma id_oracle_fair : fair id_oracle.
Proof. split; intros; reflexivity. Qed.

Definition new_map (k : mapkind) : cell :=
  match k with KBool => CBools ∅ | KInt => CInts ∅ | KUnit => CUnits ∅ end.
(** m[s]: the element or the zero value *)
Definition cell_get (c : cell) (s : string) : option value :=
  match c with
  | CBools m => Some (VBool (default false (m !! s)))
  | CInts m => Some (VInt (default 0%Z (m !! s)))
  | CUnits _ => Some VUnit
  | CStrs _ => None
  end.
(** m[s] = v; the value must have the map's element type *)
Definition cell_set (c : cell) (s : string) (v : value) : option cell :=
  match c, v with
  | CBools m, VBool b => Some (CBools (<[s := b]> m))
  | CInts m, VInt z => Some (CInts (<[s := z]> m))
  | CUnits ks, VUnit => Some (CUnits ({[s]} ∪ ks))
  | _, _ => None
  end.
(** _, ok := m[s] *)
Definition cell_has (c : cell) (s : string) : option bool :=
  match c with
  | CBools m => Some (is_some (m !! s))
  | CInts m => Some (is_some (m !! s))
  | CUnits ks => Some (bool_decide (s ∈ ks))
  | CStrs _ => None
  end.
Definition cell_keys (c : cell) : option (list string) :=
  match c with
  | CBools m => Some (fst <$> map_to_list m)
  | CInts m => Some (fst <$> map_to_list m)
  | CUnits ks => Some (elements ks)
  | CStrs _ => None
  end.

Definition get_cell (ρ : env) (σ : state) (v : string) : option (nat * cell) :=
  match lookup v ρ with
  | Some (VRef r) => match st_heap σ !! r with Some c => Some (r, c) | None => None end
  | _ => None
  end.
Definition set_cell (σ : state) (r : nat) (c : cell) : state :=
  State (<[r := c]> (st_heap σ)) (st_tick σ).
Definition alloc (σ : state) (c : cell) : nat * state :=
  (List.length (st_heap σ), State (st_heap σ ++ [c]) (st_tick σ)).
Definition tick (σ : state) : state := State (st_heap σ) (S (st_tick σ)).

(** [v := e] may copy a map reference (Go maps are references) but not a slice. *)
Definition may_alias (σ : state) (v : value) : bool :=
  match v with
  | VRef r => match st_heap σ !! r with Some (CStrs _) | None => false | Some _ => true end
  | _ => true
  end.

(** ** Expressions (left to right, threading the state through calls) *)
Section seval.
  Context (call : string -> list value -> state -> option (value * state)).

  Definition s_time_rel (r : Z -> Z -> bool) (a b : value) : option value :=
    match a, b with VTime x, VTime y => Some (VBool (r x y)) | _, _ => None end.

  Fixpoint seval (ρ : env) (σ : state) (e : expr) : option (value * state) :=
    match e with
    | EStr s => Some (VStr s, σ)
    | EBool b => Some (VBool b, σ)
    | EInt z => Some (VInt z, σ)
    | EUnit => Some (VUnit, σ)
    | EVar v => match lookup v ρ with Some x => Some (x, σ) | None => None end
    | EField v f =>
        match lookup v ρ with
        | Some (VTask (Some t)) => Some (get_field f t, σ)
        | _ => None
        end
    | EEq a b =>
        match seval ρ σ a with
        | Some (x, σ1) =>
            match seval ρ σ1 b with
            | Some (y, σ2) => match eq_values x y with Some r => Some (VBool r, σ2) | None => None end
            | None => None
            end
        | None => None
        end
    | ENe a b =>
        match seval ρ σ a with
        | Some (x, σ1) =>
            match seval ρ σ1 b with
            | Some (y, σ2) => match eq_values x y with Some r => Some (VBool (negb r), σ2) | None => None end
            | None => None
            end
        | None => None
        end
    | ELt a b =>
        match seval ρ σ a with
        | Some (VStr x, σ1) =>
            match seval ρ σ1 b with
            | Some (VStr y, σ2) => Some (VBool (String.ltb x y), σ2)
            | _ => None
            end
        | _ => None
        end
    | ETimeEqual a b =>
        match seval ρ σ a with
        | Some (x, σ1) =>
            match seval ρ σ1 b with
            | Some (y, σ2) => match s_time_rel Z.eqb x y with Some v => Some (v, σ2) | None => None end
            | None => None
            end
        | None => None
        end
    | ETimeBefore a b =>
        match seval ρ σ a with
        | Some (x, σ1) =>
            match seval ρ σ1 b with
            | Some (y, σ2) => match s_time_rel Z.ltb x y with Some v => Some (v, σ2) | None => None end
            | None => None
            end
        | None => None
        end
    | ETimeAfter a b =>
        match seval ρ σ a with
        | Some (x, σ1) =>
            match seval ρ σ1 b with
            | Some (y, σ2) => match s_time_rel (λ x y, Z.ltb y x) x y with Some v => Some (v, σ2) | None => None end
            | None => None
            end
        | None => None
        end
    | EAnd a b =>
        match seval ρ σ a with
        | Some (VBool x, σ1) =>
            if x then match seval ρ σ1 b with Some (VBool y, σ2) => Some (VBool y, σ2) | _ => None end
            else Some (VBool false, σ1)
        | _ => None
        end
    | EOr a b =>
        match seval ρ σ a with
        | Some (VBool x, σ1) =>
            if x then Some (VBool true, σ1)
            else match seval ρ σ1 b with Some (VBool y, σ2) => Some (VBool y, σ2) | _ => None end
        | _ => None
        end
    | ENot a => match seval ρ σ a with Some (VBool x, σ1) => Some (VBool (negb x), σ1) | _ => None end
    | EIsNil v =>
        match lookup v ρ with
        | Some (VTask o) => Some (VBool (negb (is_some o)), σ)
        | Some VGraph => Some (VBool false, σ)          (* the model's graph is never nil *)
        | _ => None
        end
    | EMapGet m k =>
        match seval ρ σ k with
        | Some (VStr s, σ1) =>
            match get_cell ρ σ1 m with
            | Some (_, c) => match cell_get c s with Some v => Some (v, σ1) | None => None end
            | None => None
            end
        | _ => None
        end
    | ECall f args =>
        match seval_args ρ σ args with Some (vs, σ1) => call f vs σ1 | None => None end
    | EUnknown _ => None
    end
  with seval_args (ρ : env) (σ : state) (l : exprs) : option (list value * state) :=
    match l with
    | XNil => Some ([], σ)
    | XCons e r =>
        match seval ρ σ e with
        | Some (v, σ1) => match seval_args ρ σ1 r with
                          | Some (vs, σ2) => Some (v :: vs, σ2)
                          | None => None
                          end
        | None => None
        end
    end.
End seval.

(** ** Statements *)
Inductive soutcome :=
| QNormal (ρ : env) (σ : state) | QReturn (v : value) (σ : state) | QContinue (σ : state) | QErr.

(** One loop: [continue] / falling off the body go on to the next element; [return] stops. *)
Fixpoint sfor_each {A} (f : A -> state -> soutcome) (ρ : env) (σ : state) (l : list A) : soutcome :=
  match l with
  | [] => QNormal ρ σ
  | x :: r => match f x σ with
              | QNormal _ σ' | QContinue σ' => sfor_each f ρ σ' r
              | o => o
              end
  end.

(** A range over a local map: the body must leave the map as it is. *)
Fixpoint sfor_keys (f : string -> state -> soutcome) (r : nat) (c : cell) (ρ : env) (σ : state)
    (l : list string) : soutcome :=
  match l with
  | [] => QNormal ρ σ
  | x :: l' => match f x σ with
               | QNormal _ σ' | QContinue σ' =>
                   if bool_decide (st_heap σ' !! r = Some c) then sfor_keys f r c ρ σ' l' else QErr
               | QReturn v σ' => if bool_decide (st_heap σ' !! r = Some c) then QReturn v σ' else QErr
               | QErr => QErr
               end
  end.

Section sexec.
  Context (call : string -> list value -> state -> option (value * state)) (g : graph) (o : oracle).

  (** Blocks are scoped: variables bound inside an [if] / loop body do not escape (the heap does). *)
  Fixpoint sexec_stmt (ρ : env) (σ : state) (s : stmt) : soutcome :=
    match s with
    | SIf c th el =>
        match seval call ρ σ c with
        | Some (VBool b, σ1) =>
            match (if b then sexec_block ρ σ1 th else sexec_block ρ σ1 el) with
            | QNormal _ σ2 => QNormal ρ σ2
            | q => q
            end
        | _ => QErr
        end
    | SReturn e => match seval call ρ σ e with Some (v, σ1) => QReturn v σ1 | None => QErr end
    | SContinue => QContinue σ
    | SLet v e =>
        match seval call ρ σ e with
        | Some (x, σ1) => if may_alias σ1 x then QNormal ((v, x) :: ρ) σ1 else QErr
        | None => QErr
        end
    | SLookup v ok gv key =>
        if is_graph ρ gv then
          match seval call ρ σ key with
          | Some (VStr k, σ1) =>
              QNormal ((ok, VBool (is_some (go_tasks_lookup g k))) :: (v, VTask (go_tasks_lookup g k)) :: ρ) σ1
          | _ => QErr
          end
        else QErr
    | SRangeDeps v gv key body =>
        if is_graph ρ gv then
          match seval call ρ σ key with
          | Some (VStr k, σ1) =>
              sfor_each (λ d σ', sexec_block ((v, VStr d) :: ρ) σ' body) ρ (tick σ1)
                        (or_keys o (st_tick σ1) (go_deps_keys g k))
          | _ => QErr
          end
        else QErr
    | SRangeTasks v gv body =>
        if is_graph ρ gv then
          sfor_each (λ t σ', sexec_block ((v, VTask (Some t)) :: ρ) σ' body) ρ (tick σ)
                    (or_tasks o (st_tick σ) (go_tasks_values g))
        else QErr
    | SKeep => QReturn (VBool true) σ
    | SMakeMap v k => let '(r, σ1) := alloc σ (new_map k) in QNormal ((v, VRef r) :: ρ) σ1
    | SMapSet m k e =>
        match seval call ρ σ k with
        | Some (VStr s, σ1) =>
            match seval call ρ σ1 e with
            | Some (x, σ2) =>
                match get_cell ρ σ2 m with
                | Some (r, c) =>
                    match cell_set c s x with
                    | Some c' => QNormal ρ (set_cell σ2 r c')
                    | None => QErr
                    end
                | None => QErr
                end
            | None => QErr
            end
        | _ => QErr
        end
    | SMapIncr m k =>
        match seval call ρ σ k with
        | Some (VStr s, σ1) =>
            match get_cell ρ σ1 m with
            | Some (r, CInts mm) =>
                QNormal ρ (set_cell σ1 r (CInts (<[s := (default 0 (mm !! s) + 1)%Z]> mm)))
            | _ => QErr
            end
        | _ => QErr
        end
    | SMapHas ok m k =>
        match seval call ρ σ k with
        | Some (VStr s, σ1) =>
            match get_cell ρ σ1 m with
            | Some (_, c) => match cell_has c s with
                             | Some b => QNormal ((ok, VBool b) :: ρ) σ1
                             | None => QErr
                             end
            | None => QErr
            end
        | _ => QErr
        end
    | SRangeKeys v m body =>
        match get_cell ρ σ m with
        | Some (r, c) =>
            match cell_keys c with
            | Some ks => sfor_keys (λ d σ', sexec_block ((v, VStr d) :: ρ) σ' body) r c ρ (tick σ)
                                   (or_keys o (st_tick σ) ks)
            | None => QErr
            end
        | None => QErr
        end
    | SMakeStrs v => let '(r, σ1) := alloc σ (CStrs []) in QNormal ((v, VRef r) :: ρ) σ1
    | SAppendStr v e =>
        match seval call ρ σ e with
        | Some (VStr s, σ1) =>
            match get_cell ρ σ1 v with
            | Some (r, CStrs l) => QNormal ρ (set_cell σ1 r (CStrs (l ++ [s])))
            | _ => QErr
            end
        | _ => QErr
        end
    | SSortStrs v =>
        match get_cell ρ σ v with
        | Some (r, CStrs l) => QNormal ρ (set_cell σ r (CStrs (sort_strings l)))
        | _ => QErr
        end
    | SUnknown _ => QErr
    end
  with sexec_block (ρ : env) (σ : state) (b : block) : soutcome :=
    match b with
    | BNil => QNormal ρ σ
    | BCons s r => match sexec_stmt ρ σ s with
                   | QNormal ρ' σ' => sexec_block ρ' σ' r
                   | q => q
                   end
    end.

  (** An ordinary function must reach a [return]; a filtering predicate ([fn_filter]) that falls
      off its body drops the element. *)
  Definition sexec_fn (fd : fndef) (vs : list value) (σ : state) : option (value * state) :=
    match bind_params (fn_params fd) vs with
    | Some ρ =>
        match sexec_block ρ σ (fn_body fd) with
        | QReturn v σ' => Some (v, σ')
        | QNormal _ σ' | QContinue σ' => if fn_filter fd then Some (VBool false, σ') else None
        | QErr => None
        end
    | None => None
    end.
End sexec.

(** ** Programs: the fuel bounds the call depth *)
Fixpoint srun (n : nat) (p : prog) (g : graph) (o : oracle) (f : string) (vs : list value) (σ : state)
    : option (value * state) :=
  match n with
  | O => None
  | S n' => match lookup f p with
            | Some fd => sexec_fn (srun n' p g o) g o fd vs σ
            | None => None
            end
  end.

Lemma srun_S n p g o f vs σ :
  srun (S n) p g o f vs σ = match lookup f p with
                            | Some fd => sexec_fn (srun n p g o) g o fd vs σ
                            | None => None
                            end.
Proof. reflexivity. Qed.

Definition init_state : state := State [] 0.

(** Symbolic execution: unfold exactly the interpreter, nothing of the data. *)
Ltac sir_simpl :=
  cbn [blk xs sexec_fn sexec_block sexec_stmt seval seval_args s_time_rel bind_params fits lookup
       name_eqb ascii_name_eqb bit_eqb andb orb negb eq_values get_field is_graph is_some
       fn_params fn_filter fn_body sfor_each sfor_keys get_cell new_map alloc tick set_cell st_heap st_tick fst snd].
(** ... and the state operations. *)
Ltac st_simpl := unfold tick, set_cell, alloc; cbn [st_heap st_tick fst snd]; sir_simpl.

(** ** Loop lemmas: a loop whose body never returns is a fold over its elements.
    The states the loop goes through are described by abstract data [d : D] ([mk d]). *)
Definition is_step (q : soutcome) (σ' : state) : Prop :=
  match q with QNormal _ σ'' | QContinue σ'' => σ'' = σ' | _ => False end.

Lemma sfor_each_fold {A D} (mk : D -> state) (f : A -> state -> soutcome) (step : D -> A -> D)
    (ρ : env) (d : D) (l : list A) :
  (forall x d', is_step (f x (mk d')) (mk (step d' x))) ->
  sfor_each f ρ (mk d) l = QNormal ρ (mk (fold_left step l d)).
Proof.
  intros Hstep. revert d. induction l as [|x l IH]; intros d; [reflexivity|].
  cbn [sfor_each fold_left]. specialize (Hstep x d).
  destruct (f x (mk d)); cbn in Hstep; try contradiction; subst; apply IH.
Qed.

Lemma sfor_keys_fold {D} (mk : D -> state) (f : string -> state -> soutcome) (step : D -> string -> D)
    (r : nat) (c : cell) (ρ : env) (d : D) (l : list string) :
  (forall d', st_heap (mk d') !! r = Some c) ->
  (forall x d', is_step (f x (mk d')) (mk (step d' x))) ->
  sfor_keys f r c ρ (mk d) l = QNormal ρ (mk (fold_left step l d)).
Proof.
  intros Hc Hstep. revert d. induction l as [|x l IH]; intros d; [reflexivity|].
  cbn [sfor_keys fold_left]. specialize (Hstep x d).
  destruct (f x (mk d)); cbn in Hstep; try contradiction; subst;
    rewrite bool_decide_eq_true_2 by apply Hc; apply IH.
Qed.

Lemma fold_left_snoc {A} (l : list A) (acc : list A) :
  fold_left (λ a x, a ++ [x]) l acc = acc ++ l.
Proof.
  revert acc. induction l as [|x l IH]; intros acc; cbn [fold_left]; [by rewrite app_nil_r|].
  rewrite IH, <- app_assoc. reflexivity.
Qed.
