(** ReadIR.v — an IR for the log READER of storage.go ([readEvents] with its closure
    [processLine], [getEventsPath], [encodeEventLine], [hasUnterminatedTail]) and its interpreter
    over an abstract file.

    The translator (tools/gen/read_ir.go) turns the bodies statement by statement into this IR
    (gen/ReadGen.v): no reordering, no simplification; named constants are replaced by their
    VALUES; whatever is not recognised becomes [LEUnknown] / [LSUnknown] with the Go text, on
    which the interpreter is stuck ([None]), so no theorem about a function containing one can be
    proved.

    ** The abstract file.  A file is a list of lines plus the flag "the last byte is '\n'".
    With the flag set every element is a '\n'-terminated line; without it the last element is
    the unterminated final fragment.  A line is abstracted to what the reader can observe of it
    (this is the model's classification, theories/Storage.v):
      - [LBlank]   bytes.TrimSpace leaves nothing,
      - [LGood e]  json.Unmarshal of the trimmed line succeeds and yields the event [e],
      - [LBad]     json.Unmarshal of the trimmed line fails,
      - [LHuge]    the line does not fit the scanner's token limit [line_limit],
    refined by [RawEmpty] = the line has no bytes at all (a special case of blank: Go's
    [append([]byte(nil), tok...)] of an empty token is the NIL slice, so [pending != nil] is false
    for it).

    ** Primitives fixed here (not derived from Go source):
      - bufio.Scanner with ScanLines: [Scan] yields each '\n'-terminated line (without the '\n')
        and a final unterminated fragment if it is non-empty, then returns false with [Err() = nil];
        when the next line does not fit the limit set by [Buffer(buf, max)] (needs cap(buf) <= max),
        [Scan] returns false and [Err()] is bufio.ErrTooLong — the lines before it have been
        yielded, the long line and everything after it are not.  A line of n bytes including its
        '\n' fits iff n <= max.  [Bytes()] aliases the scanner's buffer: the interpreter refuses to
        look into an un-copied token.
      - os.Open of a missing path fails with an error for which errors.Is(_, os.ErrNotExist)
        holds; of an existing one it succeeds.  [file.Stat()] on the open file succeeds;
        [Size() > 0] iff the file has at least one line; [file.ReadAt(buf, Size()-1)] on a
        non-empty file succeeds, stores the last byte and does not move the read offset.
        I/O errors are NOT covered.
      - os.Stat(p) returns no error iff [fexists p]; filepath.Join is the model's [Discovery.join].
      - json.Marshal of an event succeeds with some number [mlen] of bytes (marshal failures are
        NOT covered).
      - [verifPoint(name)] (test hook, a no-op without the build tag) has no effect.
      - The error VALUE is abstracted to its class: [formatEventsParseError(path, n, _, _)] is
        "parse error at path:n" (its own shape is checked separately, [fmt_ir]); a [fmt.Errorf]
        is kept as format string + arguments and classified by [classify_err]. *)
From Ergo Require Import Base Events Storage.
From Ergo Require Discovery.
From ErgoBridge Require Import ReadyIR.
From Coq Require Import Ascii String NArith.
Local Open Scope string_scope.
Local Open Scope list_scope.

(** The token limit relative to which [LHuge] is classified: 10 MiB. *)
Definition line_limit : N := 10485760%N.

Inductive raw := RawEmpty | RawOf (l : line).
Definition classify (r : raw) : line := match r with RawEmpty => LBlank | RawOf l => l end.

(** ** Syntax *)
Inductive lexpr :=
| LENil | LEBool (b : bool) | LEInt (n : N) | LEByte (n : N) | LEStr (s : string)
| LEVar (v : string)
| LENot (a : lexpr) | LEEq (a b : lexpr) | LENe (a b : lexpr)
| LEAnd (a b : lexpr) | LEOr (a b : lexpr)          (* short-circuit *)
| LEGt (a b : lexpr) | LESub (a b : lexpr)
| LELen (a : lexpr)                                 (* len(a) *)
| LEIndex (a i : lexpr)                             (* a[i] *)
| LESize (v : string)                               (* v.Size(), v an os.FileInfo *)
| LEScanBytes (v : string)                          (* v.Bytes(), v a *bufio.Scanner *)
| LEScanErr (v : string)                            (* v.Err() *)
| LECopy (a : lexpr)                                (* append([]byte(nil), a...) *)
| LEAppend (a b : lexpr)                            (* append(a, b) *)
| LETrim (a : lexpr)                                (* bytes.TrimSpace(a) *)
| LEErrIs (a : lexpr) (target : string)             (* errors.Is(a, target) *)
| LEErrorf (fmt : string) (args : lexprs)           (* fmt.Errorf(fmt, args...) *)
| LEParseErr (args : lexprs)                        (* formatEventsParseError(args...) *)
| LEJoin (a b : lexpr)                              (* filepath.Join(a, b) *)
| LEUnknown (go : string)
with lexprs := LXNil | LXCons (e : lexpr) (r : lexprs).

Inductive lstmt :=
| LSSkip
| LSDecl (v : string) (e : lexpr)                   (* v := e *)
| LSDeclZero (v ty : string)                        (* var v ty *)
| LSSet (v : string) (e : lexpr)                    (* v = e *)
| LSInc (v : string)                                (* v++ *)
| LSOpen (f err : string) (p : lexpr)               (* f, err := os.Open(p) *)
| LSStat (info err f : string)                      (* info, err := f.Stat() *)
| LSOsStat (info err : string) (p : lexpr)          (* info, err := os.Stat(p) *)
| LSMakeBytes (v : string) (n : lexpr)              (* v := make([]byte, n) *)
| LSReadAt (n err f buf : string) (off : lexpr)     (* n, err := f.ReadAt(buf, off) *)
| LSNewScanner (v f : string)                       (* v := bufio.NewScanner(f) *)
| LSScanBuffer (v : string) (init max : lexpr)      (* v.Buffer(make([]byte, 0, init), max) *)
| LSDefClosure (v : string)                         (* v := func(..) error {..}: body in [fn_closures] *)
| LSCallDecl (v f : string) (args : lexprs)         (* v := f(args), f a closure *)
| LSUnmarshal (err : string) (src : lexpr) (dst : string)   (* err := json.Unmarshal(src, &dst) *)
| LSMarshal (data err : string) (src : lexpr)       (* data, err := json.Marshal(src) *)
| LSIf (init : lstmt) (c : lexpr) (th el : lblock)  (* if init; c { th } else { el } *)
| LSReuse (v : string) (s : lstmt)                  (* a, v := ... where v already exists in the same scope: v is assigned *)
| LSForScan (v : string) (body : lblock)            (* for v.Scan() { body } *)
| LSDeferClose (v : string)                         (* defer v.Close() *)
| LSHook (name : string)                            (* verifPoint(name) *)
| LSReturn (es : lexprs)
| LSUnknown (go : string)
with lblock := LBNil | LBCons (s : lstmt) (b : lblock).

Fixpoint lblk (l : list lstmt) : lblock :=
  match l with [] => LBNil | s :: r => LBCons s (lblk r) end.
Fixpoint lxs (l : list lexpr) : lexprs :=
  match l with [] => LXNil | e :: r => LXCons e (lxs r) end.

(** A function: parameters, body, and the closures defined in the body (parameters, body). *)
Record fn_ir := FnIR {
  fn_params : list string;
  fn_body : lblock;
  fn_closures : list (string * (list string * lblock)) }.

(** ** Values *)
Inductive earg := AStr (s : string) | AInt (n : N) | AOther.
Inductive errv :=
| ENotExist | ETooLong | EJSON
| EParse (p : string) (k : N)                       (* formatEventsParseError(p, k, ..) *)
| EMsg (fmt : string) (args : list earg).           (* fmt.Errorf *)

Inductive bytesv :=
| BNil                                              (* the nil slice *)
| BAlias (r : raw)                                  (* scanner.Bytes(): aliases the scanner's buffer *)
| BTok (r : raw)                                    (* an owned copy of a (non-empty) line *)
| BTrimmed (r : raw)                                (* bytes.TrimSpace of a line *)
| BBuf                                              (* make([]byte, 1) *)
| BLast (nl : bool)                                 (* one byte: the file's last; [nl] = it is '\n' *)
| BData (n : N).                                    (* n bytes of JSON output *)

Inductive lvalue :=
| LVNil | LVBool (b : bool) | LVInt (n : N)
| LVPos                                             (* some positive length *)
| LVSize (nonempty : bool) (k : N)                  (* Size() - k; Size() > 0 iff [nonempty] *)
| LVByte (n : N) | LVLastByte (nl : bool)
| LVStr (s : string) | LVBytes (b : bytesv) | LVErr (e : option errv)
| LVEvents (l : list event) | LVEvent (e : option event)
| LVFile (rs : list raw) (nl : bool) | LVInfo (nonempty : bool)
| LVScanner (limit : option N) (cur : option raw) (rest : list raw) (err : option errv)
| LVClosure (depth : nat).
Definition lenv := list (string * lvalue).

Inductive outcome := ONormal | OReturn (vs : list lvalue).

Definition copy_tok (r : raw) : bytesv := match r with RawEmpty => BNil | RawOf _ => BTok r end.
Definition nonempty {A} (l : list A) : bool := match l with [] => false | _ => true end.
Definition is_bnil (b : bytesv) : bool := match b with BNil => true | _ => false end.
Definition is_none {A} (o : option A) : bool := match o with None => true | Some _ => false end.

(** [==]; [None] when the comparison is ill-typed or its result is not determined by the
    abstraction. *)
Definition leq_values (a b : lvalue) : option bool :=
  match a, b with
  | LVNil, LVNil => Some true
  | LVNil, LVErr o | LVErr o, LVNil => Some (is_none o)
  | LVNil, LVBytes x | LVBytes x, LVNil => Some (is_bnil x)
  | LVBool x, LVBool y => Some (Bool.eqb x y)
  | LVInt x, LVInt y => Some (N.eqb x y)
  | LVPos, LVInt 0%N | LVInt 0%N, LVPos => Some false
  | LVSize ne 0%N, LVInt 0%N | LVInt 0%N, LVSize ne 0%N => Some (negb ne)
  | LVByte x, LVByte y => Some (N.eqb x y)
  | LVLastByte nl, LVByte 10%N | LVByte 10%N, LVLastByte nl => Some nl
  | _, _ => None
  end.

Definition err_is (e : errv) (target : string) : option bool :=
  if name_eqb target "os.ErrNotExist" then Some (match e with ENotExist => true | _ => false end)
  else if name_eqb target "bufio.ErrTooLong" then Some (match e with ETooLong => true | _ => false end)
  else None.

Definition to_earg (v : lvalue) : earg :=
  match v with LVStr s => AStr s | LVInt n => AInt n | _ => AOther end.

(** Replace the first binding of [v]. *)
Fixpoint update (v : string) (x : lvalue) (ρ : lenv) : option lenv :=
  match ρ with
  | [] => None
  | (y, old) :: r =>
      if name_eqb v y then Some ((y, x) :: r)
      else match update v x r with Some r' => Some ((y, old) :: r') | None => None end
  end.
Fixpoint remove_first (v : string) (ρ : lenv) : lenv :=
  match ρ with
  | [] => []
  | (y, x) :: r => if name_eqb v y then r else (y, x) :: remove_first v r
  end.
Definition bind (v : string) (x : lvalue) (ρ : lenv) : lenv :=
  if name_eqb v "_" then ρ else (v, x) :: ρ.
(** Leave a scope entered when the environment had [n] entries: drop what was declared since. *)
Definition restore (n : nat) (ρ : lenv) : lenv := drop (List.length ρ - n) ρ.

Fixpoint bind_params (ps : list string) (vs : list lvalue) : option lenv :=
  match ps, vs with
  | [], [] => Some []
  | p :: ps', v :: vs' => match bind_params ps' vs' with Some ρ => Some (bind p v ρ) | None => None end
  | _, _ => None
  end.

(** ** Expressions (no side effects) *)
Section leval.
  Context (ρ : lenv).

  Fixpoint leval (e : lexpr) : option lvalue :=
    match e with
    | LENil => Some LVNil
    | LEBool b => Some (LVBool b)
    | LEInt n => Some (LVInt n)
    | LEByte n => Some (LVByte n)
    | LEStr s => Some (LVStr s)
    | LEVar v => lookup v ρ
    | LENot a => match leval a with Some (LVBool x) => Some (LVBool (negb x)) | _ => None end
    | LEEq a b =>
        match leval a, leval b with
        | Some x, Some y => match leq_values x y with Some r => Some (LVBool r) | None => None end
        | _, _ => None
        end
    | LENe a b =>
        match leval a, leval b with
        | Some x, Some y => match leq_values x y with Some r => Some (LVBool (negb r)) | None => None end
        | _, _ => None
        end
    | LEAnd a b =>
        match leval a with
        | Some (LVBool false) => Some (LVBool false)
        | Some (LVBool true) => match leval b with Some (LVBool y) => Some (LVBool y) | _ => None end
        | _ => None
        end
    | LEOr a b =>
        match leval a with
        | Some (LVBool true) => Some (LVBool true)
        | Some (LVBool false) => match leval b with Some (LVBool y) => Some (LVBool y) | _ => None end
        | _ => None
        end
    | LEGt a b =>
        match leval a, leval b with
        | Some (LVInt x), Some (LVInt y) => Some (LVBool (N.ltb y x))
        | Some (LVSize ne 0%N), Some (LVInt 0%N) => Some (LVBool ne)
        | _, _ => None
        end
    | LESub a b =>
        match leval a, leval b with
        | Some (LVInt x), Some (LVInt y) => if N.leb y x then Some (LVInt (x - y)) else None
        | Some (LVSize ne 0%N), Some (LVInt 1%N) => Some (LVSize ne 1)
        | _, _ => None
        end
    | LELen a =>
        match leval a with
        | Some (LVBytes (BTrimmed r)) =>
            match classify r with
            | LBlank => Some (LVInt 0)
            | LGood _ | LBad => Some LVPos
            | LHuge => None
            end
        | Some (LVBytes (BData n)) => Some (LVInt n)
        | _ => None
        end
    | LEIndex a i =>
        match leval a, leval i with
        | Some (LVBytes (BLast nl)), Some (LVInt 0%N) => Some (LVLastByte nl)
        | Some (LVBytes BBuf), Some (LVInt 0%N) => Some (LVByte 0)
        | _, _ => None
        end
    | LESize v => match lookup v ρ with Some (LVInfo ne) => Some (LVSize ne 0) | _ => None end
    | LEScanBytes v =>
        match lookup v ρ with
        | Some (LVScanner _ (Some r) _ None) => Some (LVBytes (BAlias r))
        | _ => None
        end
    | LEScanErr v => match lookup v ρ with Some (LVScanner _ _ _ e) => Some (LVErr e) | _ => None end
    | LECopy a => match leval a with Some (LVBytes (BAlias r)) => Some (LVBytes (copy_tok r)) | _ => None end
    | LEAppend a b =>
        match leval a, leval b with
        | Some (LVEvents l), Some (LVEvent (Some ev)) => Some (LVEvents (l ++ [ev]))
        | Some (LVBytes (BData n)), Some (LVByte _) => Some (LVBytes (BData (n + 1)))
        | _, _ => None
        end
    | LETrim a =>
        match leval a with
        | Some (LVBytes BNil) => Some (LVBytes (BTrimmed RawEmpty))
        | Some (LVBytes (BTok r)) => Some (LVBytes (BTrimmed r))
        | _ => None
        end
    | LEErrIs a target =>
        match leval a with
        | Some (LVErr (Some e)) => match err_is e target with Some b => Some (LVBool b) | None => None end
        | _ => None
        end
    | LEErrorf fmt args =>
        match leval_args args with
        | Some vs => Some (LVErr (Some (EMsg fmt (to_earg <$> vs))))
        | None => None
        end
    | LEParseErr args =>
        match leval_args args with
        | Some [LVStr p; LVInt k; LVBytes (BTrimmed _); LVErr (Some EJSON)] => Some (LVErr (Some (EParse p k)))
        | _ => None
        end
    | LEJoin a b =>
        match leval a, leval b with
        | Some (LVStr x), Some (LVStr y) => Some (LVStr (Discovery.join x y))
        | _, _ => None
        end
    | LEUnknown _ => None
    end
  with leval_args (l : lexprs) : option (list lvalue) :=
    match l with
    | LXNil => Some []
    | LXCons e r =>
        match leval e, leval_args r with
        | Some v, Some vs => Some (v :: vs)
        | _, _ => None
        end
    end.
End leval.

(** ** The scanner loop: one iteration per line that fits; a line that does not fit ends it with
    ErrTooLong.  [f] runs the body; the body's declarations are dropped after each iteration. *)
Fixpoint scan_iter (f : lenv -> option (lenv * outcome)) (v : string) (lim : option N)
    (rest : list raw) (ρ : lenv) : option (lenv * outcome) :=
  match rest with
  | [] =>
      match update v (LVScanner lim None [] None) ρ with
      | Some ρ' => Some (ρ', ONormal)
      | None => None
      end
  | r :: rest' =>
      if is_huge (classify r) then
        match update v (LVScanner lim None rest (Some ETooLong)) ρ with
        | Some ρ' => Some (ρ', ONormal)
        | None => None
        end
      else
        match update v (LVScanner lim (Some r) rest' None) ρ with
        | Some ρ1 =>
            match f ρ1 with
            | Some (ρ2, ONormal) => scan_iter f v lim rest' (restore (List.length ρ) ρ2)
            | Some (ρ2, OReturn vs) => Some (ρ2, OReturn vs)
            | None => None
            end
        | None => None
        end
  end.

(** ** Statements *)
Section lexec.
  (** the world: [fopen p] = the file at p (None: missing); [fexists p] = os.Stat(p) succeeds;
      [mlen] = length of the JSON of the event being encoded; [call] runs a closure on
      (arguments, the environment it captured) and yields (that environment afterwards, result). *)
  Context (fopen : string -> option (list raw * bool)) (fexists : string -> bool) (mlen : N)
          (call : string -> list lvalue -> lenv -> option (lenv * lvalue)).

  Fixpoint lexec_stmt (ρ : lenv) (s : lstmt) : option (lenv * outcome) :=
    match s with
    | LSSkip => Some (ρ, ONormal)
    | LSDecl v e => match leval ρ e with Some x => Some (bind v x ρ, ONormal) | None => None end
    | LSDeclZero v ty =>
        if name_eqb ty "[]Event" then Some (bind v (LVEvents []) ρ, ONormal)
        else if name_eqb ty "[]byte" then Some (bind v (LVBytes BNil) ρ, ONormal)
        else if name_eqb ty "Event" then Some (bind v (LVEvent None) ρ, ONormal)
        else None
    | LSSet v e =>
        match leval ρ e with
        | Some x => match update v x ρ with Some ρ' => Some (ρ', ONormal) | None => None end
        | None => None
        end
    | LSInc v =>
        match lookup v ρ with
        | Some (LVInt n) => match update v (LVInt (N.succ n)) ρ with Some ρ' => Some (ρ', ONormal) | None => None end
        | _ => None
        end
    | LSOpen f err p =>
        match leval ρ p with
        | Some (LVStr q) =>
            match fopen q with
            | Some (rs, nl) => Some (bind err (LVErr None) (bind f (LVFile rs nl) ρ), ONormal)
            | None => Some (bind err (LVErr (Some ENotExist)) (bind f LVNil ρ), ONormal)
            end
        | _ => None
        end
    | LSStat info err f =>
        match lookup f ρ with
        | Some (LVFile rs nl) => Some (bind err (LVErr None) (bind info (LVInfo (nonempty rs)) ρ), ONormal)
        | _ => None
        end
    | LSOsStat info err p =>
        if name_eqb info "_" then
          match leval ρ p with
          | Some (LVStr q) =>
              Some (bind err (LVErr (if fexists q then None else Some ENotExist)) ρ, ONormal)
          | _ => None
          end
        else None
    | LSMakeBytes v n =>
        match leval ρ n with
        | Some (LVInt 1%N) => Some (bind v (LVBytes BBuf) ρ, ONormal)
        | _ => None
        end
    | LSReadAt n err f buf off =>
        if name_eqb n "_" then
          match lookup f ρ, lookup buf ρ, leval ρ off with
          | Some (LVFile rs nl), Some (LVBytes BBuf), Some (LVSize true 1%N) =>
              match update buf (LVBytes (BLast nl)) ρ with
              | Some ρ' => Some (bind err (LVErr None) ρ', ONormal)
              | None => None
              end
          | _, _, _ => None
          end
        else None
    | LSNewScanner v f =>
        match lookup f ρ with
        | Some (LVFile rs nl) => Some (bind v (LVScanner None None rs None) ρ, ONormal)
        | _ => None
        end
    | LSScanBuffer v init max =>
        match lookup v ρ, leval ρ init, leval ρ max with
        | Some (LVScanner _ None rs None), Some (LVInt i), Some (LVInt m) =>
            if N.leb i m then
              match update v (LVScanner (Some m) None rs None) ρ with
              | Some ρ' => Some (ρ', ONormal)
              | None => None
              end
            else None
        | _, _, _ => None
        end
    | LSDefClosure v => Some (bind v (LVClosure (List.length ρ)) ρ, ONormal)
    | LSCallDecl v f args =>
        match lookup f ρ, leval_args ρ args with
        | Some (LVClosure depth), Some vs =>
            let k := List.length ρ - depth in
            match call f vs (drop k ρ) with
            | Some (outer, r) =>
                if Nat.eqb (List.length outer) depth then Some (bind v r (take k ρ ++ outer), ONormal) else None
            | None => None
            end
        | _, _ => None
        end
    | LSUnmarshal err src dst =>
        match leval ρ src, lookup dst ρ with
        | Some (LVBytes (BTrimmed r)), Some (LVEvent _) =>
            match classify r with
            | LGood ev =>
                match update dst (LVEvent (Some ev)) ρ with
                | Some ρ' => Some (bind err (LVErr None) ρ', ONormal)
                | None => None
                end
            | LBad | LBlank => Some (bind err (LVErr (Some EJSON)) ρ, ONormal)
            | LHuge => None
            end
        | _, _ => None
        end
    | LSMarshal data err src =>
        match leval ρ src with
        | Some (LVEvent _) => Some (bind err (LVErr None) (bind data (LVBytes (BData mlen)) ρ), ONormal)
        | _ => None
        end
    | LSIf init c th el =>
        match lexec_stmt ρ init with
        | Some (ρ1, ONormal) =>
            match leval ρ1 c with
            | Some (LVBool b) =>
                match (if b then lexec_block ρ1 th else lexec_block ρ1 el) with
                | Some (ρ2, o) => Some (restore (List.length ρ) ρ2, o)
                | None => None
                end
            | _ => None
            end
        | _ => None
        end
    | LSReuse v s' =>
        match lexec_stmt ρ s' with
        | Some (ρ1, ONormal) =>
            match lookup v ρ1 with
            | Some x => match update v x (remove_first v ρ1) with Some ρ2 => Some (ρ2, ONormal) | None => None end
            | None => None
            end
        | _ => None
        end
    | LSForScan v body =>
        match lookup v ρ with
        | Some (LVScanner (Some m) _ rest None) =>
            if N.eqb m line_limit then scan_iter (λ ρ', lexec_block ρ' body) v (Some m) rest ρ else None
        | _ => None
        end
    | LSDeferClose v => match lookup v ρ with Some (LVFile _ _) => Some (ρ, ONormal) | _ => None end
    | LSHook _ => Some (ρ, ONormal)
    | LSReturn es => match leval_args ρ es with Some vs => Some (ρ, OReturn vs) | None => None end
    | LSUnknown _ => None
    end
  with lexec_block (ρ : lenv) (b : lblock) : option (lenv * outcome) :=
    match b with
    | LBNil => Some (ρ, ONormal)
    | LBCons s r =>
        match lexec_stmt ρ s with
        | Some (ρ1, ONormal) => lexec_block ρ1 r
        | Some (ρ1, OReturn vs) => Some (ρ1, OReturn vs)
        | None => None
        end
    end.
End lexec.

(** Closures are leaves: their bodies call no closure.  A closure runs on its parameters on top
    of the environment it captured (the part of the caller's environment that existed where the
    closure was defined); assignments to captured variables persist. *)
Definition closure_call (fopen : string -> option (list raw * bool)) (fexists : string -> bool) (mlen : N)
    (cls : list (string * (list string * lblock)))
    (f : string) (vs : list lvalue) (outer : lenv) : option (lenv * lvalue) :=
  match lookup f cls with
  | Some (ps, body) =>
      match bind_params ps vs with
      | Some pρ =>
          match lexec_block fopen fexists mlen (λ _ _ _, None) (pρ ++ outer) body with
          | Some (ρ', OReturn [r]) => Some (restore (List.length outer) ρ', r)
          | _ => None
          end
      | None => None
      end
  | None => None
  end.

Definition run_fn (fopen : string -> option (list raw * bool)) (fexists : string -> bool) (mlen : N)
    (ir : fn_ir) (args : list lvalue) : option (list lvalue) :=
  match bind_params (fn_params ir) args with
  | Some ρ =>
      match lexec_block fopen fexists mlen (closure_call fopen fexists mlen (fn_closures ir)) ρ (fn_body ir) with
      | Some (_, OReturn vs) => Some vs
      | _ => None                         (* stuck, or fell off the end *)
      end
  | None => None
  end.

(** ** readEvents *)
Definition msg_too_long : string := "%s: event line too long".

(** The class of a returned error; it must name the path it was asked to read. *)
Definition classify_err (p : string) (e : errv) : option rerr :=
  match e with
  | EParse q k => if String.eqb q p then Some (RBadJSON (N.to_nat k)) else None
  | EMsg fmt (AStr q :: AInt m :: _) =>
      if String.prefix msg_too_long fmt && String.eqb q p && N.eqb m line_limit then Some RTooLong else None
  | _ => None
  end.

Definition read_result (p : string) (vs : list lvalue) : option (res (list event)) :=
  match vs with
  | [LVNil; LVNil] | [LVNil; LVErr None] => Some (Ok [])
  | [LVEvents l; LVNil] | [LVEvents l; LVErr None] => Some (Ok l)
  | [LVNil; LVErr (Some e)] => match classify_err p e with Some c => Some (Err c) | None => None end
  | _ => None
  end.

(** [readEvents(p)] in a world where the file at [p] is [file] ([None]: there is none). *)
Definition interp_read_at (ir : fn_ir) (p : string) (file : option (list raw * bool)) : option (res (list event)) :=
  match run_fn (λ q, if String.eqb q p then file else None) (λ _, false) 0%N ir [LVStr p] with
  | Some vs => read_result p vs
  | None => None
  end.

(** On the model's lines (no line is known to be empty rather than blank). *)
Definition interp_read (ir : fn_ir) (ls : list line) (nl : bool) : option (res (list event)) :=
  interp_read_at ir "plans.jsonl" (Some (RawOf <$> ls, nl)).

(** ** getEventsPath *)
Definition interp_path (ir : fn_ir) (fexists : string -> bool) (d : string) : option string :=
  match run_fn (λ _, None) fexists 0%N ir [LVStr d] with
  | Some [LVStr s] => Some s
  | _ => None
  end.

(** ** encodeEventLine: [mlen] bytes of JSON.  The line written is the JSON plus '\n'. *)
Inductive enc_result := EncLine (n : N) | EncTooLarge.
Definition msg_too_large : string := "event too large".
Definition interp_encode (ir : fn_ir) (mlen : N) : option enc_result :=
  match run_fn (λ _, None) (λ _, false) mlen ir [LVEvent None] with
  | Some [LVBytes (BData n); LVNil] => Some (EncLine n)
  | Some [LVNil; LVErr (Some (EMsg fmt _))] => if String.prefix msg_too_large fmt then Some EncTooLarge else None
  | _ => None
  end.
(** The scanner primitive: a line of [n] bytes including its '\n' is yielded iff it fits. *)
Definition fits_scanner (n : N) : bool := N.leb n line_limit.

(** ** hasUnterminatedTail *)
Definition interp_tail (ir : fn_ir) (p : string) (file : option (list raw * bool)) : option bool :=
  match run_fn (λ q, if String.eqb q p then file else None) (λ _, false) 0%N ir [LVStr p] with
  | Some [LVBool b; LVNil] => Some b
  | _ => None
  end.

(** ** formatEventsParseError, as a shape: after a prelude without return statements,
    [if HasPrefix(subject, p1) || ... { return fmt.Errorf(conflict) }; return fmt.Errorf(default)]. *)
Record fmt_ir := FmtIR {
  fe_params : list string;
  fe_prelude_ok : bool;                    (* the other statements contain no return / panic / exit *)
  fe_subject : string;                     (* what the prefixes are tested on, as Go text over the parameters *)
  fe_prefixes : list string;
  fe_conflict : string * list string;      (* format string, arguments as Go text *)
  fe_default : string * list string }.

(** ** loadGraph, as a shape: p := pathFn(dir); evs, err := readFn(p); if err != nil { return nil, err };
    return replayFn(evs). *)
Record load_ir := LoadIR { lg_path_fn : string; lg_read_fn : string; lg_replay_fn : string; lg_ok : bool }.

Ltac lir_simpl :=
  cbn [lblk lxs lexec_block lexec_stmt leval leval_args lookup update remove_first bind restore bind_params
       name_eqb ascii_name_eqb bit_eqb andb orb negb leq_values err_is to_earg copy_tok nonempty
       is_bnil is_none classify is_huge List.length drop take app Nat.sub Nat.eqb fmap list_fmap
       closure_call run_fn fn_params fn_body fn_closures].
