(** OutLib.v — the STDOUT discipline (property C16) over the GENERATED output skeleton (gen/OutGen.v).

    tools/gen (out_ir.go, out_walk.go, out_scan.go) enumerates, for every exported Run* entry point of
    internal/ergo and for every function / command closure of cmd/ergo, the control-flow paths as lists of
    the tokens below, callees that can write inlined.  The token type and the checkers are fixed here, by
    hand; the generated file contains data only.

    Tokens
    - [OGuard b]         a branch taken on opts.JSON (b = true) / !opts.JSON (b = false), directly or through a
                         local alias or a callee's argument bound to it; recorded once per path, later tests
                         of the flag on the same path are resolved consistently (the flag is never assigned)
    - [OJson]            one JSON value written to stdout (json.Encoder.Encode on an encoder over os.Stdout,
                         i.e. writeJSON(os.Stdout, v))
    - [OErrJson]         the same, where v is of a struct type carrying a field tagged json:"error"
                         (ValidationError): a JSON error object
    - [OText src]        any other write to stdout (fmt.Print*, fmt.Fprint*(os.Stdout, ..), Write* methods, ...)
    - [OStderr]          a write to stderr
    - [OWriteFail]       the error branch of a JSON write to stdout whose result the source inspects: the write
                         to stdout itself failed (closed pipe); stands IN PLACE of the OJson / OErrJson
    - [ORetOk]/[ORetErr] return nil / return a non-nil error (os.Exit 0 / os.Exit n, panic)
    - [OLoopB]/[OLoopE]  a loop (or a recursion, or a closure handed to foreign code) whose body writes
    - [OUnknownWriter s] a write whose destination the translator cannot resolve, a call through an unresolved
                         function value, a deferred / concurrent writer, os.Stdout escaping: every check fails
    - [ORun f]           (cmd/ergo only) a call of internal/ergo's Run* entry point f

    The generator keeps one OText per run of text writes on paths already committed to text mode and
    collapses consecutive OStderr; no check below distinguishes such paths. *)
From Coq Require Import String List Bool Arith.
Import ListNotations.
Local Open Scope string_scope.
Local Open Scope list_scope.

Inductive otok :=
| OGuard (json : bool)
| OJson
| OText (src : string)
| OErrJson
| OStderr
| ORetOk
| ORetErr
| OLoopB
| OLoopE
| OUnknownWriter (src : string)
| OWriteFail
| ORun (name : string).

Record ost := Ost {
  depth : nat;              (* loops open *)
  njson : nat;              (* OJson seen *)
  nerr : nat;               (* OErrJson seen *)
  texts : list string;      (* OText seen *)
  unknowns : list string;   (* OUnknownWriter seen *)
  after_json : bool;        (* a stdout write after an OJson *)
  in_loop : bool;           (* a stdout write inside a loop *)
  wfail : bool;             (* OWriteFail seen *)
  ended : option bool;      (* Some true: ORetOk, Some false: ORetErr *)
  trailing : bool;          (* a token after the return *)
  guard_json : bool;        (* OGuard true seen *)
  guard_text : bool;        (* OGuard false seen *)
  runs : list string }.

Definition ost0 := Ost 0 0 0 [] [] false false false None false false false [].

(* a write to stdout happened at the current position *)
Definition wrote (s : ost) : ost :=
  Ost (depth s) (njson s) (nerr s) (texts s) (unknowns s)
      (after_json s || Nat.ltb 0 (njson s)) (in_loop s || Nat.ltb 0 (depth s))
      (wfail s) (ended s) (trailing s) (guard_json s) (guard_text s) (runs s).

Definition ostep (s0 : ost) (t : otok) : ost :=
  let s := match ended s0 with
           | Some _ => Ost (depth s0) (njson s0) (nerr s0) (texts s0) (unknowns s0) (after_json s0) (in_loop s0)
                           (wfail s0) (ended s0) true (guard_json s0) (guard_text s0) (runs s0)
           | None => s0 end in
  match t with
  | OGuard true => Ost (depth s) (njson s) (nerr s) (texts s) (unknowns s) (after_json s) (in_loop s) (wfail s) (ended s) (trailing s) true (guard_text s) (runs s)
  | OGuard false => Ost (depth s) (njson s) (nerr s) (texts s) (unknowns s) (after_json s) (in_loop s) (wfail s) (ended s) (trailing s) (guard_json s) true (runs s)
  | OJson => let s := wrote s in
      Ost (depth s) (S (njson s)) (nerr s) (texts s) (unknowns s) (after_json s) (in_loop s) (wfail s) (ended s) (trailing s) (guard_json s) (guard_text s) (runs s)
  | OErrJson => let s := wrote s in
      Ost (depth s) (njson s) (S (nerr s)) (texts s) (unknowns s) (after_json s) (in_loop s) (wfail s) (ended s) (trailing s) (guard_json s) (guard_text s) (runs s)
  | OText src => let s := wrote s in
      Ost (depth s) (njson s) (nerr s) (texts s ++ [src]) (unknowns s) (after_json s) (in_loop s) (wfail s) (ended s) (trailing s) (guard_json s) (guard_text s) (runs s)
  | OUnknownWriter src => let s := wrote s in
      Ost (depth s) (njson s) (nerr s) (texts s) (unknowns s ++ [src]) (after_json s) (in_loop s) (wfail s) (ended s) (trailing s) (guard_json s) (guard_text s) (runs s)
  | OStderr => s
  | OWriteFail => Ost (depth s) (njson s) (nerr s) (texts s) (unknowns s) (after_json s) (in_loop s) true (ended s) (trailing s) (guard_json s) (guard_text s) (runs s)
  | ORetOk => Ost (depth s) (njson s) (nerr s) (texts s) (unknowns s) (after_json s) (in_loop s) (wfail s) (Some true) (trailing s) (guard_json s) (guard_text s) (runs s)
  | ORetErr => Ost (depth s) (njson s) (nerr s) (texts s) (unknowns s) (after_json s) (in_loop s) (wfail s) (Some false) (trailing s) (guard_json s) (guard_text s) (runs s)
  | OLoopB => Ost (S (depth s)) (njson s) (nerr s) (texts s) (unknowns s) (after_json s) (in_loop s) (wfail s) (ended s) (trailing s) (guard_json s) (guard_text s) (runs s)
  | OLoopE => Ost (pred (depth s)) (njson s) (nerr s) (texts s) (unknowns s) (after_json s) (in_loop s) (wfail s) (ended s) (trailing s) (guard_json s) (guard_text s) (runs s)
  | ORun f => Ost (depth s) (njson s) (nerr s) (texts s) (unknowns s) (after_json s) (in_loop s) (wfail s) (ended s) (trailing s) (guard_json s) (guard_text s) (runs s ++ [f])
  end.

Definition oscan (p : list otok) : ost := fold_left ostep p ost0.

Definition scat (a b : string) : string := String.append a b.

Definition when (b : bool) (m : string) : list string := if b then [m] else [].

(** complaints that hold in either mode *)
Definition shape_complaints (s : ost) : list string :=
  map (fun u => scat "unresolved writer: " u) (unknowns s)
  ++ when (match ended s with None => true | Some _ => false end) "path does not end in a return"
  ++ when (trailing s) "tokens after the return".

(** JSON mode.  On every path consistent with --json (no [OGuard false]):
    - ending in [ORetOk]: exactly one [OJson]; no [OText], no [OErrJson]; no stdout write inside a loop; no stdout
      write after the [OJson] (only stderr and the return may follow); no inspected-and-failed stdout write;
    - ending in [ORetErr]: no [OJson], no [OText], at most one [OErrJson], none of it in a loop — unless the path
      is the failure branch of the stdout write itself ([OWriteFail]): then stdout is broken and nothing is claimed. *)
Definition json_path_ok (p : list otok) : list string :=
  let s := oscan p in
  if guard_text s then [] else
  shape_complaints s ++
  match ended s with
  | None => []
  | Some true =>
      when (Nat.eqb (njson s) 0) "successful path writes no JSON value"
      ++ when (Nat.ltb 1 (njson s)) "successful path writes more than one JSON value"
      ++ map (fun t => scat "text on stdout in JSON mode: " t) (texts s)
      ++ when (Nat.ltb 0 (nerr s)) "JSON error object on a successful path"
      ++ when (in_loop s) "stdout write inside a loop in JSON mode"
      ++ when (after_json s) "stdout write after the JSON value"
      ++ when (wfail s) "failed stdout write followed by success"
  | Some false =>
      if wfail s then [] else
      when (Nat.ltb 0 (njson s)) "JSON value written on a failing path"
      ++ map (fun t => scat "text on stdout on a failing JSON-mode path: " t) (texts s)
      ++ when (Nat.ltb 1 (nerr s)) "more than one JSON error object on a failing path"
      ++ when (in_loop s) "stdout write inside a loop on a failing JSON-mode path"
  end.

(** Text mode.  On every path consistent with text mode (no [OGuard true]): no JSON at all on stdout. *)
Definition text_path_ok (p : list otok) : list string :=
  let s := oscan p in
  if guard_json s then [] else
  shape_complaints s
  ++ when (Nat.ltb 0 (njson s)) "JSON value written in text mode"
  ++ when (Nat.ltb 0 (nerr s)) "JSON error object written in text mode".

(** Nothing at all on stdout (library helpers, the cmd layer). *)
Definition silent_path_ok (p : list otok) : list string :=
  let s := oscan p in
  shape_complaints s
  ++ when (Nat.ltb 0 (njson s + nerr s)) "JSON written to stdout"
  ++ map (fun t => scat "text on stdout: " t) (texts s).

Definition oentry := (string * list (list otok))%type.

Definition on_entry (chk : list otok -> list string) (e : oentry) : list string :=
  map (fun m => scat (fst e) (scat ": " m)) (concat (map chk (snd e)))
  ++ when (match snd e with [] => true | _ => false end) (scat (fst e) ": no path at all").

Definition json_entry_ok : oentry -> list string := on_entry json_path_ok.
Definition text_entry_ok : oentry -> list string := on_entry text_path_ok.
Definition silent_entry_ok : oentry -> list string := on_entry silent_path_ok.

Definition is_nil {A} (l : list A) : bool := match l with [] => true | _ => false end.
Definition mem (n : string) (l : list string) : bool := existsb (String.eqb n) l.

Definition without (names : list string) (es : list oentry) : list oentry :=
  filter (fun e => negb (mem (fst e) names)) es.
Definition only (names : list string) (es : list oentry) : list oentry :=
  filter (fun e => mem (fst e) names) es.

(** a path on which --json succeeds with its one value / text mode succeeds without JSON *)
Definition json_success (p : list otok) : bool :=
  let s := oscan p in
  negb (guard_text s) && match ended s with Some true => true | _ => false end && Nat.eqb (njson s) 1 && is_nil (json_path_ok p).
Definition text_success (p : list otok) : bool :=
  let s := oscan p in
  negb (guard_json s) && match ended s with Some true => true | _ => false end && is_nil (text_path_ok p).

Definition has_json_success (e : oentry) : bool := existsb json_success (snd e).
Definition has_text_success (e : oentry) : bool := existsb text_success (snd e).

(** cmd layer *)
Definition runs_of (e : oentry) : list string := concat (map (fun p => runs (oscan p)) (snd e)).
Definition all_runs (es : list oentry) : list string := nodup string_dec (concat (map runs_of es)).
Definition writes_stdout (e : oentry) : bool := negb (is_nil (silent_entry_ok e)).
(** every path runs at most one entry point *)
Definition one_run_per_path (e : oentry) : bool := forallb (fun p => Nat.leb (length (runs (oscan p))) 1) (snd e).
(** every failing path has written to stderr *)
Definition stderr_on_failure (e : oentry) : bool :=
  forallb (fun p => match ended (oscan p) with
                    | Some false => existsb (fun t => match t with OStderr => true | _ => false end) p
                    | _ => true end) (snd e).
Definition incl_names (a b : list string) : bool := forallb (fun n => mem n b) a.
