(** Bridge C06: the state machine tables GENERATED from model.go are the tables of the model. *)
From Coq Require Import String List Bool.
From ErgoGen Require Import StateMachine.
From Ergo Require Import Base Cmd.
Import ListNotations.
Local Open Scope string_scope.

Definition gen_allowed (from to : string) : bool :=
  match find (fun p => String.eqb (fst p) from) gen_transitions with
  | Some p => existsb (String.eqb to) (snd p)
  | None => false
  end.
Definition gen_claim_ok (st cl : string) : bool :=
  match find (fun p => existsb (String.eqb st) (fst p)) gen_claim_rule with
  | Some (_, ClaimRequired) => negb (String.eqb cl "")
  | Some (_, ClaimForbidden) => String.eqb cl ""
  | _ => true
  end.

Example gen_states_are_the_six :
  length gen_valid_states = 6 /\ forallb valid_state gen_valid_states = true
  /\ forallb (fun s => existsb (String.eqb s) gen_valid_states) ["todo"; "doing"; "done"; "blocked"; "canceled"; "error"] = true.
Proof. vm_compute. repeat split. Qed.

Example gen_transition_table_is_model_table :
  forallb (fun from => forallb (fun to =>
      Bool.eqb (validate_transition from to) (String.eqb from to || gen_allowed from to)) gen_valid_states) gen_valid_states = true
  /\ forallb (fun p => valid_state (fst p) && forallb valid_state (snd p)) gen_transitions = true.
Proof. vm_compute. split; reflexivity. Qed.

Example gen_claim_rule_is_model_rule :
  forallb (fun s => forallb (fun c => Bool.eqb (validate_claim_invariant s c) (gen_claim_ok s c)) [""; "someone"]) gen_valid_states = true.
Proof. vm_compute. reflexivity. Qed.
